(** Correspondence + spec search for the document lab (C15, C16, C17, C18-enrichment):
    one case = the real RunTraceroute with scripted per-query outcomes, resolver and
    public-IP fetcher under a virtual clock; observed through the JSON it returns. *)
From Coq Require Import List ZArith Bool QArith Qabs.
From TR Require Import Lib.Sx Res.Doc Spec.DocSpecs Spec.C16Contract Generated.JsonTags.
Import ListNotations.
Open Scope Z_scope.

Fixpoint dlist {T} (f : sx -> option T) (l : list sx) : option (list T) :=
  match l with
  | [] => Some []
  | x :: r => match f x, dlist f r with Some a, Some b => Some (a :: b) | _, _ => None end
  end.

Definition d_hop (s : sx) : option hopd :=
  match s with
  | L [A t; ip; A k; A d] => match sx_bytes ip with Some ip => Some (mkHopd t ip k false [] (negb (d =? 0))) | None => None end
  | _ => None
  end.

Definition d_query (s : sx) : option qout :=
  match s with
  | L [A done; A ok; sip; A sp; dip; A dp; L hops; A eid] =>
      match sx_bytes sip, sx_bytes dip, dlist d_hop hops with
      | Some sip, Some dip, Some hops =>
          Some (mkQ done (if ok =? 0 then None else Some (mkRund sip sp dip dp [] hops)) eid)
      | _, _, _ => None
      end
  | _ => None
  end.

Definition d_res (s : sx) : option (ipaddr * option (list str)) :=
  match s with
  | L [ip; A ok; L names] =>
      match sx_bytes ip, dlist sx_bytes names with
      | Some ip, Some names => Some (ip, if ok =? 0 then None else Some names)
      | _, _ => None
      end
  | _ => None
  end.

Definition d_q (s : sx) : option Q :=
  match s with L [A n; A d] => if 0 <? d then Some (n # Z.to_pos d) else None | _ => None end.

Definition d_ihop (s : sx) : option ihop :=
  match s with
  | L [A t; ip; q; A reach; L rdns; A has] =>
      match sx_bytes ip, d_q q, dlist sx_bytes rdns with
      | Some ip, Some q, Some rdns => Some (mkIHop t ip q (negb (reach =? 0)) rdns (negb (has =? 0)))
      | _, _, _ => None
      end
  | _ => None
  end.

Definition d_irun (s : sx) : option irun :=
  match s with
  | L [sip; A sp; dip; A dp; L drdns; L hops] =>
      match sx_bytes sip, sx_bytes dip, dlist sx_bytes drdns, dlist d_ihop hops with
      | Some sip, Some dip, Some drdns, Some hops => Some (mkIRun sip sp dip dp drdns hops)
      | _, _, _, _ => None
      end
  | _ => None
  end.

Definition d_idoc (s : sx) : option idoc :=
  match s with
  | L [proto; host; A port; pub; L ids; L runs; L [havg; A hmin; A hmax]; L [L rtts; A sent; A recv; loss; jit; avg; mn; mx]] =>
      match sx_bytes proto, sx_bytes host, sx_bytes pub, dlist sx_bytes ids, dlist d_irun runs with
      | Some proto, Some host, Some pub, Some ids, Some runs =>
          match d_q havg, dlist d_q rtts, d_q loss, d_q jit, d_q avg, d_q mn, d_q mx with
          | Some havg, Some rtts, Some loss, Some jit, Some avg, Some mn, Some mx =>
              Some (mkIDoc proto host port pub ids runs havg hmin hmax rtts sent recv loss jit avg mn mx)
          | _, _, _, _, _, _, _ => None
          end
      | _, _, _, _, _ => None
      end
  | _ => None
  end.

(** ---- model document vs observed document *)
Definition mq (unit_ : Z) (k : Z) : Q := k # Z.to_pos unit_.

(** per-property projections of "model document = observed document" *)
Definition hop_core (unit_ : Z) (m : hopd) (o : ihop) : bool :=
  (hd_ttl m =? ih_ttl o) && ip_eqb (canon (hd_ip m)) (ih_ip o) && Qeqb (mq unit_ (hd_rtt m)) (ih_rtt o).
Definition hop_agree (unit_ : Z) (m : hopd) (o : ihop) : bool :=
  hop_core unit_ m o && Bool.eqb (hd_reach m) (ih_reach o) && strs_eqb (hd_rdns m) (ih_rdns o).

Fixpoint all2 {X Y} (f : X -> Y -> bool) (a : list X) (b : list Y) : bool :=
  match a, b with
  | [], [] => true
  | x :: a', y :: b' => f x y && all2 f a' b'
  | _, _ => false
  end.

Definition run_ident (m : rund) (o : irun) : bool :=
  ip_eqb (canon (rd_src_ip m)) (ir_src_ip o) && (rd_src_port m =? ir_src_port o)
  && ip_eqb (canon (rd_dst_ip m)) (ir_dst_ip o) && (rd_dst_port m =? ir_dst_port o)
  && Nat.eqb (length (rd_hops m)) (length (ir_hops o)).

Definition stats_agree (unit_ : Z) (m : docd) (o : idoc) : bool :=
  (let hs := d_hopstats m in
      (hs_min hs =? i_hop_min o) && (hs_max hs =? i_hop_max o)
      && (if hs_n hs =? 0 then Qeqb (i_hop_avg o) 0 else approx tol64 (hs_total hs # Z.to_pos (hs_n hs)) (i_hop_avg o)))
  && (let e := d_e2e m in
      (e_sent e =? i_sent o) && (e_recv e =? i_recv o)
      && (if e_sent e =? 0 then Qeqb (i_loss o) 0 else approx tol32 ((e_sent e - e_recv e) # Z.to_pos (e_sent e)) (i_loss o))
      && (if e_recv e =? 0 then Qeqb (i_avg o) 0 && Qeqb (i_min o) 0 && Qeqb (i_max o) 0 && Qeqb (i_jitter o) 0
          else approx tol64 (e_sum e # Z.to_pos (e_recv e * unit_)) (i_avg o)
               && Qeqb (mq unit_ (e_min e)) (i_min o) && Qeqb (mq unit_ (e_max e)) (i_max o)
               && approx tol64 (e_jit_num e # Z.to_pos (e_jit_den e * unit_)) (i_jitter o))).

Definition doc_agree (prop : Z) (unit_ : Z) (m : docd) (o : idoc) : bool :=
  (* always: which runs, in which order, how many samples *)
  all2 run_ident (d_runs m) (i_runs o)
  && all2 (fun k q => Qeqb (mq unit_ k) q) (d_rtts m) (i_rtts o)
  && (if prop =? 15 then str_eqb (d_pubip m) (i_pubip o)
      else if prop =? 16 then
        stats_agree unit_ m o
        && all2 (fun (r : rund) (ob : irun) => all2 (fun h oh => Bool.eqb (hd_reach h) (ih_reach oh)) (rd_hops r) (ir_hops ob)) (d_runs m) (i_runs o)
      else if prop =? 17 then
        all2 (fun (r : rund) (ob : irun) => all2 (hop_agree unit_) (rd_hops r) (ir_hops ob)) (d_runs m) (i_runs o)
      else if prop =? 18 then
        all2 (fun (r : rund) (ob : irun) => strs_eqb (rd_dst_rdns r) (ir_dst_rdns ob)
                 && all2 (fun h oh => strs_eqb (hd_rdns h) (ih_rdns oh)) (rd_hops r) (ir_hops ob)) (d_runs m) (i_runs o)
      else true).

(** the key sets the JSON actually carried, per object kind, against the contract *)
Definition tag_of (st : str) : list str :=
  flat_map (fun e => match e with (s, _, _, t) => if str_eqb s st then [t] else [] end) json_contract.

(** tag text up to the first comma; "-" means not serialised *)
Fixpoint tag_name (t : str) : str := match t with [] => [] | c :: r => if c =? 44 then [] else c :: tag_name r end.
Fixpoint has_omitempty (t : str) : bool := match t with [] => false | c :: r => if c =? 44 then true else has_omitempty r end.

(** keys observed for one object kind: every key is a contract tag, every non-omitempty tag is present *)
Definition keys_ok (st : str) (optional_obj : bool) (keys : list str) : bool :=
  let tags := filter (fun t => negb (str_eqb (tag_name t) [45])) (tag_of st) in
  forallb (fun k => existsb (fun t => str_eqb (tag_name t) k) tags) keys
  && (optional_obj && (match keys with [] => true | _ => false end)
      || forallb (fun t => has_omitempty t || existsb (str_eqb (tag_name t)) keys) tags).

Definition struct_names : list (str * bool) :=
  (* in the order the harness reports key sets; bool: the object kind may be absent (no runs / no hops) *)
  [([82;101;115;117;108;116;115], false);                         (* Results *)
   ([83;111;117;114;99;101], false);                              (* Source *)
   ([68;101;115;116;105;110;97;116;105;111;110], false);          (* Destination *)
   ([84;114;97;99;101;114;111;117;116;101], false);               (* Traceroute *)
   ([72;111;112;67;111;117;110;116;83;116;97;116;115], false);    (* HopCountStats *)
   ([69;50;101;80;114;111;98;101], false);                        (* E2eProbe *)
   ([69;50;101;80;114;111;98;101;82;84;84], false);               (* E2eProbeRTT *)
   ([84;114;97;99;101;114;111;117;116;101;82;117;110], true);     (* TracerouteRun *)
   ([84;114;97;99;101;114;111;117;116;101;72;111;112], true)].    (* TracerouteHop *)

Definition all_keys_ok (keys : list (list str)) : bool :=
  (Nat.eqb (length keys) (length struct_names))
  && all2 (fun (sn : str * bool) ks => keys_ok (fst sn) (snd sn) ks) struct_names keys.

(** C15 on the implementation's observables *)
Definition run_key (r : rund) : list Z := rd_src_port r :: canon (rd_src_ip r) ++ [256] ++ canon (rd_dst_ip r) ++ [256; Z.of_nat (length (rd_hops r))].
Definition irun_key (r : irun) : list Z := ir_src_port r :: ir_src_ip r ++ [256] ++ ir_dst_ip r ++ [256; Z.of_nat (length (ir_hops r))].
Definition count_key (k : list Z) (l : list (list Z)) : nat := length (filter (ip_eqb k) l).

Definition c15_spec (runs e2es : list qout) (status : Z) (found : list Z) (resnil : bool) (o : option idoc) : bool :=
  let all := runs ++ e2es in
  let failed := flat_map (fun q => match q_res q with None => [q_err q] | Some _ => [] end) all in
  match failed with
  | [] =>
      (status =? 0)
      && match o with
         | Some d =>
             (Z.of_nat (length (i_runs d)) =? Z.of_nat (length runs))
             && (Z.of_nat (length (i_rtts d)) =? Z.of_nat (length e2es))
             && (let ik := map irun_key (i_runs d) in
                 let mk := flat_map (fun q => match q_res q with Some r => [run_key r] | None => [] end) runs in
                 forallb (fun k => Nat.eqb (count_key k ik) (count_key k mk)) mk)
         | None => false
         end
  | _ => (status =? 1) && resnil && forallb (fun e => existsb (Z.eqb e) found) failed
  end.

Definition d_keys (l : list sx) : option (list (list str)) :=
  dlist (fun s => match s with L ks => dlist sx_bytes ks | _ => None end) l.

Fixpoint zlist_same (a b : list Z) : bool :=
  match a, b with [], [] => true | x :: a', y :: b' => (x =? y)%Z && zlist_same a' b' | _, _ => false end.

Definition check_doc (prop : Z) (inp impl : sx) : sx :=
  match inp, impl with
  (* documents finished concurrently: g goroutines x docs documents x (1 + runs) identifiers, all of them distinct and 22
     characters long (a 16-byte UUID in unpadded base64) *)
  | L [A 31; A g; A docs; A runs], L [A total; A distinct; A malformed] =>
      if (prop =? 16) && (negb (distinct =? total) || negb (malformed =? 0)) then verdict V_SPECFAIL 3 [16; 8] (L [A (total - distinct)])
      else if total =? g * docs * (1 + runs) then verdict V_OK 3 [] (L []) else verdict V_DIVERGE 3 [] (L [A (g * docs * (1 + runs))])
  | L [A 2; L [A frd; A fsk; A fpb]; L runs; L e2es; L rv; L [A pubok; pubtext]; A unit_],
    L [A status; L found; A resnil; doc; L keys; A rt] =>
      match dlist d_query runs, dlist d_query e2es, dlist d_res rv, sx_bytes pubtext, sx_zs found with
      | Some runs, Some e2es, Some rv, Some pubtext, Some found =>
          let fl := mkFlags (negb (frd =? 0)) (negb (fsk =? 0)) (negb (fpb =? 0)) in
          let m := multi_acc runs e2es in
          let model := pipeline fl rv (if pubok =? 0 then None else Some pubtext) m in
          let o := if status =? 0 then d_idoc doc else None in
          let cls := Z.min 3 (Z.of_nat (length runs)) + 4 * Z.min 3 (Z.of_nat (length e2es))
                     + (if status =? 0 then 0 else 16) + (if f_rdns fl then 32 else 0) + (if f_skip_private fl then 64 else 0) in
          let spec_fail : list Z :=
            if (prop =? 16) && (status =? 2) then [16; 7]          (* the finished document does not serialise to JSON at all *)
            else if (status =? 0) && (match o with None => true | Some _ => false end) then [99]
            else if prop =? 15 then (if c15_spec runs e2es status found (negb (resnil =? 0)) o then [] else [15])
            (* C07 at the request: the result is a function of the per-run outcomes alone (no run or sample appears or
               disappears with the schedule: cancellation instants, completion order) *)
            else if (prop =? 7) && negb (c15_spec runs e2es status found (negb (resnil =? 0)) o) then [7; 3]
            (* C10 at the request: a failure inside any run or probe makes the request return an error exposing it, and no result *)
            else if (prop =? 10) && negb (c15_spec runs e2es status found (negb (resnil =? 0)) o) then [10; 5]
            else match o with
                 | None => []
                 | Some d =>
                     if prop =? 16 then
                       (if negb (c16_hops d) then [16; 1] else if negb (c16_hopcount d) then [16; 2]
                        else if negb (c16_e2e d) then [16; 3] else if negb (c16_ids d) then [16; 4]
                        else if negb (rt =? 1) then [16; 5]
                        else if negb (match d_keys keys with Some ks => all_keys_ok ks | None => false end) then [16; 6] else [])
                     else if prop =? 17 then
                       (if f_skip_private fl then
                          (if negb (c17_doc d) then [17; 1]
                           else if negb (all2 (fun (r : rund) (ob : irun) => c17_against unit_ (rd_hops r) (ir_hops ob)) (m_runs m) (i_runs d)) then [17; 2] else [])
                        else [])
                     else if prop =? 18 then (if c18_doc (f_rdns fl) rv d then [] else [18])
                     (* C04 at the document: an end-to-end sample is a round trip exactly when a reply of that probe proved arrival
                        (a hop flagged as destination by the run), 0 otherwise - never because some hop merely has the target's address *)
                     else if (prop =? 4) && negb (Z.of_nat (length (filter (fun x => Qeqb x 0) (i_rtts d)))
                                                   =? Z.of_nat (length (filter (fun q => match q_res q with Some r => negb (existsb hd_dest (rd_hops r)) | None => false end) e2es)))
                          then [4; 2]
                     (* C03 at the document: every run keeps one entry per TTL of the run it came from (same count, same TTLs) *)
                     else if prop =? 3 then
                       (if all2 (fun (r : rund) (ob : irun) => zlist_same (map hd_ttl (rd_hops r)) (map ih_ttl (ir_hops ob))) (m_runs m) (i_runs d) then [] else [3; 2])
                     (* C05: an end-to-end sample of 0 means "no answer", never a 0 ms round trip: the e2e statistics are over the answered probes *)
                     else if prop =? 5 then (if c16_e2e d then [] else [5; 3])
                     else []
                 end in
          match spec_fail with
          | _ :: _ => verdict V_SPECFAIL cls spec_fail (L [])
          | [] =>
              match model, o with
              | None, None => if status =? 1 then verdict V_OK cls [] (L []) else verdict V_DIVERGE cls [] (L [A 1])
              | Some md, Some d => if doc_agree prop unit_ md d then verdict V_OK cls [] (L []) else verdict V_DIVERGE cls [] (L [A 2])
              | _, _ => verdict V_DIVERGE cls [] (L [A 3])
              end
          end
      | _, _, _, _, _ => badcase
      end
  | _, _ => badcase
  end.
