(** Correspondence + spec search for the policy lab: cache operation sequences (kind 3),
    provider iteration (kind 4), reverse DNS against a stalled resolver (kind 5). *)
From Coq Require Import List ZArith Bool.
From TR Require Import Lib.Sx Pol.Cache Pol.PublicIp Pol.Request Run.Eng Generated.Consts.
Import ListNotations.
Open Scope Z_scope.

Definition d_cop (s : sx) : option cop :=
  match s with
  | L [A now; A k; A ok; A v; A e] => Some (mkCop now k (if ok =? 0 then None else Some v) e)
  | _ => None
  end.
Definition d_cres (s : sx) : option (option Z * bool) :=
  match s with
  | L [A ok; A v; A called] => Some (if ok =? 0 then None else if ok =? 2 then Some (-1) else Some v, negb (called =? 0))
  | _ => None
  end.
Definition cres_eqb (a b : option Z * bool) : bool :=
  match fst a, fst b with Some x, Some y => x =? y | None, None => true | _, _ => false end && Bool.eqb (snd a) (snd b).

(** C18 cache clauses evaluated on the implementation's own observations of one sequence *)
Fixpoint cache_spec (hist : list (cop * (option Z * bool))) (ops : list cop) (res : list (option Z * bool)) : bool :=
  match ops, res with
  | [], [] => true
  | o :: ro, r :: rr =>
      (match r with
       | (Some v, false) =>    (* served from the cache: an earlier success for this key, never a failure *)
           existsb (fun h => (op_key (fst h) =? op_key o) && snd (snd h)
                             && match fst (snd h) with Some v' => v' =? v | None => false end) hist
       | (Some v, true) => match op_cb o with Some v' => v =? v' | None => false end
       | (None, true) => match op_cb o with None => true | Some _ => false end
       | (None, false) => false
       end)
      && cache_spec ((o, r) :: hist) ro rr
  | _, _ => false
  end.

Definition d_attempt (s : sx) : option attempt :=
  match s with
  | L [A k; A d; A st; A v] =>
      Some (if k =? 0 then Resp d st (negb (v =? 0)) else if k =? 1 then TransportErr d else if k =? 2 then BodyErr d else Hang)
  | _ => None
  end.

Definition zlist_eqb := list_eqb Z.eqb.

Definition check_pol (prop : Z) (inp impl : sx) : sx :=
  match inp, impl with
  | L [A 3; A dflt; L ops], L res =>
      match dec_list d_cop ops, dec_list d_cres res with
      | Some ops, Some res =>
          let cls := 1 + 2 * Z.min 15 (Z.of_nat (length ops)) in
          if (prop =? 18) && negb (cache_spec [] ops res) then verdict V_SPECFAIL cls [18; 2] (L [])
          else if (prop =? 18) && negb (cache_norequery [] ops res) then verdict V_SPECFAIL cls [18; 5] (L [])
          else if (prop =? 18) && negb (cache_expiry dflt [] ops res) then verdict V_SPECFAIL cls [18; 6] (L [])
          else if list_eqb cres_eqb (run_cache dflt [] ops) res then verdict V_OK cls [] (L [])
          else verdict V_DIVERGE cls [] (L [])
      | _, _ => badcase
      end
  | L [A 6; L ops], L res =>
      (* reverse-DNS lookups through the cache: key = address, lifetime = the constant in the source *)
      match dec_list d_cop ops, dec_list d_cres res with
      | Some ops0, Some res =>
          let ops := map (fun o => mkCop (op_now o) (op_key o) (op_cb o) reversedns_reverseDnsCacheTLL) ops0 in
          let cls := 4 + 8 * Z.min 15 (Z.of_nat (length ops)) in
          if (prop =? 18) && negb (cache_spec [] ops res) then verdict V_SPECFAIL cls [18; 2] (L [])
          (* whatever the configured lifetime is, a success outlives the lookup's own timeout (the constant of C08_constants):
             a shorter lifetime would make "stored until expiry" vacuous *)
          else if (prop =? 18) && negb (cache_norequery [] (map (fun o => mkCop (op_now o) (op_key o) (op_cb o) reversedns_reverseDnsDefaultTimeout) ops0) res)
               then verdict V_SPECFAIL cls [18; 5] (L [])
          else if (prop =? 18) && negb (cache_expiry 0 [] ops res) then verdict V_SPECFAIL cls [18; 6] (L [])
          else if list_eqb cres_eqb (run_cache 0 [] ops) res then verdict V_OK cls [] (L [])
          else verdict V_DIVERGE cls [] (L [])
      | _, _ => badcase
      end
  | L [A 28; L ops], L res =>
      (* PublicIPFetcher.GetIP over time: one key, lifetime = the constant in the source; a failed discovery yields an error,
         never an address *)
      match dec_list d_cop ops, dec_list d_cres res with
      | Some ops0, Some res =>
          let ops := map (fun o => mkCop (op_now o) (op_key o) (op_cb o) publicip_defaultPublicIPCacheExpiration) ops0 in
          let cls := 5 + 8 * Z.min 15 (Z.of_nat (length ops)) in
          if (prop =? 18) && negb (cache_spec [] ops res) then verdict V_SPECFAIL cls [18; 2] (L [])
          else if (prop =? 18) && negb (cache_norequery [] (map (fun o => mkCop (op_now o) (op_key o) (op_cb o) publicip_ipCheckerCallTimeout) ops0) res)
               then verdict V_SPECFAIL cls [18; 5] (L [])
          else if (prop =? 18) && negb (cache_expiry 0 [] ops res) then verdict V_SPECFAIL cls [18; 6] (L [])
          else if list_eqb cres_eqb (run_cache 0 [] ops) res then verdict V_OK cls [] (L [])
          else verdict V_DIVERGE cls [] (L [])
      | _, _ => badcase
      end
  | L [A 4; A dl; A init; A maxi; L scripts], L [A winner; L counts; A elapsed] =>
      match dec_list (fun s => match s with L l => dec_list d_attempt l | _ => None end) scripts, sx_zs counts with
      | Some scripts, Some counts =>
          let g := get_public_ip dl init maxi 0 0 scripts in
          let np := Z.of_nat (length scripts) in
          let cls := 2 + 4 * np + 32 * (if winner <? 0 then 0 else 1) in
          let spec_fail : list Z :=
            if prop =? 8 then (if elapsed <=? np * dl then [] else [8; 2])
            else if prop =? 18 then
              (* asked in order, stops at the first valid address: nobody after the winner is queried,
                 everybody before it was; a winner really had a script that succeeds *)
              (if winner <? 0 then (if forallb (fun c => 0 <? c) counts then [] else [18; 3])
               else if forallb (fun c => c =? 0) (skipn (Z.to_nat winner + 1) counts)
                       && forallb (fun c => 0 <? c) (firstn (Z.to_nat winner + 1) counts)
                       && match nth_error scripts (Z.to_nat winner) with Some s => provider_succeeds dl init maxi s | None => false end
                    then [] else [18; 3])
            else [] in
          match spec_fail with
          | _ :: _ => verdict V_SPECFAIL cls spec_fail (L [])
          | [] =>
              if g_tie g then verdict V_OK (cls + 64) [] (L [])
              else if (match g_winner g with Some w => w =? winner | None => winner =? -1 end)
                      && zlist_eqb (g_requests g) counts && ((negb (prop =? 8)) || (g_elapsed g =? elapsed))
              then verdict V_OK cls [] (L [])
              else verdict V_DIVERGE cls [] (L [A (match g_winner g with Some w => w | None => -1 end); L (map A (g_requests g)); A (g_elapsed g)])
          end
      | _, _ => badcase
      end
  | L [A 5; A tmo; L delays], L [A ok; L got; A elapsed] =>
      match sx_zs delays, sx_zs got with
      | Some delays, Some got =>
          let cls := 3 + 4 * Z.of_nat (length delays) in
          let answered d := (0 <=? d) && (d <? tmo) in
          let m_el := fold_left Z.max (map (fun d => if answered d then d else tmo) delays) 0 in
          if (prop =? 8) && negb (elapsed <=? tmo) then verdict V_SPECFAIL cls [8; 3] (L [])
          else if (prop =? 18) && negb ((ok =? 1) && zlist_eqb (map (fun d => if answered d then 1 else 0) delays) got) then verdict V_SPECFAIL cls [18; 4] (L [])
          else if (ok =? 1) && zlist_eqb (map (fun d => if answered d then 1 else 0) delays) got && ((negb (prop =? 8)) || (m_el =? elapsed))
          then verdict V_OK cls [] (L []) else verdict V_DIVERGE cls [] (L [A m_el])
      | _, _ => badcase
      end
  | _, _ => badcase
  end.

(** ---- kind 21: elapsed time of a whole request *)
Definition check_req (prop : Z) (inp impl : sx) : sx :=
  match inp, impl with
  | L [A 21; A max_ttl; A timeout; L runs; L e2es; A fail; A rdns; A pub], L [A status; A elapsed] =>
      match sx_zs runs, sx_zs e2es with
      | Some runs, Some e2es =>
          let cls := 1 + 2 * Z.min 3 (Z.of_nat (length runs)) + 8 * Z.min 3 (Z.of_nat (length e2es)) + (if rdns =? -2 then 0 else 32) + (if pub =? -2 then 0 else 64) in
          let failed := 0 <=? fail in
          let e := Z.of_nat (length e2es) in
          (* C08: within the bound computed from the parameters and the longest part of each kind *)
          let bound := request_bound max_ttl timeout e (zmax_list runs) (zmax_list e2es) (Z.max 0 pub) (negb (rdns =? -2)) (negb (pub =? -2)) in
          if (prop =? 8) && (bound <? elapsed) then verdict V_SPECFAIL cls [8; 4] (L [A bound])
          else
            let m := request_elapsed max_ttl timeout runs e2es failed rdns pub in
            if (status =? (if failed then 1 else 0)) && (m =? elapsed) then verdict V_OK cls [] (L []) else verdict V_DIVERGE cls [] (L [A m])
      | _, _ => badcase
      end
  | _, _ => badcase
  end.
