(** Correspondence + spec search for the allocator lab (C11). *)
From Coq Require Import List ZArith Bool.
From TR Require Import Lib.Sx Pol.Alloc Run.Eng.
Import ListNotations.
Open Scope Z_scope.

Definition check_iso (prop : Z) (inp impl : sx) : sx :=
  match inp, impl with
  | L [A 13; A c0; A conc; L ms], L [L bases] =>
      match sx_zs ms, sx_zs bases with
      | Some ms, Some bases =>
          let cls := 1 + 2 * Z.min 15 (Z.of_nat (length ms)) + (if conc =? 0 then 0 else 64) in
          let blocks := combine bases ms in
          let total := fold_left Z.add ms 0 in
          (* C11: blocks handed to runs that are alive together do not overlap while fewer than 65536 identifiers are live *)
          if (total <=? 65536) && negb (disjointb blocks) then verdict V_SPECFAIL cls [11; 2] (L [])
          else if conc =? 0 then
            (if list_eqb Z.eqb (map fst (alloc_seq c0 ms)) bases then verdict V_OK cls [] (L []) else verdict V_DIVERGE cls [] (L (map A (map fst (alloc_seq c0 ms)))))
          else
            (* concurrent calls: some sequential order; every base is c0 + a sum of other blocks' sizes (checked through disjointness + coverage) *)
            (if forallb (fun b => ((b - c0) mod M16) <=? total) bases then verdict V_OK cls [] (L []) else verdict V_DIVERGE cls [] (L []))
      | _, _ => badcase
      end
  | L [A 14; A c0; A n], L [L ids] =>
      match sx_zs ids with
      | Some ids =>
          let m := echo_ids c0 (Z.to_nat n) in
          let fix nodup (l : list Z) : bool := match l with [] => true | x :: r => negb (existsb (Z.eqb x) r) && nodup r end in
          if negb (nodup ids) then verdict V_SPECFAIL 2 [11; 3] (L [])
          else if list_eqb Z.eqb m ids then verdict V_OK 2 [] (L []) else verdict V_DIVERGE 2 [] (L (map A m))
      | None => badcase
      end
  | _, _ => badcase
  end.
