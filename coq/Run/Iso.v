(** Correspondence + spec search for the allocator lab (C11). *)
From Coq Require Import List ZArith Bool.
From TR Require Import Lib.Sx Pol.Alloc Net.Ideal Run.Eng.
Import ListNotations.
Open Scope Z_scope.

(** ---- kind 18: several real runs over one simulated wire on which every handle sees every packet; the network routes
    per flow (path length, silent router and router addresses are functions of the flow key), so each run's solo result
    is the ideal path of its own flow *)
Definition shared_path (key : Z) : path :=
  let n := 1 + key mod 4 in
  mkPath n (if (2 <=? n) && ((key / 4) mod 3 =? 0) then 1 + (key / 12) mod n else 0).

(** the routers of the lab carry, in their address, the flow key of the probe they answer (two bytes), the number of the
    socket pair the probe left through (upper five bits of the last byte) and their position on the path (lower three).
    [router_key] returns (flow key + 65536 * socket, position): the replies to the probes of ONE run all carry one value. *)
Definition router_key (ip : list Z) : option (Z * Z) :=
  match ip with
  | [a; hi; lo; k] => if a =? 10 then Some (256 * hi + lo + 65536 * (k / 8), k mod 8) else None
  | [a; _; _; _; _; _; _; _; _; _; _; _; hi; lo; _; k] => if a =? 253 then Some (256 * hi + lo + 65536 * (k / 8), k mod 8) else None
  | _ => None
  end.

Definition is_target (ip : list Z) : bool :=
  list_eqb Z.eqb ip [127; 0; 0; 1] || list_eqb Z.eqb ip [0; 0; 0; 0; 0; 0; 0; 0; 0; 0; 0; 0; 0; 0; 0; 1].

Definition d_shop (s : sx) : option (Z * list Z * bool * bool * Z) :=
  match s with
  | L [A t; ip; A d; A neg; A rtt] => match sx_bytes ip with Some b => Some (t, b, negb (d =? 0), negb (neg =? 0), rtt) | None => None end
  | _ => None
  end.

Definition d_srun_in (s : sx) : option (Z * bool * Z * Z * Z) :=
  match s with L [A proto; A v6; A last; A start; A grp] => Some (proto, negb (v6 =? 0), last, start, grp) | _ => None end.

(** a run whose local UDP / TCP port another socket could bind while it was in flight is reported as status 77 *)
Definition d_srun_out (s : sx) : option (Z * list (Z * list Z * bool * bool * Z)) :=
  match s with
  | L [A status; L hops; A held; A _; A _] => match dec_list d_shop hops with Some h => Some ((if held =? 0 then 77 else status), h) | None => None end
  | _ => None
  end.

(** the virtual instants at which a run started and ended *)
Definition d_srun_span (s : sx) : option (Z * Z) :=
  match s with L [A _; L _; A _; A t0; A t1] => Some (t0, t1) | _ => None end.

(** two runs that are alive at the same time never share a flow identifier (a port the OS hands out again AFTER a run has
    ended and released it is not a clash) *)
Fixpoint flows_ok (l : list (option Z * (Z * Z))) : bool :=
  match l with
  | [] => true
  | (k, (a0, a1)) :: r =>
      forallb (fun x => match k, fst x with
                        | Some k1, Some k2 => negb (k1 =? k2) || (a1 <? fst (snd x)) || (snd (snd x) <? a0)
                        | _, _ => true end) r
      && flows_ok r
  end.

Fixpoint first_key (hops : list (Z * list Z * bool * bool * Z)) : option Z :=
  match hops with
  | [] => None
  | (_, ip, _, _, _) :: r => match router_key ip with Some (key, _) => Some key | None => first_key r end
  end.

Definition shop_ok (key n : Z) (e : Z * option Z * bool) (o : Z * list Z * bool * bool * Z) : bool :=
  match e, o with
  | (t, who, d), (t', ip, d', neg, _) =>
      (t =? t') && Bool.eqb d d' && negb neg
      && match who with
         | None => match ip with [] => true | _ => false end
         | Some r => if r <=? n then match router_key ip with Some (key', k) => (key' =? key) && (k =? r) | None => false end
                     else is_target ip
         end
  end.

Fixpoint all2s (key n : Z) (a : list (Z * option Z * bool)) (b : list (Z * list Z * bool * bool * Z)) : bool :=
  match a, b with
  | [], [] => true
  | x :: a', y :: b' => shop_ok key n x y && all2s key n a' b'
  | _, _ => false
  end.

(** the network answers the probe of flow [key] with TTL t after exactly (2 + key mod 7 + t) ms; a duplicate follows
    3 ms later.  Under the virtual clock the RTT of a hop is therefore exactly that of the FIRST reply. *)
(** [extra]: added to every round trip (socket mode 2).  [slack]: in socket mode 1 the sender is inside WriteTo for 20 ms while
    the reply is already there; the serial engine (one goroutine) and the parallel engine's first probe (the reader waits
    for the first send to return) only read it afterwards, so the measured value may exceed the network's by at most the
    write's duration - well inside the property's one-poll-interval tolerance - and is never below it. *)
Definition rtts_ok (extra_slack : Z * Z) (key : Z) (hops : list (Z * list Z * bool * bool * Z)) : bool :=
  let (extra, slack) := extra_slack in
  forallb (fun h => match h with (t, ip, _, _, rtt) => match ip with [] => true | _ =>
             (1000 * (2 + key mod 7 + t) + extra <=? rtt) && (rtt <=? Z.max (1000 * (2 + key mod 7 + t) + extra) slack) end end) hops.

(** 0 ok; 1 foreign router among the hops; 4 not the solo result; 5 hop RTT is not send -> first reply *)
Definition srun_verdict (extra : Z * Z) (i : Z * bool * Z * Z * Z) (o : Z * list (Z * list Z * bool * bool * Z)) : Z * option Z :=
  match i, o with
  | (proto, v6, last, _, _), (status, hops) =>
      if status =? 77 then (6, None) else
      match first_key hops with
      | None => (4, None)
      | Some skey =>
          (* skey: flow key and socket of the run's first router hop; a hop with another flow key OR another socket is a
             reply to somebody else's probe *)
          let key := skey mod 65536 in
          let pa := shared_path key in
          if (status =? 0) && all2s skey (pa_n pa) (predicted pa 1 last) hops then
            ((if rtts_ok extra key hops then 0 else 5), Some (key + 65536 * (proto + 4 * (if v6 then 1 else 0))))
          else if existsb (fun h => match h with (_, ip, _, _, _) => match router_key ip with Some (k', _) => negb (k' =? skey) | None => false end end) hops
               then (1, Some key) else (4, Some key)
      end
  end.

Fixpoint nodupz (l : list Z) : bool := match l with [] => true | x :: r => negb (existsb (Z.eqb x) r) && nodupz r end.

Definition check_shared (prop : Z) (inp impl : sx) : sx :=
  match inp, impl with
  | L [A 18; A filt_slow; L rin], L rout0 =>
      match dec_list d_srun_in rin, dec_list d_srun_out rout0 with
      | Some rin, Some rout =>
          (* filt_slow = filters on (1) + 2 * socket mode: 0 immediate, 1 every write returns 20 ms after the probe left,
             2 the socket takes the bytes 3 ms after WriteTo was entered - the probe is handed to the network when SendProbe
             is called, so in mode 2 every round trip is 3 ms longer *)
          (* bits from 8 up: how far below the 16-bit wrap the process-wide identifier counters stood when the scenario began
             (0: wherever earlier scenarios left them) - the expected results do not depend on it *)
          let filt := filt_slow mod 2 in
          let slow := (filt_slow / 2) mod 4 in
          let extra := (if slow =? 2 then 3000 else 0, if slow =? 1 then 20000 else 0) in
          let srun_verdict := srun_verdict extra in
          let cls := 1 + 2 * Z.min 7 (Z.of_nat (length rin)) + (if filt =? 0 then 0 else 16) + 32 * slow + (if filt_slow / 8 =? 0 then 0 else 128) in
          if negb (Nat.eqb (length rin) (length rout)) then badcase else
          let vs := map (fun io => srun_verdict (fst io) (snd io)) (combine rin rout) in
          (* every run has its own socket pair: two runs whose hops come from probes that left through the SAME socket means
             that one of them reports the replies to the other's probes *)
          let socks := concat (map (fun o => match first_key (snd o) with Some sk => [sk] | None => [] end) rout) in
          if negb (nodupz socks) then verdict V_SPECFAIL cls (if prop =? 11 then [11; 1] else [1; 2]) (L (map A socks))
          else if existsb (fun v => fst v =? 1) vs then verdict V_SPECFAIL cls (if prop =? 11 then [11; 1] else [1; 2]) (L (map (fun v => A (fst v)) vs))
          else if (prop =? 11) && existsb (fun v => fst v =? 6) vs then verdict V_SPECFAIL cls [11; 6] (L (map (fun v => A (fst v)) vs))
          else if existsb (fun v => fst v =? 4) vs then verdict V_SPECFAIL cls (if prop =? 11 then [11; 4] else if prop =? 6 then [6; 6] else [2; 3]) (L (map (fun v => A (fst v)) vs))
          else if (prop =? 5) && existsb (fun v => fst v =? 5) vs then verdict V_SPECFAIL cls [5; 2] (L (map (fun v => A (fst v)) vs))
          else if negb (flows_ok (combine (map snd vs) (map (fun o => match d_srun_span o with Some sp => sp | None => (0, 0) end) rout0))) then verdict V_SPECFAIL cls [11; 5] (L [])
          else verdict V_OK cls [] (L [])
      | _, _ => badcase
      end
  | _, _ => badcase
  end.

Fixpoint zs_range (a : Z) (n : nat) : list Z := match n with O => [] | S k => a :: zs_range (a + 1) k end.

Definition check_iso (prop : Z) (inp impl : sx) : sx :=
  match inp, impl with
  | L [A 13; A c0; A conc; L ms], L [L bases] =>
      match sx_zs ms, sx_zs bases with
      | Some ms, Some bases =>
          let cls := 1 + 2 * Z.min 15 (Z.of_nat (length ms)) + (if conc =? 0 then 0 else 64) in
          let blocks := combine bases ms in
          let total := fold_left Z.add ms 0 in
          (* C11: blocks handed to runs that are alive together do not overlap while fewer than 65536 identifiers are live *)
          if (total <=? 65536) && negb (disjointb blocks) then verdict V_SPECFAIL cls [11; 2] (L [])
          else if conc =? 0 then
            (if list_eqb Z.eqb (map fst (alloc_seq c0 ms)) bases then verdict V_OK cls [] (L []) else verdict V_DIVERGE cls [] (L (map A (map fst (alloc_seq c0 ms)))))
          else
            (* concurrent calls: some sequential order; every base is c0 + a sum of other blocks' sizes (checked through disjointness + coverage) *)
            (if forallb (fun b => ((b - c0) mod M16) <=? total) bases then verdict V_OK cls [] (L []) else verdict V_DIVERGE cls [] (L []))
      | _, _ => badcase
      end
  (* the IP identifications TCP SYN runs that are alive together put on the wire: pairwise disjoint (C11), and what the
     allocator model and the scheme base + TTL predict *)
  | L [A 26; A c0; L ranges], L [L idss] =>
      let d_rng := fun s => match s with L [A f; A l] => Some (f, l) | _ => None end in
      match dec_list d_rng ranges, dec_list (fun s => match s with L l => sx_zs l | _ => None end) idss with
      | Some ranges, Some idss =>
          let cls := 3 + 4 * Z.min 7 (Z.of_nat (length ranges)) in
          let all := concat idss in
          let fix nodup (l : list Z) : bool := match l with [] => true | x :: r => negb (existsb (Z.eqb x) r) && nodup r end in
          let bases := map fst (alloc_seq c0 (map snd ranges)) in
          let want := map (fun br => match br with (b, (f, l)) => map (fun t => (b + t) mod M16) (zs_range f (Z.to_nat (l - f + 1))) end) (combine bases ranges) in
          if (Z.of_nat (length all) <=? 65536) && negb (nodup all) then verdict V_SPECFAIL cls [11; 2] (L [])
          else if list_eqb (list_eqb Z.eqb) want idss then verdict V_OK cls [] (L []) else verdict V_DIVERGE cls [] (L (map (fun l => L (map A l)) want))
      | _, _ => badcase
      end
  | L [A 14; A c0; A n], L [L ids] =>
      match sx_zs ids with
      | Some ids =>
          let m := echo_ids c0 (Z.to_nat n) in
          let fix nodup (l : list Z) : bool := match l with [] => true | x :: r => negb (existsb (Z.eqb x) r) && nodup r end in
          if negb (nodup ids) then verdict V_SPECFAIL 2 [11; 3] (L [])
          else if list_eqb Z.eqb m ids then verdict V_OK 2 [] (L []) else verdict V_DIVERGE 2 [] (L (map A m))
      | None => badcase
      end
  | _, _ => badcase
  end.
