(** C12 correspondence + spec search: one case = one frame run through the
    real programs in x/net/bpf's VM by the harness. *)
From Coq Require Import List ZArith Bool.
From TR Require Import Lib.Sx Lib.Bytes Bpf.Vm Spec.C12 Generated.BpfProgs Pol.SourceHist.
Import ListNotations.
Open Scope Z_scope.

Definition vm_val (p : list raw) (f : bytes) : Z :=
  match exec (prog_of p) f with Some v => v | None => -1 end.

Definition nz (z : Z) : bool := negb (z =? 0).

Definition check_c12_exact (cfg : list Z) (f : bytes) (impl : list Z) : sx :=
  match cfg, impl with
  | [s; d; sp; dp], [vi; vu; vs; vd; vt] =>
      let mi := vm_val raw_icmp f in
      let mu := vm_val raw_udp f in
      let ms := vm_val raw_synack f in
      let md := vm_val raw_dropall f in
      let mt := vm_val (raw_tcp4 s d sp dp) f in
      let cls := (if nz vi then 1 else 0) + (if nz vs then 2 else 0) + (if nz vt then 4 else 0)
                 + (if 14 <=? len f then 8 else 0) in
      let model := L [A mi; A mu; A ms; A md; A mt] in
      (* spec search first: a spec failure of the implementation is a concrete failing frame *)
      if negb (Bool.eqb (nz vi) (icmp_specb f)) then verdict V_SPECFAIL cls [1] model
      else if negb (Bool.eqb (nz vu) (udp_specb f)) then verdict V_SPECFAIL cls [2] model
      else if negb (Bool.eqb (nz vs) (synack_specb f)) then verdict V_SPECFAIL cls [3] model
      else if negb (Bool.eqb (nz vd) (dropall_specb f)) then verdict V_SPECFAIL cls [4] model
      else if negb (Bool.eqb (nz vt) (tcp4_specb s d sp dp f)) then verdict V_SPECFAIL cls [5] model
      else if (mi =? vi) && (mu =? vu) && (ms =? vs) && (md =? vd) && (mt =? vt)
      then verdict V_OK cls [] (L [])
      else verdict V_DIVERGE cls [] model
  | _, _ => badcase
  end.

(** histories of installations on one real AF_PACKET source: the socket model of Pol/SourceHist.v is run over the
    history (correspondence), and what the source hands out after the LAST installation must be what the last requested
    filter's field-level spec selects - earlier installations leave no trace (spec; the two agree by
    SourceHistProofs.captured_last) *)
Definition d_fspec (x : sx) : option fspec :=
  match x with
  | L [A ty; A s; A d; A sp; A dp] =>
      Some (if ty =? 0 then FsNone else if ty =? 1 then FsIcmp else if ty =? 2 then FsUdp else if ty =? 3 then FsTcp s d sp dp else FsSynack)
  | _ => None
  end.

Fixpoint dec_fspecs (l : list sx) : option (list fspec) :=
  match l with
  | [] => Some []
  | x :: r => match d_fspec x, dec_fspecs r with Some a, Some b => Some (a :: b) | _, _ => None end
  end.

Definition check_c12_hist (specs : list sx) (f : bytes) (cap : Z) : sx :=
  match dec_fspecs specs with
  | Some fs =>
      let want := match rev fs with lastf :: _ => selects lastf f | [] => true end in
      let model := captured fs f in
      let cls := 16 + 8 * Z.min 7 (Z.of_nat (length specs)) + (if want then 1 else 0) in
      if negb (Bool.eqb (nz cap) want) then verdict V_SPECFAIL cls [7] (of_bool want)
      else if Bool.eqb (nz cap) model then verdict V_OK cls [] (L []) else verdict V_DIVERGE cls [] (of_bool model)
  | None => badcase
  end.

(** a frame that arrived before the last installation and was still in the socket: after a program has been installed it must
    not come out (SetBPFAndDrain); after a detach the socket model decides *)
Definition check_c12_stale (specs : list sx) (f : bytes) (cap : Z) : sx :=
  match dec_fspecs specs with
  | Some fs =>
      let model := stale_captured fs f in
      let prog_last := match rev fs with FsNone :: _ => false | _ :: _ => true | [] => false end in
      let cls := 17 + 8 * Z.min 7 (Z.of_nat (length specs)) + (if prog_last then 64 else 0) in
      if prog_last && nz cap then verdict V_SPECFAIL cls [7; 1] (L [])
      else if Bool.eqb (nz cap) model then verdict V_OK cls [] (L []) else verdict V_DIVERGE cls [] (of_bool model)
  | None => badcase
  end.

Definition check_c12 (inp impl : sx) : sx :=
  match inp, impl with
  | L [A 30; L specs; fr; A 1], L [A cap] =>
      match sx_bytes fr with Some f => check_c12_stale specs f cap | None => badcase end
  | L [A 30; L specs; fr], L [A cap] =>
      match sx_bytes fr with Some f => check_c12_hist specs f cap | None => badcase end
  | L [A 1; L cfg; fr], L im =>
      match sx_zs cfg, sx_bytes fr, sx_zs im with
      | Some cfg, Some f, Some im => check_c12_exact cfg f im
      | _, _, _ => badcase
      end
  | _, _ => badcase
  end.
