(** Correspondence for the kernel lab (C13): the real tool over real raw sockets inside network namespaces
    whose routers and destination are the Linux kernel's own stack, against the ideal-path prediction. *)
From Coq Require Import List ZArith Bool.
From TR Require Import Lib.Sx Net.Ideal Run.Eng.
Import ListNotations.
Open Scope Z_scope.

Definition d_khop (s : sx) : option (Z * option Z * bool * bool) :=
  match s with
  | L [A t; ip; A d; A neg] =>
      match sx_bytes ip with
      | Some [] => Some (t, None, negb (d =? 0), negb (neg =? 0))
      | Some [198; 18; k; 2] => Some (t, Some k, negb (d =? 0), negb (neg =? 0))
      | Some [253; 0; 0; 24; 0; k; 0; 0; 0; 0; 0; 0; 0; 0; 0; 2] => Some (t, Some k, negb (d =? 0), negb (neg =? 0))   (* fd00:18:k::2 *)
      | Some _ => Some (t, Some (-1), negb (d =? 0), negb (neg =? 0))
      | None => None
      end
  | _ => None
  end.

Definition khop_eqb (e : Z * option Z * bool) (o : Z * option Z * bool * bool) : bool :=
  match e, o with
  | (t, ip, d), (t', ip', d', neg) =>
      (t =? t') && (match ip, ip' with Some a, Some b => a =? b | None, None => true | _, _ => false end) && Bool.eqb d d' && negb neg
  end.

Fixpoint all2k (a : list (Z * option Z * bool)) (b : list (Z * option Z * bool * bool)) : bool :=
  match a, b with
  | [], [] => true
  | x :: a', y :: b' => khop_eqb x y && all2k a' b'
  | _, _ => false
  end.

Definition check_kern (prop : Z) (inp impl : sx) : sx :=
  match inp, impl with
  | L [A 17; A n; A proto; A method; A port; A first; A last; A silent; A pstate6], L [A status; A notsup; L hops; A elapsed_ms] =>
      let pstate := pstate6 mod 4 in
      match dec_list d_khop hops with
      | Some hops =>
          let pa := mkPath n silent in
          let cls := 1 + 2 * n + 16 * proto + 64 * method + 512 * (pstate6 / 4) in
          (* C08 on a real kernel (real clock, so with 2 s of slack): the lab's runs use a 400 ms timeout, 20 ms between probes,
             100 ms polls; whatever the target does - listen, refuse, drop every segment so that connect() gets no answer - a
             run is over after the SACK attempt (handshake timeout + its parallel run: timeout + 10 ms per probe + a poll) and the
             SYN trace (per TTL: timeout + a poll) *)
          let count := last - first + 1 in
          let bound_ms := 400 + (400 + 10 * count + 100) + count * (400 + 100) + 2000 in
          if prop =? 8 then
            (if (status =? 3) || (bound_ms <? elapsed_ms) then verdict V_SPECFAIL cls [8; 7] (L [A bound_ms; A elapsed_ms]) else verdict V_OK cls [] (L []))
          else
          let sack_unavailable := (proto =? 1) && negb (pstate =? 0) in
          if (proto =? 1) && (method =? 2) && sack_unavailable then
            (* method sack against a target that cannot do SACK: fails as not supported *)
            (if (status =? 1) && (notsup =? 1) then verdict V_OK cls [] (L []) else verdict V_SPECFAIL cls [13; 2] (L []))
          else
          (* port state 3: the target silently drops TCP segments to this port (connect times out: SACK unavailable, C20);
             prefer_sack falls back to SYN, whose probes die at the target as well *)
          let want := if (proto =? 1) && (pstate =? 3) then predicted_filtered pa first last else predicted pa first last in
          if (status =? 0) && all2k want hops then verdict V_OK cls [] (L [])
          else verdict V_SPECFAIL cls [13; 1] (L (map (fun e => match e with (t, ip, d) => L [A t; A (match ip with Some a => a | None => 0 end); of_bool d] end) want))
      | None => badcase
      end
  | _, _ => badcase
  end.
