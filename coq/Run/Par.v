(** Correspondence + spec search for the parameter / TCP-policy lab (C19, C20, part of C10). *)
From Coq Require Import List ZArith Bool.
From TR Require Import Lib.Sx Lib.Bytes Pol.Params Run.Eng Generated.Consts.
Import ListNotations.
Open Scope Z_scope.

Definition d_proto (z : Z) : proto := if z =? 0 then PUdp else if z =? 1 then PTcp else if z =? 2 then PIcmp else POther.
Definition d_method (z : Z) : tmethod :=
  if z =? 0 then MDefault else if z =? 1 then MSyn else if z =? 2 then MSack else if z =? 3 then MPrefer else if z =? 4 then MSynSocket else MOther.
Definition e_proto (p : proto) : Z := match p with PUdp => 0 | PTcp => 1 | PIcmp => 2 | POther => 3 end.
Definition e_method (m : tmethod) : Z := match m with MDefault => 0 | MSyn => 1 | MSack => 2 | MPrefer => 3 | MSynSocket => 4 | MOther => 5 end.

Fixpoint zrange' (a : Z) (n : nat) : list Z := match n with O => [] | S k => a :: zrange' (a + 1) k end.

(** insertion sort of small integer lists *)
Fixpoint ins (x : Z) (l : list Z) : list Z := match l with [] => [x] | y :: r => if x <=? y then x :: l else y :: ins x r end.
Definition sortz (l : list Z) : list Z := fold_right ins [] l.
Definition zl_eqb := list_eqb Z.eqb.

Fixpoint d_err (fuel : nat) (s : sx) : option err :=
  match fuel with
  | O => None
  | S f =>
      match s with
      | L (A k :: A id :: subs) =>
          let ds := (fix go (l : list sx) : option (list err) :=
                       match l with [] => Some [] | x :: r => match d_err f x, go r with Some a, Some b => Some (a :: b) | _, _ => None end end) subs in
          match ds with
          | None => None
          | Some ds =>
              if k =? 0 then Some (Leaf id)
              else if k =? 1 then match ds with [e] => Some (Wrap e) | _ => None end
              else if k =? 2 then match ds with [e] => Some (NotSup e) | _ => None end
              else Some (Join ds)
          end
      | _ => None
      end
  end.

Definition d_out (s : sx) : option run_out :=
  match s with
  | L [A _] => Some ROk
  | L [A _; t] => match d_err 12 t with Some e => Some (RErr e) | None => None end
  | _ => None
  end.

Definition opt_z (s : sx) : option (option Z) := match s with L [] => Some None | L [A z] => Some (Some z) | _ => None end.

Definition injected : Z := 7.   (* the lab's non-capability failure *)

Definition check_par (prop : Z) (inp impl : sx) : sx :=
  match inp, impl with
  (* ---- RunTraceroute with a parameter set *)
  | L [A 8; A pr; A me; A mn; A mx; A port; A v6], L [A status; L ttls; L protos; L dports; A dst_ok; A nhops; A rport] =>
      match sx_zs ttls, sx_zs protos, sx_zs dports with
      | Some ttls, Some protos, Some dports =>
          let p := mkRP (d_proto pr) mn mx port (d_method me) in
          let cls := 1 + 8 * (if status =? 0 then 1 else 0) + 16 * pr in
          let st := sortz ttls in
          let spec_fail : list Z :=
            if status =? 2 then [19; 9]                                              (* crashed *)
            else if status =? 0 then
              (* executed: exactly the requested TTL range, to the requested port, never wrapped *)
              (if (3 <=? pr) || ((pr =? 1) && (5 <=? me)) then [19; 10]        (* unknown protocol / TCP method executed *)
               else if negb ((1 <=? mn) && (mn <=? mx) && (mx <=? 255)) then [19; 2]
               else if negb (zl_eqb st (zrange' mn (Z.to_nat (mx - mn + 1)))) then [19; 3]
               else if negb (dst_ok =? 1) then [19; 4]
               else if (negb (pr =? 2)) && negb (zl_eqb dports [if port =? 0 then 33434 else port] && (1 <=? (if port =? 0 then 33434 else port)) && ((if port =? 0 then 33434 else port) <=? 65535)) then [19; 5]
               else if negb (zl_eqb protos [if pr =? 0 then 17 else if pr =? 1 then 6 else if v6 =? 0 then 1 else 58]) then [19; 6]
               else [])
            else [] in
          match (if prop =? 19 then spec_fail else []) with
          | _ :: _ => verdict V_SPECFAIL cls spec_fail (L [])
          | [] =>
              match accept p with
              | Reject => if (status =? 1) && (match ttls with [] => true | _ => false end) then verdict V_OK cls [] (L []) else verdict V_DIVERGE cls [] (L [A 0])
              | Exec k f l po =>
                  if (status =? 0) && zl_eqb st (zrange' f (Z.to_nat (l - f + 1))) && (nhops =? l - f + 1)
                     && (match k with KIcmp => true | _ => zl_eqb dports [po] end) && (rport =? dest_port p)
                  then verdict V_OK cls [] (L []) else verdict V_DIVERGE cls [] (L [A 1; A f; A l; A po])
              end
          end
      | _, _, _ => badcase
      end
  (* ---- HTTP query parsing *)
  | L [A 9; qport; qttl; qproto; qmeth], L (A status :: rest) =>
      match opt_z qport, opt_z qttl, opt_z qproto, opt_z qmeth with
      | Some qp, Some qt, Some qpr, Some qm =>
          let m := server_params (mkQuery qp qt (match qpr with Some z => Some (d_proto z) | None => None end) (match qm with Some z => Some (d_method z) | None => None end)) in
          match rest with
          | [A ipr; A imin; A imax; A iport; A ime] =>
              (* C19: a numeric query value is handed on exactly as given (the runner honours or rejects it), never replaced *)
              if (prop =? 19) && (status =? 0)
                 && (match qp with Some v => negb (iport =? v) | None => false end || match qt with Some v => negb (imax =? v) | None => false end)
              then verdict V_SPECFAIL 2 [19; 9] (L [A iport; A imax])
              else
              if (status =? 0) && (ipr =? e_proto (rp_proto m)) && (imin =? rp_min m) && (imax =? rp_max m) && (iport =? rp_port m)
                 && ((ime =? e_method (rp_method m)) || ((ime =? 5) && (match qm with Some 5 => true | _ => false end)))
              then verdict V_OK 2 [] (L []) else verdict V_DIVERGE 2 [] (L [A (rp_min m); A (rp_max m); A (rp_port m)])
          | _ => verdict V_DIVERGE 2 [] (L [])
          end
      | _, _, _, _ => badcase
      end
  (* ---- target literal forms *)
  | L [A 10; raw; A dflt; want; A explicit], L [A status; got; A gport] =>
      match sx_bytes want, sx_bytes got with
      | Some want, Some got =>
          let port := if 0 <=? explicit then explicit else if explicit =? -1 then dflt else explicit in
          let okp := (1 <=? port) && (port <=? 65535) in
          if okp then (if (status =? 0) && list_eqb Z.eqb want got && (gport =? port) then verdict V_OK 3 [] (L [])
                       else if prop =? 19 then verdict V_SPECFAIL 3 [19; 7] (L []) else verdict V_DIVERGE 3 [] (L []))
          else (if status =? 1 then verdict V_OK 3 [] (L [])
                else if prop =? 19 then verdict V_SPECFAIL 3 [19; 8] (L []) else verdict V_DIVERGE 3 [] (L []))   (* a port outside 1..65535 was accepted *)
      | _, _ => badcase
      end
  (* ---- performTCPFallback with scripted outcomes *)
  | L [A 11; A me; osyn; osack; osock], L [A which; A haserr; L causes; A has_ns; A c0; A c1; A c2] =>
      match d_out osyn, d_out osack, d_out osock, sx_zs causes with
      | Some osyn, Some osack, Some osock, Some causes =>
          let m := d_method me in
          let r := perform m osyn osack osock in
          let cls := 4 + 8 * me in
          let sack_ns := match osack with RErr e => has_notsup e | ROk => false end in
          let spec_fail : list Z :=
            if negb (prop =? 20) then []
            else match m with
                 | MSack => if (c0 =? 0) && negb (which =? 0) && ((which =? 1) || (haserr =? 1)) then [] else [20; 1]   (* SACK trace or error, never SYN *)
                 | MSyn | MDefault => if (c1 =? 0) then [] else [20; 2]                                                  (* no SACK attempt *)
                 | MPrefer =>
                     if negb (Bool.eqb (c0 =? 1) sack_ns) then [20; 3]                                             (* SYN exactly when SACK is unsupported *)
                     else if negb sack_ns && (match osack with RErr _ => true | ROk => false end)
                             && negb ((haserr =? 1) && (which =? -1)
                                      && forallb (fun id => implb (match osack with RErr e => has_cause e id | ROk => false end) (existsb (Z.eqb id) causes)) (zrange' 0 16))
                          then [20; 4]                                                                             (* another SACK failure was masked or lost its cause *)
                     else []
                 | _ => []
                 end in
          match spec_fail with
          | _ :: _ => verdict V_SPECFAIL cls spec_fail (L [])
          | [] =>
              let mwhich := match fb_trace r with Some TSyn => 0 | Some TSack => 1 | Some TSynSocket => 2 | None => -1 end in
              let merr := match fb_err r with Some _ => 1 | None => 0 end in
              let mcauses := match fb_err r with Some e => filter (fun id => has_cause e id) (zrange' 0 16) | None => [] end in
              let mns := match fb_err r with Some e => has_notsup e | None => false end in
              if (which =? mwhich) && (haserr =? merr) && zl_eqb (sortz causes) mcauses && Bool.eqb (negb (has_ns =? 0)) mns
                 && (c0 =? fb_syn_calls r) && (c1 =? fb_sack_calls r) && (c2 =? fb_sock_calls r)
              then verdict V_OK cls [] (L []) else verdict V_DIVERGE cls [] (L [A mwhich; A merr])
          end
      | _, _, _, _ => badcase
      end
  (* ---- real TCP runs against a loopback target *)
  | L [A 12; A me; A capab], L [A status; A has_ns; A has_cause_i; A syn; A ackpsh; A accepted; L closes; A tuple_mismatch; A endpoint_mismatch; A drained; A foreign_hops; A leaked] =>
      let m := d_method me in
      let fault := if (capab <=? 1) || (capab =? 10) || (capab =? 11) then FNone else if capab =? 2 then FNoSackPermitted else if (capab =? 3) || (capab =? 9) then FAckWithoutSack
                   else if capab =? 4 then FDial injected else if capab =? 5 then FHandshakeNotCaptured else if capab =? 6 then FFilter injected
                   else if capab =? 7 then FSend injected else FRead injected in
      (* the SYN traceroute's own outcome under the injected fault (filter fault = 2nd install: never reached by SYN) *)
      let syn_out := match m with MSyn => if (capab =? 7) || (capab =? 8) then RErr (Wrap (Leaf injected)) else ROk | _ => ROk end in
      let r := perform m syn_out (sack_run fault) ROk in
      let cls := 5 + 8 * me + 64 * capab in
      let unavailable := (capab =? 2) || (capab =? 3) || (capab =? 4) || (capab =? 9) in
      let spec_fail : list Z :=
        if prop =? 20 then
          (if status =? 2 then [20; 9]
           else match m with
                | MSyn => if (accepted =? 0) && (ackpsh =? 0) then [] else [20; 2]                   (* syn: no TCP connection is ever opened *)
                | MSack => if (syn =? 0) && ((status =? 1) || (0 <? ackpsh)) then [] else [20; 1]     (* sack: a SACK trace or an error *)
                | MPrefer =>
                    if negb (Bool.eqb (0 <? syn) unavailable) then [20; 3]
                    else if (5 <=? capab) && (capab <=? 8) && negb ((status =? 1) && (has_ns =? 0) && ((capab =? 5) || (has_cause_i =? 1))) then [20; 4]
                    else []
                | _ => []
                end)
        else if prop =? 1 then
          (* the only inbound packets of these runs are handshake segments and time-exceeded errors quoting ANOTHER source
             port: no hop can be backed by a genuine reply *)
          (if foreign_hops =? 0 then [] else [1; 3])
        else if prop =? 6 then
          (* the source and destination endpoints a run reports are the ones of the probes it wrote *)
          (if endpoint_mismatch =? 0 then [] else [6; 5])
        else if prop =? 12 then
          (* the 4-tuple filter installed on a handle is the flow of the TCP probes written through that handle *)
          (if negb (tuple_mismatch =? 0) then [6; 3]
           (* installing a capture filter empties the socket first (SetBPFAndDrain): a reply of the target that was already
              captured - the SYN-ACK, which arrives while connect() is still in progress - must not be among what is thrown away *)
           else if negb (drained =? 0) then [6; 4] else [])
        else if prop =? 10 then
          (* every handle the run opened is closed exactly once and not used afterwards; a failure yields an error, with its cause *)
          (if negb (forallb (fun s => match s with L [A 1; A 1; A 0] => true | _ => false end) closes) then [10; 1]
           else if negb (leaked =? 0) then [10; 6]          (* a TCP connection the run dialled is still open after it returned *)
           else if (6 <=? capab) && (capab <=? 8) && (match m with MSyn => (7 <=? capab) | _ => true end) && negb ((status =? 1) && (has_cause_i =? 1)) then [10; 2]
           else [])
        else [] in
      match spec_fail with
      | _ :: _ => verdict V_SPECFAIL cls spec_fail (L [])
      | [] =>
          let merr := match fb_err r with Some _ => 1 | None => 0 end in
          let mns := match fb_err r with Some e => has_notsup e | None => false end in
          let mcause := match fb_err r with Some e => has_cause e injected | None => false end in
          if (status =? merr) && Bool.eqb (negb (has_ns =? 0)) mns
             && (Bool.eqb (negb (has_cause_i =? 0)) mcause || (capab =? 4))       (* the dial failure's cause is the OS error, not the lab's *)
             && Bool.eqb (0 <? syn) ((fb_syn_calls r =? 1) && negb ((capab =? 7) && (match m with MSyn => true | _ => false end)))
             && (accepted =? (if (fb_sack_calls r =? 1) && negb (capab =? 4) then 1 else 0))
          then verdict V_OK cls [] (L []) else verdict V_DIVERGE cls [] (L [A merr; of_bool mns; of_bool mcause; A (fb_syn_calls r); A (fb_sack_calls r)])
      end
  (* ---- one HTTP request end to end: the runs the handler starts are the ones the query states, and the response honours
          skip-private-hops (C17): the private first hop of the scripted path is in the document iff the flag is off *)
  | L [A 27; A pr; A me; A q; A e2e; A tmo; A mx; A port; A skip], L [A status; A nreg; A ne2e; L seen; A leak] =>
      match sx_zs seen with
      | Some seen =>
          let want := [tmo * 1000000; pr; me; mx; port; skip; common_DefaultMinTTL; common_DefaultDelay] in
          if (prop =? 17) && (status =? 0) && (skip =? 1) && (leak =? 1) then verdict V_SPECFAIL 2 [17; 3] (L [])
          else if (status =? 0) && (nreg =? q) && (ne2e =? e2e) && zl_eqb seen want && (leak =? 1 - skip) then verdict V_OK 2 [] (L [])
          else if prop =? 19 then verdict V_SPECFAIL 2 [19; 9] (L (map A want)) else verdict V_DIVERGE 2 [] (L (map A want))
      | None => badcase
      end
  (* ---- command-line flags: the runs started and the parameters they are started with are the ones the flags state *)
  | L [A 25; A pr; A me; A q; A e2e; A tmo; A mx; A port; A rdns; A skip], L [A status; A nreg; A ne2e; L seen] =>
      match sx_zs seen with
      | Some seen =>
          let want := [tmo * 1000000; pr; (if pr =? 1 then me else me); mx; port; rdns; skip; 0; common_DefaultMinTTL; common_DefaultDelay] in
          if (status =? 0) && (nreg =? q) && (ne2e =? e2e) && zl_eqb seen want then verdict V_OK 2 [] (L [])
          else if prop =? 19 then verdict V_SPECFAIL 2 [19; 12] (L (map A want)) else verdict V_DIVERGE 2 [] (L (map A want))
      | None => badcase
      end
  (* ---- the remaining HTTP query parameters: a well-formed value is handed on as given, anything else is the default *)
  | L [A 24; qtq; qtmo; qe2e; L qflags], L (A status :: rest) =>
      match opt_z qtq, opt_z qtmo, opt_z qe2e, dec_list opt_z qflags with
      | Some tq, Some tmo, Some e2e, Some flags =>
          let want_tq := q_int tq common_DefaultTracerouteQueries in
          let want_tmo := q_int tmo common_DefaultNetworkPathTimeout * 1000000 in
          let want_e2e := q_int e2e common_DefaultNumE2eProbes in
          let want_flags := map (fun f => q_int f 0) flags in
          match rest with
          | [A itq; A itmo; A ie2e; L iflags; A imin; A idelay] =>
              match sx_zs iflags with
              | Some iflags =>
                  let agree := (status =? 0) && (itq =? want_tq) && (itmo =? want_tmo) && (ie2e =? want_e2e) && zl_eqb iflags want_flags
                               && (imin =? common_DefaultMinTTL) && (idelay =? common_DefaultDelay) in
                  if agree then verdict V_OK 2 [] (L [])
                  else if (prop =? 19) && (status =? 0)
                          && (match tq with Some v => negb (itq =? v) | None => false end
                              || match tmo with Some v => negb (itmo =? v * 1000000) | None => false end
                              || match e2e with Some v => negb (ie2e =? v) | None => false end
                              || negb (forallb (fun ab => match fst ab with Some v => snd ab =? v | None => true end) (combine flags iflags)))
                       then verdict V_SPECFAIL 2 [19; 9] (L [A want_tq; A want_tmo; A want_e2e])
                  else verdict V_DIVERGE 2 [] (L [A want_tq; A want_tmo; A want_e2e; L (map A want_flags)])
              | None => badcase
              end
          | _ => verdict V_DIVERGE 2 [] (L [])
          end
      | _, _, _, _ => badcase
      end
  (* ---- the endpoint an HTTP query's target text stands for (address, explicit port or the port parameter or the default)
          is the endpoint the request would probe *)
  | L [A 23; raw; want; A explicit; qport], L [A status; A estatus; got; A gport] =>
      match sx_bytes want, sx_bytes got, opt_z qport with
      | Some want, Some got, Some qp =>
          let qd := q_int qp default_port in
          let port := if 0 <=? explicit then explicit else if qd =? 0 then default_port else qd in
          if (status =? 0) && (estatus =? 0) && list_eqb Z.eqb want got && (gport =? port) then verdict V_OK 7 [] (L [])
          else if prop =? 19 then verdict V_SPECFAIL 7 [19; 11] (L [A port]) else verdict V_DIVERGE 7 [] (L [A port])
      | _, _, _ => badcase
      end
  (* ---- which TCP method each run of a whole request is handed (RunTraceroute -> per-run seam) *)
  | L [A 22; A pr; A me; A q; A n], L [A status; L regs; L e2es] =>
      match sx_zs regs, sx_zs e2es with
      | Some regs, Some e2es =>
          let p := mkRP (d_proto pr) 1 5 443 (d_method me) in
          let cls := 6 + 8 * me + 64 * pr in
          let want_reg := repeat me (Z.to_nat q) in
          let want_e2e := repeat (e_method (rp_method (e2e_params p))) (Z.to_nat n) in
          let spec_fail : list Z :=
            if (prop =? 20) || (prop =? 19) then
              (if status =? 2 then [20; 9]
               (* every traceroute run of the request is started with the requested method (sack stays sack, prefer_sack stays
                  prefer_sack: the per-run policy then decides) *)
               else if negb (zl_eqb regs want_reg) then [20; 5]
               (* end-to-end probes use SYN whatever the method *)
               else if (pr =? 1) && existsb (fun m => (m =? 2) || (m =? 3)) e2es then [20; 6]
               else [])
            else [] in
          match spec_fail with
          | _ :: _ => verdict V_SPECFAIL cls spec_fail (L [])
          | [] => if (status =? 0) && zl_eqb regs want_reg && zl_eqb e2es want_e2e then verdict V_OK cls [] (L [])
                  else verdict V_DIVERGE cls [] (L [L (map A want_reg); L (map A want_e2e)])
          end
      | _, _ => badcase
      end
  | _, _ => badcase
  end.
