(** Correspondence + spec search for the engine lab (properties C03, C05e, C06b, C07, C08e):
    one case = the real TracerouteParallel/TracerouteSerial run under a virtual
    clock against a scripted network. *)
From Coq Require Import List ZArith Bool.
From TR Require Import Lib.Sx Eng.Engine Eng.Timed Spec.C03 Spec.C07 Spec.C08 Spec.C06b.
Import ListNotations.
Open Scope Z_scope.

Definition dec_entry (s : sx) : option entry :=
  match s with
  | L [A t; A d; A ip; A de; A k] => Some (mkEntry t d ip (negb (de =? 0)) k)
  | _ => None
  end.

Fixpoint dec_list {T} (f : sx -> option T) (l : list sx) : option (list T) :=
  match l with
  | [] => Some []
  | x :: r => match f x, dec_list f r with Some a, Some b => Some (a :: b) | _, _ => None end
  end.

Definition dec_hop (s : sx) : option hop :=
  match s with
  | L [A t; A has; A ip; A rtt; A d] => Some (mkHop t (if has =? 0 then None else Some ip) rtt (negb (d =? 0)))
  | _ => None
  end.

Definition dec_probe (s : sx) : option probe :=
  match s with
  | L [A t; A ip; A rtt; A d] => Some (mkProbe t ip rtt (negb (d =? 0)))
  | _ => None
  end.

Definition dec_send (s : sx) : option (Z * Z) :=
  match s with L [A t; A a] => Some (t, a) | _ => None end.

Definition hop_eqb (a b : hop) : bool :=
  (h_ttl a =? h_ttl b)
  && match h_ip a, h_ip b with Some x, Some y => x =? y | None, None => true | _, _ => false end
  && (Z.abs (h_rtt a - h_rtt b) <=? 1)        (* ns -> float ms -> ns round trip *)
  && Bool.eqb (h_dest a) (h_dest b).

Definition probe_eqb (a b : probe) : bool :=
  (p_ttl a =? p_ttl b) && (p_ip a =? p_ip b) && (p_rtt a =? p_rtt b) && Bool.eqb (p_dest a) (p_dest b).

Definition send_eqb (a b : Z * Z) : bool := (fst a =? fst b) && (snd a =? snd b).

Fixpoint list_eqb {T} (f : T -> T -> bool) (a b : list T) : bool :=
  match a, b with
  | [], [] => true
  | x :: a', y :: b' => f x y && list_eqb f a' b'
  | _, _ => false
  end.

Definition enc_hop (h : hop) : sx :=
  L [A (h_ttl h); A (match h_ip h with Some _ => 1 | None => 0 end); A (match h_ip h with Some x => x | None => 0 end); A (h_rtt h); of_bool (h_dest h)].
Definition enc_probe (p : probe) : sx := L [A (p_ttl p); A (p_ip p); A (p_rtt p); of_bool (p_dest p)].
Definition enc_send (x : Z * Z) : sx := L [A (fst x); A (snd x)].

(** hops with the float conversion undone: rtt unchanged *)
Definition snap_rtt (acc : list probe) (h : hop) : hop :=
  (* the hop's rtt went through float64 ms; snap it to the accepted reply it is within 1 ns of *)
  match find (fun p => (p_ttl p =? h_ttl h) && (Z.abs (p_rtt p - h_rtt h) <=? 1) && (match h_ip h with Some a => p_ip p =? a | None => false end)) acc with
  | Some p => mkHop (h_ttl h) (h_ip h) (p_rtt p) (h_dest h)
  | None => h
  end.

(** C02/C07 engine part, parallel engine: a reply that became readable at least one poll interval
    before the deadline, for a TTL that was probed, was accepted by the receiver *)
Definition accepted_completeb (p : tparams) (script : list entry) (sends : list (Z * Z)) (acc : list probe) : bool :=
  forallb (fun e =>
    if e_kind e =? 0 then
      match lookup sends (e_ttl e) with
      | Some s => if s + e_delay e + tp_poll p <=? pdeadline p
                  then existsb (fun q => (p_ttl q =? e_ttl e) && (p_ip q =? e_ip e) && Bool.eqb (p_dest q) (e_dest e) && (p_rtt q - e_delay e <? tp_poll p + 1) && (e_delay e <=? p_rtt q)) acc
                  else true
      | None => true
      end
    else true) script.

Definition check_eng (prop : Z) (inp impl : sx) : sx :=
  match inp, impl with
  | L [A 1; A ser; A first; A last; A timeout; A poll; A delay; L script; A cancel_at],
    L [A status; L hops; L acc; L sends; A elapsed] =>
      match dec_list dec_entry script, dec_list dec_hop hops, dec_list dec_probe acc, dec_list dec_send sends with
      | Some script, Some hops0, Some acc, Some sends =>
          let serial := negb (ser =? 0) in
          let p := mkTP first last timeout poll delay in
          let hops := map (snap_rtt acc) hops0 in
          let cls := (if serial then 1 else 0) + 2 * Z.min 7 (Z.of_nat (length acc)) + 16 * (if existsb p_dest acc then 1 else 0) in
          (* --- spec search on the implementation's own observables *)
          let valid_all := forallb (valid_probe first last) acc in
          let natural := if serial then serial_run p script else parallel_run p script in
          (* the caller's context is cancelled before the run would have ended by itself *)
          let cut_short := (0 <? cancel_at) && match natural with TDone r => cancel_at <? tr_elapsed r | _ => false end in
          if (0 <? cancel_at) && match natural with TDone _ => false | _ => true end
          then verdict V_OK (cls + 192) [] (L [])   (* cancellation combined with an engine error / tie: not compared *)
          else if cut_short then
            (* C08: the cancellation error, within one poll interval plus one send delay *)
            (if (status =? 4) && (elapsed <=? cancel_at + poll + delay) then verdict V_OK (cls + 128) [] (L [])
             else if prop =? 8 then verdict V_SPECFAIL (cls + 128) [8; 1] (L [])
             else if status =? 4 then verdict V_OK (cls + 128) [] (L [])
             else verdict V_DIVERGE (cls + 128) [] (L [A (-5)]))
          else
          let spec_fail : list Z :=
            if status =? 3 then [10]                          (* the engine panicked *)
            else if negb (status =? 0) then (if valid_all then [9] else [])   (* a run whose accepted replies are all in range must succeed *)
            else if negb valid_all then [3; 1]                (* a reply outside the probed TTL range produced a path instead of an error *)
            else if prop =? 3 then (if shapeb first last acc hops then [] else [3])
            else if (prop =? 7) || (prop =? 4) then
              (if negb (merge_specb acc hops && (Z.of_nat (length hops) <=? last - first + 1)) then [7]
               (* the list is the function of the accepted replies that the merge rule and the path shape define: it ends at the
                  LOWEST TTL the destination answered, whatever the order the replies were read in *)
               else if (prop =? 7) && negb (shapeb first last acc hops) then [7; 4]
               else if negb serial && (cancel_at =? 0) && negb (accepted_completeb p script sends acc) then [7; 2] else [])
            else if prop =? 2 then (if negb serial && (cancel_at =? 0) && negb (accepted_completeb p script sends acc) then [2; 3] else [])
            else if prop =? 8 then (if elapsed_okb serial p elapsed then [] else [8])
            else if prop =? 6 then
              (let rogue := fun q => existsb (fun e => (e_kind e =? 2) && (e_ttl e =? p_ttl q) && (e_ip e =? p_ip q) && Bool.eqb (e_dest e) (p_dest q)) script in
               if sends_okb rogue p sends acc then [] else [6])
            else if prop =? 5 then (if merge_specb acc hops && forallb (fun q => 0 <=? p_rtt q) acc then [] else [5])
            else [] in
          match spec_fail with
          | _ :: _ => verdict V_SPECFAIL cls spec_fail (L [])
          | [] =>
              (* --- model = implementation *)
              match natural with
              | TTie => verdict V_OK (cls + 64) [] (L [])       (* simultaneous events: order undefined, case skipped *)
              | TDone r =>
                  let mh := match tr_slots r with Some s => to_hops first s | None => None end in
                  match mh with
                  | Some mh =>
                      (* projected observables per property: path and accepted replies always;
                         the send log for C06, elapsed time for C08 *)
                      if (status =? 0) && list_eqb hop_eqb mh hops && list_eqb probe_eqb (tr_accepted r) acc
                         && (negb (prop =? 6) || list_eqb send_eqb (tr_sends r) sends)
                         && (negb (prop =? 8) || (tr_elapsed r =? elapsed))
                      then verdict V_OK cls [] (L [])
                      else verdict V_DIVERGE cls [] (L [L (map enc_hop mh); L (map enc_probe (tr_accepted r)); L (map enc_send (tr_sends r)); A (tr_elapsed r)])
                  | None => verdict V_DIVERGE cls [] (L [A (-1)])
                  end
              | TError macc =>
                  if negb (status =? 0) && list_eqb probe_eqb macc acc then verdict V_OK (cls + 32) [] (L [])
                  else verdict V_DIVERGE cls [] (L [A (-4); L (map enc_probe macc)])
              | TFail => verdict V_DIVERGE cls [] (L [A (-2)])
              | TOutOfFuel => verdict V_DIVERGE cls [] (L [A (-3)])
              end
          end
      | _, _, _, _ => badcase
      end
  | _, _ => badcase
  end.
