(** Correspondence + spec search for the driver lab (C01, C02, C04, C05, C06, C09): one case = one
    SendProbe / ReceiveProbe / ReadHandshake of a real driver over the simulated wire. *)
From Coq Require Import List ZArith Bool.
From TR Require Import Lib.Sx Lib.Bytes Wire.Decode Wire.Build Drv.Drivers Drv.Handshake Spec.C01 Spec.C06 Run.Eng Bpf.Vm Spec.C12 Generated.BpfProgs.
Import ListNotations.
Open Scope Z_scope.

Definition d_cfg (s : sx) : option cfg :=
  match s with
  | L [A var; A first; A last; loc; tgt; A sp; A dp; A lo; A eid; A paris; A bid; A seq; A iseq; A iack; A hts; A tsv; A tse] =>
      match sx_bytes loc, sx_bytes tgt with
      | Some loc, Some tgt =>
          Some (mkCfg (if var =? 0 then VIcmp else if var =? 1 then VUdp else if var =? 2 then VTcp else VSack)
                      first last loc tgt sp dp (negb (lo =? 0)) eid (negb (paris =? 0)) bid seq iseq iack (negb (hts =? 0)) tsv tse)
      | _, _ => None
      end
  | _ => None
  end.

Definition d_sendrec (s : sx) : option (Z * Z * Z) :=
  match s with L [A t; A now; A rnd] => Some (t, now, rnd) | _ => None end.

(** replay the sends to rebuild the driver's table *)
Fixpoint replay (c : cfg) (st : dstate) (l : list (Z * Z * Z)) : dstate :=
  match l with
  | [] => st
  | (t, now, rnd) :: r => match send c st t now rnd with SendOk st' _ => replay c st' r | SendErr => replay c st r end
  end.

Definition enc_outcome (o : outcome) : sx :=
  match o with
  | Hop t ip r d => L [A 1; A t; of_bytes ip; of_bool d; A r]
  | Skip => L [A 0]
  | NotSupported => L [A 2]
  | Fatal => L [A 3]
  end.

(** the frame as the AF_PACKET source sees it: Ethernet header + IP packet *)
Definition ether (ip : bytes) : bytes :=
  [2; 0; 0; 0; 0; 1; 2; 0; 0; 0; 0; 2] ++ (match ip with v :: _ => if v / 16 =? 6 then [134; 221] else [8; 0] | [] => [8; 0] end) ++ ip.

Definition addr32 (a : bytes) : Z := match a with [w; x; y; z] => be32 w x y z | _ => 0 end.

(** the capture filter the protocol's entry point installs (packets/cbpf_filters.go, tcp_filter.go), from the
    programs regenerated from the source on this run; None: no filter exists for this family *)
Definition installed_filter (c : cfg) : option (list instr) :=
  match c_variant c with
  | VIcmp | VUdp => Some (prog_of raw_icmp)
  | VTcp | VSack => if is_v6 c then None else Some (prog_of (raw_tcp4 (addr32 (c_target c)) (addr32 (c_local c)) (c_dport c) (c_sport c)))
  end.

(** the SetPacketFilter calls the model assumes of each entry point, in order: (type, Src = target endpoint,
    Dst = local endpoint); compared with the source on every run (Generated/FilterUse.v) *)
Definition model_filter_use (v : variant) : list (ftype * bool * bool) :=
  match v with
  | VIcmp | VUdp => [(FT_ICMP, false, false)]
  | VTcp => [(FT_TCP, true, true)]
  | VSack => [(FT_SYNACK, true, false); (FT_TCP, true, true)]
  end.

Definition filter_passes (c : cfg) (frame : bytes) : option bool :=
  match installed_filter c with Some p => Some (accepts p (ether frame)) | None => None end.

(** IPv6 with a hop-by-hop header first: the one frame shape recorded as a known finding *)
Definition v6_hop_by_hop (frame : bytes) : bool :=
  match frame with v :: _ => (v / 16 =? 6) && (nth 6 frame (-1) =? 0) | [] => false end.

Definition variant_code (c : cfg) : Z := match c_variant c with VIcmp => 0 | VUdp => 1 | VTcp => 2 | VSack => 3 end.

Definition check_drv (prop : Z) (inp impl : sx) : sx :=
  match inp with
  | L [A 7; cfgs; L sends; op] =>
      match d_cfg cfgs, dec_list d_sendrec sends with
      | Some c, Some sends =>
          let st := replay c [] sends in
          let vc := variant_code c + (if is_v6 c then 4 else 0) in
          match op, impl with
          (* ---------------- SendProbe *)
          | L [A 0; A ttl; A now; A rnd], L [A ok; pkt] =>
              match sx_bytes pkt with
              | Some pkt =>
                  let cls := 8 + vc in
                  let m := send c st ttl now rnd in
                  let spec_fail : list Z :=
                    if (prop =? 6) && negb (ok =? 0) then
                      (if negb (probe_wf c ttl pkt) then [6; 1]                       (* malformed / wrong TTL / bad length or checksum *)
                       else if negb (probe_flow_ok c pkt) then [6; 2]                  (* flow fields differ from the run's *)
                       else if negb (wire_id_ok c ttl rnd pkt) then [6; 3]              (* the identifier on the wire is not this TTL's (injective) per-probe identifier *)
                       else if existsb (fun s => negb (s_ttl s =? ttl) && probe_id_clash c s ttl rnd) st then [6; 3]   (* identifier shared with the probe of another TTL *)
                       else [])
                    else if (prop =? 19) && negb (ok =? 0) && negb (probe_ttl_byte pkt =? ttl) then [19; 1]
                    (* C09: the first send of an in-range TTL fails - the only thing that happened to the driver since its
                       last send is inbound packets, and a failed SendProbe aborts the run *)
                    else if (prop =? 9) && (ok =? 0) && in_ttl_range c ttl && negb (existsb (fun s => s_ttl s =? ttl) st)
                            && (match m with SendOk _ _ => true | SendErr => false end) then [9; 4]
                    else [] in
                  match spec_fail with
                  | _ :: _ => verdict V_SPECFAIL cls spec_fail (L [])
                  | [] =>
                      match m with
                      | SendOk _ mp => if negb (ok =? 0) && bytes_eqb mp pkt then verdict V_OK cls [] (L []) else verdict V_DIVERGE cls [] (of_bytes mp)
                      | SendErr => if ok =? 0 then verdict V_OK cls [] (L []) else verdict V_DIVERGE cls [] (L [A (-1)])
                      end
                  end
              | None => badcase
              end
          (* ---------------- ReceiveProbe *)
          | L [A 1; A now; frame; A exp_ttl; exp_ip], L [A cls_i; A ttl_i; ip_i; A dest_i; A rtt_i; A fpass] =>
              match sx_bytes frame, sx_bytes ip_i, sx_bytes exp_ip with
              | Some frame, Some ip_i, Some exp_ip =>
                  let pv := frame_parse frame in
                  let cls := 16 + vc + 32 * cls_i + (if 0 <=? exp_ttl then 256 else 0) in
                  let dest := negb (dest_i =? 0) in
                  let spec_fail : list Z :=
                    (* C09: nothing the capture layer can deliver crashes or aborts; SACK's one permitted early end *)
                    if cls_i =? 4 then [9; 1]
                    else if (cls_i =? 3) && negb (match frame with [] => true | _ => false end)
                            && negb (match c_variant c, st with VTcp, [] => true | _, _ => false end) then [9; 2]
                    else if (cls_i =? 2) && negb (match c_variant c, pv with
                                                  | VSack, PView v => match v_l4 v with
                                                                      | L4Tcp tc => from_target_to_local c v && (t_sport tc =? c_dport c) && (t_dport tc =? c_sport c)
                                                                                    && negb (t_syn tc || t_fin tc || t_rst tc)
                                                                                    && match min_sack (c_init_seq c) (t_opts tc) with None => true | Some _ => false end
                                                                      | _ => false end
                                                  | _, _ => false end) then [9; 3]
                    else if cls_i =? 1 then
                      match pv with
                      | PView v =>
                          (* C01: a hop is backed by a genuine reply to the probe with that TTL, sent by that address *)
                          if ((prop =? 1) || (prop =? 11) || (prop =? 5)) && negb (genuine c st v ttl_i && bytes_eqb (v_src v) ip_i) then [1]
                          (* C04: destination flag iff proof of arrival *)
                          else if ((prop =? 4) || (prop =? 3)) && negb (Bool.eqb dest (proof_of_arrival c v)) then [4]
                          (* C05: the RTT is measured against that same probe's send time, never negative *)
                          else if (prop =? 5) && negb ((0 <=? rtt_i) && existsb (fun s => (s_ttl s =? ttl_i) && (rtt_i =? now - s_time s)) st) then [5]
                          else []
                      | _ => [1; 9]          (* a hop from bytes that do not even parse *)
                      end
                    (* C02: every catalogue form is recognised as the hop of its probe, with the responder's address *)
                    else if (prop =? 2) && (0 <=? exp_ttl) then [2]
                    else if (prop =? 2) && (exp_ttl =? -2) && negb (cls_i =? 2) then [2; 2]
                    else [] in
                  let spec_fail := if (prop =? 2) && (0 <=? exp_ttl) && (cls_i =? 1) && negb ((ttl_i =? exp_ttl) && bytes_eqb ip_i exp_ip) then [2; 1] else spec_fail in
                  (* C11: a reply to another concurrent run's probe never becomes a hop of this run (relaxed quoted-source
                     checking to one target is the stated residue: such runs are told apart by the ISN only) *)
                  let spec_fail := match spec_fail with
                                   | _ :: _ => spec_fail
                                   | [] => if (prop =? 11) && (exp_ttl =? -4) && (cls_i =? 1) && negb (c_loosen c) then [11; 1] else []
                                   end in
                  (* C12 (and C02 for the catalogue forms): the installed capture filter lets through every frame the matcher turns into a hop *)
                  let spec_fail := match spec_fail with
                                   | _ :: _ => spec_fail
                                   | [] => if (cls_i =? 1) && (fpass =? 0) && ((prop =? 12) || ((prop =? 2) && (0 <=? exp_ttl)))
                                           then (if v6_hop_by_hop frame then [6; 0] else [6; 1]) else []
                                   end in
                  match spec_fail with
                  | _ :: _ => verdict V_SPECFAIL cls spec_fail (enc_outcome (recv c st frame now))
                  | [] =>
                      let m := recv c st frame now in
                      let agree :=
                        match m with
                        | Hop t ip r d => (cls_i =? 1) && (t =? ttl_i) && bytes_eqb ip ip_i && Bool.eqb d dest && ((negb (prop =? 5)) || (r =? rtt_i))
                        | Skip => cls_i =? 0
                        | NotSupported => cls_i =? 2
                        | Fatal => cls_i =? 3
                        end in
                      let fagree := if prop =? 12 then match filter_passes c frame with
                                                         | Some b => Bool.eqb b (negb (fpass =? 0)) && negb (fpass =? -2)
                                                         | None => fpass =? -2 end else true in
                      if agree && fagree then verdict V_OK cls [] (L []) else verdict V_DIVERGE cls [] (enc_outcome m)
                  end
              | _, _, _ => badcase
              end
          (* ---------------- SACK ReadHandshake *)
          | L [A 2; A now; L frames], L [A status; A iseq; A iack; A hts; A tsv; A tse; L fverd] =>
              match dec_list sx_bytes frames with
              | Some frames =>
                  let cls := 24 + vc + 32 * status in
                  let m := read_handshake c frames in
                  if (prop =? 9) && (status =? 4) then verdict V_SPECFAIL cls [9; 1] (L [])
                  (* C12: the SYN-ACK that establishes the handshake passes the SYN-ACK capture filter *)
                  else if (prop =? 12) && (status =? 1)
                          && negb (existsb (fun fv => match fv with
                                                      | (f, A v) => negb (v =? 0) && match frame_parse f with
                                                                                     | PView vw => match handle_handshake c vw with HDone _ => true | _ => false end
                                                                                     | _ => false end
                                                      | _ => false end) (combine frames fverd))
                  then verdict V_SPECFAIL cls [6; 2] (L [])
                  else
                  let agree :=
                    match m with
                    | HEstablished s => (status =? 1) && (hs_init_seq s =? iseq) && (hs_init_ack s =? iack) && Bool.eqb (hs_has_ts s) (negb (hts =? 0))
                                        && (hs_tsval s =? tsv) && (hs_tsecr s =? tse)
                    | HNotSupported => status =? 2
                    | HTimeout | HError => status =? 3
                    end in
                  if agree then verdict V_OK cls [] (L []) else verdict V_DIVERGE cls [] (L [A (match m with HEstablished _ => 1 | HNotSupported => 2 | HTimeout => 30 | HError => 31 end)])
              | None => badcase
              end
          | _, _ => badcase
          end
      | _, _ => badcase
      end
  | _ => badcase
  end.

(** ---- kind 19: the real sackDriver.ReadHandshake under the virtual clock, frames arriving over time *)
Definition d_tframe (s : sx) : option (Z * bytes) :=
  match s with L [A a; f] => match sx_bytes f with Some b => Some (a, b) | None => None end | _ => None end.

Definition check_hs_timed (prop : Z) (inp impl : sx) : sx :=
  match inp, impl with
  | L [A 19; cfgs; L frames], L [A status; A elapsed] =>
      match d_cfg cfgs, dec_list d_tframe frames with
      | Some c, Some fr =>
          let cls := 1 + 2 * Z.min 15 (Z.of_nat (length fr)) in
          (* C08: the handshake read returns within its timeout whatever arrives *)
          if (prop =? 8) && (handshake_read_timeout <? elapsed) then verdict V_SPECFAIL cls [8; 3] (L [])
          else
            let m := read_handshake_timed c handshake_read_timeout fr in
            let ok := match fst m with HEstablished _ => status =? 1 | HNotSupported => status =? 2 | HTimeout | HError => status =? 3 end in
            if ok && (snd m =? elapsed) then verdict V_OK cls [] (L [])
            else verdict V_DIVERGE cls [] (L [A (snd m)])
      | _, _ => badcase
      end
  | _, _ => badcase
  end.
