(** Dispatch table of the correspondence checks: property number, then the
    lab kind tag that leads every case input. *)
From Coq Require Import List ZArith Bool.
From TR Require Import Lib.Sx Run.C12 Run.Eng Run.Doc Run.Pol Run.Drv Run.Par Run.Iso Run.Life Run.Kern.
Import ListNotations.
Open Scope Z_scope.

Definition kind_of (inp : sx) : Z := match inp with L (A k :: _) => k | _ => -1 end.

Definition check (prop : Z) (inp impl : sx) : sx :=
  if (prop =? 12) && ((kind_of inp =? 1) || (kind_of inp =? 30)) then check_c12 inp impl
  else match kind_of inp with
       | 1 => check_eng prop inp impl
       | 2 | 31 => check_doc prop inp impl
       | 3 | 4 | 5 | 6 | 28 => check_pol prop inp impl
       | 7 => check_drv prop inp impl
       | 8 | 9 | 10 | 11 | 12 | 22 | 23 | 24 | 25 | 27 => check_par prop inp impl
       | 13 | 14 | 26 => check_iso prop inp impl
       | 18 => check_shared prop inp impl
       | 19 => check_hs_timed prop inp impl
       | 21 => check_req prop inp impl
       | 15 | 16 | 29 => check_life prop inp impl
       | 17 => check_kern prop inp impl
       | _ => badcase
       end.
