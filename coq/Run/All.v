(** Dispatch table of the correspondence checks (one per property). *)
From Coq Require Import List ZArith.
From TR Require Import Lib.Sx Run.C12.
Import ListNotations.
Open Scope Z_scope.

Definition check (prop : Z) (inp impl : sx) : sx :=
  match prop with
  | 12 => check_c12 inp impl
  | _ => badcase
  end.
