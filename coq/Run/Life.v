(** Correspondence + spec search for the lifecycle lab (C10): a real protocol entry point over the simulated
    wire with one injected fault. *)
From Coq Require Import List ZArith Bool.
From TR Require Import Lib.Sx Pol.Lifecycle Run.Eng.
Import ListNotations.
Open Scope Z_scope.

Definition d_lop (z : Z) : lop := if z =? 0 then LOpen else if z =? 1 then LFilter else if z =? 2 then LSend else if z =? 3 then LDeadline else LRead.
Definition d_class (z : Z) : fclass := if z =? 0 then FFatal else if z =? 1 then FDeadline else FZero.

Definition mk_plan (ns nd nr : Z) : list lop :=
  repeat LSend (Z.to_nat ns) ++ repeat LDeadline (Z.to_nat nd) ++ repeat LRead (Z.to_nat nr).

Definition check_life (prop : Z) (inp impl : sx) : sx :=
  match inp, impl with
  | L [A 15; A variant; L [A ns; A nd; A nr]; A op; A k; A class], L [A status; A kept; A res_nil; L handles; A fd_leak; A fired] =>
      let f := mkFault (d_lop op) k (d_class class) in
      let cls := 1 + 2 * variant + 16 * op + 128 * class in
      let hs_ok := forallb (fun s => match s with L [A 1; A 1; A 0] => true | _ => false end) handles in
      let spec_fail : list Z :=
        if negb (prop =? 10) then []
        else if status =? 2 then [10; 9]
        else if negb (fd_leak =? 0) then [10; 7]                                   (* a socket the run opened itself (local-address UDP socket, port reservation) is still open after it returned *)
        else if negb hs_ok then [10; 1]                                            (* a handle not closed exactly once, or used after its close / by a goroutine that outlived the call *)
        else if (status =? 0) && (class =? 0) && (0 <? fired) then [10; 8]          (* a fatal failure of a handle operation was returned to the run, and the run reported success (a partial path) *)
        else if (status =? 1) && (res_nil =? 0) then [10; 3]                       (* an error together with a (partial) result *)
        else if (status =? 0) && (res_nil =? 1) then [10; 3]
        else if (status =? 1) && negb (class =? 2) && (kept =? 0) then [10; 2]      (* the error does not wrap the underlying cause *)
        else [] in
      match spec_fail with
      | _ :: _ => verdict V_SPECFAIL cls spec_fail (L [])
      | [] =>
          let '(r, h) := run_entry (mk_plan ns nd nr) f in
          let agree :=
            match r with
            | LOk => (status =? 0)
            | LErr kp => (status =? 1) && Bool.eqb kp (negb (kept =? 0))
            end
            && (if h_opened h then Nat.eqb (length handles) 1 else Nat.eqb (length handles) 0) in
          if agree then verdict V_OK cls [] (L []) else verdict V_DIVERGE cls [] (L [A (match r with LOk => 0 | LErr true => 1 | LErr false => 2 end)])
      end
  (* the caller's context ends while the run is under way: the run may or may not honour it (the serial engine's drivers
     finish their hop first), but what it returns is an error XOR a result, and every handle is closed once with no operation
     of the run still executing on it *)
  | L [A 29; A variant; A tcancel], L [A status; A _; A res_nil; L handles; A fd_leak] =>
      let cls := 3 + 4 * variant + 32 * Z.min 7 (tcancel / 50000000) in
      let hs_ok := forallb (fun s => match s with L [A 1; A 1; A 0] => true | _ => false end) handles in
      if negb (prop =? 10) then verdict V_OK cls [] (L [])
      else if status =? 2 then verdict V_SPECFAIL cls [10; 9] (L [])
      else if negb (fd_leak =? 0) then verdict V_SPECFAIL cls [10; 7] (L [])
      else if negb hs_ok then verdict V_SPECFAIL cls [10; 1] (L [])
      else if negb (Bool.eqb (status =? 1) (res_nil =? 1)) then verdict V_SPECFAIL cls [10; 3] (L [])
      else if Nat.eqb (length handles) 1 then verdict V_OK cls [] (L []) else verdict V_DIVERGE cls [] (L [])
  | L [A 16; A serial; A k; A dur; A dd], L [A status; A kept; A res_nil] =>
      (* the k-th SendProbe fails after [dur] in flight; the destination answers TTL 1 after [dd] *)
      let reached := if serial =? 0 then (k =? 1) || ((k - 1) * 10000000 <? dd)
                     else (k =? 1) || ((250000000 <? dd) && (k <=? 2)) in
      let cls := 2 + 4 * k + (if serial =? 0 then 0 else 64) in
      if (prop =? 10) && reached && negb ((status =? 1) && (kept =? 1) && (res_nil =? 1)) then verdict V_SPECFAIL cls [10; 4] (L [])
      else if (prop =? 10) && (status =? 1) && negb ((kept =? 1) && (res_nil =? 1)) then verdict V_SPECFAIL cls [10; 2] (L [])
      else if Bool.eqb reached (status =? 1) then verdict V_OK cls [] (L []) else verdict V_DIVERGE cls [] (of_bool reached)
  | _, _ => badcase
  end.
