(** List primitives the expression translator (tools/goextract/exprs.go) maps Go slice operations to. *)
From Coq Require Import List ZArith Bool.
Import ListNotations.
Open Scope Z_scope.

(** slices.IndexFunc: index of the first element satisfying [f], -1 if there is none *)
Fixpoint gx_index_func {A} (f : A -> bool) (l : list A) : Z :=
  match l with
  | [] => -1
  | x :: r => if f x then 0 else let i := gx_index_func f r in if i =? -1 then -1 else i + 1
  end.
