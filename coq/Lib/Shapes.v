(** Vocabulary of the structural facts tools/goextract/structure.go extracts (Generated/Structure.v). *)
Inductive pstep := PS_Enrich | PS_Normalize | PS_Redact | PS_Other.
Inductive pguard := G_None | G_ReverseDns | G_SkipPrivate | G_Other.
