(** Generic S-expression carrier used by the correspondence check.
    The Go harness writes cases as S-expressions; the model's [check_*]
    functions decode them, run the model and the executable spec, and encode
    a verdict.  The same Gallina code is run extracted (volume path) and by
    [vm_compute] inside coqc (kernel path). *)
From Coq Require Import List ZArith Bool.
Import ListNotations.
Open Scope Z_scope.

Inductive sx : Type :=
| A (z : Z)
| L (l : list sx).

Definition sx_z (s : sx) : option Z := match s with A z => Some z | L _ => None end.
Definition sx_l (s : sx) : option (list sx) := match s with L l => Some l | A _ => None end.

Fixpoint sx_zs (l : list sx) : option (list Z) :=
  match l with
  | [] => Some []
  | A z :: r => match sx_zs r with Some zs => Some (z :: zs) | None => None end
  | L _ :: _ => None
  end.

Definition sx_bytes (s : sx) : option (list Z) :=
  match s with L l => sx_zs l | A _ => None end.

Definition sx_bool (s : sx) : option bool :=
  match s with A z => Some (negb (z =? 0)) | L _ => None end.

Definition of_bool (b : bool) : sx := A (if b then 1 else 0).
Definition of_bytes (l : list Z) : sx := L (map A l).
Definition of_nat (n : nat) : sx := A (Z.of_nat n).

Fixpoint sx_eqb (a b : sx) {struct a} : bool :=
  match a, b with
  | A x, A y => x =? y
  | L xs, L ys =>
      (fix go (xs ys : list sx) {struct xs} : bool :=
         match xs, ys with
         | [], [] => true
         | x :: xs', y :: ys' => sx_eqb x y && go xs' ys'
         | _, _ => false
         end) xs ys
  | _, _ => false
  end.

(** Verdict codes returned by every [check_*] function. *)
Definition V_OK : Z := 0.        (* model = implementation and the spec holds of the implementation's output *)
Definition V_DIVERGE : Z := 1.   (* model and implementation disagree on the projected observables *)
Definition V_SPECFAIL : Z := 2.  (* the executable spec is false of what the implementation did: a concrete failing input *)
Definition V_BADCASE : Z := 3.   (* the case could not be decoded (harness error) *)

(** verdict = (code class signature detail) ; [class] is used for the
    distinct/non-trivial statistics, [signature] (a list of small integers
    naming the failing shape) for the known-findings lookup. *)
Definition verdict (code cls : Z) (sig : list Z) (detail : sx) : sx :=
  L [A code; A cls; of_bytes sig; detail].

Definition badcase : sx := verdict V_BADCASE 0 [] (L []).

(** option-monad notation for decoders *)
Notation "'do' x <- e ; k" := (match e with Some x => k | None => None end)
  (at level 200, x pattern, e at level 100, k at level 200, right associativity).

Definition nth_sx (l : list sx) (n : nat) : option sx := nth_error l n.
