(** Byte strings as [list Z], big-endian field helpers. *)
From Coq Require Import List ZArith Lia Bool.
Import ListNotations.
Open Scope Z_scope.

Definition bytes := list Z.
Definition byte_ok (b : Z) : Prop := 0 <= b < 256.
Definition bytes_ok (l : bytes) : Prop := Forall byte_ok l.
Definition byte_okb (b : Z) : bool := (0 <=? b) && (b <? 256).
Definition bytes_okb (l : bytes) : bool := forallb byte_okb l.

Definition len (l : bytes) : Z := Z.of_nat (length l).

Definition be16 (a b : Z) : Z := 256 * a + b.
Definition be32 (a b c d : Z) : Z := 16777216 * a + 65536 * b + 256 * c + d.
Definition hi8 (x : Z) : Z := (x / 256) mod 256.
Definition lo8 (x : Z) : Z := x mod 256.
Definition enc16 (x : Z) : bytes := [hi8 x; lo8 x].
Definition enc32 (x : Z) : bytes := [(x / 16777216) mod 256; (x / 65536) mod 256; (x / 256) mod 256; x mod 256].

Definition u8 (x : Z) : Z := x mod 256.
Definition u16 (x : Z) : Z := x mod 65536.
Definition u32 (x : Z) : Z := x mod 4294967296.

Definition takez (n : Z) (l : bytes) : bytes := firstn (Z.to_nat n) l.
Definition dropz (n : Z) (l : bytes) : bytes := skipn (Z.to_nat n) l.

Fixpoint bytes_eqb (a b : bytes) : bool :=
  match a, b with
  | [], [] => true
  | x :: a', y :: b' => (x =? y) && bytes_eqb a' b'
  | _, _ => false
  end.

Lemma byte_okb_ok b : byte_okb b = true <-> byte_ok b.
Proof. unfold byte_okb, byte_ok. rewrite andb_true_iff, Z.leb_le, Z.ltb_lt. tauto. Qed.

Lemma bytes_okb_ok l : bytes_okb l = true <-> bytes_ok l.
Proof.
  unfold bytes_okb, bytes_ok. rewrite forallb_forall, Forall_forall.
  split; intros H x Hx; apply byte_okb_ok, H, Hx.
Qed.

Lemma bytes_eqb_eq a : forall b, bytes_eqb a b = true <-> a = b.
Proof.
  induction a as [|x a IH]; intros [|y b]; cbn; split; intros H; try reflexivity; try discriminate.
  - apply andb_true_iff in H. destruct H as [H1 H2]. apply Z.eqb_eq in H1. apply IH in H2. congruence.
  - injection H as -> ->. rewrite Z.eqb_refl. apply IH. reflexivity.
Qed.

Lemma len_nil : len [] = 0. Proof. reflexivity. Qed.
Lemma len_cons x l : len (x :: l) = 1 + len l.
Proof. unfold len. cbn [length]. lia. Qed.
Lemma len_app a b : len (a ++ b) = len a + len b.
Proof. unfold len. rewrite app_length. lia. Qed.
Lemma len_ge0 l : 0 <= len l. Proof. unfold len. lia. Qed.

Lemma be16_enc x : 0 <= x < 65536 -> be16 (hi8 x) (lo8 x) = x.
Proof. intros H. unfold be16, hi8, lo8. rewrite (Z.mod_small (x / 256)) by (split; [apply Z.div_pos; lia | apply Z.div_lt_upper_bound; lia]). pose proof (Z.div_mod x 256). lia. Qed.

Lemma hi8_ok x : byte_ok (hi8 x). Proof. unfold byte_ok, hi8. apply Z.mod_pos_bound. lia. Qed.
Lemma lo8_ok x : byte_ok (lo8 x). Proof. unfold byte_ok, lo8. apply Z.mod_pos_bound. lia. Qed.

Lemma firstn_len_app (a b : bytes) : firstn (Z.to_nat (len a)) (a ++ b) = a.
Proof. unfold len. rewrite Nat2Z.id. rewrite firstn_app, Nat.sub_diag, firstn_all. cbn. apply app_nil_r. Qed.
Lemma skipn_len_app (a b : bytes) : skipn (Z.to_nat (len a)) (a ++ b) = b.
Proof. unfold len. rewrite Nat2Z.id. rewrite skipn_app, Nat.sub_diag, skipn_all. reflexivity. Qed.
