(** C08 — engine part: elapsed time bounds computable from the parameters. *)
From Coq Require Import List ZArith Bool.
From TR Require Import Eng.Engine Eng.Timed.
Open Scope Z_scope.

Definition parallel_bound (p : tparams) : Z := tp_timeout p + tp_delay p * count p + tp_poll p.
Definition serial_bound (p : tparams) : Z := count p * Z.max (tp_timeout p + tp_poll p) (tp_delay p).
Definition elapsed_okb (serial : bool) (p : tparams) (elapsed : Z) : bool :=
  elapsed <=? (if serial then serial_bound p else parallel_bound p).
