(** Executable self-consistency predicates evaluated on the document the
    implementation produced (C15, C16, C17, C18).  The implementation's float
    fields arrive as exact rationals. *)
From Coq Require Import List ZArith Bool QArith Qabs.
From TR Require Import Res.Doc.
Import ListNotations.
Open Scope Z_scope.

(** a hop / run / document as observed in the JSON the call returned *)
Record ihop := mkIHop { ih_ttl : Z; ih_ip : ipaddr; ih_rtt : Q; ih_reach : bool; ih_rdns : list str; ih_has_rdns : bool }.
Record irun := mkIRun { ir_src_ip : ipaddr; ir_src_port : Z; ir_dst_ip : ipaddr; ir_dst_port : Z; ir_dst_rdns : list str; ir_hops : list ihop }.
Record idoc := mkIDoc {
  i_proto : str; i_host : str; i_port : Z; i_pubip : str; i_ids : list str; i_runs : list irun;
  i_hop_avg : Q; i_hop_min : Z; i_hop_max : Z;
  i_rtts : list Q; i_sent : Z; i_recv : Z; i_loss : Q; i_jitter : Q; i_avg : Q; i_min : Q; i_max : Q }.

Definition qz (z : Z) : Q := inject_Z z.
Definition Qleb := Qle_bool.
Definition Qeqb := Qeq_bool.
Definition Qltb (a b : Q) : bool := negb (Qle_bool b a).

(** |a - b| <= tol * max(|a|,|b|) *)
Definition approx (tol a b : Q) : bool :=
  Qleb (Qabs (a - b)) (tol * (if Qleb (Qabs a) (Qabs b) then Qabs b else Qabs a)).
Definition tol64 : Q := 1 # 1000000000.
Definition tol32 : Q := 1 # 1000000.
(** a <= b up to relative rounding *)
Definition le_tol (a b : Q) : bool := Qleb a b || approx tol64 a b.

Fixpoint str_eqb (a b : str) : bool :=
  match a, b with
  | [], [] => true
  | x :: a', y :: b' => (x =? y) && str_eqb a' b'
  | _, _ => false
  end.

Fixpoint nodupb (l : list str) : bool :=
  match l with [] => true | x :: t => negb (existsb (str_eqb x) t) && nodupb t end.

(** ---- C16: self-consistency *)
Definition i_hop_count (r : irun) : Z :=
  let fix go (hs : list ihop) (i : Z) (cur : option Z) :=
      match hs with [] => cur | h :: t => go t (i + 1) (if has_addr (ih_ip h) then Some (i + 1) else cur) end in
  match go (ir_hops r) 0 None with Some c => c | None => Z.of_nat (length (ir_hops r)) end.

Definition c16_hops (d : idoc) : bool :=
  forallb (fun r => forallb (fun h => Bool.eqb (ih_reach h) (has_addr (ih_ip h))) (ir_hops r)) (i_runs d).

Definition c16_hopcount (d : idoc) : bool :=
  match i_runs d with
  | [] => true
  | _ =>
      let lens := map (fun r => Z.of_nat (length (ir_hops r))) (i_runs d) in
      let maxlen := fold_left Z.max lens 0 in
      (1 <=? i_hop_min d) && le_tol (qz (i_hop_min d)) (i_hop_avg d) && le_tol (i_hop_avg d) (qz (i_hop_max d))
      && (i_hop_max d <=? maxlen)
      (* (the counts are taken before private hops are blanked, so they are not required to be
         recomputable from the redacted document; the property bounds them by the run lengths) *)
  end.

Definition c16_e2e (d : idoc) : bool :=
  match i_rtts d with
  | [] => true
  | _ =>
      let pos := filter (fun x => Qltb 0 x) (i_rtts d) in
      let sent := Z.of_nat (length (i_rtts d)) in
      let recv := Z.of_nat (length pos) in
      (i_sent d =? sent) && (i_recv d =? recv)
      && approx tol32 (i_loss d) ((sent - recv) # (Z.to_pos sent))
      && forallb (fun x => Qleb 0 x) (i_rtts d)
      && match pos with
         | [] => Qeqb (i_jitter d) 0
         | _ => le_tol (i_min d) (i_avg d) && le_tol (i_avg d) (i_max d)
                && existsb (Qeqb (i_min d)) pos && existsb (Qeqb (i_max d)) pos
                && forallb (fun x => Qleb (i_min d) x && Qleb x (i_max d)) pos
                && Qleb 0 (i_jitter d) && le_tol (i_jitter d) (i_max d - i_min d)
         end
  end.

Definition c16_ids (d : idoc) : bool :=
  nodupb (i_ids d) && forallb (fun s => Z.of_nat (length s) =? 22) (i_ids d)
  && (Z.of_nat (length (i_ids d)) =? 1 + Z.of_nat (length (i_runs d))).

(** ---- C17: nothing private (or derived from it) is left *)
Definition c17_hop (h : ihop) : bool :=
  negb (is_private (ih_ip h))
  && (has_addr (ih_ip h) || (Qeqb (ih_rtt h) 0 && negb (ih_reach h) && (match ih_rdns h with [] => true | _ => false end) && negb (ih_has_rdns h))).
Definition c17_doc (d : idoc) : bool := forallb (fun r => forallb c17_hop (ir_hops r)) (i_runs d).

(** redacted output run against the run the network produced: same length, TTLs and positions;
    private hops blanked; public hops keep address and RTT *)
Fixpoint c17_against (unit_ : Z) (inp : list hopd) (out : list ihop) : bool :=
  match inp, out with
  | [], [] => true
  | h :: ti, o :: to_ =>
      (hd_ttl h =? ih_ttl o)
      && (if is_private (hd_ip h) then negb (has_addr (ih_ip o))
          else ip_eqb (canon (hd_ip h)) (ih_ip o) && Qeqb (ih_rtt o) (hd_rtt h # Z.to_pos unit_))
      && c17_against unit_ ti to_
  | _, _ => false
  end.

(** ---- C18 (enrichment): names are exactly the resolver's answer for that same address *)
Fixpoint strs_eqb (a b : list str) : bool :=
  match a, b with
  | [], [] => true
  | x :: a', y :: b' => str_eqb x y && strs_eqb a' b'
  | _, _ => false
  end.

Definition c18_names (rdns : bool) (rv : resolver) (ip : ipaddr) (names : list str) : bool :=
  if rdns then strs_eqb names (resolve rv ip) else (match names with [] => true | _ => false end).
Definition c18_doc (rdns : bool) (rv : resolver) (d : idoc) : bool :=
  forallb (fun r => c18_names rdns rv (ir_dst_ip r) (ir_dst_rdns r)
                    && forallb (fun h => c18_names rdns rv (ih_ip h) (ih_rdns h)) (ir_hops r)) (i_runs d).
