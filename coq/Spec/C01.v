(** C01 / C04 / C05 — what makes an inbound packet a genuine reply to this run's probe with
    TTL t, stated on the parsed view and the sent-probe table, independently of the matchers'
    control flow.  Identifying fields: addresses, ports, per-probe identifier (full width).
    Quoted TTL, TOS, checksums and protocol number are not identifying (routers rewrite them). *)
From Coq Require Import List ZArith Bool.
From TR Require Import Lib.Bytes Wire.Decode Wire.Build Drv.Drivers.
Import ListNotations.
Open Scope Z_scope.

(** the quoted flow of an ICMP error: destination = the run's target, source = the run's local endpoint
    (source not required with relaxed checking) *)
Definition quoted_flow_ok (c : cfg) (ii : icmpinfo) (with_ports : bool) : bool :=
  match with_ports, first8 (ii_payload ii) with
  | false, _ => addr_eqb (ii_dst ii) (c_target c) && addr_eqb (ii_src ii) (c_local c)
  | true, Some (sp, dp, _) =>
      addr_eqb (ii_dst ii) (c_target c) && (dp =? c_dport c)
      && (c_loosen c || (addr_eqb (ii_src ii) (c_local c) && (sp =? c_sport c)))
  | true, None => false
  end.

(** a direct reply on the probe's own flow: from the target endpoint to the local endpoint *)
Definition from_target_to_local (c : cfg) (v : view) : bool :=
  addr_eqb (v_src v) (c_target c) && addr_eqb (v_dst v) (c_local c).

Definition last_sent (st : dstate) : option sent := match rev st with s :: _ => Some s | [] => None end.

Definition genuine (c : cfg) (st : dstate) (v : view) (t : Z) : bool :=
  match c_variant c, v_l4 v with
  (* ---- ICMP echo probes: identifier = (echo id, 16-bit sequence = t) *)
  | VIcmp, L4Icmp4 ty _ id seq _ =>
      in_ttl_range c t && (match find_ttl st t with Some _ => true | None => false end)
      && (if ty =? 11 then
            match icmp_info v with
            | Some ii => quoted_flow_ok c ii false
                         && match quoted_echo4 (ii_payload ii) with Some (qid, qseq) => (qid =? c_echo_id c) && (qseq =? t) | None => false end
            | None => false
            end
          else (ty =? 0) && from_target_to_local c v && (id =? c_echo_id c) && (seq =? t))
  | VIcmp, L4Icmp6 ty _ pay =>
      in_ttl_range c t && (match find_ttl st t with Some _ => true | None => false end)
      && (if ty =? 3 then
            match icmp_info v with
            | Some ii => quoted_flow_ok c ii false
                         && match quoted_echo6 (ii_payload ii) with Some (qid, qseq) => (qid =? c_echo_id c) && (qseq =? t) | None => false end
            | None => false
            end
          else (ty =? 129) && from_target_to_local c v
               && match pay with i1 :: i2 :: q1 :: q2 :: _ => (be16 i1 i2 =? c_echo_id c) && (be16 q1 q2 =? t) | _ => false end)
  | VIcmp, L4Tcp _ => false
  (* ---- UDP probes: identifier = IP-ID (v4) / payload length (v6) of the probe with TTL t *)
  | VUdp, L4Tcp _ => false
  | VUdp, l =>
      (is_ttl_exceeded l || is_dest_unreachable l)
      && match icmp_info v with
         | Some ii => quoted_flow_ok c ii true
                      && match find (fun s => s_id s =? ii_id ii) st with Some s => s_ttl s =? t | None => false end
         | None => false
         end
  (* ---- TCP SYN probes: identifier = (IP-ID, sequence number); a SYN-ACK/RST carries none and is
          credited to the most recently sent probe *)
  | VTcp, L4Tcp tc =>
      ((t_syn tc && t_ackf tc) || t_rst tc) && from_target_to_local c v
      && (t_sport tc =? c_dport c) && (t_dport tc =? c_sport c)
      && match last_sent st with
         | Some s => (s_ttl s =? t) && (negb (t_ackf tc) || (s_seq s =? (t_ack tc - 1) mod 4294967296))
         | None => false
         end
  | VTcp, L4Icmp4 _ _ _ _ _ =>
      is_ttl_exceeded (v_l4 v)
      && match icmp_info v with
         | Some ii => quoted_flow_ok c ii true
                      && match first8 (ii_payload ii) with
                         | Some (_, _, sq) =>
                             match find (fun s => (s_id s =? ii_id ii) && (s_seq s =? sq)) st with Some s => s_ttl s =? t | None => false end
                         | None => false
                         end
         | None => false
         end
  | VTcp, L4Icmp6 _ _ _ => false
  (* ---- SACK probes: identifier = sequence number isn + t *)
  | VSack, L4Tcp tc =>
      in_ttl_range c t && (match find_ttl st t with Some _ => true | None => false end)
      && from_target_to_local c v && (t_sport tc =? c_dport c) && (t_dport tc =? c_sport c)
      && negb (t_syn tc || t_fin tc || t_rst tc)
      && match min_sack (c_init_seq c) (t_opts tc) with Some rel => rel =? t | None => false end
  | VSack, L4Icmp4 _ _ _ _ _ =>
      in_ttl_range c t && (match find_ttl st t with Some _ => true | None => false end)
      && is_ttl_exceeded (v_l4 v)
      && match icmp_info v with
         | Some ii => quoted_flow_ok c ii true
                      && match first8 (ii_payload ii) with Some (_, _, sq) => (sq - c_init_seq c) mod 4294967296 =? t | None => false end
         | None => false
         end
  | VSack, L4Icmp6 _ _ _ => false
  end.

(** C04: the reply form that proves arrival at the destination, per protocol *)
Definition proof_of_arrival (c : cfg) (v : view) : bool :=
  match c_variant c, v_l4 v with
  | VIcmp, L4Icmp4 ty _ _ _ _ => (ty =? 0) && addr_eqb (v_src v) (c_target c)
  | VIcmp, L4Icmp6 ty _ _ => (ty =? 129) && addr_eqb (v_src v) (c_target c)
  | VUdp, (L4Icmp4 _ _ _ _ _ | L4Icmp6 _ _ _) => addr_eqb (v_src v) (c_target c)       (* any matched ICMP error sent by the target *)
  | VTcp, L4Tcp tc => addr_eqb (v_src v) (c_target c) && (t_sport tc =? c_dport c)      (* SYN-ACK / RST from the target port *)
  | VSack, L4Tcp tc => addr_eqb (v_src v) (c_target c) && (t_sport tc =? c_dport c)     (* selective ACK from the target port *)
  | VSack, L4Icmp4 _ _ _ _ _ => addr_eqb (v_src v) (c_target c)                       (* time-exceeded sent by the target itself *)
  | _, _ => false
  end.

(** the table keeps at most one probe per identifier (what SendProbe enforces / the schemes guarantee) *)
Definition table_ok (c : cfg) (st : dstate) : Prop :=
  match c_variant c with
  | VIcmp | VSack => NoDup (map s_ttl st)
  | VUdp => NoDup (map s_id st)
  | VTcp => True
  end.
