(** C06 (probe part): what a well-formed probe of this run looks like, checked on the bytes
    the sink received — independently of the builders. *)
From Coq Require Import List ZArith Bool.
From TR Require Import Lib.Bytes Wire.Decode Wire.Build Drv.Drivers.
Import ListNotations.
Open Scope Z_scope.

Definition probe_ttl_byte (p : bytes) : Z :=
  match p with
  | v :: _ => if v / 16 =? 4 then nth 8 p (-1) else nth 7 p (-1)
  | [] => -1
  end.

(** receiver-side verification of an Internet checksum: the folded sum over the data (with the
    checksum field in place) is 0xffff *)
Definition verifies (b : bytes) (init : Z) : bool := fold16 (sum16 b init) =? 65535.

Definition l4_of (c : cfg) : Z := match c_variant c with VIcmp => if is_v6 c then 58 else 1 | VUdp => 17 | _ => 6 end.

Definition probe_wf (c : cfg) (ttl : Z) (p : bytes) : bool :=
  if is_v6 c then
    match decode_ip6 p with
    | Some h =>
        (nth 0 p 0 / 16 =? 6) && (i6_hlim h =? ttl) && (i6_len h =? len p - 40) && (i6_nh_raw h =? l4_of c)
        && verifies (i6_payload h) (pseudo (i6_src h) (i6_dst h) (l4_of c) (len (i6_payload h)))
        && (if l4_of c =? 17 then be16 (nth 44 p 0) (nth 45 p 0) =? len p - 40 else true)
        (* RFC 8200 section 8.1: over IPv6 the UDP checksum is mandatory; a zero field is discarded by the receiver *)
        && (if l4_of c =? 17 then negb (be16 (nth 46 p 0) (nth 47 p 0) =? 0) else true)
    | None => false
    end
  else
    match decode_ip4 p with
    | Some h =>
        (nth 0 p 0 =? 69) && (i4_ttl h =? ttl) && (i4_len h =? len p) && (i4_proto h =? l4_of c)
        && verifies (takez 20 p) 0
        && (i4_fragoff h =? 0) && negb (more_frags (i4_flags h))
        && (if l4_of c =? 1 then verifies (i4_payload h) 0
            else verifies (i4_payload h) (pseudo (i4_src h) (i4_dst h) (l4_of c) (len (i4_payload h))))
        && (if l4_of c =? 17 then be16 (nth 24 p 0) (nth 25 p 0) =? len p - 20 else true)
        && (if l4_of c =? 6 then (nth 32 p 0 / 16) * 4 <=? len p - 20 else true)
    | None => false
    end.

(** same source/destination addresses and ports for the whole run *)
Definition probe_flow_ok (c : cfg) (p : bytes) : bool :=
  let off := if is_v6 c then 40 else 20 in
  (if is_v6 c then bytes_eqb (takez 16 (dropz 8 p)) (c_local c) && bytes_eqb (takez 16 (dropz 24 p)) (c_target c)
   else bytes_eqb (takez 4 (dropz 12 p)) (c_local c) && bytes_eqb (takez 4 (dropz 16 p)) (c_target c))
  && match c_variant c with
     | VIcmp => true
     | _ => (be16 (nth (Z.to_nat off) p 0) (nth (Z.to_nat off + 1) p 0) =? c_sport c)
            && (be16 (nth (Z.to_nat off + 2) p 0) (nth (Z.to_nat off + 3) p 0) =? c_dport c)
     end.

(** the per-probe identifier of the probe for [ttl] equals that of an earlier probe [s] *)
Definition probe_id_clash (c : cfg) (s : sent) (ttl rnd : Z) : bool :=
  match c_variant c with
  | VIcmp => s_seq s =? ttl
  | VUdp => s_id s =? (if is_v6 c then udp6_id ttl else udp4_id ttl)
  | VTcp => if c_paris c then s_seq s =? rnd      (* Paris mode: up to 32-bit random collisions *)
            else s_id s =? (c_base_id c + ttl) mod 65536
  | VSack => s_seq s =? (c_init_seq c + ttl) mod 4294967296
  end.

(** the per-probe identifier as it appears on the wire equals the scheme's value for this TTL
    (the schemes are injective in the TTL: Proofs/BuildProofs.v) *)
Definition w16 (p : bytes) (off : nat) : Z := be16 (nth off p 0) (nth (S off) p 0).
Definition w32 (p : bytes) (off : nat) : Z := be32 (nth off p 0) (nth (S off) p 0) (nth (S (S off)) p 0) (nth (S (S (S off))) p 0).
Definition wire_id_ok (c : cfg) (ttl rnd : Z) (p : bytes) : bool :=
  match c_variant c with
  | VIcmp => if is_v6 c then (w16 p 44 =? c_echo_id c) && (w16 p 46 =? ttl)
             else (w16 p 24 =? c_echo_id c) && (w16 p 26 =? ttl)
  | VUdp => if is_v6 c then w16 p 4 =? udp6_id ttl else w16 p 4 =? udp4_id ttl
  | VTcp => if c_paris c then (w16 p 4 =? 41821) && (w32 p 24 =? rnd)
            else (w16 p 4 =? (c_base_id c + ttl) mod 65536) && (w32 p 24 =? c_seq c)
  | VSack => w32 p 24 =? (c_init_seq c + ttl) mod 4294967296
  end.
