(** C06 — engine part: probes are emitted at most once per TTL, in increasing
    order from the first TTL, at least [delay] apart, none after the destination
    answer was processed. *)
From Coq Require Import List ZArith Bool.
From TR Require Import Eng.Engine Eng.Timed.
Import ListNotations.
Open Scope Z_scope.

Fixpoint paced (delay : Z) (e : Z) (prev : option Z) (sends : list (Z * Z)) : bool :=
  match sends with
  | [] => true
  | (t, at_) :: r =>
      (t =? e) && (match prev with Some q => q + delay <=? at_ | None => true end) && paced delay (e + 1) (Some at_) r
  end.

(** instant at which the first destination reply was processed: send time of its TTL + its RTT *)
(** None: no destination reply; Some None: one was accepted for a TTL that was never probed (only a
    misbehaving driver does that), so its instant cannot be reconstructed from the RTT *)
(** [rogue q]: the reply was handed over by a misbehaving driver with an RTT that is not (processing - send) *)
Fixpoint first_dest_time (rogue : probe -> bool) (sends : list (Z * Z)) (acc : list probe) : option (option Z) :=
  match acc with
  | [] => None
  | p :: r => if p_dest p then
                Some (if rogue p then None else match lookup sends (p_ttl p) with Some s => Some (s + p_rtt p) | None => None end)
              else first_dest_time rogue sends r
  end.

Definition sends_okb (rogue : probe -> bool) (p : tparams) (sends : list (Z * Z)) (acc : list probe) : bool :=
  negb (match sends with [] => true | _ => false end)
  && paced (tp_delay p) (tp_first p) None sends
  && (Z.of_nat (length sends) <=? count p)
  && match first_dest_time rogue sends acc with
     | Some (Some d) => forallb (fun x => snd x <=? d) sends   (* a send at the very instant the answer is processed was already in flight *)
     | Some None => true
     | None => Z.of_nat (length sends) =? count p      (* destination never seen: every TTL is probed *)
     end.
