(** C12 — capture filters: field-level specifications of the four programs,
    stated on frame offsets with the loads' length conditions explicit
    (an absent byte makes the corresponding conjunct false). *)
From Coq Require Import List ZArith Bool Lia.
From TR Require Import Lib.Bytes Bpf.Vm.
Import ListNotations.
Open Scope Z_scope.

Definition oeq (o : option Z) (v : Z) : bool :=
  match o with Some x => x =? v | None => false end.

(** ICMPv4, or ICMPv6 directly or behind one fragment header. *)
Definition icmp_specb (f : bytes) : bool :=
  (oeq (ldh f 12) 0x800 && oeq (ldb f 23) 1)
  || (oeq (ldh f 12) 0x86dd
      && (oeq (ldb f 20) 58 || (oeq (ldb f 20) 44 && oeq (ldb f 54) 58))).

(** the unused-by-entry-points 'icmp || icmp6 || udp' program (kept for the correspondence) *)
Definition udp_specb (f : bytes) : bool :=
  (oeq (ldh f 12) 0x800 && (oeq (ldb f 23) 1 || oeq (ldb f 23) 17))
  || (oeq (ldh f 12) 0x86dd
      && (oeq (ldb f 20) 58 || oeq (ldb f 20) 17
          || (oeq (ldb f 20) 44 && (oeq (ldb f 54) 58 || oeq (ldb f 54) 17)))).

Definition unfragmented (f : bytes) : bool :=
  match ldh f 20 with Some ff => Z.land ff 0x1fff =? 0 | None => false end.

(** unfragmented IPv4 TCP with SYN and ACK set; the flag byte sits at
    14 + 4*IHL + 13. *)
Definition synack_specb (f : bytes) : bool :=
  oeq (ldh f 12) 0x800 && oeq (ldb f 23) 6 && unfragmented f
  && match ldb f 14 with
     | Some vi =>
         match ldb f (4 * Z.land vi 15 + 27) with
         | Some fl => negb (Z.land fl 2 =? 0) && negb (Z.land fl 16 =? 0)
         | None => false
         end
     | None => false
     end.

(** IPv4 ICMP, or unfragmented IPv4 TCP with exactly the configured
    source/destination address and port. *)
Definition tcp4_specb (s d sp dp : Z) (f : bytes) : bool :=
  oeq (ldh f 12) 0x800
  && (oeq (ldb f 23) 1
      || (oeq (ldb f 23) 6 && oeq (ldw f 26) s && oeq (ldw f 30) d && unfragmented f
          && match ldb f 14 with
             | Some vi => oeq (ldh f (4 * Z.land vi 15 + 14)) sp
                          && oeq (ldh f (4 * Z.land vi 15 + 16)) dp
             | None => false
             end)).

(** the filter types an entry point can ask for (the packets.FilterType constants) *)
Inductive ftype := FT_None | FT_ICMP | FT_UDP | FT_TCP | FT_SYNACK | FT_Other.

Definition dropall_specb (f : bytes) : bool := false.

Definition prog_of (r : list raw) : list instr :=
  match decode_all r with Some p => p | None => [] end.

Definition is_some {T} (o : option T) : bool := match o with Some _ => true | None => false end.
