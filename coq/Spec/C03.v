(** C03 — path shape.  The predicate is stated on the accepted replies [acc]
    (what the driver handed to the engine, in order) and the reported hop list,
    independently of how the engine computes it. *)
From Coq Require Import List ZArith Bool Lia.
From TR Require Import Eng.Engine.
Import ListNotations.
Open Scope Z_scope.

Definition has_dest (acc : list probe) (t : Z) : Prop :=
  exists p, In p acc /\ p_ttl p = t /\ p_dest p = true.
Definition answered (acc : list probe) (t : Z) : Prop :=
  exists p, In p acc /\ p_ttl p = t.
Definition lowest_dest (acc : list probe) (d : Z) : Prop :=
  has_dest acc d /\ forall t, t < d -> ~ has_dest acc t.

Record shape (first last : Z) (acc : list probe) (hs : list hop) : Prop := {
  (* never empty *)
  sh_nonempty : hs <> [];
  (* consecutive TTLs from the first TTL *)
  sh_ttls : forall i h, nth_error hs i = Some h -> h_ttl h = first + Z.of_nat i;
  (* ends at the lowest TTL answered by the destination, else at the last TTL *)
  sh_len : (exists d, lowest_dest acc d /\ Z.of_nat (length hs) = d - first + 1)
           \/ ((forall t, ~ has_dest acc t) /\ Z.of_nat (length hs) = last - first + 1);
  (* unanswered TTLs are empty entries, answered ones are not *)
  sh_empty : forall i h, nth_error hs i = Some h ->
             (h_ip h = None <-> ~ answered acc (h_ttl h));
  sh_empty_zero : forall i h, nth_error hs i = Some h -> h_ip h = None -> h_rtt h = 0 /\ h_dest h = false;
  (* a non-empty entry carries an accepted reply for exactly that TTL *)
  sh_backed : forall i h a, nth_error hs i = Some h -> h_ip h = Some a ->
              exists p, In p acc /\ p_ttl p = h_ttl h /\ p_ip p = a /\ p_rtt p = h_rtt h /\ p_dest p = h_dest h;
  (* only the last entry can be the destination, and it is when the destination answered *)
  sh_dest_last : forall i h, nth_error hs i = Some h -> h_dest h = true -> S i = length hs;
  sh_dest_iff : (exists d, has_dest acc d) ->
                exists h, nth_error hs (length hs - 1) = Some h /\ h_dest h = true
}.

(** ---- executable form, used on the implementation's output *)
Definition has_destb (acc : list probe) (t : Z) : bool := existsb (dest_for_ttl t) acc.
Definition answeredb (acc : list probe) (t : Z) : bool := existsb (for_ttl t) acc.

Fixpoint lowest_from (acc : list probe) (t : Z) (n : nat) : option Z :=
  match n with
  | O => None
  | S n' => if has_destb acc t then Some t else lowest_from acc (t + 1) n'
  end.

Definition backedb (acc : list probe) (h : hop) (a : Z) : bool :=
  existsb (fun p => (p_ttl p =? h_ttl h) && (p_ip p =? a) && (p_rtt p =? h_rtt h) && Bool.eqb (p_dest p) (h_dest h)) acc.

Fixpoint hops_okb (acc : list probe) (e endt : Z) (hs : list hop) : bool :=
  match hs with
  | [] => true
  | h :: t =>
      (h_ttl h =? e)
      && match h_ip h with
         | None => negb (answeredb acc e) && (h_rtt h =? 0) && negb (h_dest h)
         | Some a => backedb acc h a
         end
      && implb (h_dest h) (e =? endt)
      && hops_okb acc (e + 1) endt t
  end.

Definition shapeb (first last : Z) (acc : list probe) (hs : list hop) : bool :=
  let ld := lowest_from acc first (Z.to_nat (last - first + 1)) in
  let endt := match ld with Some d => d | None => last end in
  negb (match hs with [] => true | _ => false end)
  && (Z.of_nat (length hs) =? endt - first + 1)
  && hops_okb acc first endt hs
  && match ld with
     | Some _ => match nth_error hs (length hs - 1) with Some h => h_dest h | None => false end
     | None => true
     end.
