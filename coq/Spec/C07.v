(** C07 — the reported hop for a TTL depends on the accepted replies only through:
    earliest destination reply for that TTL if any, else earliest reply. *)
From Coq Require Import List ZArith Bool.
From TR Require Import Eng.Engine.
Import ListNotations.
Open Scope Z_scope.

Definition hop_matches (h : hop) (o : option probe) : bool :=
  match o, h_ip h with
  | None, None => (h_rtt h =? 0) && negb (h_dest h)
  | Some p, Some a => (p_ip p =? a) && (p_rtt p =? h_rtt h) && Bool.eqb (p_dest p) (h_dest h)
  | _, _ => false
  end.

(** every reported hop is [pick acc ttl] *)
Definition merge_specb (acc : list probe) (hs : list hop) : bool :=
  forallb (fun h => hop_matches h (pick acc (h_ttl h))) hs.
