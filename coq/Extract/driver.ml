(* Line-protocol driver around the extracted model: reads
     <input-sx> <impl-sx>
   per line, runs [Model.check prop] and prints the verdict S-expression.
   Everything property-specific lives in Gallina; this file only converts
   between text and the extracted [sx] type. *)
open Model

let rec pos_of_int n =
  if n = 1 then XH
  else if n land 1 = 0 then XO (pos_of_int (n lsr 1))
  else XI (pos_of_int (n lsr 1))

let z_of_int n =
  if n = 0 then Z0 else if n > 0 then Zpos (pos_of_int n) else Zneg (pos_of_int (- n))

let z10 = z_of_int 10

(* decimal string of any size *)
let z_of_decimal (s : string) : z =
  let neg = String.length s > 0 && s.[0] = '-' in
  let start = if neg then 1 else 0 in
  let n = String.length s - start in
  if n <= 17 then z_of_int (int_of_string s)
  else begin
    let acc = ref Z0 in
    for i = start to String.length s - 1 do
      acc := Z.add (Z.mul !acc z10) (z_of_int (Char.code s.[i] - 48))
    done;
    if neg then Z.opp !acc else !acc
  end

let rec bits_of_pos p acc = match p with
  | XH -> true :: acc
  | XO q -> bits_of_pos q (false :: acc)
  | XI q -> bits_of_pos q (true :: acc)

(* most significant bit first *)
let string_of_pos p =
  let bits = bits_of_pos p [] in
  let n = List.length bits in
  if n <= 61 then string_of_int (List.fold_left (fun a b -> 2 * a + (if b then 1 else 0)) 0 bits)
  else begin
    (* hex, python's int(x, 0) reads it *)
    let pad = (4 - n mod 4) mod 4 in
    let bits = List.init pad (fun _ -> false) @ bits in
    let buf = Buffer.create 32 in
    Buffer.add_string buf "0x";
    let rec go = function
      | a :: b :: c :: d :: r ->
          let v = (if a then 8 else 0) + (if b then 4 else 0) + (if c then 2 else 0) + (if d then 1 else 0) in
          Buffer.add_char buf "0123456789abcdef".[v]; go r
      | _ -> () in
    go bits; Buffer.contents buf
  end

let string_of_z = function
  | Z0 -> "0"
  | Zpos p -> string_of_pos p
  | Zneg p -> "-" ^ string_of_pos p

let hexval c =
  match c with
  | '0'..'9' -> Char.code c - 48
  | 'a'..'f' -> Char.code c - 87
  | 'A'..'F' -> Char.code c - 55
  | _ -> failwith "bad hex"

(* byte constants are shared *)
let byte_sx = Array.init 256 (fun i -> A (z_of_int i))

let parse (s : string) (pos : int ref) : sx =
  let n = String.length s in
  let skip () = while !pos < n && (s.[!pos] = ' ' || s.[!pos] = '\t') do incr pos done in
  let rec value () =
    skip ();
    if !pos >= n then failwith "unexpected end";
    match s.[!pos] with
    | '(' ->
        incr pos;
        let items = ref [] in
        let rec loop () =
          skip ();
          if !pos >= n then failwith "unterminated list";
          if s.[!pos] = ')' then incr pos
          else begin items := value () :: !items; loop () end in
        loop ();
        L (List.rev !items)
    | '#' ->
        incr pos;
        let items = ref [] in
        while !pos + 1 < n && (match s.[!pos] with '0'..'9' | 'a'..'f' | 'A'..'F' -> true | _ -> false) do
          items := byte_sx.(16 * hexval s.[!pos] + hexval s.[!pos + 1]) :: !items;
          pos := !pos + 2
        done;
        L (List.rev !items)
    | _ ->
        let st = !pos in
        while !pos < n && (match s.[!pos] with '0'..'9' | '-' -> true | _ -> false) do incr pos done;
        if !pos = st then failwith ("bad token at " ^ string_of_int st);
        A (z_of_decimal (String.sub s st (!pos - st)))
  in
  value ()

let rec print buf = function
  | A z -> Buffer.add_string buf (string_of_z z)
  | L l ->
      Buffer.add_char buf '(';
      List.iteri (fun i x -> if i > 0 then Buffer.add_char buf ' '; print buf x) l;
      Buffer.add_char buf ')'

let () =
  let prop = z_of_int (int_of_string Sys.argv.(1)) in
  let ic = if Array.length Sys.argv > 2 then open_in Sys.argv.(2) else stdin in
  let buf = Buffer.create 256 in
  (try
     while true do
       let line = input_line ic in
       if String.length line > 0 then begin
         Buffer.clear buf;
         (try
            let pos = ref 0 in
            let inp = parse line pos in
            let impl = parse line pos in
            print buf (check prop inp impl)
          with Failure m -> Buffer.add_string buf ("(3 0 () (" ^ "))") ; ignore m
             | Stack_overflow -> Buffer.add_string buf "(3 0 () ())");
         print_endline (Buffer.contents buf)
       end
     done
   with End_of_file -> ())
