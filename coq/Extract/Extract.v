(** Extraction of the executable model and specs (never of proofs) to OCaml.
    Only [ExtrOcamlBasic] is used: Z / positive / nat stay the extracted
    inductive types. *)
From Coq Require Import Extraction ExtrOcamlBasic.
From Coq Require Import ZArith.
From TR Require Import Lib.Sx Run.All.
Extraction Language OCaml.
Extraction "model.ml" check Z.add Z.mul Z.opp Z.of_nat.
