(** An RFC-conformant path: n routers that decrement the TTL and answer an expired probe with a time-exceeded
    quoting it (router k may be silent), then the destination, which answers every probe that reaches it in the
    protocol's proof-of-arrival form.  On the level of accepted replies: hop identities are k for router k and
    n+1 for the destination.  No proofs here. *)
From Coq Require Import List ZArith Bool.
From TR Require Import Eng.Engine.
Import ListNotations.
Open Scope Z_scope.

Record path := mkPath { pa_n : Z; pa_silent : Z (* 0 = none *) }.

Definition responder (pa : path) (t : Z) : Z := if t <=? pa_n pa then t else pa_n pa + 1.

(** what the drivers hand to the engine when the network is [pa] (C01 + C02: exactly the genuine replies) *)
Definition ideal_reply (pa : path) (p : probe) : Prop :=
  p_ttl p <> pa_silent pa /\ p_ip p = responder pa (p_ttl p) /\ p_dest p = (pa_n pa <? p_ttl p) /\ 0 <= p_rtt p.

Definition ideal_accepted (pa : path) (first last : Z) (acc : list probe) : Prop :=
  Forall (fun p => first <= p_ttl p <= last /\ ideal_reply pa p) acc
  /\ (forall t, first <= t <= Z.min last (pa_n pa + 1) -> t <> pa_silent pa -> exists p, In p acc /\ p_ttl p = t).

(** the path the tool must report *)
Definition expected_hop (pa : path) (t : Z) : hop -> Prop := fun h =>
  h_ttl h = t
  /\ (t = pa_silent pa -> h_ip h = None)
  /\ (t <> pa_silent pa -> h_ip h = Some (responder pa t))
  /\ h_dest h = (t =? pa_n pa + 1) && negb (t =? pa_silent pa)
  /\ 0 <= h_rtt h.

(** executable prediction for the lab *)
Fixpoint zs (a : Z) (n : nat) : list Z := match n with O => [] | S k => a :: zs (a + 1) k end.
(** the same chain when the destination drops the probes (a filtered port): the routers answer, every TTL beyond them
    stays silent up to the last TTL and nothing is flagged as the destination *)
Definition predicted_filtered (pa : path) (first last : Z) : list (Z * option Z * bool) :=
  map (fun t => (t, (if (t =? pa_silent pa) || (pa_n pa <? t) then None else Some (responder pa t)), false))
      (zs first (Z.to_nat (last - first + 1))).

Definition predicted (pa : path) (first last : Z) : list (Z * option Z * bool) :=
  map (fun t => (t, (if t =? pa_silent pa then None else Some (responder pa t)), (t =? pa_n pa + 1) && negb (t =? pa_silent pa)))
      (zs first (Z.to_nat (Z.min last (pa_n pa + 1) - first + 1))).
