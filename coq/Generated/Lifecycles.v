(** GENERATED on every run by tools/goextract (lifecycle.go) from the functions of /repo that call
    packets.NewSourceSink.  Do not edit. *)
From Coq Require Import List.
From TR Require Import Pol.HandleProg.
Import ListNotations.

(* icmp/traceroute_icmp.go *)
Definition lc_icmp_runICMPTraceroute : list hstmt :=
  [HOpen; HMayFail [SCloseSrc; SCloseSnk; SReturn]; HDefer SCloseBoth; HMayFail [SReturn]; HReturn].

(* sack/traceroute_sack.go *)
Definition lc_sack_runSackTraceroute : list hstmt :=
  [HOpen; HMayFail [SCloseSrc; SCloseSnk; SReturn]; HBranch [SCloseSrc; SCloseSnk; SReturn]; HMayFail [SCloseSrc; SCloseSnk; SReturn]; HDefer SCloseBoth; HMayFail [SReturn]; HBranch [SReturn]; HBranch [SReturn]; HMayFail [SReturn]; HMayFail [SReturn]; HMayFail [SReturn]; HReturn].

(* tcp/tcp_traceroute.go *)
Definition lc_tcp_TCPv4_Traceroute : list hstmt :=
  [HOpen; HMayFail [SCloseSrc; SCloseSnk; SReturn]; HDefer SCloseBoth; HMayFail [SReturn]; HMayFail [SReturn]; HReturn].

(* udp/udp_traceroute.go *)
Definition lc_udp_UDPv4_Traceroute : list hstmt :=
  [HOpen; HMayFail [SCloseSrc; SCloseSnk; SReturn]; HDefer SCloseBoth; HMayFail [SReturn]; HMayFail [SReturn]; HReturn].

Definition all_lifecycles : list (list hstmt) := [lc_icmp_runICMPTraceroute; lc_sack_runSackTraceroute; lc_tcp_TCPv4_Traceroute; lc_udp_UDPv4_Traceroute].
