(** GENERATED on every run by tools/goextract (exprs.go) from /repo.  Do not edit.
*)
From Coq Require Import ZArith Bool List.
From TR Require Import Lib.GoLists.
Open Scope Z_scope.
Open Scope bool_scope.

(* tcp.tcpDriver.getNextPacketIDAndSeqNum *)
Definition go_tcp_tcpDriver_getNextPacketIDAndSeqNum (ttl : Z) (t_config_ParisTracerouteMode : bool) (rand_Uint32 : Z) (t_basePacketID : Z) (t_seqNum : Z) :=
  if t_config_ParisTracerouteMode then (41821, rand_Uint32)
  else (((t_basePacketID + ((ttl) mod 65536)) mod 65536), t_seqNum).

(* udp.createRawUDPBuffer *)
Definition go_udp4_ip_id (ttl : Z) :=
  ((41821 + ((ttl) mod 65536)) mod 65536).

