(** GENERATED on every run by tools/goextract (exprs.go) from /repo.  Do not edit.
*)
From Coq Require Import ZArith Bool List.
From TR Require Import Lib.GoLists.
Open Scope Z_scope.
Open Scope bool_scope.

(* common.ToHops (loop body) *)
Definition go_ToHops_element (i : Z) (p_MinTTL : Z) (probe_isnil : bool) (probe_TTL : Z) (probe_IP : Z) (go_ms : Z -> Z) (probe_RTT : Z) (probe_IsDest : bool) :=
  let expectedTTL := p_MinTTL + i in
  if (negb probe_isnil) then if (negb (probe_TTL =? expectedTTL)) then None
  else Some (expectedTTL, (Some probe_IP), (go_ms probe_RTT), probe_IsDest)
  else Some (expectedTTL, None, 0, false).

