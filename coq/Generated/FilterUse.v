(** GENERATED on every run by tools/goextract (filteruse.go): the SetPacketFilter calls of every entry point, in
    source order: (filter type, Src is the target endpoint, Dst is the local endpoint).  Do not edit. *)
From Coq Require Import List.
From TR Require Import Spec.C12.
Import ListNotations.

Definition fu_icmp_runICMPTraceroute : list (ftype * bool * bool) := [(FT_ICMP, false, false)].
Definition fu_sack_runSackTraceroute : list (ftype * bool * bool) := [(FT_SYNACK, true, false); (FT_TCP, true, true)].
Definition fu_tcp_TCPv4_Traceroute : list (ftype * bool * bool) := [(FT_TCP, true, true)].
Definition fu_udp_UDPv4_Traceroute : list (ftype * bool * bool) := [(FT_ICMP, false, false)].
