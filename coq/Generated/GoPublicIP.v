(** GENERATED on every run by tools/goextract (exprs.go) from /repo.  Do not edit.
*)
From Coq Require Import ZArith Bool List.
From TR Require Import Lib.GoLists.
Open Scope Z_scope.
Open Scope bool_scope.

(* publicip.handleRequest (0 ok, 1 retryable error, 2 permanent error) *)
Definition go_publicip_handleRequest_class (err_client_Do_isnil : bool) (err_io_ReadAll_isnil : bool) (resp_StatusCode : Z) (ip_isnil : bool) :=
  let err_isnil := err_client_Do_isnil in
  if (negb err_isnil) then 1
  else let err_isnil := err_io_ReadAll_isnil in
  if (negb err_isnil) then 1
  else if ((400 <=? resp_StatusCode) && (resp_StatusCode <? 500)) then 2
  else if ip_isnil then 2
  else 0.

