(** GENERATED on every run by tools/goextract (exprs.go) from /repo.  Do not edit.
*)
From Coq Require Import ZArith Bool List.
From TR Require Import Lib.GoLists.
Open Scope Z_scope.
Open Scope bool_scope.

(* common.TracerouteParams.validateProbe *)
Definition go_common_TracerouteParams_validateProbe (probe_isnil : bool) (probe_TTL : Z) (p_MinTTL : Z) (p_MaxTTL : Z) :=
  if probe_isnil then false
  else if ((probe_TTL <? p_MinTTL) || (p_MaxTTL <? probe_TTL)) then false
  else true.

