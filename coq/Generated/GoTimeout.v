(** GENERATED on every run by tools/goextract (exprs.go) from /repo.  Do not edit.
*)
From Coq Require Import ZArith Bool List.
From TR Require Import Lib.GoLists.
Open Scope Z_scope.
Open Scope bool_scope.

(* common.TracerouteParams.ProbeCount *)
Definition go_common_TracerouteParams_ProbeCount (p_MinTTL : Z) (p_MaxTTL : Z) :=
  if (p_MaxTTL <? p_MinTTL) then 0
  else p_MaxTTL - p_MinTTL + 1.

(* common.TracerouteParallelParams.MaxTimeout *)
Definition go_common_TracerouteParallelParams_MaxTimeout (p_SendDelay : Z) (p_MinTTL : Z) (p_MaxTTL : Z) (p_TracerouteTimeout : Z) :=
  let delaySum := p_SendDelay * (go_common_TracerouteParams_ProbeCount p_MinTTL p_MaxTTL) in
  p_TracerouteTimeout + delaySum.

(* sack.Params.MaxTimeout *)
Definition go_sack_Params_MaxTimeout (p_HandshakeTimeout : Z) (p_FinTimeout : Z) (p_ParallelParams_SendDelay : Z) (p_ParallelParams_MinTTL : Z) (p_ParallelParams_MaxTTL : Z) (p_ParallelParams_TracerouteTimeout : Z) :=
  p_HandshakeTimeout + p_FinTimeout + (go_common_TracerouteParallelParams_MaxTimeout p_ParallelParams_SendDelay p_ParallelParams_MinTTL p_ParallelParams_MaxTTL p_ParallelParams_TracerouteTimeout).

(* traceroute.runTracerouteMulti *)
Definition go_e2e_queries_delay (params_MaxTTL : Z) (params_Timeout : Z) (params_E2eQueries : Z) :=
  let e2eQueriesDelay := ((params_MaxTTL * params_Timeout) / params_E2eQueries) in
  if (1 * 1000000000 <? e2eQueriesDelay) then let e2eQueriesDelay := 1 * 1000000000 in
  e2eQueriesDelay
  else e2eQueriesDelay.

