(** GENERATED on every run by tools/goextract (fallback.go) from traceroute/runner.go performTCPFallback.  Do not edit.
*)
From Coq Require Import List.
From TR Require Import Pol.Params Pol.FallbackProg.
Import ListNotations.

Definition go_fallback_empty_method_is : tmethod := MSyn.
Definition go_fallback_case_MSyn : list fstep := [FSReturnCall ISyn].
Definition go_fallback_case_MSack : list fstep := [FSReturnCall ISack].
Definition go_fallback_case_MSynSocket : list fstep := [FSReturnCall ISynSocket].
Definition go_fallback_case_MPrefer : list fstep := [FSBind ISack; FSIfNotSupReturnCall ISyn; FSIfErrReturnWrapped true; FSReturnResults].
Definition go_fallback_default : list fstep := [FSReturnError].
