(** GENERATED on every run by tools/goextract (exprs.go) from /repo.  Do not edit.
*)
From Coq Require Import ZArith Bool List.
From TR Require Import Lib.GoLists.
Open Scope Z_scope.
Open Scope bool_scope.

(* packets.AllocPacketID *)
Definition go_packets_AllocPacketID (maxTTL : Z) (curPacketID : Z) :=
  let maxTTL32 := ((maxTTL) mod 4294967296) in
  let next := ((((curPacketID + maxTTL32) mod 4294967296) - maxTTL32) mod 4294967296) in
  ((next) mod 65536).

(* icmp.nextEchoID *)
Definition go_icmp_nextEchoID (curEchoID : Z) :=
  let next := ((curEchoID + 1) mod 4294967296) in
  ((next) mod 65536).

