(** GENERATED on every run by tools/goextract (structure.go) from /repo/sack/sack_driver.go, result/result.go and
    traceroute/traceroute.go.  Do not edit. *)
From Coq Require Import ZArith List.
From TR Require Import Lib.Shapes.
Import ListNotations.
Open Scope Z_scope.

(** ReadHandshake: read deadlines armed before the read loop, whether the loop (or anything it calls) re-arms one, and the timeout *)
Definition sack_handshake_deadlines_before_loop : Z := 1.
Definition sack_handshake_deadline_in_loop : bool := false.
Definition sack_handshake_timeout_ns : Z := 500000000.

(** RemovePrivateHops: both loops visit every run and every hop and the body is the single conditional replacement;
    the condition is hop.IPAddress.IsPrivate(); the replacement keeps exactly the TTL *)
Definition redact_visits_every_hop : bool := true.
Definition redact_condition_is_private_address : bool := true.
Definition redact_keeps_only_ttl : bool := true. (* fields of a redacted hop that keep their value: TTL *)

(** RunTraceroute: a failed multi-query run returns (nil, err); then, in this order, the post-processing steps with their guards *)
Definition run_error_returns_no_result : bool := true.

(** GetPublicIP: the providers are asked in order, any error of one moves on to the next, the first success is returned *)
Definition publicip_first_success_loop : bool := true.
Definition run_pipeline_order : list (pguard * pstep) := [(G_ReverseDns, PS_Enrich); (G_None, PS_Normalize); (G_SkipPrivate, PS_Redact)].
