(** GENERATED on every run by tools/goextract (structure.go) from /repo/sack/sack_driver.go.  Do not edit. *)
From Coq Require Import ZArith.
Open Scope Z_scope.

(** ReadHandshake: read deadlines armed before the read loop, whether the loop (or anything it calls) re-arms one, and the timeout *)
Definition sack_handshake_deadlines_before_loop : Z := 1.
Definition sack_handshake_deadline_in_loop : bool := false.
Definition sack_handshake_timeout_ns : Z := 500000000.
