(** GENERATED on every run by tools/gen_bpf.py from /repo (lab bpfdump).  Do not edit. *)
From Coq Require Import List ZArith.
From TR Require Import Bpf.Vm.
Import ListNotations.
Open Scope Z_scope.

Definition raw_icmp : list raw :=
  [(40, 0, 0, 12);
   (21, 0, 2, 2048);
   (48, 0, 0, 23);
   (21, 6, 7, 1);
   (21, 0, 6, 34525);
   (48, 0, 0, 20);
   (21, 3, 0, 58);
   (21, 0, 3, 44);
   (48, 0, 0, 54);
   (21, 0, 1, 58);
   (6, 0, 0, 262144);
   (6, 0, 0, 0)].

Definition raw_udp : list raw :=
  [(40, 0, 0, 12);
   (21, 0, 2, 2048);
   (48, 0, 0, 23);
   (21, 7, 6, 1);
   (21, 0, 7, 34525);
   (48, 0, 0, 20);
   (21, 4, 0, 58);
   (21, 0, 2, 44);
   (48, 0, 0, 54);
   (21, 1, 0, 58);
   (21, 0, 1, 17);
   (6, 0, 0, 262144);
   (6, 0, 0, 0)].

Definition raw_synack : list raw :=
  [(40, 0, 0, 12);
   (21, 0, 9, 2048);
   (48, 0, 0, 23);
   (21, 0, 7, 6);
   (40, 0, 0, 20);
   (69, 5, 0, 8191);
   (177, 0, 0, 14);
   (80, 0, 0, 27);
   (69, 0, 2, 2);
   (69, 0, 1, 16);
   (6, 0, 0, 262144);
   (6, 0, 0, 0)].

Definition raw_dropall : list raw :=
  [(6, 0, 0, 0)].

Definition raw_tcp4 (src dst sport dport : Z) : list raw :=
  [(40, 0, 0, 12);
   (21, 0, 15, 2048);
   (48, 0, 0, 23);
   (21, 12, 0, 1);
   (21, 0, 12, 6);
   (32, 0, 0, 26);
   (21, 0, 10, src);
   (32, 0, 0, 30);
   (21, 0, 8, dst);
   (40, 0, 0, 20);
   (69, 6, 0, 8191);
   (177, 0, 0, 14);
   (72, 0, 0, 14);
   (21, 0, 3, sport);
   (72, 0, 0, 16);
   (21, 0, 1, dport);
   (6, 0, 0, 262144);
   (6, 0, 0, 0)].

Definition template_validated : Z := 300.
