(** GENERATED on every run by tools/goextract (exprs.go) from /repo.  Do not edit.
*)
From Coq Require Import ZArith Bool List.
From TR Require Import Lib.GoLists.
Open Scope Z_scope.
Open Scope bool_scope.

(* traceroute.RunTraceroute *)
Definition go_destination_port (params_Port : Z) :=
  let destinationPort := params_Port in
  if (destinationPort =? 0) then let destinationPort := 33434 in
  destinationPort
  else destinationPort.

(* traceroute.runTracerouteOnce *)
Definition go_runOnce_ttl_range_rejected (params_MinTTL : Z) (params_MaxTTL : Z) :=
  (((params_MinTTL <? 1) || (255 <? params_MaxTTL)) || (params_MaxTTL <? params_MinTTL)).

