(** GENERATED on every run by tools/goextract (exprs.go) from /repo.  Do not edit.
*)
From Coq Require Import ZArith Bool List.
From TR Require Import Lib.GoLists.
Open Scope Z_scope.
Open Scope bool_scope.

(* common.writeProbe *)
Definition go_parallel_shouldUpdate (previous_isnil : bool) (previous_IsDest : bool) (probe_IsDest : bool) :=
  let shouldUpdate := previous_isnil in
  if (((negb previous_isnil) && (negb previous_IsDest)) && probe_IsDest) then let shouldUpdate := true in
  shouldUpdate
  else shouldUpdate.

(* common.TracerouteSerial *)
Definition go_serial_shouldUpdate (previous_isnil : bool) (previous_IsDest : bool) (probe_IsDest : bool) :=
  (previous_isnil || (((negb previous_IsDest) && probe_IsDest))).

