(** GENERATED on every run by tools/goextract (exprs.go) from /repo.  Do not edit.
*)
From Coq Require Import ZArith Bool List.
From TR Require Import Lib.GoLists.
Open Scope Z_scope.
Open Scope bool_scope.

(* common.clipResults *)
Definition go_common_clipResults (minTTL : Z) (results : list (bool * bool)) :=
  let destIdx := (gx_index_func (fun pr : bool * bool => let pr_isnil := fst pr in let pr_IsDest := snd pr in ((negb pr_isnil) && pr_IsDest)) results) in
  if (negb (destIdx =? (- 1))) then let results := (firstn (Z.to_nat (destIdx + 1)) results) in
  (skipn (Z.to_nat (minTTL)) results)
  else (skipn (Z.to_nat (minTTL)) results).

