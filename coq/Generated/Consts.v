(** GENERATED on every run by tools/goextract from /repo.  Do not edit. *)
From Coq Require Import ZArith.
Open Scope Z_scope.

Definition cache_defaultExpire : Z := 300000000000.
Definition cache_defaultPurge : Z := 30000000000.
Definition common_DefaultPort : Z := 33434.
Definition common_DefaultMinTTL : Z := 1.
Definition common_DefaultMaxTTL : Z := 30.
Definition common_DefaultDelay : Z := 50.
Definition common_DefaultNetworkPathTimeout : Z := 3000.
Definition common_DefaultTracerouteQueries : Z := 3.
Definition common_DefaultNumE2eProbes : Z := 50.
Definition publicip_ipCheckerCallTimeout : Z := 2000000000.
Definition publicip_defaultPublicIPCacheExpiration : Z := 7200000000000.
Definition reversedns_reverseDnsDefaultTimeout : Z := 5000000000.
Definition reversedns_reverseDnsCacheTLL : Z := 3600000000000.
