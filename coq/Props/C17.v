(** C17 — private-hop redaction.  Theorems only. *)
From Coq Require Import List ZArith Bool.
From TR Require Import Res.Doc Proofs.DocProofs Lib.Shapes Generated.Structure Proofs.ShapeProofs.
Import ListNotations.
Open Scope Z_scope.

(** the address test is exactly membership of 10/8, 172.16/12, 192.168/16 (all bytes) *)
Theorem C17_private_v4_exact : forall a b c d, byte a -> byte b -> byte c -> byte d ->
  (is_private [a; b; c; d] = true <-> in_private_v4 (v4val a b c d)).
Proof. exact is_private_v4. Qed.
Print Assumptions C17_private_v4_exact.

Theorem C17_private_mapped : forall a b c d,
  is_private [0; 0; 0; 0; 0; 0; 0; 0; 0; 0; 255; 255; a; b; c; d] = is_private [a; b; c; d].
Proof. exact is_private_mapped. Qed.
Print Assumptions C17_private_mapped.

(** ... and fc00::/7 for every other 16-byte address *)
Theorem C17_private_v6_exact : forall ip, length ip = 16%nat -> to4 ip = None -> Forall byte ip ->
  (is_private ip = true <-> 252 <= hd 0 ip <= 253).
Proof. exact is_private_v6. Qed.
Print Assumptions C17_private_v6_exact.

(** every run: same number of hops, same TTLs in the same positions, no private address left,
    a private hop becomes the TTL-only placeholder (address, RTT, reachability, names, destination
    flag all cleared), public and empty hops are untouched *)
Theorem C17_redaction : forall r,
  length (rd_hops (redact_run r)) = length (rd_hops r)
  /\ map hd_ttl (rd_hops (redact_run r)) = map hd_ttl (rd_hops r)
  /\ Forall (fun h => is_private (hd_ip h) = false) (rd_hops (redact_run r))
  /\ Forall2 (fun h h' => if is_private (hd_ip h) then blank h' /\ hd_ttl h' = hd_ttl h else h' = h)
             (rd_hops r) (rd_hops (redact_run r)).
Proof. exact redact_run_spec. Qed.
Print Assumptions C17_redaction.

(** redaction is applied after enrichment and normalisation, so nothing derived earlier survives *)
Theorem C17_pipeline_order : forall fl rv runs,
  pipeline_runs fl rv runs =
  (if f_skip_private fl then map redact_run else (fun x => x))
    (map norm_run ((if f_rdns fl then map (enrich_run rv) else (fun x => x)) runs)).
Proof. exact pipeline_order. Qed.
Print Assumptions C17_pipeline_order.

Theorem C17_pipeline_no_private : forall rv rd runs,
  Forall (fun r => Forall (fun h => is_private (hd_ip h) = false) (rd_hops r))
         (pipeline_runs (mkFlags rd true false) rv runs).
Proof. exact pipeline_no_private. Qed.
Print Assumptions C17_pipeline_no_private.

Example C17_example :
  map redact_hop [mkHopd 1 [10;1;2;3] 5 true [[104]] false; mkHopd 2 [8;8;8;8] 9 true [] true]
  = [mkHopd 1 [] 0 false [] false; mkHopd 2 [8;8;8;8] 9 true [] true].
Proof. reflexivity. Qed.

(** tie kind A, regenerated on every run by tools/goextract/structure.go: the post-processing calls RunTraceroute makes
    on the result, in their source order and with their guards, run through an interpreter, are the model's pipeline
    (enrich if asked, normalize, redact if asked — redaction last) *)
Theorem C17_pipeline_order_tied : forall fl rv runs, apply_steps fl rv run_pipeline_order runs = Some (pipeline_runs fl rv runs).
Proof. exact pipeline_order_tied. Qed.
Print Assumptions C17_pipeline_order_tied.

(** ... and RemovePrivateHops has the shape the model's [redact_run] assumes: two range loops over every run and every
    hop whose body is the single replacement, conditioned on hop.IPAddress.IsPrivate(), by a hop that keeps only the TTL;
    a failed multi-query run returns no result *)
Theorem C17_redaction_shape_tied :
  run_error_returns_no_result = true /\ redact_visits_every_hop = true /\ redact_condition_is_private_address = true /\ redact_keeps_only_ttl = true.
Proof. exact redaction_shape_tied. Qed.
Print Assumptions C17_redaction_shape_tied.
