(** C18 — enrichment is per-address correct and failure-tolerant; caches keep only successes;
    providers are asked in order.  Theorems only. *)
From Coq Require Import List ZArith Bool.
From TR Require Import Res.Doc Pol.Cache Pol.PublicIp Proofs.DocProofs Proofs.PolProofs Proofs.CacheNoRequery Lib.GoLists Lib.Shapes Generated.GoPublicIP Generated.Structure Proofs.GoTiePublicIP Proofs.ShapeProofs.
Import ListNotations.
Open Scope Z_scope.

(** names attached to a hop / destination are exactly the resolver's answer for that same
    (canonical) address; nothing else of the run changes *)
Theorem C18_enrichment : forall rv r,
  rd_dst_rdns (enrich_run rv r) = resolve rv (rd_dst_ip r)
  /\ map hd_rdns (rd_hops (enrich_run rv r)) = map (fun h => resolve rv (hd_ip h)) (rd_hops r)
  /\ map (fun h => (hd_ttl h, hd_ip h, hd_rtt h, hd_reach h, hd_dest h)) (rd_hops (enrich_run rv r))
     = map (fun h => (hd_ttl h, hd_ip h, hd_rtt h, hd_reach h, hd_dest h)) (rd_hops r)
  /\ rd_src_ip (enrich_run rv r) = rd_src_ip r /\ rd_dst_ip (enrich_run rv r) = rd_dst_ip r.
Proof. exact enrich_run_spec. Qed.
Print Assumptions C18_enrichment.

(** a failed (or missing) lookup leaves the names empty — and enrichment is a total function: it cannot fail the result *)
Theorem C18_lookup_failure_tolerated : forall rv ip,
  (forall names, ~ In (canon ip, Some names) rv) -> resolve rv ip = [].
Proof. exact resolve_failure. Qed.
Print Assumptions C18_lookup_failure_tolerated.

(** cache: a hit returns the stored value with zero callback invocations and changes nothing *)
Theorem C18_cache_hit : forall dflt s now k cb expire v,
  cache_get s now k = Some v -> get_or_compute dflt s now k cb expire = mkCres (Some v) false s.
Proof. exact cache_hit. Qed.
Print Assumptions C18_cache_hit.

(** failures are never cached *)
Theorem C18_cache_errors_not_stored : forall dflt s now k expire,
  cr_state (get_or_compute dflt s now k None expire) = s
  /\ (cache_get s now k = None -> cr_val (get_or_compute dflt s now k None expire) = None).
Proof. exact cache_error_not_stored. Qed.
Print Assumptions C18_cache_errors_not_stored.

(** a stored success is served until its expiry without re-querying; after it, recomputed *)
Theorem C18_cache_until_expiry : forall dflt s now k v d now' cb e,
  0 <= now -> 0 < d -> cache_get s now k = None -> now <= now' ->
  let s' := cr_state (get_or_compute dflt s now k (Some v) d) in
  (now' <= now + d -> get_or_compute dflt s' now' k cb e = mkCres (Some v) false s')
  /\ (now + d < now' -> cr_called (get_or_compute dflt s' now' k cb e) = true
                        /\ cr_val (get_or_compute dflt s' now' k cb e) = cb).
Proof. exact cache_stored_until_expiry. Qed.
Print Assumptions C18_cache_until_expiry.

(** over EVERY sequence of get/expire operations: a value served without calling back was produced
    by an earlier successful callback for the same key (never by a failure) *)
Theorem C18_cache_sequences : forall dflt ops hist s, cinv hist s ->
  forall n o v, nth_error ops n = Some o -> nth_error (run_cache dflt s ops) n = Some (Some v, false) ->
  from_history (hist ++ firstn n ops) (op_key o) v.
Proof. exact cache_sequences. Qed.
Print Assumptions C18_cache_sequences.

(** "... until expiry without re-querying", over EVERY operation sequence on a non-decreasing clock, from the empty
    cache: the callback is never invoked while a success stored for the same key is still inside the (positive) lifetime
    it was stored with — [cache_norequery] is the very predicate the correspondence evaluates on what the real cache did *)
Theorem C18_cache_never_requeries_early : forall dflt ops T,
  times_ok T ops -> cache_norequery [] ops (run_cache dflt [] ops) = true.
Proof. exact cache_never_requeries_early_from_empty. Qed.
Print Assumptions C18_cache_never_requeries_early.

(** providers: the answer comes from the first provider, in order, whose behaviour reaches a valid
    address before its deadline; no later provider is queried *)
Theorem C18_provider_iteration : forall dl init maxi scripts idx t0 g,
  0 <= dl -> get_public_ip dl init maxi idx t0 scripts = g -> g_tie g = false ->
  length (g_requests g) = length scripts
  /\ g_elapsed g <= t0 + Z.of_nat (length scripts) * dl
  /\ match g_winner g with
     | Some w =>
         let k := Z.to_nat (w - idx) in
         idx <= w
         /\ (exists s, nth_error scripts k = Some s /\ provider_succeeds dl init maxi s = true)
         /\ (forall j s, (j < k)%nat -> nth_error scripts j = Some s -> provider_succeeds dl init maxi s = false)
         /\ (forall j, (k < j)%nat -> nth j (g_requests g) 0 = 0)
     | None => forall s, In s scripts -> provider_succeeds dl init maxi s = false
     end.
Proof. exact get_public_ip_spec. Qed.
Print Assumptions C18_provider_iteration.

(** a client error (4xx) or an invalid body is final for that provider: exactly one request *)
Theorem C18_client_error_final : forall fuel dl maxi cur d st valid rest,
  0 <= d < dl -> ((400 <= st < 500) \/ valid = false) ->
  provider_run (S fuel) dl maxi 0 cur (Resp d st valid :: rest) 0 = mkPres PFail 1 d.
Proof. exact permanent_is_final. Qed.
Print Assumptions C18_client_error_final.

Example C18_example :
  let g := get_public_ip 2000 500 3000 0 0 [[TransportErr 100; Resp 50 404 true]; [Resp 30 200 true]; [Resp 10 200 true]] in
  (g_winner g, g_requests g, g_elapsed g) = (Some 1, [2; 1; 0], 680).
Proof. reflexivity. Qed.

(** tie kind A: how publicip.handleRequest classifies one HTTP exchange as it stands in the source (transport / body-read error: retried; 4xx or a body that is not an address: final; otherwise the address) is what the provider model's [attempt_out] assumes, for every attempt that completes before the deadline *)
Theorem C18_handleRequest_tied dl t a : 
  match a with Hang => False | Resp d _ _ | TransportErr d | BodyErr d => t + d < dl end ->
  class_of (fst (attempt_out dl t a)) =
  match a with
  | TransportErr _ => go_publicip_handleRequest_class false true 0 true
  | BodyErr _ => go_publicip_handleRequest_class true false 0 true
  | Resp _ st valid => go_publicip_handleRequest_class true true st (negb valid)
  | Hang => 3
  end.
Proof. exact (@go_handleRequest_is_attempt_out dl t a). Qed.
Print Assumptions C18_handleRequest_tied.

(** tie kind A: GetPublicIP asks the providers in order, moves on after ANY error of one and returns the first success
    (the shape [get_public_ip] models; regenerated on every run by tools/goextract/structure.go) *)
Theorem C18_provider_loop_tied : publicip_first_success_loop = true.
Proof. exact provider_loop_shape_tied. Qed.
Print Assumptions C18_provider_loop_tied.
