(** C11 — concurrent traceroutes are isolated; identifier ranges never overlap.  Theorems only.
    Concurrency enters the allocators only through atomic.Add (linearisable: some sequential order of the calls).
    Named residue (DESIGN.md): runs with relaxed quoted-source checking to one target (SACK) and Paris mode rely on
    32-bit random values; UDP IPv4 uses the fixed block 41821+t and is isolated by the held local port only;
    cross-protocol pairs (e.g. ICMP vs UDP both reading ICMP errors) are covered by the correspondence, not proved. *)
From Coq Require Import List ZArith Bool.
From TR Require Import Lib.Bytes Wire.Decode Drv.Drivers Spec.C01 Pol.Alloc Proofs.AllocProofs Proofs.DrvProofs Proofs.IsoProofs Eng.Engine Eng.Timed Proofs.EngComplete Proofs.EngIso Generated.GoAlloc Proofs.GoTieAlloc Proofs.SerialComplete.
Import ListNotations.
Open Scope Z_scope.

(** IP-ID blocks: for ANY allocation sequence from ANY 32-bit counter value (incl. across the 2^32 and 2^16 wraps),
    two blocks share no identifier while at most 65536 identifiers lie between the start of the earlier and the end of the later *)
Theorem C11_ip_id_blocks_disjoint : forall ms c i j bi bj x,
  Forall (fun m => 0 <= m) ms -> (i < j)%nat ->
  nth_error (alloc_seq c ms) i = Some bi -> nth_error (alloc_seq c ms) j = Some bj ->
  sum (firstn (S j) ms) - sum (firstn i ms) <= M16 ->
  in_block bi x -> in_block bj x -> False.
Proof. exact blocks_disjoint. Qed.
Print Assumptions C11_ip_id_blocks_disjoint.

Theorem C11_echo_ids_distinct : forall c n, Z.of_nat n <= M16 -> NoDup (echo_ids c n).
Proof. exact echo_ids_distinct. Qed.
Print Assumptions C11_echo_ids_distinct.

(** two ICMP runs can both take a packet for a genuine reply only if they have the same echo identifier *)
Theorem C11_icmp_isolated : forall cA cB stA stB v tA tB,
  c_variant cA = VIcmp -> c_variant cB = VIcmp ->
  genuine cA stA v tA = true -> genuine cB stB v tB = true ->
  c_echo_id cA = c_echo_id cB /\ c_target cA = c_target cB /\ tA = tB.
Proof. exact icmp_runs_share_only_on_same_echo_id. Qed.
Print Assumptions C11_icmp_isolated.

(** two UDP / TCP SYN / SACK runs can share a reply only if they probe the same target endpoint, and — for direct
    replies, or with strict checking on both sides — from the same local endpoint (which the OS never gives to two
    sockets held at the same time) *)
Theorem C11_port_runs_isolated : forall cA cB stA stB v tA tB,
  c_variant cA = c_variant cB -> c_variant cA <> VIcmp ->
  genuine cA stA v tA = true -> genuine cB stB v tB = true ->
  c_target cA = c_target cB /\ c_dport cA = c_dport cB
  /\ (is_ttl_exceeded (v_l4 v) = false -> is_dest_unreachable (v_l4 v) = false -> c_local cA = c_local cB /\ c_sport cA = c_sport cB)
  /\ (c_loosen cA = false -> c_loosen cB = false -> c_local cA = c_local cB /\ c_sport cA = c_sport cB).
Proof. exact port_runs_share_only_on_same_flow. Qed.
Print Assumptions C11_port_runs_isolated.

(** the lift to raw bytes on a shared wire: a packet that is a genuine reply for ICMP run B is never a hop for ICMP run A with a different echo identifier — whatever A has sent, at any time *)
Theorem C11_foreign_icmp_reply_is_noise cA cB stA stB b v now tB :
  cfg_ok cA -> c_variant cA = VIcmp -> c_variant cB = VIcmp -> c_echo_id cA <> c_echo_id cB ->
  frame_parse b = PView v -> genuine cB stB v tB = true ->
  forall t a r d, recv cA stA b now <> Hop t a r d.
Proof. exact (@foreign_icmp_reply_is_noise cA cB stA stB b v now tB). Qed.
Print Assumptions C11_foreign_icmp_reply_is_noise.

(** same for UDP / TCP SYN / SACK runs that differ in target endpoint, or (strict checking) in local endpoint *)
Theorem C11_foreign_port_reply_is_noise cA cB stA stB b v now tB :
  cfg_ok cA -> c_variant cA = c_variant cB -> c_variant cA <> VIcmp ->
  (c_target cA <> c_target cB \/ c_dport cA <> c_dport cB
   \/ (c_loosen cA = false /\ c_loosen cB = false /\ (c_local cA <> c_local cB \/ c_sport cA <> c_sport cB))) ->
  frame_parse b = PView v -> genuine cB stB v tB = true ->
  forall t a r d, recv cA stA b now <> Hop t a r d.
Proof. exact (@foreign_port_reply_is_noise cA cB stA stB b v now tB). Qed.
Print Assumptions C11_foreign_port_reply_is_noise.

(** the engine lift, ANY interleaving of own and foreign packets on the shared wire (foreign = not matched by this run's driver, by the two theorems above): nothing foreign enters the result and nothing foreign keeps an own reply that is readable by the deadline out of it.  (Replies that become readable in the last poll interval AFTER the deadline may or may not be picked up depending on what else woke the reader — the one place where a run is not bit-for-bit what it would be alone; named residue.) *)
Theorem C11_shared_wire_isolation p own foreign shared r :
  (forall e, In e shared <-> In e own \/ In e foreign) ->
  (forall e, In e foreign -> e_kind e = 1) ->
  parallel_run p shared = TDone r ->
  (* nothing foreign is in the result: every accepted reply is one of the run's own entries *)
  (forall q, In q (tr_accepted r) -> exists e, In e own /\ e_kind e <> 1 /\ matches e q)
  (* and nothing foreign displaces an own reply: each own reply readable by the deadline is accepted *)
  /\ (forall e s, In e own -> e_kind e = 0 -> In (e_ttl e, s) (tr_sends r) -> s + e_delay e <= pdeadline p ->
        exists q, In q (tr_accepted r) /\ matches e q).
Proof. exact (@shared_wire_isolation p own foreign shared r). Qed.
Print Assumptions C11_shared_wire_isolation.

(** tie kind A, regenerated on every run by tools/goextract/exprs.go: AllocPacketID as it stands in the source (uint32 counter arithmetic, uint16 truncation) is the model's [alloc]: returned base and counter left behind *)
Theorem C11_AllocPacketID_tied c m : 0 <= m < 256 ->
  go_packets_AllocPacketID m c = snd (alloc c m) /\ (c + m) mod M32 = fst (alloc c m).
Proof. exact (@go_AllocPacketID_is_alloc c m). Qed.
Print Assumptions C11_AllocPacketID_tied.

(** nextEchoID likewise *)
Theorem C11_nextEchoID_tied c : echo_ids c 1 = [go_icmp_nextEchoID c].
Proof. exact (@go_nextEchoID_is_echo_ids c). Qed.
Print Assumptions C11_nextEchoID_tied.

(** the same for the serial engine (TCP SYN runs): foreign packets interleaved in any way with the run's own replies — one per TTL, each within its listening window — never enter the result and never keep an own reply out of it *)
Theorem C11_shared_wire_isolation_serial p own foreign shared r :
  (forall e, In e shared <-> In e own \/ In e foreign) ->
  (forall e, In e foreign -> e_kind e = 1) ->
  (forall e, In e own -> e_kind e = 0 /\ 0 <= e_delay e <= tp_timeout p) ->
  NoDup (R shared) ->
  serial_run p shared = TDone r ->
  (forall q, In q (tr_accepted r) -> exists e, In e own /\ matches e q)
  /\ (forall e s0, In e own -> In (e_ttl e, s0) (tr_sends r) -> exists q, In q (tr_accepted r) /\ matches e q).
Proof. exact (@shared_wire_isolation_serial p own foreign shared r). Qed.
Print Assumptions C11_shared_wire_isolation_serial.

