(** C04 — destination marking.  Theorems only. *)
From Coq Require Import List ZArith Bool.
From TR Require Import Lib.Bytes Wire.Decode Drv.Drivers Spec.C01 Proofs.DrvProofs Res.Doc.
Import ListNotations.
Open Scope Z_scope.

(** a hop is marked destination exactly when the reply used for it is the protocol's proof of arrival
    sent by the target: echo reply (ICMP); any matched ICMP error from the target (UDP); SYN-ACK/RST
    from the target port (TCP SYN); selective ACK from the target port or a time-exceeded sent by the
    target itself (SACK) *)
Theorem C04_dest_iff_proof_of_arrival : forall c st v now t a r d,
  cfg_ok c -> recv_view c st v now = Hop t a r d -> d = proof_of_arrival c v /\ a = v_src v.
Proof. intros c st v now t a r d Hc H. destruct (recv_view_sound c st v now t a r d Hc H) as [_ [Ha [Hd _]]]. auto. Qed.
Print Assumptions C04_dest_iff_proof_of_arrival.

(** a reply from any other address is never proof of arrival *)
Theorem C04_other_address_never : forall c v, bytes_eqb (v_src v) (c_target c) = false -> proof_of_arrival c v = false.
Proof.
  intros c v H. unfold proof_of_arrival, addr_eqb. destruct (c_variant c), (v_l4 v); rewrite ?H; try reflexivity; apply andb_false_r.
Qed.
Print Assumptions C04_other_address_never.

(** a time-exceeded from anywhere never marks the destination for ICMP and TCP SYN runs *)
Theorem C04_time_exceeded_never_icmp_tcp : forall c v,
  (c_variant c = VIcmp \/ c_variant c = VTcp) -> is_ttl_exceeded (v_l4 v) = true -> proof_of_arrival c v = false.
Proof.
  intros c v [V|V] T; unfold proof_of_arrival; rewrite V; destruct (v_l4 v) as [tc|ty co id sq pay|ty co pay]; cbn in T; try discriminate; try reflexivity.
  - apply andb_true_iff in T. destruct T as [T _]. apply Z.eqb_eq in T. subst ty. reflexivity.
  - apply andb_true_iff in T. destruct T as [T _]. apply Z.eqb_eq in T. subst ty. reflexivity.
Qed.
Print Assumptions C04_time_exceeded_never_icmp_tcp.

(** the end-to-end RTT of a run is its destination hop's RTT, 0 when there is none *)
Theorem C04_e2e_is_dest_hop : forall r, dest_rtt r = match find hd_dest (rd_hops r) with Some h => hd_rtt h | None => 0 end.
Proof. reflexivity. Qed.
Print Assumptions C04_e2e_is_dest_hop.
