(** C01 — attribution soundness.  Theorems only. *)
From Coq Require Import List ZArith Bool.
From TR Require Import Lib.Bytes Wire.Decode Drv.Drivers Spec.C01 Proofs.DrvProofs Eng.Engine Eng.Timed Spec.C03 Proofs.EngCorollaries Proofs.EngComplete Proofs.EngIso Proofs.SerialComplete.
Import ListNotations.
Open Scope Z_scope.

(** Every variant (ICMP/UDP v4+v6, TCP SYN default/Paris, SACK; strict and relaxed), every table of
    sent probes, every inbound packet, every clock value: if the matcher yields hop (t, a) then the
    packet is a genuine reply to this run's probe with TTL t — an ICMP error quoting the run's flow
    and that probe's full-width identifier, or a direct reply on the probe's own flow — it was sent
    by a, the destination flag is the protocol's proof of arrival, and the RTT is measured against
    that same probe's send time. *)
Theorem C01_matcher_sound : forall c st v now t a r d,
  cfg_ok c -> recv_view c st v now = Hop t a r d ->
  genuine c st v t = true /\ a = v_src v /\ d = proof_of_arrival c v
  /\ exists s, In s st /\ s_ttl s = t /\ r = now - s_time s.
Proof. exact recv_view_sound. Qed.
Print Assumptions C01_matcher_sound.

(** on raw bytes as the capture layer delivers them *)
Theorem C01_bytes_sound : forall c st b now t a r d,
  cfg_ok c -> recv c st b now = Hop t a r d ->
  exists v, frame_parse b = PView v /\ hop_ok c st v now t a r d.
Proof. exact recv_sound. Qed.
Print Assumptions C01_bytes_sound.

(** lifted through both engines: every non-empty hop of a run is one of the replies the driver accepted
    for exactly that TTL (C03's [sh_backed]), hence genuine by the theorem above *)
Theorem C01_run_hops_backed : forall (serial : bool) p script r,
  (if serial then serial_run p script else parallel_run p script) = TDone r ->
  exists s hs, tr_slots r = Some s /\ to_hops (tp_first p) s = Some hs
               /\ forall i h a, nth_error hs i = Some h -> h_ip h = Some a ->
                  exists q, In q (tr_accepted r) /\ p_ttl q = h_ttl h /\ p_ip q = a /\ p_rtt q = h_rtt h /\ p_dest q = h_dest h.
Proof.
  intros serial p script r H. destruct (timed_shape serial p script r H) as [s [hs [H1 [H2 [H3 _]]]]].
  exists s, hs. split; [exact H1|]. split; [exact H2|]. intros i h a Hn Ha. eapply sh_backed; eauto.
Qed.
Print Assumptions C01_run_hops_backed.

(** ... and every accepted reply is one of the entries the driver matched (never a noise entry), for ANY script *)
Theorem C01_accepted_replies_come_from_matches : forall p script r,
  parallel_run p script = TDone r ->
  forall q, In q (tr_accepted r) -> exists e, In e script /\ e_kind e <> 1 /\ matches e q.
Proof. exact parallel_accepts_only_script_replies. Qed.
Print Assumptions C01_accepted_replies_come_from_matches.

(** the same for the serial engine *)
Theorem C01_serial_accepted_replies_come_from_matches p script r :
  serial_run p script = TDone r ->
  forall q, In q (tr_accepted r) -> exists e, In e script /\ e_kind e <> 1 /\ matches e q.
Proof. exact (@serial_accepts_only_script_replies p script r). Qed.
Print Assumptions C01_serial_accepted_replies_come_from_matches.

