(** C20 — TCP method policy: SACK never masked, fallback only when unsupported.  Theorems only.
    Error values are Go's error trees (fmt.Errorf %w chains, *sack.NotSupportedError, errors.Join) of ANY shape and depth. *)
From Coq Require Import List ZArith Bool.
From TR Require Import Pol.Params Proofs.ParamProofs Pol.FallbackProg Generated.Fallback Proofs.FallbackProofs.
Open Scope Z_scope.

(** method sack: the outcome is a SACK trace or (exactly) the SACK error; SYN is never attempted *)
Theorem C20_sack_never_masked : forall syn sack sock,
  fb_syn_calls (perform MSack syn sack sock) = 0
  /\ (fb_trace (perform MSack syn sack sock) = Some TSack \/ fb_err (perform MSack syn sack sock) <> None)
  /\ fb_trace (perform MSack syn sack sock) <> Some TSyn
  /\ (forall e, sack = RErr e -> fb_err (perform MSack syn sack sock) = Some e).
Proof. exact policy_sack. Qed.
Print Assumptions C20_sack_never_masked.

(** method prefer_sack: a SYN trace is attempted exactly when the SACK attempt failed with NotSupported somewhere
    in its error tree; any other SACK failure is returned, wrapping every cause, without falling back *)
Theorem C20_prefer_sack : forall syn sack sock,
  (fb_syn_calls (perform MPrefer syn sack sock) = 1 <-> exists e, sack = RErr e /\ has_notsup e = true)
  /\ (sack = ROk -> fb_trace (perform MPrefer syn sack sock) = Some TSack)
  /\ (forall e, sack = RErr e -> has_notsup e = false ->
        fb_trace (perform MPrefer syn sack sock) = None /\ fb_syn_calls (perform MPrefer syn sack sock) = 0
        /\ exists e', fb_err (perform MPrefer syn sack sock) = Some e' /\ forall id, has_cause e id = true -> has_cause e' id = true).
Proof. exact policy_prefer. Qed.
Print Assumptions C20_prefer_sack.

(** method syn: the SACK implementation (hence the TCP dial) is never invoked *)
Theorem C20_syn_never_connects : forall m syn sack sock, (m = MSyn \/ m = MDefault) -> fb_sack_calls (perform m syn sack sock) = 0.
Proof. exact policy_syn_never_connects. Qed.
Print Assumptions C20_syn_never_connects.

(** "SACK unavailable" is exactly: cannot connect, no SACK-permitted in the handshake, acknowledgements without SACK blocks;
    filter / send / read failures and an uncaptured handshake are plain errors *)
Theorem C20_unavailable_exact : forall f,
  (match sack_run f with RErr e => has_notsup e | ROk => false end) = true
  <-> (exists c, f = FDial c) \/ f = FNoSackPermitted \/ f = FAckWithoutSack.
Proof. exact sack_unavailable_exact. Qed.
Print Assumptions C20_unavailable_exact.

(** end-to-end probes use SYN whatever the method *)
Theorem C20_e2e_uses_syn : forall p, rp_proto p = PTcp ->
  rp_method (e2e_params p) <> MSack /\ rp_method (e2e_params p) <> MPrefer /\ rp_min (e2e_params p) = rp_max p /\ rp_max (e2e_params p) = rp_max p.
Proof. exact e2e_uses_syn. Qed.
Print Assumptions C20_e2e_uses_syn.

(** tie kind A, regenerated on every run by tools/goextract: performTCPFallback as it stands in the source (default for the empty method, the switch, the prefer_sack block with errors.As on *sack.NotSupportedError and the %w wrap) evaluates to the model's [perform] for EVERY method and EVERY outcome of the three implementations; a statement the translator does not recognise evaluates to None and breaks this theorem *)
Theorem C20_performTCPFallback_tied m syn sack sock :
  feval (go_fallback_case m) (outs syn sack sock) (mkFS None 0 0 0) = Some (perform m syn sack sock).
Proof. exact (@extracted_fallback_is_perform m syn sack sock). Qed.
Print Assumptions C20_performTCPFallback_tied.

