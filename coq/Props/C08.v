(** C08 — bounded termination and prompt cancellation.  Theorems only.
    Oracles (assumed, see DESIGN.md section 4): a read returns by its deadline; the resolver
    and the HTTP client return by the deadline of the context they are given — the models
    below use exactly the deadlines the code passes. *)
From Coq Require Import List ZArith Bool.
From TR Require Import Eng.Engine Eng.Timed Spec.C08 Pol.PublicIp Proofs.EngTimed Proofs.EngFuel Proofs.PolProofs Lib.Bytes Drv.Drivers Drv.Handshake Proofs.SackTimed Generated.Consts.
Import ListNotations.
Open Scope Z_scope.

(** parallel engine, ANY network script (silence, floods of noise, bursts, stale replies):
    returns before timeout + delay*count + one poll interval *)
Theorem C08_parallel_bounded : forall p script r,
  parallel_run p script = TDone r ->
  tr_slots r = clip (tp_first p) (merge_all (tp_last p) (tr_accepted r))
  /\ Forall (in_range p) (tr_accepted r)
  /\ tr_elapsed r < parallel_bound p.
Proof. exact parallel_run_spec. Qed.
Print Assumptions C08_parallel_bounded.

(** the model's recursion budget is never the reason a run ends: for EVERY script the parallel engine model returns a
    result, an error, a failure or a timer tie — never out-of-fuel — so the bound above is not vacuous *)
Theorem C08_parallel_never_out_of_fuel : forall p script, parallel_run p script <> TOutOfFuel.
Proof. exact parallel_run_never_out_of_fuel. Qed.
Print Assumptions C08_parallel_never_out_of_fuel.

(** serial engine: the per-TTL sum *)
Theorem C08_serial_bounded : forall p script r,
  serial_run p script = TDone r ->
  tr_slots r = clip (tp_first p) (merge_all (tp_last p) (tr_accepted r))
  /\ Forall (in_range p) (tr_accepted r)
  /\ tr_elapsed r <= serial_bound p.
Proof. exact serial_run_spec. Qed.
Print Assumptions C08_serial_bounded.

Theorem C08_serial_never_out_of_fuel : forall p script, serial_run p script <> TOutOfFuel.
Proof. exact serial_run_never_out_of_fuel. Qed.
Print Assumptions C08_serial_never_out_of_fuel.

(** external cancellation at ANY instant c: the receiver leaves within one poll interval ... *)
Theorem C08_parallel_cancel_prompt : forall p script c r,
  0 <= c -> parallel_run_cancelled p script c = TDone r ->
  Z.min (pdeadline p) c < tr_elapsed r < Z.min (pdeadline p) c + tp_poll p
  /\ tr_elapsed r < c + tp_poll p.
Proof. exact parallel_run_cancel_spec. Qed.
Print Assumptions C08_parallel_cancel_prompt.

(** ... and the sender within one send delay *)
Theorem C08_sender_exit_prompt : forall p c, 0 <= c -> 0 <= tp_delay p -> 0 <= count p -> sender_exit p c <= c + tp_delay p.
Proof. exact sender_exit_bound. Qed.
Print Assumptions C08_sender_exit_prompt.

(** SACK path.  The handshake reader sets ONE deadline (500 ms) and is bounded by it for EVERY packet stream
    (unrelated SYN-ACKs, ICMP, garbage at any rate) ... *)
Theorem C08_sack_handshake_read_bounded : forall c D frames,
  0 <= D -> Forall (fun x => 0 <= fst x) frames -> 0 <= snd (read_handshake_timed c D frames) <= D.
Proof. exact handshake_read_bounded. Qed.
Print Assumptions C08_sack_handshake_read_bounded.

(** ... and the whole SACK run (dial under the run context — oracle: returns by the context deadline M —, handshake
    read, parallel engine under the same context) ends before M + 500 ms + one poll interval *)
Theorem C08_sack_total_bounded : forall M dial hs p script total,
  0 <= dial <= M -> 0 <= hs <= handshake_read_timeout ->
  sack_total M dial hs p script = Some total ->
  total < M + handshake_read_timeout + tp_poll p.
Proof. exact sack_total_bounded. Qed.
Print Assumptions C08_sack_total_bounded.

(** public-IP discovery, ANY per-provider behaviour (hang before/after headers, slow body, errors):
    at most providers x per-checker timeout; each provider ends by its own deadline *)
Theorem C08_public_ip_bounded : forall dl init maxi scripts g,
  0 <= dl -> get_public_ip dl init maxi 0 0 scripts = g -> g_tie g = false ->
  g_elapsed g <= Z.of_nat (length scripts) * dl.
Proof.
  intros dl init maxi scripts g H1 H2 H3.
  destruct (get_public_ip_spec dl init maxi scripts 0 0 g H1 H2 H3) as [_ [H _]]. exact H.
Qed.
Print Assumptions C08_public_ip_bounded.

(** the constants the bounds are computed from are the ones in the source on this run *)
Theorem C08_constants : publicip_ipCheckerCallTimeout = 2000000000 /\ reversedns_reverseDnsDefaultTimeout = 5000000000.
Proof. split; reflexivity. Qed.
Print Assumptions C08_constants.

Example C08_example :
  match parallel_run (mkTP 1 3 100 10 5) [mkEntry 2 7 1 false 0] with TDone r => tr_elapsed r | _ => -1 end = 122.
Proof. reflexivity. Qed.
