(** C06 — probe emission.  Theorems only.
    Checksum validity is proved for every builder: the IPv4 header, the ICMPv4 and ICMPv6 echo bodies, every UDP
    datagram and every TCP segment (SYN and SACK probes); the correspondence additionally verifies the emitted bytes
    with an independent receiver-side implementation. *)
From Coq Require Import List ZArith Bool.
From TR Require Import Lib.Bytes Wire.Decode Wire.Build Drv.Drivers Spec.C06 Proofs.BuildProofs Proofs.BuildProofs2 Proofs.ProbeWf Proofs.ProbeFlow Eng.Engine Eng.Parallel Eng.Timed Proofs.EngParallel Proofs.EngCorollaries Spec.C03 Generated.GoIds Proofs.GoTieIds.
Import ListNotations.
Open Scope Z_scope.

(** the TTL / hop-limit byte of every probe is the probed TTL — all builders, all inputs *)
Theorem C06_ttl_byte :
  (forall s d e t, probe_ttl_byte (icmp4_probe s d e t) = t) /\ (forall s d e t, probe_ttl_byte (icmp6_probe s d e t) = t)
  /\ (forall s d sp dp t, probe_ttl_byte (udp4_probe s d sp dp t) = t) /\ (forall s d sp dp t, probe_ttl_byte (udp6_probe s d sp dp t) = t)
  /\ (forall s d sp dp id sq t, probe_ttl_byte (syn_probe s d sp dp id sq t) = t)
  /\ (forall s d sp dp a b ts tv te t, probe_ttl_byte (sack_probe s d sp dp a b ts tv te t) = t).
Proof. repeat split; intros; reflexivity. Qed.
Print Assumptions C06_ttl_byte.

(** per-probe identifiers are unique within a run for the deterministic schemes, at EVERY base
    (IP-ID base and initial sequence number at and around wrap-around) *)
Theorem C06_ids_unique :
  (forall t t', 0 <= t <= 255 -> 0 <= t' <= 255 -> udp4_id t = udp4_id t' -> t = t')
  /\ (forall t t', 0 <= t <= 255 -> 0 <= t' <= 255 -> udp6_id t = udp6_id t' -> t = t')
  /\ (forall base t t', 0 <= t <= 255 -> 0 <= t' <= 255 -> (base + t) mod 65536 = (base + t') mod 65536 -> t = t')
  /\ (forall isn t t', 0 <= t <= 255 -> 0 <= t' <= 255 -> (isn + t) mod 4294967296 = (isn + t') mod 4294967296 -> t = t').
Proof. repeat split; [exact udp4_id_unique|exact udp6_id_unique|exact tcp_id_unique|exact sack_seq_unique]. Qed.
Print Assumptions C06_ids_unique.

(** the IPv4 header checksum of every probe verifies at the receiver *)
Theorem C06_ip4_header_checksum : forall total id ff ttl proto src dst,
  byte_ok ttl -> byte_ok proto -> Forall byte_ok src -> Forall byte_ok dst -> length src = 4%nat -> length dst = 4%nat ->
  verifies (ip4_header total id ff ttl proto src dst) 0 = true.
Proof. exact ip4_header_checksum. Qed.
Print Assumptions C06_ip4_header_checksum.

Theorem C06_tcp_checksum : forall src dst sport dport seq ack flags opts payload,
  Forall byte_ok src -> Forall byte_ok dst -> (length src <= 16)%nat -> (length dst <= 16)%nat ->
  byte_ok flags -> Forall byte_ok opts -> Forall byte_ok payload -> len opts <= 40 -> (length payload <= 1000)%nat ->
  verifies (tcp_segment src dst sport dport seq ack flags opts payload)
           (pseudo src dst 6 (len (tcp_segment src dst sport dport seq ack flags opts payload))) = true.
Proof. exact tcp_segment_checksum. Qed.
Print Assumptions C06_tcp_checksum.

Theorem C06_icmp4_checksum : forall echo_id ttl, byte_ok ttl ->
  verifies (put16 2 (cksum ([8; 0; 0; 0] ++ u16b echo_id ++ u16b ttl ++ [ttl]) 0) ([8; 0; 0; 0] ++ u16b echo_id ++ u16b ttl ++ [ttl])) 0 = true.
Proof. exact icmp4_body_checksum. Qed.
Print Assumptions C06_icmp4_checksum.

(** every UDP datagram (IPv4 and IPv6 pseudo-header alike) verifies at the receiver *)
Theorem C06_udp_checksum src dst sport dport payload :
  Forall byte_ok src -> Forall byte_ok dst -> (length src <= 16)%nat -> (length dst <= 16)%nat ->
  Forall byte_ok payload -> (length payload <= 1000)%nat ->
  verifies (udp_segment src dst sport dport payload) (pseudo src dst 17 (len (udp_segment src dst sport dport payload))) = true.
Proof. exact (@udp_segment_checksum src dst sport dport payload). Qed.
Print Assumptions C06_udp_checksum.

(** ... and its checksum field is never zero: a checksum that computes to zero goes out as 0xffff (RFC 768; RFC 8200
    section 8.1, where a zero field makes the receiver discard the datagram).  Finding F11: the unrepaired code sent the zero. *)
Theorem C06_udp_checksum_nonzero src dst sport dport payload :
  Forall byte_ok src -> Forall byte_ok dst -> (length src <= 16)%nat -> (length dst <= 16)%nat ->
  Forall byte_ok payload -> (length payload <= 1000)%nat ->
  let seg := udp_segment src dst sport dport payload in
  1 <= be16 (nth 6 seg 0) (nth 7 seg 0) <= 65535.
Proof. exact (@udp_segment_checksum_nonzero src dst sport dport payload). Qed.
Print Assumptions C06_udp_checksum_nonzero.

(** non-vacuity: the substitution is reachable - this IPv6 probe's checksum computes to zero and is sent as 0xffff *)
Example C06_udp6_zero_checksum_witness :
  let src := [32; 1; 13; 184; 0; 0; 0; 0; 0; 0; 0; 0; 0; 0; 0; 2] in
  let dst := [32; 1; 13; 184; 0; 1; 0; 0; 0; 0; 0; 0; 0; 0; 0; 7] in
  let pl := repeat_magic (Z.to_nat (5 + 29)) magic in
  cksum (u16b 1121 ++ u16b 33434 ++ u16b (8 + len pl) ++ [0; 0] ++ pl) (pseudo src dst 17 (8 + len pl)) = 0
  /\ (nth 46 (udp6_probe src dst 1121 33434 29) 0, nth 47 (udp6_probe src dst 1121 33434 29) 0) = (255, 255).
Proof. vm_compute. split; reflexivity. Qed.

(** "Every probe is a well-formed IP packet whose TTL/hop-limit equals the probed TTL, with correct lengths and
    checksums": whatever the driver model sends — every variant, both families, every TTL 0..255, every identifier base,
    every port pair, whatever was sent before — satisfies [probe_wf], the very predicate the correspondence check
    evaluates on the bytes the real drivers emit (version/IHL, TTL byte, total/payload length, protocol, IPv4 header
    checksum, no fragmentation, L4 checksum against the pseudo-header, UDP length, non-zero UDP checksum over IPv6,
    TCP data offset within the segment) *)
Theorem C06_sent_probe_wf c st t now rnd st' pkt :
  cfg_wire_ok c -> 0 <= t <= 255 -> send c st t now rnd = SendOk st' pkt -> probe_wf c t pkt = true.
Proof. exact (@sent_probe_wf c st t now rnd st' pkt). Qed.
Print Assumptions C06_sent_probe_wf.

(** "the same source/destination addresses and ports for the whole run, and a per-probe identifier": every probe the
    driver model sends carries the run's addresses and ports ([probe_flow_ok]) and, on the wire, exactly the identifier
    its scheme assigns to this TTL ([wire_id_ok]; the schemes are injective in the TTL: C06_ids_unique) — the two other
    predicates the correspondence check evaluates on the real drivers' bytes *)
Theorem C06_sent_probe_flow_id c st t now rnd st' pkt :
  cfg_wire_ok c -> cfg_ids_ok c rnd -> 0 <= t <= 255 -> send c st t now rnd = SendOk st' pkt ->
  probe_flow_ok c pkt = true /\ wire_id_ok c t rnd pkt = true.
Proof. exact (@sent_probe_flow_id_ok c st t now rnd st' pkt). Qed.
Print Assumptions C06_sent_probe_flow_id.

(** the ICMPv6 echo body verifies against the IPv6 pseudo-header *)
Theorem C06_icmp6_checksum src dst echo_id ttl :
  Forall byte_ok src -> Forall byte_ok dst -> (length src <= 16)%nat -> (length dst <= 16)%nat -> byte_ok ttl ->
  let body0 := [128; 0; 0; 0] ++ u16b echo_id ++ u16b ttl ++ [ttl] in
  verifies (put16 2 (cksum body0 (pseudo src dst 58 (len body0))) body0) (pseudo src dst 58 (len body0)) = true.
Proof. exact (@icmp6_body_checksum src dst echo_id ttl). Qed.
Print Assumptions C06_icmp6_checksum.

(** tie kind A, regenerated on every run by tools/goextract/exprs.go: getNextPacketIDAndSeqNum as it stands in the source gives the IP-ID and sequence number the driver model puts on the wire (default and Paris mode) *)
Theorem C06_tcp_ids_tied c ttl rnd : 0 <= ttl < 256 ->
  go_tcp_tcpDriver_getNextPacketIDAndSeqNum ttl (c_paris c) rnd (c_base_id c) (c_seq c)
  = ((if c_paris c then 41821 else (c_base_id c + ttl) mod 65536), (if c_paris c then rnd else c_seq c)).
Proof. exact (@go_tcp_ids c ttl rnd). Qed.
Print Assumptions C06_tcp_ids_tied.

(** the IP identification expression of the UDP/IPv4 probe builder is [udp4_id] *)
Theorem C06_udp4_id_tied ttl : 0 <= ttl < 256 -> go_udp4_ip_id ttl = udp4_id ttl.
Proof. exact (@go_udp4_id ttl). Qed.
Print Assumptions C06_udp4_id_tied.

(** all interleavings of the parallel engine: the TTLs handed to SendProbe are first, first+1, ... —
    at most one probe per TTL, in increasing order *)
Theorem C06_emission_order : forall first last s,
  1 <= first <= last -> reachable first last s -> ps_sent s = zseq first (Z.to_nat (ps_next s - first)).
Proof. intros first last s H R. destruct (parallel_all_interleavings first last s H R) as [_ [E _]]. exact E. Qed.
Print Assumptions C06_emission_order.
