(** C19 — parameters are honoured exactly or rejected, never wrapped; no crash.  Theorems only.
    PARTIAL: net.SplitHostPort / netip.ParseAddr / DNS (target literal forms) are not modelled; they are
    covered by the correspondence only.  "No accepted value crashes" for the drivers' tables is C06/C09's lab
    (TTL 255 on every variant incl. SACK) plus the engines' C03 theorem (no slice panic). *)
From Coq Require Import List ZArith Bool.
From TR Require Import Pol.Params Proofs.ParamProofs Generated.GoRange Proofs.GoTieRange.
Open Scope Z_scope.

(** for ALL integer TTL bounds and ports: an accepted request is executed with exactly the stated TTL range,
    the stated port (the default when 0), the stated protocol and method — all within wire range *)
Theorem C19_accepted_is_exact : forall p k f l port,
  accept p = Exec k f l port ->
  1 <= f <= l /\ l <= 255 /\ f = rp_min p /\ l = rp_max p
  /\ (k <> KIcmp -> port = (if rp_port p =? 0 then default_port else rp_port p) /\ 1 <= port <= 65535)
  /\ (k = KIcmp <-> rp_proto p = PIcmp) /\ (k = KUdp <-> rp_proto p = PUdp)
  /\ (k = KTcpSyn <-> rp_proto p = PTcp /\ (rp_method p = MDefault \/ rp_method p = MSyn))
  /\ (k = KTcpSack <-> rp_proto p = PTcp /\ rp_method p = MSack)
  /\ (k = KTcpPrefer <-> rp_proto p = PTcp /\ rp_method p = MPrefer).
Proof. exact accept_exact. Qed.
Print Assumptions C19_accepted_is_exact.

(** values that cannot be represented on the wire are rejected, never wrapped or truncated *)
Theorem C19_unrepresentable_rejected : forall p,
  (rp_min p < 1 \/ rp_max p > 255 \/ rp_min p > rp_max p -> accept p = Reject)
  /\ (rp_proto p = POther -> accept p = Reject)
  /\ ((rp_proto p = PUdp \/ rp_proto p = PTcp) -> (dest_port p < 1 \/ dest_port p > 65535) -> accept p = Reject)
  /\ (rp_proto p = PTcp -> rp_method p = MOther -> accept p = Reject).
Proof. exact unrepresentable_rejected. Qed.
Print Assumptions C19_unrepresentable_rejected.

Example C19_examples :
  accept (mkRP PUdp 1 300 0 MDefault) = Reject /\ accept (mkRP PTcp 257 257 80 MSyn) = Reject
  /\ accept (mkRP PUdp 1 255 65616 MDefault) = Reject /\ accept (mkRP PIcmp 255 255 0 MDefault) = Exec KIcmp 255 255 0
  /\ accept (mkRP PUdp 1 30 0 MDefault) = Exec KUdp 1 30 33434.
Proof. repeat split; reflexivity. Qed.

(** tie kind A, regenerated on every run by tools/goextract/exprs.go: the condition under which runTracerouteOnce rejects a TTL range is exactly the model's *)
Theorem C19_ttl_range_check_tied p : go_runOnce_ttl_range_rejected (rp_min p) (rp_max p) = negb (ttl_range_ok p).
Proof. exact (@go_ttl_range_check p). Qed.
Print Assumptions C19_ttl_range_check_tied.

(** tie kind A: the destination port RunTraceroute hands to every run (the default when 0, with common.DefaultPort inlined from its declaration) is the model's [dest_port] *)
Theorem C19_destination_port_tied p : go_destination_port (rp_port p) = dest_port p.
Proof. exact (@go_destination_port_is_model p). Qed.
Print Assumptions C19_destination_port_tied.

