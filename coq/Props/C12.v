(** C12 — capture filters.  Property theorems only; proofs live in Proofs/. *)
From Coq Require Import List ZArith Bool.
From TR Require Import Lib.Bytes Bpf.Vm Spec.C12 Generated.BpfProgs Proofs.C12Exact.
Open Scope Z_scope.

(** The TCP-tuple filter accepts exactly IPv4 ICMP plus unfragmented IPv4 TCP
    with the configured addresses and ports — every frame, every configuration. *)
Theorem C12_tcp_tuple_exact : forall s d sp dp f,
  accepts (prog_of (raw_tcp4 s d sp dp)) f = tcp4_specb s d sp dp f.
Proof. exact tcp4_exact. Qed.
Print Assumptions C12_tcp_tuple_exact.

Theorem C12_synack_exact : forall f, accepts (prog_of raw_synack) f = synack_specb f.
Proof. exact synack_exact. Qed.
Print Assumptions C12_synack_exact.

Theorem C12_icmp_exact : forall f, accepts (prog_of raw_icmp) f = icmp_specb f.
Proof. exact icmp_exact. Qed.
Print Assumptions C12_icmp_exact.

Theorem C12_dropall_exact : forall f, accepts (prog_of raw_dropall) f = false.
Proof. exact dropall_exact. Qed.
Print Assumptions C12_dropall_exact.

Theorem C12_programs_in_subset : forall s d sp dp,
  is_some (decode_all raw_icmp) && is_some (decode_all raw_udp)
  && is_some (decode_all raw_synack) && is_some (decode_all raw_dropall)
  && is_some (decode_all (raw_tcp4 s d sp dp)) = true.
Proof. intros. rewrite decode_static_ok, decode_tcp4_ok. reflexivity. Qed.
Print Assumptions C12_programs_in_subset.
