(** C12 — capture filters.  Property theorems only; proofs live in Proofs/. *)
From Coq Require Import List ZArith Bool.
From TR Require Import Lib.Bytes Bpf.Vm Spec.C12 Generated.BpfProgs Proofs.C12Exact Wire.Decode Drv.Drivers Run.Drv Drv.Handshake Proofs.Linking Generated.FilterUse Pol.SourceHist Proofs.SourceHistProofs.
Import ListNotations.
Open Scope Z_scope.

(** The TCP-tuple filter accepts exactly IPv4 ICMP plus unfragmented IPv4 TCP
    with the configured addresses and ports — every frame, every configuration. *)
Theorem C12_tcp_tuple_exact : forall s d sp dp f,
  accepts (prog_of (raw_tcp4 s d sp dp)) f = tcp4_specb s d sp dp f.
Proof. exact tcp4_exact. Qed.
Print Assumptions C12_tcp_tuple_exact.

Theorem C12_synack_exact : forall f, accepts (prog_of raw_synack) f = synack_specb f.
Proof. exact synack_exact. Qed.
Print Assumptions C12_synack_exact.

Theorem C12_icmp_exact : forall f, accepts (prog_of raw_icmp) f = icmp_specb f.
Proof. exact icmp_exact. Qed.
Print Assumptions C12_icmp_exact.

Theorem C12_dropall_exact : forall f, accepts (prog_of raw_dropall) f = false.
Proof. exact dropall_exact. Qed.
Print Assumptions C12_dropall_exact.

Theorem C12_programs_in_subset : forall s d sp dp,
  is_some (decode_all raw_icmp) && is_some (decode_all raw_udp)
  && is_some (decode_all raw_synack) && is_some (decode_all raw_dropall)
  && is_some (decode_all (raw_tcp4 s d sp dp)) = true.
Proof. intros. rewrite decode_static_ok, decode_tcp4_ok. reflexivity. Qed.
Print Assumptions C12_programs_in_subset.

(** Linking property "the filter accepts every frame the matcher turns into a hop" (see also the restricted statement PROVED at the end of this file): the full statement is
      forall c st frame now t a r d, recv c st frame now = Hop t a r d ->
        forall p, installed_filter c = Some p -> accepts p (ether frame) = true
    It is FALSE of the faithful model, and of the code (known finding, DESIGN.md section 8 #10): an ICMPv6
    time-exceeded behind a hop-by-hop extension header is turned into a hop by the ICMP (and UDP) matcher
    while the 'icmp || icmp6' program rejects the frame.  The witness below is a frame the real driver
    accepted and the real program rejected in the correspondence run; everything else the lab delivers
    (the whole catalogue x perturbation lattice) satisfies the linking property on the implementation
    (checked on every run, signature 6.1), which is not a proof: PARTIAL. *)
Definition c12_witness_cfg : cfg := (mkCfg VIcmp 255 255 [32; 1; 13; 184; 0; 0; 0; 0; 0; 0; 0; 0; 0; 0; 0; 2] [32; 1; 13; 184; 0; 1; 0; 0; 0; 0; 0; 0; 0; 0; 0; 7] 0 0 false 65535 false 0 0 0 0 false 0 0).
Definition c12_witness_frame : bytes := [96; 0; 0; 0; 0; 65; 0; 250; 32; 1; 13; 184; 0; 0; 0; 153; 0; 0; 0; 0; 0; 0; 0; 1; 32; 1; 13; 184; 0; 0; 0; 0; 0; 0; 0; 0; 0; 0; 0; 2; 58; 0; 5; 2; 0; 0; 1; 0; 3; 0; 5; 185; 0; 0; 0; 0; 96; 0; 0; 0; 0; 9; 58; 255; 32; 1; 13; 184; 0; 0; 0; 0; 0; 0; 0; 0; 0; 0; 0; 2; 32; 1; 13; 184; 0; 1; 0; 0; 0; 0; 0; 0; 0; 0; 0; 7; 128; 0; 36; 64; 255; 255; 0; 255; 255].

Theorem C12_filter_complete_refuted :
  let st := replay c12_witness_cfg [] [(255, 2777026, 0)] in
  recv c12_witness_cfg st c12_witness_frame 1581310039 = Hop 255 [32; 1; 13; 184; 0; 0; 0; 153; 0; 0; 0; 0; 0; 0; 0; 1] 1578533013 false
  /\ (exists p, installed_filter c12_witness_cfg = Some p /\ accepts p (ether c12_witness_frame) = false).
Proof. split; [vm_compute; reflexivity|]. eexists. split; [reflexivity|]. vm_compute. reflexivity. Qed.
Print Assumptions C12_filter_complete_refuted.

(** the linking property PROVED for every variant, every driver state and EVERY frame except the one shape of the known finding (IPv6 with a hop-by-hop header first): whatever the matcher turns into a hop, the capture program the entry point installs (regenerated from the source on this run) accepts *)
Theorem C12_filter_accepts_every_hop c st b now t a r d p :
  addrs_ok c ->
  recv c st b now = Hop t a r d ->
  v6_hop_by_hop b = false ->
  installed_filter c = Some p ->
  accepts p (ether b) = true.
Proof. exact (@filter_accepts_every_hop c st b now t a r d p). Qed.
Print Assumptions C12_filter_accepts_every_hop.

(** and during the SACK handshake: every segment the handshake reader reacts to (SYN-ACK of the dialled connection, with or without SACK-permitted) passes the SYN-ACK program *)
Theorem C12_synack_filter_accepts_every_handshake_segment c b v :
  length (c_target c) = 4%nat ->
  frame_parse b = PView v ->
  handle_handshake c v <> HIgnore ->
  accepts (prog_of raw_synack) (ether b) = true.
Proof. exact (@linking_synack c b v). Qed.
Print Assumptions C12_synack_filter_accepts_every_handshake_segment.

(** tie kind A, regenerated on every run by tools/goextract/filteruse.go: the SetPacketFilter calls of the four entry
    points, in source order, are the ones [installed_filter] (and the handshake theorem) assume — which filter type, with
    the target as Src and the local endpoint as Dst *)
Theorem C12_filter_use_tied :
  fu_icmp_runICMPTraceroute = model_filter_use VIcmp /\ fu_udp_UDPv4_Traceroute = model_filter_use VUdp
  /\ fu_tcp_TCPv4_Traceroute = model_filter_use VTcp /\ fu_sack_runSackTraceroute = model_filter_use VSack.
Proof. repeat split; reflexivity. Qed.
Print Assumptions C12_filter_use_tied.

(** Histories on one capture socket (the socket as a state machine: a program is run over a frame when it arrives;
    installing a program empties the queue first; "none" detaches).  After ANY history of installations and arrivals,
    installing the program for [f] and receiving [frs] leaves in the queue exactly the frames of [frs] that the field-level
    specification of [f] selects: exactness is a property of the last requested filter alone, and nothing captured
    under an earlier filter survives.  (Kind 30 of the c12 lab runs the repository's afPacketSource through such histories.) *)
Theorem C12_history_exact : forall h f frs,
  f <> FsNone ->
  queue (fold_left sstep (map OArrive frs) (install (srun h) f)) = filter (selects f) frs.
Proof. exact history_exact. Qed.
Print Assumptions C12_history_exact.

Theorem C12_history_last_filter_decides : forall specs f fr, captured (specs ++ [f]) fr = selects f fr.
Proof. exact captured_last. Qed.
Print Assumptions C12_history_last_filter_decides.

Theorem C12_history_stale_frames_dropped : forall specs f fr, f <> FsNone -> stale_captured (specs ++ [f]) fr = false.
Proof. exact stale_never_after_program. Qed.
Print Assumptions C12_history_stale_frames_dropped.
