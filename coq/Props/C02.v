(** C02 — recognition completeness (on the parsed view).  Theorems only.
    PARTIAL: the byte-level statement "reply_of form probe parses to a genuine view" for each
    catalogue form is validated by the correspondence (independent builders), not yet proved. *)
From Coq Require Import List ZArith Bool.
From TR Require Import Lib.Bytes Wire.Decode Drv.Drivers Spec.C01 Proofs.DrvProofs.
Import ListNotations.
Open Scope Z_scope.

(** every packet that is a genuine reply to the probe with TTL t (in any wire form whose parsed view
    quotes the run's flow and that probe's identifier; with relaxed checking whatever the quoted
    source) yields the hop for t with the responder's address and the right destination flag *)
Theorem C02_matcher_complete : forall c st v now t,
  cfg_ok c -> genuine c st v t = true ->
  exists r, recv_view c st v now = Hop t (v_src v) r (proof_of_arrival c v).
Proof. exact recv_view_complete. Qed.
Print Assumptions C02_matcher_complete.

(** together with soundness: the matcher decides exactly [genuine] *)
Theorem C02_exact : forall c st v now t,
  cfg_ok c -> (genuine c st v t = true <-> exists a r d, recv_view c st v now = Hop t a r d).
Proof.
  intros c st v now t Hc. split.
  - intros G. destruct (recv_view_complete c st v now t Hc G) as [r Hr]. eauto.
  - intros [a [r [d H]]]. apply (recv_view_sound c st v now t a r d Hc H).
Qed.
Print Assumptions C02_exact.
