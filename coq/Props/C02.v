(** C02 — recognition completeness (on the parsed view).  Theorems only.
    The byte-level theorems at the end prove, for ALL field values, that the raw bytes of the main IPv4 reply forms
    built around the bytes the real builder emits (ICMP time-exceeded / unreachable quoting 28 bytes of the probe,
    echo reply, direct TCP SYN-ACK / RST) are recognised by the whole receive path (frame parse, header decode,
    ICMP classification, matcher); likewise for IPv6 (time-exceeded quoting the whole probe, echo reply, UDP errors).
    PARTIAL: IP options / extension headers, RFC 4884 forms, truncated IPv6 quotes and duplicate ACKs with several SACK blocks are
    covered by the correspondence (independent builders) rather than by a byte-level theorem. *)
From Coq Require Import List ZArith Bool.
From TR Require Import Lib.Bytes Wire.Decode Wire.Build Drv.Drivers Spec.C01 Proofs.DrvProofs Proofs.ByteComplete Proofs.ByteComplete6 Proofs.ByteCompleteSack Proofs.SackBlocks Eng.Engine Eng.Timed Proofs.EngComplete Proofs.SerialComplete.
Import ListNotations.
Open Scope Z_scope.

(** every packet that is a genuine reply to the probe with TTL t (in any wire form whose parsed view
    quotes the run's flow and that probe's identifier; with relaxed checking whatever the quoted
    source) yields the hop for t with the responder's address and the right destination flag *)
Theorem C02_matcher_complete : forall c st v now t,
  cfg_ok c -> genuine c st v t = true ->
  exists r, recv_view c st v now = Hop t (v_src v) r (proof_of_arrival c v).
Proof. exact recv_view_complete. Qed.
Print Assumptions C02_matcher_complete.

(** together with soundness: the matcher decides exactly [genuine] *)
Theorem C02_exact : forall c st v now t,
  cfg_ok c -> (genuine c st v t = true <-> exists a r d, recv_view c st v now = Hop t a r d).
Proof.
  intros c st v now t Hc. split.
  - intros G. destruct (recv_view_complete c st v now t Hc G) as [r Hr]. eauto.
  - intros [a [r [d H]]]. apply (recv_view_sound c st v now t a r d Hc H).
Qed.
Print Assumptions C02_exact.

(** ICMP variant: an IPv4 time-exceeded from ANY router, with any TOS / id / DF flag / TTL / checksums / unused bytes, quoting the first 28 bytes of the probe the real builder emits for TTL t, is the hop for t *)
Theorem C02_bytes_icmp4_time_exceeded c st t now s tos i1 i2 f1 ttl0 c1 c2 k1 k2 u1 u2 u3 u4 r1 r2 r3 r4 l1 l2 l3 l4 t1 t2 t3 t4 :
  c_variant c = VIcmp -> c_local c = [l1; l2; l3; l4] -> c_target c = [t1; t2; t3; t4] ->
  0 <= c_first c -> c_last c <= 255 -> in_ttl_range c t = true -> 0 <= c_echo_id c < 65536 ->
  (f1 = 0 \/ f1 = 64) ->
  find_ttl st t = Some s ->
  let probe := icmp4_probe (c_local c) (c_target c) (c_echo_id c) t in
  recv c st (hdr4 tos 0 56 i1 i2 f1 0 ttl0 1 c1 c2 r1 r2 r3 r4 l1 l2 l3 l4 ([11; 0; k1; k2; u1; u2; u3; u4] ++ takez 28 probe)) now
  = Hop t [r1; r2; r3; r4] (now - s_time s) false.
Proof. exact (@icmp4_te28_recognised c st t now s tos i1 i2 f1 ttl0 c1 c2 k1 k2 u1 u2 u3 u4 r1 r2 r3 r4 l1 l2 l3 l4 t1 t2 t3 t4). Qed.
Print Assumptions C02_bytes_icmp4_time_exceeded.

(** ICMP variant: the echo reply from the target (any trailing data) is the destination hop *)
Theorem C02_bytes_icmp4_echo_reply c st t now s tos i1 i2 f1 ttl0 c1 c2 k1 k2 l1 l2 l3 l4 t1 t2 t3 t4 data :
  c_variant c = VIcmp -> c_local c = [l1; l2; l3; l4] -> c_target c = [t1; t2; t3; t4] ->
  0 <= c_first c -> c_last c <= 255 -> in_ttl_range c t = true -> 0 <= c_echo_id c < 65536 ->
  (f1 = 0 \/ f1 = 64) -> len data <= 200 ->
  find_ttl st t = Some s ->
  let tot := 28 + len data in
  recv c st (hdr4 tos ((tot / 256) mod 256) (tot mod 256) i1 i2 f1 0 ttl0 1 c1 c2 t1 t2 t3 t4 l1 l2 l3 l4
                  ([0; 0; k1; k2; (c_echo_id c / 256) mod 256; c_echo_id c mod 256; (t / 256) mod 256; t mod 256] ++ data)) now
  = Hop t [t1; t2; t3; t4] (now - s_time s) true.
Proof. exact (@icmp4_echo_reply_recognised c st t now s tos i1 i2 f1 ttl0 c1 c2 k1 k2 l1 l2 l3 l4 t1 t2 t3 t4 data). Qed.
Print Assumptions C02_bytes_icmp4_echo_reply.

(** UDP variant: time-exceeded or ANY destination-unreachable code quoting the probe; destination iff the responder is the target *)
Theorem C02_bytes_udp4_icmp_error c st t now s ty co tos i1 i2 f1 ttl0 c1 c2 k1 k2 u1 u2 u3 u4 r1 r2 r3 r4 l1 l2 l3 l4 t1 t2 t3 t4 :
  c_variant c = VUdp -> c_local c = [l1; l2; l3; l4] -> c_target c = [t1; t2; t3; t4] ->
  0 <= c_sport c < 65536 -> 0 <= c_dport c < 65536 -> 0 <= t <= 255 ->
  (f1 = 0 \/ f1 = 64) -> ((ty = 11 /\ co = 0) \/ ty = 3) ->
  find (fun x => s_id x =? udp4_id t) st = Some s ->
  let probe := udp4_probe (c_local c) (c_target c) (c_sport c) (c_dport c) t in
  recv c st (hdr4 tos 0 56 i1 i2 f1 0 ttl0 1 c1 c2 r1 r2 r3 r4 l1 l2 l3 l4 ([ty; co; k1; k2; u1; u2; u3; u4] ++ takez 28 probe)) now
  = Hop (s_ttl s) [r1; r2; r3; r4] (now - s_time s) (bytes_eqb [r1; r2; r3; r4] [t1; t2; t3; t4]).
Proof. exact (@udp4_icmp_error28_recognised c st t now s ty co tos i1 i2 f1 ttl0 c1 c2 k1 k2 u1 u2 u3 u4 r1 r2 r3 r4 l1 l2 l3 l4 t1 t2 t3 t4). Qed.
Print Assumptions C02_bytes_udp4_icmp_error.

(** TCP variant: SYN-ACK, RST or RST-ACK from the target acknowledging the last probe *)
Theorem C02_bytes_tcp_direct_reply c st now tos i1 i2 f1 ttl0 c1 c2 q1 q2 q3 q4 fl w1 w2 k1 k2 g1 g2 l1 l2 l3 l4 t1 t2 t3 t4 lastp :
  c_variant c = VTcp -> c_local c = [l1; l2; l3; l4] -> c_target c = [t1; t2; t3; t4] ->
  0 <= c_sport c < 65536 -> 0 <= c_dport c < 65536 -> (f1 = 0 \/ f1 = 64) ->
  (fl = 18 \/ fl = 4 \/ fl = 20) ->
  rev st = lastp :: tl (rev st) -> 0 <= s_seq lastp < 4294967296 ->
  let ack := (s_seq lastp + 1) mod 4294967296 in
  recv c st (hdr4 tos 0 40 i1 i2 f1 0 ttl0 6 c1 c2 t1 t2 t3 t4 l1 l2 l3 l4
                  ([(c_dport c / 256) mod 256; c_dport c mod 256; (c_sport c / 256) mod 256; c_sport c mod 256; q1; q2; q3; q4;
                    (ack / 16777216) mod 256; (ack / 65536) mod 256; (ack / 256) mod 256; ack mod 256; 80; fl; w1; w2; k1; k2; g1; g2])) now
  = Hop (s_ttl lastp) [t1; t2; t3; t4] (now - s_time lastp) true.
Proof. exact (@tcp_direct_reply_recognised c st now tos i1 i2 f1 ttl0 c1 c2 q1 q2 q3 q4 fl w1 w2 k1 k2 g1 g2 l1 l2 l3 l4 t1 t2 t3 t4 lastp). Qed.
Print Assumptions C02_bytes_tcp_direct_reply.

(** ICMP over IPv6: a time-exceeded from ANY router (any traffic class / flow label / hop limit / checksum / unused bytes) quoting the whole probe the model builder emits for TTL t is the hop for t *)
Theorem C02_bytes_icmp6_time_exceeded c st t now s w1 w2 w3 hl0 k1 k2 u1 u2 u3 u4 router :
  c_variant c = VIcmp -> len (c_local c) = 16 -> len (c_target c) = 16 -> len router = 16 ->
  0 <= c_first c -> c_last c <= 255 -> in_ttl_range c t = true -> 0 <= c_echo_id c < 65536 ->
  find_ttl st t = Some s ->
  let probe := icmp6_probe (c_local c) (c_target c) (c_echo_id c) t in
  recv c st (hdr6 96 w1 w2 w3 0 57 58 hl0 router (c_local c) ([3; 0; k1; k2; u1; u2; u3; u4] ++ probe)) now
  = Hop t router (now - s_time s) false.
Proof. exact (@icmp6_te_recognised c st t now s w1 w2 w3 hl0 k1 k2 u1 u2 u3 u4 router). Qed.
Print Assumptions C02_bytes_icmp6_time_exceeded.

(** ICMP over IPv6: the echo reply from the target (any trailing data) is the destination hop *)
Theorem C02_bytes_icmp6_echo_reply c st t now s w1 w2 w3 l1 l2 hl0 k1 k2 data :
  c_variant c = VIcmp -> len (c_local c) = 16 -> len (c_target c) = 16 ->
  0 <= c_first c -> c_last c <= 255 -> in_ttl_range c t = true -> 0 <= c_echo_id c < 65536 ->
  256 * l1 + l2 = 8 + len data ->
  find_ttl st t = Some s ->
  recv c st (hdr6 96 w1 w2 w3 l1 l2 58 hl0 (c_target c) (c_local c)
                  ([129; 0; k1; k2; (c_echo_id c / 256) mod 256; c_echo_id c mod 256; (t / 256) mod 256; t mod 256] ++ data)) now
  = Hop t (c_target c) (now - s_time s) true.
Proof. exact (@icmp6_echo_reply_recognised c st t now s w1 w2 w3 l1 l2 hl0 k1 k2 data). Qed.
Print Assumptions C02_bytes_icmp6_echo_reply.

(** UDP over IPv6: time-exceeded or ANY destination-unreachable code quoting the whole probe; destination iff the responder is the target *)
Theorem C02_bytes_udp6_icmp_error c st t now s ty co w1 w2 w3 L1 L2 hl0 k1 k2 u1 u2 u3 u4 router :
  c_variant c = VUdp -> len (c_local c) = 16 -> len (c_target c) = 16 -> len router = 16 ->
  0 <= c_sport c < 65536 -> 0 <= c_dport c < 65536 -> 0 <= t <= 255 ->
  ((ty = 3 /\ co = 0) \/ ty = 1) -> 256 * L1 + L2 = 61 + t ->
  find (fun x => s_id x =? udp6_id t) st = Some s ->
  let probe := udp6_probe (c_local c) (c_target c) (c_sport c) (c_dport c) t in
  recv c st (hdr6 96 w1 w2 w3 L1 L2 58 hl0 router (c_local c) ([ty; co; k1; k2; u1; u2; u3; u4] ++ probe)) now
  = Hop (s_ttl s) router (now - s_time s) (bytes_eqb router (c_target c)).
Proof. exact (@udp6_icmp_error_recognised c st t now s ty co w1 w2 w3 L1 L2 hl0 k1 k2 u1 u2 u3 u4 router). Qed.
Print Assumptions C02_bytes_udp6_icmp_error.

(** SACK variant: the duplicate ACK of the target (ACK only; options NOP NOP SACK(left, right)) is the destination hop of the probe whose sequence number is the left edge — for any initial sequence number, incl. across the 2^32 wrap *)
Theorem C02_bytes_sack_dup_ack c st now s t tos i1 i2 f1 ttl0 c1 c2 q1 q2 q3 q4 a1 a2 a3 a4 w1 w2 k1 k2 g1 g2 r1 r2 r3 r4 l1 l2 l3 l4 t1 t2 t3 t4 :
  c_variant c = VSack -> c_local c = [l1; l2; l3; l4] -> c_target c = [t1; t2; t3; t4] ->
  0 <= c_sport c < 65536 -> 0 <= c_dport c < 65536 -> (f1 = 0 \/ f1 = 64) ->
  0 <= c_init_seq c < 4294967296 -> in_ttl_range c t = true -> 0 <= c_first c -> c_last c <= 255 ->
  find_ttl st t = Some s ->
  let left := (c_init_seq c + t) mod 4294967296 in
  recv c st (hdr4 tos 0 52 i1 i2 f1 0 ttl0 6 c1 c2 t1 t2 t3 t4 l1 l2 l3 l4
                  ([(c_dport c / 256) mod 256; c_dport c mod 256; (c_sport c / 256) mod 256; c_sport c mod 256; q1; q2; q3; q4; a1; a2; a3; a4;
                    128; 16; w1; w2; k1; k2; g1; g2;
                    1; 1; 5; 10; (left / 16777216) mod 256; (left / 65536) mod 256; (left / 256) mod 256; left mod 256; r1; r2; r3; r4])) now
  = Hop t [t1; t2; t3; t4] (now - s_time s) true.
Proof. exact (@sack_dup_ack_recognised c st now s t tos i1 i2 f1 ttl0 c1 c2 q1 q2 q3 q4 a1 a2 a3 a4 w1 w2 k1 k2 g1 g2 r1 r2 r3 r4 l1 l2 l3 l4 t1 t2 t3 t4). Qed.
Print Assumptions C02_bytes_sack_dup_ack.

(** SACK variant: a time-exceeded from ANY router quoting the first 28 bytes of the probe the model builder emits for TTL t (with or without the timestamps option) is the hop for t *)
Theorem C02_bytes_sack_time_exceeded c st t now s tos i1 i2 f1 ttl0 c1 c2 k1 k2 u1 u2 u3 u4 r1 r2 r3 r4 l1 l2 l3 l4 t1 t2 t3 t4 :
  c_variant c = VSack -> c_local c = [l1; l2; l3; l4] -> c_target c = [t1; t2; t3; t4] ->
  0 <= c_sport c < 65536 -> 0 <= c_dport c < 65536 -> (f1 = 0 \/ f1 = 64) ->
  0 <= c_init_seq c < 4294967296 -> in_ttl_range c t = true -> 0 <= c_first c -> c_last c <= 255 ->
  find_ttl st t = Some s ->
  let probe := sack_probe (c_local c) (c_target c) (c_sport c) (c_dport c) (c_init_seq c) (c_init_ack c) (c_has_ts c) (c_tsval c) (c_tsecr c) t in
  recv c st (hdr4 tos 0 56 i1 i2 f1 0 ttl0 1 c1 c2 r1 r2 r3 r4 l1 l2 l3 l4 ([11; 0; k1; k2; u1; u2; u3; u4] ++ takez 28 probe)) now
  = Hop t [r1; r2; r3; r4] (now - s_time s) (bytes_eqb [r1; r2; r3; r4] [t1; t2; t3; t4]).
Proof. exact (@sack_te28_recognised c st t now s tos i1 i2 f1 ttl0 c1 c2 k1 k2 u1 u2 u3 u4 r1 r2 r3 r4 l1 l2 l3 l4 t1 t2 t3 t4). Qed.
Print Assumptions C02_bytes_sack_time_exceeded.

(** engine lift, ANY script (loss, duplicates, reordering, noise, rogue replies): every reply that is readable by the deadline, for a TTL whose probe was sent, is accepted *)
Theorem C02_engine_accepts_every_timely_reply p script r :
  parallel_run p script = TDone r ->
  forall e s, In e script -> e_kind e = 0 -> In (e_ttl e, s) (tr_sends r) -> s + e_delay e <= pdeadline p ->
  exists q, In q (tr_accepted r) /\ matches e q.
Proof. exact (@parallel_accepts_every_timely_reply p script r). Qed.
Print Assumptions C02_engine_accepts_every_timely_reply.

(** serial engine, the histories C02 names for it: replies and noise only, at most one reply per TTL ([R] = the TTLs of the reply entries), each within its own window: every reply to a probe that was sent is accepted *)
Theorem C02_serial_engine_accepts_every_reply_in_its_window p script r :
  serial_run p script = TDone r ->
  (forall e, In e script -> (e_kind e = 0 \/ e_kind e = 1) /\ (e_kind e = 0 -> 0 <= e_delay e <= tp_timeout p)) ->
  NoDup (R script) ->
  forall e s0, In e script -> e_kind e = 0 -> In (e_ttl e, s0) (tr_sends r) ->
  exists q, In q (tr_accepted r) /\ matches e q.
Proof. exact (@serial_accepts_every_reply_in_its_window p script r). Qed.
Print Assumptions C02_serial_engine_accepts_every_reply_in_its_window.


(** SACK acknowledgements with ANY number of blocks, in ANY order, with up to seven stray bytes after the last whole block
    (gopacket only checks 2 <= option length <= remaining): what the driver model credits is the smallest RELATIVE left
    edge - relative to the run's initial sequence number, modulo 2^32, so blocks that straddle the sequence wrap are
    compared correctly - and it is attained by one of the blocks *)
Theorem C02_sack_blocks_minimum init bs stray m :
  bs <> [] -> (length stray < 8)%nat -> Forall (fun b => 0 <= fst b < 4294967296) bs ->
  min_sack init [(5, blocks_data bs stray)] = Some m ->
  (forall b, In b bs -> m <= rel init (fst b)) /\ exists b, In b bs /\ m = rel init (fst b).
Proof. exact (@sack_option_minimum init bs stray m). Qed.
Print Assumptions C02_sack_blocks_minimum.

Theorem C02_sack_blocks_order_irrelevant init bs bs' stray stray' :
  Permutation.Permutation bs bs' -> (length stray < 8)%nat -> (length stray' < 8)%nat ->
  Forall (fun b => 0 <= fst b < 4294967296) bs ->
  min_sack init [(5, blocks_data bs stray)] = min_sack init [(5, blocks_data bs' stray')].
Proof. exact (@sack_blocks_order_irrelevant init bs bs' stray stray'). Qed.
Print Assumptions C02_sack_blocks_order_irrelevant.
