(** C16 — the result document is self-consistent and JSON-stable.  Theorems only.
    Statistics are stated over exact values (samples as integers in a common unit;
    "min <= avg <= max" cross-multiplied); see DESIGN.md on binary64 rounding. *)
From Coq Require Import List ZArith Bool Permutation.
From TR Require Import Res.Doc Proofs.DocProofs Spec.C16Contract Generated.JsonTags.
Import ListNotations.
Open Scope Z_scope.

Theorem C16_reachable_iff_address : forall h, hd_reach h = false -> hd_reach (norm_hop h) = has_addr (hd_ip h).
Proof. exact norm_reachable. Qed.
Print Assumptions C16_reachable_iff_address.

Theorem C16_hop_count_stats : forall runs,
  runs <> [] -> Forall (fun r => rd_hops r <> []) runs ->
  let s := hop_stats runs in
  hs_n s = Z.of_nat (length runs)
  /\ 1 <= hs_min s /\ hs_min s <= hs_max s
  /\ hs_n s * hs_min s <= hs_total s <= hs_n s * hs_max s
  /\ In (hs_min s) (map hop_count runs) /\ In (hs_max s) (map hop_count runs)
  /\ (exists r, In r runs /\ hs_max s <= Z.of_nat (length (rd_hops r))).
Proof. exact hop_stats_spec. Qed.
Print Assumptions C16_hop_count_stats.

Theorem C16_each_count_within_run : forall r, rd_hops r <> [] -> 1 <= hop_count r <= Z.of_nat (length (rd_hops r)).
Proof. exact hop_count_bounds. Qed.
Print Assumptions C16_each_count_within_run.

Theorem C16_e2e_stats : forall rtts, Forall (fun x => 0 <= x) rtts ->
  let s := e2e_stats rtts in
  e_sent s = Z.of_nat (length rtts)
  /\ e_recv s = Z.of_nat (length (positives rtts))
  /\ 0 <= e_sent s - e_recv s <= e_sent s
  /\ (positives rtts <> [] ->
        In (e_min s) (positives rtts) /\ In (e_max s) (positives rtts)
        /\ Forall (fun x => e_min s <= x <= e_max s) (positives rtts)
        /\ e_recv s * e_min s <= e_sum s <= e_recv s * e_max s
        /\ 0 < e_jit_den s
        /\ 0 <= e_jit_num s <= e_jit_den s * (e_max s - e_min s))
  /\ (positives rtts = [] -> e_recv s = 0 /\ e_jit_num s = 0).
Proof. exact e2e_stats_spec. Qed.
Print Assumptions C16_e2e_stats.

Theorem C16_order_insensitive : forall l l', Permutation l l' -> Forall (fun x => 0 <= x) l -> positives l <> [] ->
  e_sent (e2e_stats l) = e_sent (e2e_stats l') /\ e_recv (e2e_stats l) = e_recv (e2e_stats l')
  /\ e_sum (e2e_stats l) = e_sum (e2e_stats l') /\ e_min (e2e_stats l) = e_min (e2e_stats l') /\ e_max (e2e_stats l) = e_max (e2e_stats l').
Proof. exact e2e_perm_invariant. Qed.
Print Assumptions C16_order_insensitive.

Theorem C16_ids_distinct : forall (id : Type) (fresh : nat -> id),
  (forall i j, fresh i = fresh j -> i = j) -> forall k n, NoDup (map fresh (seq k (S n))).
Proof. exact ids_distinct. Qed.
Print Assumptions C16_ids_distinct.

(** the struct tags read from the source on this run are the published contract *)
Theorem C16_json_contract : json_tags = json_contract.
Proof. vm_compute. reflexivity. Qed.
Print Assumptions C16_json_contract.

Example C16_example : e2e_stats [3; 0; 9; 5] = mkE2E 4 3 17 3 9 10 2.
Proof. reflexivity. Qed.
