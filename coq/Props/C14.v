(** C14 — no data races between sending, receiving and concurrent runs.  Theorems only.
    PARTIAL (DESIGN.md): lock regions are syntactic; no alias analysis beyond receiver fields, captured variables
    and pointer arguments of inlined calls; foreign objects (gopacket buffers, the parser, Source/Sink) are single
    locations; the Go memory model is abstracted to mutual exclusion of locks; atomics and channels are trusted. *)
From Coq Require Import List ZArith Bool.
From TR Require Import Conc.Lockset Proofs.LocksetProofs Generated.Accesses.
Import ListNotations.
Open Scope Z_scope.

(** soundness of the discipline, for ANY access table: under every interleaving and every lock state, two
    conflicting accesses (same location, one a write, different thread instances, both while the goroutines run)
    are never enabled at the same time *)
Theorem C14_discipline_sound : forall t,
  discipline_ok t = true -> forall h i j a b, In a t -> In b t -> ~ race_state h i j a b.
Proof. exact discipline_excludes_races. Qed.
Print Assumptions C14_discipline_sound.

(** the access table regenerated from the source on this run satisfies the discipline (finite check) *)
Theorem C14_table_disciplined : discipline_ok accesses = true.
Proof. vm_compute. reflexivity. Qed.
Print Assumptions C14_table_disciplined.

(** hence: no two goroutines of the four drivers, the parallel engine, the multi-query aggregator or the
    reverse-DNS fan-out touch the same piece of state without synchronisation, under any schedule *)
Theorem C14_no_races : forall h i j a b, In a accesses -> In b accesses -> ~ race_state h i j a b.
Proof. exact (discipline_excludes_races accesses C14_table_disciplined). Qed.
Print Assumptions C14_no_races.

(** the offending pairs, for the replay file when the discipline fails *)
Definition unprotected_pairs (t : list acc) : list (acc * acc) :=
  flat_map (fun a => flat_map (fun b => if conflict a b && negb (protected a b) then [(a, b)] else []) t) t.
