(** C09 — malformed or hostile inbound bytes never crash or abort a run.  Theorems only.
    The decoders are total functions that return "skip" exactly where gopacket returns an error; that
    gopacket itself does not panic on these inputs (and that x/net/icmp's multipart parser does not) is
    exercised by the correspondence on the malformed stream, not proved (PARTIAL). *)
From Coq Require Import List ZArith Bool.
From TR Require Import Lib.Bytes Wire.Decode Drv.Drivers Spec.C01 Proofs.DrvProofs Eng.Engine Proofs.EngCorollaries.
Import ListNotations.
Open Scope Z_scope.

(** for EVERY non-empty byte string, every variant, every driver state (for TCP SYN: once a probe was
    sent, which the serial engine guarantees before it ever reads): the outcome is a hop, a skip, or
    SACK's not-supported — never a run-aborting error *)
Theorem C09_never_fatal : forall c st b now,
  b <> [] -> (c_variant c = VTcp -> st <> []) -> recv c st b now <> Fatal.
Proof. exact recv_never_fatal. Qed.
Print Assumptions C09_never_fatal.

(** the only inbound packet that may end a run early: SACK, a non-SYN/FIN/RST segment from the target
    on the probed connection that carries no SACK block *)
Theorem C09_only_permitted_abort : forall c st b now,
  recv c st b now = NotSupported <->
  (c_variant c = VSack /\ exists v tc, frame_parse b = PView v /\ v_l4 v = L4Tcp tc
     /\ from_target_to_local c v = true /\ t_sport tc = c_dport c /\ t_dport tc = c_sport c
     /\ t_syn tc = false /\ t_fin tc = false /\ t_rst tc = false
     /\ min_sack (c_init_seq c) (t_opts tc) = None).
Proof. exact recv_not_supported_iff. Qed.
Print Assumptions C09_only_permitted_abort.

(** a skipped packet leaves no trace: the result is a function of the accepted replies only, and a packet
    outside the probed TTL range is an error, never a silent change *)
Theorem C09_result_depends_on_accepted_only : forall first last acc1 acc2,
  Forall (fun p => first <= p_ttl p <= last) acc1 -> Forall (fun p => first <= p_ttl p <= last) acc2 ->
  1 <= first -> 0 <= last -> (forall t, pick acc1 t = pick acc2 t) -> merge_all last acc1 = merge_all last acc2.
Proof. exact merge_order_independent. Qed.
Print Assumptions C09_result_depends_on_accepted_only.

Example C09_example_runt : recv (mkCfg VIcmp 1 5 [192;0;2;2] [198;51;100;7] 0 0 false 7 false 0 0 0 0 false 0 0) []
                                [69; 0; 0; 24; 0; 0; 0; 0; 64; 1; 0; 0; 9; 9; 9; 9; 192; 0; 2; 2; 11; 0; 0; 0] 5 = Skip.
Proof. reflexivity. Qed.
