(** C05 — RTT fidelity.  Theorems only.
    PARTIAL: "within one poll interval of the arrival" is a property of how quickly a blocked read
    wakes (Go runtime); measured exactly under the virtual clock, not proved. *)
From Coq Require Import List ZArith Bool Lia.
From TR Require Import Lib.Bytes Wire.Decode Drv.Drivers Spec.C01 Spec.C07 Proofs.DrvProofs Eng.Engine Eng.Timed Proofs.EngCorollaries Res.Doc Lib.GoLists Generated.GoHops Proofs.GoTieHops.
Import ListNotations.
Open Scope Z_scope.

(** the RTT of a hop for TTL t is (processing instant) - (send instant of a probe with TTL t of this run):
    never another probe's send time *)
Theorem C05_rtt_same_probe : forall c st v now t a r d,
  cfg_ok c -> recv_view c st v now = Hop t a r d -> exists s, In s st /\ s_ttl s = t /\ r = now - s_time s.
Proof. intros c st v now t a r d Hc H. destruct (recv_view_sound c st v now t a r d Hc H) as [_ [_ [_ E]]]. exact E. Qed.
Print Assumptions C05_rtt_same_probe.

(** never negative on a monotone clock *)
Theorem C05_rtt_nonnegative : forall c st v now t a r d,
  cfg_ok c -> Forall (fun s => s_time s <= now) st -> recv_view c st v now = Hop t a r d -> 0 <= r.
Proof.
  intros c st v now t a r d Hc Hm H. destruct (recv_view_sound c st v now t a r d Hc H) as [_ [_ [_ [s [Hin [_ ->]]]]]].
  rewrite Forall_forall in Hm. specialize (Hm s Hin). cbn in Hm. lia.
Qed.
Print Assumptions C05_rtt_nonnegative.

(** the engines report, per TTL, the FIRST accepted reply (a destination reply excepted) with the RTT the driver measured for it *)
Theorem C05_first_accepted_kept : forall (serial : bool) p script r,
  (if serial then serial_run p script else parallel_run p script) = TDone r ->
  exists s hs, tr_slots r = Some s /\ to_hops (tp_first p) s = Some hs /\ merge_specb (tr_accepted r) hs = true.
Proof.
  intros serial p script r H. destruct (timed_shape serial p script r H) as [s [hs [H1 [H2 [_ H4]]]]]. eauto.
Qed.
Print Assumptions C05_first_accepted_kept.

(** the end-to-end RTT is the destination hop's RTT, 0 meaning no answer *)
Theorem C05_e2e_rtt : forall r, dest_rtt r = match find hd_dest (rd_hops r) with Some h => hd_rtt h | None => 0 end.
Proof. reflexivity. Qed.
Print Assumptions C05_e2e_rtt.

(** tie kind A: the hop's RTT is the accepted reply's RTT passed through ConvertDurationToMs and nothing else (the translated loop body of common.ToHops, with the unit conversion as its argument, is the model's [to_hops] when that argument is the identity) *)
Theorem C05_ToHops_rtt_tied ps first : to_hops first ps = go_to_hops first 0 ps.
Proof. exact (@go_ToHops_from_first ps first). Qed.
Print Assumptions C05_ToHops_rtt_tied.

