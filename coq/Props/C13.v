(** C13 — Linux kernel conformance.  Theorems only.
    PARTIAL by nature: the kernel's conformance to the ideal path is sampled by the namespace lab, never proved;
    what the theorem adds is that against ANY RFC-conformant path the verified logic (matchers, merge, clip)
    reports exactly the chain — so a disagreement observed on a real kernel path is attributable to the socket
    layer or the kernel, not to that logic. *)
From Coq Require Import List ZArith Bool.
From TR Require Import Eng.Engine Net.Ideal Proofs.IdealProofs Proofs.FilteredProofs Pol.Params Proofs.ParamProofs.
Import ListNotations.
Open Scope Z_scope.

Theorem C13_ideal_chain_reported_exactly : forall pa first last acc,
  1 <= first <= last -> 0 <= pa_n pa -> first <= pa_n pa + 1 -> pa_silent pa <> pa_n pa + 1 ->
  ideal_accepted pa first last acc ->
  exists hs, run_hops first last acc = Done hs
    /\ Z.of_nat (length hs) = Z.min last (pa_n pa + 1) - first + 1
    /\ forall i h, nth_error hs i = Some h -> expected_hop pa (first + Z.of_nat i) h.
Proof. exact ideal_chain_path. Qed.
Print Assumptions C13_ideal_chain_reported_exactly.

(** a target without SACK support: method sack fails, prefer_sack falls back to SYN (C20) *)
Theorem C13_no_sack_support : forall syn sock,
  fb_trace (perform MSack syn (sack_run FNoSackPermitted) sock) = None
  /\ fb_syn_calls (perform MPrefer syn (sack_run FNoSackPermitted) sock) = 1.
Proof. intros. split; destruct syn; reflexivity. Qed.
Print Assumptions C13_no_sack_support.

(** a firewalled destination port (the kernel lab's port state 3): the routers answer, the destination drops the probes;
    whatever the engine is handed under those conditions, the run reports one entry per TTL up to the LAST TTL - the
    routers, then silence - and no destination *)
Theorem C13_filtered_chain_reported : forall pa first last acc,
  1 <= first <= last -> 0 <= pa_n pa ->
  filtered_accepted pa first last acc ->
  exists hs, run_hops first last acc = Done hs
    /\ Z.of_nat (length hs) = last - first + 1
    /\ forall i h, nth_error hs i = Some h -> filtered_hop pa (first + Z.of_nat i) h.
Proof. exact filtered_chain_path. Qed.
Print Assumptions C13_filtered_chain_reported.

(** a target that cannot be connected to, whatever the cause of the dial failure (refused, timed out, unreachable):
    method sack fails as not-supported, prefer_sack falls back to SYN (C20) *)
Theorem C13_cannot_connect : forall cause syn sock,
  fb_trace (perform MSack syn (sack_run (FDial cause)) sock) = None
  /\ fb_syn_calls (perform MPrefer syn (sack_run (FDial cause)) sock) = 1
  /\ fb_err (perform MPrefer ROk (sack_run (FDial cause)) sock) = None.
Proof. intros. repeat split; destruct syn; reflexivity. Qed.
Print Assumptions C13_cannot_connect.

Example C13_example : predicted (mkPath 2 2) 1 30 = [(1, Some 1, false); (2, None, false); (3, Some 3, true)].
Proof. reflexivity. Qed.
