(** C03 — path shape.  Property theorems only; proofs live in Proofs/. *)
From Coq Require Import List ZArith Bool.
From TR Require Import Eng.Engine Eng.Parallel Eng.Timed Spec.C03 Spec.C07 Proofs.EngShape Proofs.EngParallel Proofs.EngCorollaries Generated.GoValidate Proofs.GoTieValidate Lib.GoLists Generated.GoClip Proofs.GoTieClip Lib.GoLists Generated.GoHops Proofs.GoTieHops.
Import ListNotations.
Open Scope Z_scope.

(** Both engines' data path (validate, merge in acceptance order, clip, ToHops), for every
    first/last pair and EVERY sequence of accepted replies (any subset of TTLs, several
    destination TTLs, duplicates, any order): the run succeeds and the list is non-empty,
    has consecutive TTLs from [first], ends at the lowest destination-answered TTL (else at
    [last]), unanswered TTLs are empty, only the last entry can be the destination. *)
Theorem C03_path_shape : forall first last acc,
  1 <= first <= last ->
  Forall (fun p => first <= p_ttl p <= last) acc ->
  exists hs, run_hops first last acc = Done hs /\ shape first last acc hs.
Proof. exact run_hops_shape. Qed.
Print Assumptions C03_path_shape.

(** a reply outside the probed TTL range fails the run; it never yields a partial path *)
Theorem C03_invalid_reply_is_error : forall first last acc,
  ~ Forall (fun p => first <= p_ttl p <= last) acc -> run_hops first last acc = EngineError.
Proof. exact invalid_reply_is_error. Qed.
Print Assumptions C03_invalid_reply_is_error.

(** the timed models of both engines (any network script: loss, duplicates, late and stale
    replies, noise) return a well-shaped path over the replies they accepted *)
Theorem C03_timed_engines : forall (serial : bool) p script r,
  (if serial then serial_run p script else parallel_run p script) = TDone r ->
  exists s hs, tr_slots r = Some s /\ to_hops (tp_first p) s = Some hs
               /\ shape (tp_first p) (tp_last p) (tr_accepted r) hs
               /\ merge_specb (tr_accepted r) hs = true.
Proof. exact timed_shape. Qed.
Print Assumptions C03_timed_engines.

(** every reachable state of every interleaving of the parallel engine's threads *)
Theorem C03_parallel_all_interleavings : forall first last s,
  1 <= first <= last -> reachable first last s ->
  ps_results s = merge_all last (ps_accepted s)
  /\ ps_sent s = zseq first (Z.to_nat (ps_next s - first))
  /\ (ps_failed s = false ->
      exists sl hs, presult first s = Some sl /\ to_hops first sl = Some hs /\ shape first last (ps_accepted s) hs).
Proof. exact parallel_all_interleavings. Qed.
Print Assumptions C03_parallel_all_interleavings.

(** non-vacuity: a concrete run with two destination answers (TTL 3 and 2), a duplicate and a gap *)
Example C03_example :
  run_hops 1 5 [mkProbe 3 7 30 true; mkProbe 1 11 10 false; mkProbe 2 7 25 true; mkProbe 1 12 50 false]
  = Done [mkHop 1 (Some 11) 10 false; mkHop 2 (Some 7) 25 true].
Proof. reflexivity. Qed.

(** tie kind A, regenerated on every run by tools/goextract/exprs.go: validateProbe as it stands in the source is the model's [valid_probe], for every TTL and every range *)
Theorem C03_validateProbe_tied first last q :
  go_common_TracerouteParams_validateProbe false (p_ttl q) first last = valid_probe first last q.
Proof. exact (@go_validateProbe_is_valid_probe first last q). Qed.
Print Assumptions C03_validateProbe_tied.

(** ... and a nil reply is rejected *)
Theorem C03_validateProbe_rejects_nil t first last : go_common_TracerouteParams_validateProbe true t first last = false.
Proof. exact (@go_validateProbe_rejects_nil t first last). Qed.
Print Assumptions C03_validateProbe_rejects_nil.

(** tie kind A, regenerated on every run by tools/goextract: clipResults as it stands in the source (slices.IndexFunc, the two re-slicings) is the model's [clip] wherever the model does not hit the slice-bounds panic; slots are compared as (is nil, IsDest), which is all the function looks at *)
Theorem C03_clipResults_tied first rs r : 0 <= first -> clip first rs = Some r ->
  go_common_clipResults first (map enc_slot rs) = map enc_slot r.
Proof. exact (@go_clipResults_is_clip first rs r). Qed.
Print Assumptions C03_clipResults_tied.

(** tie kind A, regenerated on every run by tools/goextract/exprs.go: the body of the loop of common.ToHops as it stands in the source (expected TTL = MinTTL + index, mismatch check, the fields copied into the hop, the empty entry), folded over the slots, is the model's [to_hops] *)
Theorem C03_ToHops_tied ps first : to_hops first ps = go_to_hops first 0 ps.
Proof. exact (@go_ToHops_from_first ps first). Qed.
Print Assumptions C03_ToHops_tied.

