(** C07 — the parallel merge is schedule-independent.  Property theorems only. *)
From Coq Require Import List ZArith Bool.
From TR Require Import Eng.Engine Eng.Parallel Eng.Timed Spec.C03 Spec.C07 Proofs.EngMerge Proofs.EngParallel Proofs.EngCorollaries Generated.GoMerge Proofs.GoTieMerge.
Import ListNotations.
Open Scope Z_scope.

(** the slot for TTL t after merging ANY accepted sequence is: the earliest destination reply
    for t if there is one, else the earliest reply for t *)
Theorem C07_merge_rule : forall first last acc t,
  Forall (fun p => first <= p_ttl p <= last) acc -> 1 <= first -> 0 <= t <= last ->
  nth (Z.to_nat t) (merge_all last acc) None = pick acc t.
Proof. exact merge_rule. Qed.
Print Assumptions C07_merge_rule.

(** hence the table depends on the accepted replies only through those two rules *)
Theorem C07_order_independent : forall first last acc1 acc2,
  Forall (fun p => first <= p_ttl p <= last) acc1 -> Forall (fun p => first <= p_ttl p <= last) acc2 ->
  1 <= first -> 0 <= last ->
  (forall t, pick acc1 t = pick acc2 t) -> merge_all last acc1 = merge_all last acc2.
Proof. exact merge_order_independent. Qed.
Print Assumptions C07_order_independent.

(** all interleavings of sender / receiver / deadline steps: in every reachable state the shared
    table is exactly the merge of the replies the receiver accepted so far (every accepted reply
    is reflected), and the probes sent are first, first+1, ... without repetition *)
Theorem C07_all_interleavings : forall first last s,
  1 <= first <= last -> reachable first last s ->
  ps_results s = merge_all last (ps_accepted s)
  /\ ps_sent s = zseq first (Z.to_nat (ps_next s - first))
  /\ (ps_failed s = false ->
      exists sl hs, presult first s = Some sl /\ to_hops first sl = Some hs /\ shape first last (ps_accepted s) hs).
Proof. exact parallel_all_interleavings. Qed.
Print Assumptions C07_all_interleavings.

(** the timed parallel engine returns exactly the merge of what it accepted *)
Theorem C07_timed_parallel : forall p script r,
  parallel_run p script = TDone r ->
  exists s hs, tr_slots r = Some s /\ to_hops (tp_first p) s = Some hs
               /\ shape (tp_first p) (tp_last p) (tr_accepted r) hs
               /\ merge_specb (tr_accepted r) hs = true.
Proof. exact (timed_shape false). Qed.
Print Assumptions C07_timed_parallel.

(** non-vacuity: a destination reply replaces an earlier non-destination one; a later duplicate does not *)
Example C07_example :
  merge_all 2 [mkProbe 2 5 10 false; mkProbe 2 9 20 true; mkProbe 2 6 30 false; mkProbe 1 4 40 false; mkProbe 1 4 90 false]
  = [None; Some (mkProbe 1 4 40 false); Some (mkProbe 2 9 20 true)].
Proof. reflexivity. Qed.

(** tie kind A, regenerated on every run by tools/goextract/exprs.go: the body of writeProbe in the source (up to `if shouldUpdate`) is the model's [should_update] *)
Theorem C07_parallel_merge_rule_tied prev p :
  go_parallel_shouldUpdate (match prev with None => true | Some _ => false end) (is_dest prev) (p_dest p) = should_update prev p.
Proof. exact (@go_parallel_merge_rule prev p). Qed.
Print Assumptions C07_parallel_merge_rule_tied.

(** the same for the condition guarding results[probe.TTL] = probe in the serial engine *)
Theorem C07_serial_merge_rule_tied prev p :
  go_serial_shouldUpdate (match prev with None => true | Some _ => false end) (is_dest prev) (p_dest p) = should_update prev p.
Proof. exact (@go_serial_merge_rule prev p). Qed.
Print Assumptions C07_serial_merge_rule_tied.

