(** C15 — multi-query request is all-or-error with exact counts.  Theorems only. *)
From Coq Require Import List ZArith Bool Permutation.
From TR Require Import Res.Doc Proofs.DocProofs.
Import ListNotations.
Open Scope Z_scope.

(** For ALL query outcomes and ALL completion instants (hence every completion order of the
    concurrent goroutines): no successful run is lost or duplicated, there is exactly one RTT
    sample per end-to-end probe, every individual failure is in the error list, and the error
    list is empty exactly when every run and probe succeeded. *)
Theorem C15_accumulator : forall runs e2es,
  let m := multi_acc runs e2es in
  Permutation (m_runs m) (ok_runs runs)
  /\ length (m_rtts m) = length e2es
  /\ Permutation (m_errs m) (failures (runs ++ e2es))
  /\ (m_errs m = [] <-> Forall (fun q => q_res q <> None) (runs ++ e2es)).
Proof. exact multi_acc_spec. Qed.
Print Assumptions C15_accumulator.

(** a result exists iff everything succeeded (no partial result) *)
Theorem C15_all_or_error : forall fl rv pub runs e2es,
  pipeline fl rv pub (multi_acc runs e2es) <> None <-> Forall (fun q => q_res q <> None) (runs ++ e2es).
Proof. exact pipeline_all_or_error. Qed.
Print Assumptions C15_all_or_error.

(** and then it holds exactly the requested number of runs and samples *)
Theorem C15_exact_counts : forall fl rv pub runs e2es d,
  pipeline fl rv pub (multi_acc runs e2es) = Some d ->
  length (d_runs d) = length runs /\ length (d_rtts d) = length e2es.
Proof. exact pipeline_counts. Qed.
Print Assumptions C15_exact_counts.

(** failing to determine the public IP never changes the verdict or anything else in the result *)
Theorem C15_public_ip_never_fails : forall fl rv pub pub' m,
  (pipeline fl rv pub m = None <-> pipeline fl rv pub' m = None)
  /\ (forall d d', pipeline fl rv pub m = Some d -> pipeline fl rv pub' m = Some d' ->
        d_runs d = d_runs d' /\ d_hopstats d = d_hopstats d' /\ d_rtts d = d_rtts d' /\ d_e2e d = d_e2e d').
Proof. exact pipeline_pubip_irrelevant. Qed.
Print Assumptions C15_public_ip_never_fails.

Example C15_example :
  let r := mkRund [1;1;1;1] 5 [2;2;2;2] 80 [] [mkHopd 1 [3;3;3;3] 7 false [] true] in
  m_errs (multi_acc [mkQ 30 (Some r) 0; mkQ 10 None 4] [mkQ 20 None 9]) = [4; 9].
Proof. reflexivity. Qed.
