(** C10 — failure atomicity, cause-preserving errors, handles closed exactly once.  Theorems only.
    The handle discipline of the entry points is ALSO proved on programs extracted from the source on every run
    (tools/goextract/lifecycle.go -> Generated/Lifecycles.v, last two theorems).  PARTIAL: the fault/cause model
    ([run_entry]) is a hand-written abstraction of the entry points' control flow (open, filter, defer Close, engine); goroutine termination is observed (virtual clock run on after the call returns, any
    late use of a closed handle is counted), not proved; syscall-level faults inside the real AF_PACKET / raw
    socket code are out of reach of the injectable seam. *)
From Coq Require Import List ZArith Bool.
From TR Require Import Pol.Lifecycle Proofs.LifeProofs Pol.HandleProg Generated.Lifecycles Proofs.HandleProofs Eng.Engine Proofs.EngCorollaries.
Import ListNotations.
Open Scope Z_scope.

(** for EVERY plan of engine operations and EVERY injected fault (operation, k-th call, class): each handle the run
    opened is closed exactly once and never used afterwards; the outcome is a success or an error, and an error
    keeps the injected cause unless it is the zero-length read (which has no underlying cause) *)
Theorem C10_lifecycle : forall plan f,
  let r := fst (run_entry plan f) in let h := snd (run_entry plan f) in
  (h_opened h = true -> h_src_closes h = 1 /\ h_snk_closes h = 1) /\ (h_opened h = false -> h_src_closes h = 0 /\ h_snk_closes h = 0)
  /\ h_used_after_close h = false
  /\ (forall kept, r = LErr kept -> (kept = false <-> f_op f = LRead /\ f_class f = FZero)).
Proof. exact lifecycle_spec. Qed.
Print Assumptions C10_lifecycle.

(** a fault at a call the run never makes changes nothing *)
Theorem C10_unreached_fault : forall plan f,
  f_op f <> LOpen -> f_op f <> LFilter -> count_op plan (f_op f) < f_k f -> fst (run_entry plan f) = LOk.
Proof. exact unreached_fault_is_harmless. Qed.
Print Assumptions C10_unreached_fault.

(** never a partial path: the engines' data path yields a whole well-shaped path or an error (C03) *)
Theorem C10_no_partial_path : forall first last acc,
  ~ Forall (fun p => first <= p_ttl p <= last) acc -> run_hops first last acc = EngineError.
Proof. exact invalid_reply_is_error. Qed.
Print Assumptions C10_no_partial_path.

(** tie kind A: every function of /repo that calls packets.NewSourceSink, translated on this run into a program over
    handle operations (open / fallible step + error block / branch / close / defer / return).  For EVERY execution
    (any subset of the fallible steps failing, any branch taken): an opened pair is closed exactly once each, a pair
    that was never opened is never closed, nothing is closed before it is opened — and the translator understood
    every statement that touches the handles (no HUnknown) *)
Theorem C10_entry_points_close_handles_once : forall p ch, In p all_lifecycles -> okb (exec p ch init_hst) = true.
Proof. exact entry_points_close_handles_once. Qed.
Print Assumptions C10_entry_points_close_handles_once.

Theorem C10_entry_points_extracted : (4 <=? length all_lifecycles)%nat = true /\ forallb all_paths_ok all_lifecycles = true.
Proof. exact extracted_lifecycles_ok. Qed.
Print Assumptions C10_entry_points_extracted.
