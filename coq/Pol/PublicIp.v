(** publicip.GetPublicIP: providers asked in order, each under its own deadline,
    with backoff.Retry (randomisation off) around one HTTP exchange.  Time in ns
    on a virtual clock.  No proofs here. *)
From Coq Require Import List ZArith Bool.
Import ListNotations.
Open Scope Z_scope.

(** what one HTTP exchange does *)
Inductive attempt :=
| Resp (delay : Z) (status : Z) (valid : bool)   (* headers+body after [delay]; body parses as an address or not *)
| TransportErr (delay : Z)                       (* client.Do fails after [delay] *)
| BodyErr (delay : Z)                            (* reading the body fails after [delay] *)
| Hang.                                          (* never answers: only the request's context ends it *)

Inductive aout := AOk | APermanent | ARetry | ADeadline | ATie.

(** one attempt started at [t] (relative to the provider's start) under deadline [dl] *)
Definition attempt_out (dl t : Z) (a : attempt) : aout * Z :=
  let fin d (o : aout) :=
      if t + d =? dl then (ATie, dl) else if dl <? t + d then (ADeadline, dl) else (o, t + d) in
  match a with
  | Hang => (ADeadline, dl)
  | TransportErr d => fin d ARetry
  | BodyErr d => fin d ARetry
  | Resp d st valid =>
      fin d (if (400 <=? st) && (st <? 500) then APermanent else if valid then AOk else APermanent)
  end.

(** backoff.ExponentialBackOff with RandomizationFactor 0, Multiplier 1.5 *)
Definition next_interval (maxi cur : Z) : Z := if maxi * 2 <=? cur * 3 then maxi else cur * 3 / 2.

Inductive pout := POk | PFail | PTie | PFuel.
Record pres := mkPres { pr_out : pout; pr_requests : Z; pr_end : Z }.

(** backoff.Retry for one provider: attempts from the script, then hangs *)
Fixpoint provider_run (fuel : nat) (dl maxi : Z) (t cur : Z) (script : list attempt) (n : Z) : pres :=
  match fuel with
  | O => mkPres PFuel n t
  | S fuel' =>
      let a := match script with a :: _ => a | [] => Hang end in
      let rest := match script with _ :: r => r | [] => [] end in
      match attempt_out dl t a with
      | (AOk, t') => mkPres POk (n + 1) t'
      | (APermanent, t') => mkPres PFail (n + 1) t'
      | (ADeadline, t') => mkPres PFail (n + 1) t'
      | (ATie, t') => mkPres PTie (n + 1) t'
      | (ARetry, t') =>
          (* context still alive (t' < dl): wait [cur] or until the deadline *)
          if t' + cur =? dl then mkPres PTie (n + 1) dl
          else if dl <? t' + cur then mkPres PFail (n + 1) dl
          else provider_run fuel' dl maxi (t' + cur) (next_interval maxi cur) rest (n + 1)
      end
  end.

Record gres := mkGres { g_winner : option Z; g_requests : list Z; g_elapsed : Z; g_tie : bool }.

(** GetPublicIP: first provider that succeeds; later ones are never asked *)
Fixpoint get_public_ip (dl init maxi : Z) (idx : Z) (t0 : Z) (scripts : list (list attempt)) : gres :=
  match scripts with
  | [] => mkGres None [] t0 false
  | s :: rest =>
      let r := provider_run 64 dl maxi 0 init s 0 in
      match pr_out r with
      | POk => mkGres (Some idx) (pr_requests r :: map (fun _ => 0) rest) (t0 + pr_end r) false
      | PTie | PFuel => mkGres None (pr_requests r :: map (fun _ => 0) rest) (t0 + pr_end r) true
      | PFail =>
          let g := get_public_ip dl init maxi (idx + 1) (t0 + pr_end r) rest in
          mkGres (g_winner g) (pr_requests r :: g_requests g) (g_elapsed g) (g_tie g)
      end
  end.

(** what a script would do if asked: used to state "first provider that reaches a valid address" *)
Definition provider_succeeds (dl init maxi : Z) (s : list attempt) : bool :=
  match pr_out (provider_run 64 dl maxi 0 init s 0) with POk => true | _ => false end.
