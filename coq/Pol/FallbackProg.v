(** performTCPFallback as a program over the three implementations, as extracted from the source by
    tools/goextract/fallback.go (Generated/Fallback.v).  No proofs here. *)
From Coq Require Import List ZArith Bool.
From TR Require Import Pol.Params.
Import ListNotations.
Open Scope Z_scope.

Inductive fimpl := ISyn | ISack | ISynSocket.

Inductive fstep :=
| FSReturnCall (i : fimpl)             (* return doX() *)
| FSBind (i : fimpl)                   (* results, err := doX() *)
| FSIfNotSupReturnCall (i : fimpl)     (* if errors.As(err, &*sack.NotSupportedError) { return doX() } *)
| FSIfErrReturnWrapped (keeps : bool)  (* if err != nil { return nil, fmt.Errorf("… %w", err) }; keeps: the format wraps err *)
| FSIfErrReturnPlain                   (* if err != nil { return nil, err } *)
| FSReturnResults                      (* return results, nil *)
| FSReturnError                        (* return nil, fmt.Errorf(…) without a cause *)
| FSUnknown.

Definition trace_of (i : fimpl) : trace := match i with ISyn => TSyn | ISack => TSack | ISynSocket => TSynSocket end.

Record fstate := mkFS { bound : option (fimpl * run_out); n_syn : Z; n_sack : Z; n_sock : Z }.

Definition call (i : fimpl) (s : fstate) : fstate :=
  match i with
  | ISyn => mkFS (bound s) (n_syn s + 1) (n_sack s) (n_sock s)
  | ISack => mkFS (bound s) (n_syn s) (n_sack s + 1) (n_sock s)
  | ISynSocket => mkFS (bound s) (n_syn s) (n_sack s) (n_sock s + 1)
  end.

(** None: the program ran into something the translator does not understand, fell off its end, or used an unbound result *)
Fixpoint feval (p : list fstep) (out : fimpl -> run_out) (s : fstate) : option fb_res :=
  match p with
  | [] => None
  | FSReturnCall i :: _ => let s' := call i s in Some (of_run (trace_of i) (out i) (n_syn s') (n_sack s') (n_sock s'))
  | FSBind i :: r => let s' := call i s in feval r out (mkFS (Some (i, out i)) (n_syn s') (n_sack s') (n_sock s'))
  | FSIfNotSupReturnCall i :: r =>
      match bound s with
      | Some (_, RErr e) =>
          if has_notsup e then let s' := call i s in Some (of_run (trace_of i) (out i) (n_syn s') (n_sack s') (n_sock s'))
          else feval r out s
      | Some (_, ROk) => feval r out s
      | None => None
      end
  | FSIfErrReturnWrapped keeps :: r =>
      match bound s with
      | Some (_, RErr e) => Some (mkFB None (Some (if keeps then Wrap e else Leaf (-2))) (n_syn s) (n_sack s) (n_sock s))
      | Some (_, ROk) => feval r out s
      | None => None
      end
  | FSIfErrReturnPlain :: r =>
      match bound s with
      | Some (_, RErr e) => Some (mkFB None (Some e) (n_syn s) (n_sack s) (n_sock s))
      | Some (_, ROk) => feval r out s
      | None => None
      end
  | FSReturnResults :: _ =>
      match bound s with
      | Some (i, ROk) => Some (mkFB (Some (trace_of i)) None (n_syn s) (n_sack s) (n_sock s))
      | _ => None            (* results of a failed or absent call returned as a success *)
      end
  | FSReturnError :: _ => Some (mkFB None (Some (Leaf (-1))) (n_syn s) (n_sack s) (n_sock s))
  | FSUnknown :: _ => None
  end.
