(** Handle programs: what a protocol entry point does to the capture/send handle pair it opens, as extracted from
    the Go source by tools/goextract (Generated/Lifecycles.v).  No proofs here. *)
From Coq Require Import List Bool Arith.
Import ListNotations.

Inductive hsimple := SCloseSrc | SCloseSnk | SCloseBoth | SReturn.

Inductive hstmt :=
| HOpen                              (* handle, err := packets.NewSourceSink(..); if err != nil { return } *)
| HMayFail (onfail : list hsimple)   (* a fallible step and its `if err != nil { ... }` block *)
| HBranch (body : list hsimple)      (* any other `if` without else: the body may or may not run *)
| HClose (c : hsimple)               (* an explicit close at top level *)
| HDefer (c : hsimple)               (* defer of a close *)
| HReturn
| HUnknown.                          (* something the translator does not understand: accepted by no proof *)

Record hst := mkHst { opened : bool; src_closes : nat; snk_closes : nat; early_close : bool; defers : list hsimple; stuck : bool }.

Definition init_hst : hst := mkHst false 0 0 false [] false.

Definition close1 (c : hsimple) (s : hst) : hst :=
  let e := early_close s || negb (opened s) in
  match c with
  | SCloseSrc => mkHst (opened s) (S (src_closes s)) (snk_closes s) e (defers s) (stuck s)
  | SCloseSnk => mkHst (opened s) (src_closes s) (S (snk_closes s)) e (defers s) (stuck s)
  | SCloseBoth => mkHst (opened s) (S (src_closes s)) (S (snk_closes s)) e (defers s) (stuck s)
  | SReturn => s
  end.

(** function exit: the deferred closes run, last registered first *)
Definition finish (s : hst) : hst := fold_left (fun a c => close1 c a) (defers s) (mkHst (opened s) (src_closes s) (snk_closes s) (early_close s) [] (stuck s)).

(** a simple block: returns (state, returned?) *)
Fixpoint run_simple (b : list hsimple) (s : hst) : hst * bool :=
  match b with
  | [] => (s, false)
  | SReturn :: _ => (s, true)
  | c :: r => run_simple r (close1 c s)
  end.

(** all executions: every fallible step may fail or not, every branch may be taken or not *)
Fixpoint runs (p : list hstmt) (s : hst) : list hst :=
  match p with
  | [] => [finish s]
  | HOpen :: r => finish s :: runs r (mkHst true (src_closes s) (snk_closes s) (early_close s) (defers s) (stuck s))
  | HMayFail b :: r | HBranch b :: r =>
      let (s', ret) := run_simple b s in
      (if ret then [finish s'] else runs r s') ++ runs r s
  | HClose c :: r => runs r (close1 c s)
  | HDefer c :: r => runs r (mkHst (opened s) (src_closes s) (snk_closes s) (early_close s) (c :: defers s) (stuck s))
  | HReturn :: _ => [finish s]
  | HUnknown :: r => runs r (mkHst (opened s) (src_closes s) (snk_closes s) (early_close s) (defers s) true)
  end.

(** one execution, driven by a choice sequence (true = the step fails / the branch is taken) *)
Fixpoint exec (p : list hstmt) (ch : list bool) (s : hst) : hst :=
  match p with
  | [] => finish s
  | HOpen :: r =>
      if hd false ch then finish s
      else exec r (tl ch) (mkHst true (src_closes s) (snk_closes s) (early_close s) (defers s) (stuck s))
  | HMayFail b :: r | HBranch b :: r =>
      if hd false ch then let (s', ret) := run_simple b s in if ret then finish s' else exec r (tl ch) s'
      else exec r (tl ch) s
  | HClose c :: r => exec r ch (close1 c s)
  | HDefer c :: r => exec r ch (mkHst (opened s) (src_closes s) (snk_closes s) (early_close s) (c :: defers s) (stuck s))
  | HReturn :: _ => finish s
  | HUnknown :: r => exec r ch (mkHst (opened s) (src_closes s) (snk_closes s) (early_close s) (defers s) true)
  end.

(** C10 on the final state: a handle pair that was opened is closed exactly once each, one that was never opened is
    never closed, nothing is closed before it is opened, and the translator understood the whole function *)
Definition okb (s : hst) : bool :=
  negb (stuck s) && negb (early_close s)
  && (if opened s then Nat.eqb (src_closes s) 1 && Nat.eqb (snk_closes s) 1 else Nat.eqb (src_closes s) 0 && Nat.eqb (snk_closes s) 0).

Definition all_paths_ok (p : list hstmt) : bool := forallb okb (runs p init_hst).
