(** Handling of request parameters (traceroute/traceroute.go, runner.go, server/utils.go) and the TCP method
    policy (performTCPFallback) with Go's error trees.  No proofs here. *)
From Coq Require Import List ZArith Bool.
Import ListNotations.
Open Scope Z_scope.

(** ---------------- C19 ---------------- *)
Inductive proto := PUdp | PTcp | PIcmp | POther.
Inductive tmethod := MDefault | MSyn | MSack | MPrefer | MSynSocket | MOther.

Record rparams := mkRP { rp_proto : proto; rp_min : Z; rp_max : Z; rp_port : Z; rp_method : tmethod }.

(** what gets executed: protocol/method kind, TTL range, destination port *)
Inductive kind := KUdp | KTcpSyn | KTcpSack | KTcpPrefer | KTcpSynSocket | KIcmp.
Inductive plan := Reject | Exec (k : kind) (first last port : Z).

Definition default_port : Z := 33434.
Definition dest_port (p : rparams) : Z := if rp_port p =? 0 then default_port else rp_port p.
Definition port_ok (x : Z) : bool := (1 <=? x) && (x <=? 65535).
Definition ttl_range_ok (p : rparams) : bool := (1 <=? rp_min p) && (rp_max p <=? 255) && (rp_min p <=? rp_max p).

Definition accept (p : rparams) : plan :=
  if negb (ttl_range_ok p) then Reject
  else match rp_proto p with
       | PUdp => if port_ok (dest_port p) then Exec KUdp (rp_min p) (rp_max p) (dest_port p) else Reject
       | PTcp =>
           if port_ok (dest_port p) then
             match rp_method p with
             | MDefault | MSyn => Exec KTcpSyn (rp_min p) (rp_max p) (dest_port p)
             | MSack => Exec KTcpSack (rp_min p) (rp_max p) (dest_port p)
             | MPrefer => Exec KTcpPrefer (rp_min p) (rp_max p) (dest_port p)
             | MSynSocket => Exec KTcpSynSocket (rp_min p) (rp_max p) (dest_port p)
             | MOther => Reject
             end
           else Reject
       | PIcmp => Exec KIcmp (rp_min p) (rp_max p) 0
       | POther => Reject
       end.

(** an end-to-end probe: MinTTL = MaxTTL, SACK methods replaced by SYN *)
Definition e2e_params (p : rparams) : rparams :=
  mkRP (rp_proto p) (rp_max p) (rp_max p) (rp_port p)
       (match rp_proto p, rp_method p with
        | PTcp, (MSack | MPrefer) => MSyn
        | _, m => m
        end).

(** the HTTP handler's query parsing: an integer field is the parsed value, or the default when the
    text is absent or not an integer (None) *)
Definition q_int (v : option Z) (dflt : Z) : Z := match v with Some x => x | None => dflt end.
Record query := mkQuery { q_port : option Z; q_max_ttl : option Z; q_proto : option proto; q_method : option tmethod }.
Definition server_params (q : query) : rparams :=
  mkRP (match q_proto q with Some pr => pr | None => PUdp end) 1 (q_int (q_max_ttl q) 30) (q_int (q_port q) default_port)
       (match q_method q with Some m => m | None => MSyn end).

(** ---------------- C20 ---------------- *)
(** Go error values as trees: fmt.Errorf("%w"), *sack.NotSupportedError, errors.Join *)
Inductive err := Leaf (id : Z) | Wrap (e : err) | NotSup (e : err) | Join (l : list err).

Fixpoint has_notsup (e : err) : bool :=       (* errors.As(err, **sack.NotSupportedError) *)
  match e with
  | Leaf _ => false
  | Wrap e' => has_notsup e'
  | NotSup _ => true
  | Join l => (fix go (l : list err) : bool := match l with [] => false | x :: r => has_notsup x || go r end) l
  end.

Fixpoint has_cause (e : err) (id : Z) : bool :=  (* errors.Is(err, cause) *)
  match e with
  | Leaf i => i =? id
  | Wrap e' => has_cause e' id
  | NotSup e' => has_cause e' id
  | Join l => (fix go (l : list err) : bool := match l with [] => false | x :: r => has_cause x id || go r end) l
  end.

Inductive run_out := ROk | RErr (e : err).
Inductive trace := TSyn | TSack | TSynSocket.
Record fb_res := mkFB { fb_trace : option trace; fb_err : option err; fb_syn_calls : Z; fb_sack_calls : Z; fb_sock_calls : Z }.

Definition of_run (t : trace) (o : run_out) (ns nk nc : Z) : fb_res :=
  match o with ROk => mkFB (Some t) None ns nk nc | RErr e => mkFB None (Some e) ns nk nc end.

(** performTCPFallback: the outcomes of the three implementations are oracles *)
Definition perform (m : tmethod) (syn sack sock : run_out) : fb_res :=
  match m with
  | MDefault | MSyn => of_run TSyn syn 1 0 0
  | MSack => of_run TSack sack 0 1 0
  | MSynSocket => of_run TSynSocket sock 0 0 1
  | MPrefer =>
      match sack with
      | ROk => mkFB (Some TSack) None 0 1 0
      | RErr e => if has_notsup e then of_run TSyn syn 1 1 0
                  else mkFB None (Some (Wrap e)) 0 1 0          (* "failed fatally, not falling back: %w" *)
      end
  | MOther => mkFB None (Some (Leaf (-1))) 0 0 0
  end.

(** how a SACK run ends, by what went wrong (sack/traceroute_sack.go, sack_driver.go) *)
Inductive sack_fault :=
| FNone | FDial (cause : Z) | FNoSackPermitted | FAckWithoutSack
| FFilter (cause : Z) | FSend (cause : Z) | FRead (cause : Z) | FHandshakeNotCaptured.

Definition sack_run (f : sack_fault) : run_out :=
  match f with
  | FNone => ROk
  | FDial c => RErr (Wrap (NotSup (Wrap (Leaf c))))
  | FNoSackPermitted => RErr (Wrap (Wrap (Wrap (NotSup (Leaf 100)))))
  | FAckWithoutSack => RErr (Wrap (Wrap (Wrap (NotSup (Wrap (Leaf 101))))))
  | FFilter c => RErr (Wrap (Wrap (Leaf c)))
  | FSend c => RErr (Wrap (Wrap (Wrap (Wrap (Leaf c)))))
  | FRead c => RErr (Wrap (Wrap (Wrap (Wrap (Leaf c)))))
  | FHandshakeNotCaptured => RErr (Wrap (Wrap (Wrap (Leaf 102))))
  end.
