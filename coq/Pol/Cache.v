(** cache.GetWithExpiration over go-cache: key -> (value, expiry).  No proofs here. *)
From Coq Require Import List ZArith Bool.
Import ListNotations.
Open Scope Z_scope.

Record item := mkItem { it_key : Z; it_val : Z; it_exp : Z }.    (* it_exp = 0: never expires (absolute ns otherwise) *)
Definition cstate := list item.

Definition lookup_item (s : cstate) (k : Z) : option item := find (fun i => it_key i =? k) s.

(** go-cache Get: found unless Expiration > 0 and now > Expiration *)
Definition cache_get (s : cstate) (now k : Z) : option Z :=
  match lookup_item s k with
  | Some i => if (0 <? it_exp i) && (it_exp i <? now) then None else Some (it_val i)
  | None => None
  end.

(** go-cache Set with duration d: -1 = NoExpiration, 0 = the cache's default, > 0 = now + d *)
Definition cache_set (dflt : Z) (s : cstate) (now k v d : Z) : cstate :=
  let d' := if d =? 0 then dflt else d in
  let e := if 0 <? d' then now + d' else 0 in
  mkItem k v e :: filter (fun i => negb (it_key i =? k)) s.

(** one GetWithExpiration call: [cb] is what the callback would return if invoked (None = error) *)
Record cres := mkCres { cr_val : option Z; cr_called : bool; cr_state : cstate }.

Definition get_or_compute (dflt : Z) (s : cstate) (now k : Z) (cb : option Z) (expire : Z) : cres :=
  match cache_get s now k with
  | Some v => mkCres (Some v) false s
  | None =>
      match cb with
      | Some v => mkCres (Some v) true (cache_set dflt s now k v expire)
      | None => mkCres None true s          (* errors are not cached *)
      end
  end.

(** an operation sequence on a virtual clock *)
Record cop := mkCop { op_now : Z; op_key : Z; op_cb : option Z; op_expire : Z }.

Fixpoint run_cache (dflt : Z) (s : cstate) (ops : list cop) : list (option Z * bool) :=
  match ops with
  | [] => []
  | o :: r =>
      let c := get_or_compute dflt s (op_now o) (op_key o) (op_cb o) (op_expire o) in
      (cr_val c, cr_called c) :: run_cache dflt (cr_state c) r
  end.

(** ---- specification clause C18 "without re-querying", evaluated by the correspondence on the implementation's own
    observations (Run/Pol.v) and proved of the model (Proofs/CacheNoRequery.v) *)
(** "without re-querying": the callback ran although an earlier call for the same key stored a success whose
    lifetime [op_expire] (positive) has not yet run out *)
Definition requeried_early (hist : list (cop * (option Z * bool))) (o : cop) (r : option Z * bool) : bool :=
  snd r && existsb (fun h => (op_key (fst h) =? op_key o) && snd (snd h)
                             && match fst (snd h) with Some _ => true | None => false end
                             && (0 <? op_expire (fst h)) && (op_now o <? op_now (fst h) + op_expire (fst h))) hist.

Fixpoint cache_norequery (hist : list (cop * (option Z * bool))) (ops : list cop) (res : list (option Z * bool)) : bool :=
  match ops, res with
  | o :: ro, r :: rr => negb (requeried_early hist o r) && cache_norequery ((o, r) :: hist) ro rr
  | _, _ => true
  end.


(** "... until expiry": a value served without the callback was stored by a successful callback for that key whose lifetime,
    counted from the instant it was STORED (not from the last read), has not run out; [dflt] is the cache's default lifetime
    (lifetime 0), a negative lifetime never expires *)
Definition served_within_lifetime (dflt : Z) (hist : list (cop * (option Z * bool))) (o : cop) (r : option Z * bool) : bool :=
  match r with
  | (Some v, false) =>
      existsb (fun h => (op_key (fst h) =? op_key o) && snd (snd h)
                        && match fst (snd h) with Some v' => v' =? v | None => false end
                        && (let e := if op_expire (fst h) =? 0 then dflt else op_expire (fst h) in
                            (e <? 0) || (op_now o <=? op_now (fst h) + e))) hist
  | _ => true
  end.

Fixpoint cache_expiry (dflt : Z) (hist : list (cop * (option Z * bool))) (ops : list cop) (res : list (option Z * bool)) : bool :=
  match ops, res with
  | o :: ro, r :: rr => served_within_lifetime dflt hist o r && cache_expiry dflt ((o, r) :: hist) ro rr
  | _, _ => true
  end.
