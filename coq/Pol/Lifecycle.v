(** Lifecycle of a protocol run (udp/tcp/icmp Traceroute entry points): open the capture/send handles, install the
    filter, run the engine over the driver, close.  The run is an abstract program over handle operations with one
    injected fault (operation, k-th call, class).  No proofs here. *)
From Coq Require Import List ZArith Bool.
Import ListNotations.
Open Scope Z_scope.

Inductive lop := LOpen | LFilter | LSend | LDeadline | LRead.
Inductive fclass := FFatal | FDeadline | FZero.
Record fault := mkFault { f_op : lop; f_k : Z; f_class : fclass }.

Definition lop_eqb (a b : lop) : bool :=
  match a, b with LOpen, LOpen | LFilter, LFilter | LSend, LSend | LDeadline, LDeadline | LRead, LRead => true | _, _ => false end.

(** the handles as the run leaves them *)
Record hstate := mkH { h_opened : bool; h_src_closes : Z; h_snk_closes : Z; h_used_after_close : bool }.

Inductive lres := LOk | LErr (cause_kept : bool).

(** does the fault fire at this call?  a zero-length outcome only exists for reads *)
Definition fires (f : fault) (o : lop) (k : Z) : bool := lop_eqb (f_op f) o && (f_k f =? k).

(** the engine + driver over the operations the fault-free run performs after the filter is in place:
    the first firing fault decides — a deadline on a read is the normal "nothing yet" and changes nothing,
    a zero-length read is an error without a cause, anything else is an error wrapping the cause *)
Definition decide (f : fault) (o : lop) (next : lres) : lres :=
  match o, f_class f with
  | LRead, FDeadline => next
  | LRead, FZero => LErr false
  | _, FZero => next                      (* no such outcome for this operation: nothing injected *)
  | _, _ => LErr true
  end.

Fixpoint engine (plan : list lop) (f : fault) (ns nd nr : Z) : lres :=
  match plan with
  | [] => LOk
  | LSend :: rest => let next := engine rest f (ns + 1) nd nr in if fires f LSend (ns + 1) then decide f LSend next else next
  | LDeadline :: rest => let next := engine rest f ns (nd + 1) nr in if fires f LDeadline (nd + 1) then decide f LDeadline next else next
  | LRead :: rest => let next := engine rest f ns nd (nr + 1) in if fires f LRead (nr + 1) then decide f LRead next else next
  | _ :: rest => engine rest f ns nd nr   (* handles are opened and filtered once, before the engine runs *)
  end.

Definition run_entry (plan : list lop) (f : fault) : lres * hstate :=
  if fires f LOpen 1 && negb (match f_class f with FZero => true | _ => false end) then (LErr true, mkH false 0 0 false)
  else if fires f LFilter 1 && negb (match f_class f with FZero => true | _ => false end) then
    (LErr true, mkH true 1 1 false)                      (* the error path closes both handles itself *)
  else (engine plan f 0 0 0, mkH true 1 1 false).         (* defer driver.Close() *)
