(** The capture socket as a state machine over a history of filter installations and arriving frames
    (packets/afpacket_source_linux.go SetPacketFilter, packets/attach_linux.go SetBPFAndDrain / RemoveBPF):
    the kernel runs the attached program over a frame WHEN IT ARRIVES; installing a program first empties the
    queue (drop-all, drain, attach); FilterTypeNone detaches and keeps what is queued.
    The lab's kind 30 runs the repository's real source (on a datagram socketpair) through such histories and
    compares what Read hands out with [captured] below. *)
From Coq Require Import List ZArith Bool.
From TR Require Import Lib.Bytes Bpf.Vm Spec.C12 Generated.BpfProgs.
Import ListNotations.
Open Scope Z_scope.

Inductive fspec := FsNone | FsIcmp | FsUdp | FsTcp (s d sp dp : Z) | FsSynack.

(** the program getClassicBPFFilter hands out for a specification (none for FilterTypeNone) *)
Definition prog_for (f : fspec) : option (list instr) :=
  match f with
  | FsNone => None
  | FsIcmp => Some (prog_of raw_icmp)
  | FsUdp => Some (prog_of raw_udp)
  | FsTcp s d sp dp => Some (prog_of (raw_tcp4 s d sp dp))
  | FsSynack => Some (prog_of raw_synack)
  end.

(** what the requested filter is FOR, at field level *)
Definition selects (f : fspec) (fr : bytes) : bool :=
  match f with
  | FsNone => true
  | FsIcmp => icmp_specb fr
  | FsUdp => udp_specb fr
  | FsTcp s d sp dp => tcp4_specb s d sp dp fr
  | FsSynack => synack_specb fr
  end.

Record sock := mkSock { attached : option (list instr); queue : list bytes }.
Definition sock0 : sock := mkSock None [].

Definition passes (s : sock) (fr : bytes) : bool :=
  match attached s with None => true | Some p => accepts p fr end.

Definition arrive (s : sock) (fr : bytes) : sock :=
  if passes s fr then mkSock (attached s) (queue s ++ [fr]) else s.

Definition install (s : sock) (f : fspec) : sock :=
  match prog_for f with
  | None => mkSock None (queue s)
  | Some p => mkSock (Some p) []
  end.

Inductive sop := OInstall (f : fspec) | OArrive (fr : bytes).

Definition sstep (s : sock) (o : sop) : sock :=
  match o with OInstall f => install s f | OArrive fr => arrive s fr end.

Definition srun (ops : list sop) : sock := fold_left sstep ops sock0.

(** kind 30: the installations of a history, then one frame: does it get into the queue Read hands out? *)
Definition captured (specs : list fspec) (fr : bytes) : bool :=
  passes (srun (map OInstall specs)) fr.

(** ... and a frame that arrived just BEFORE the last installation and had not been read: is it still handed out? *)
Definition stale_captured (specs : list fspec) (fr : bytes) : bool :=
  match rev specs with
  | [] => false
  | lastf :: before =>
      existsb (fun x => bytes_eqb x fr) (queue (install (arrive (srun (map OInstall (rev before))) fr) lastf))
  end.
