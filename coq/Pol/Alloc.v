(** Process-wide identifier allocators: packets.AllocPacketID (IP-ID blocks) and icmp.nextEchoID.
    The counters are 32-bit and updated with atomic.Add: every concurrent execution is equivalent to
    some sequential order of the calls, which is what is modelled.  No proofs here. *)
From Coq Require Import List ZArith Bool.
Import ListNotations.
Open Scope Z_scope.

Definition M32 : Z := 4294967296.
Definition M16 : Z := 65536.

(** AllocPacketID(maxTTL): next := Add(maxTTL) - maxTTL (uint32 arithmetic); returns uint16(next) *)
Definition alloc (c m : Z) : Z * Z :=            (* (new counter, base) *)
  let c' := (c + m) mod M32 in
  (c', ((c' - m) mod M32) mod M16).

Fixpoint alloc_seq (c : Z) (ms : list Z) : list (Z * Z) :=   (* (base, size) per call, in order *)
  match ms with
  | [] => []
  | m :: r => let '(c', b) := alloc c m in (b, m) :: alloc_seq c' r
  end.

(** the identifiers a run with block (base, m) puts on the wire: base + ttl mod 2^16, ttl = 1..m *)
Definition block_id (base t : Z) : Z := (base + t) mod M16.
Definition in_block (b : Z * Z) (x : Z) : Prop := exists t, 1 <= t <= snd b /\ x = block_id (fst b) t.

(** nextEchoID: uint16(Add(1)) *)
Definition echo_ids (c : Z) (n : nat) : list Z := map (fun i => ((c + 1 + Z.of_nat i) mod M32) mod M16) (seq 0 n).

(** executable disjointness check for the lab: blocks (b, m) and (b', m') share an identifier iff the offset
    d = b' - b (mod 2^16) satisfies d <= m - 1 or d >= 2^16 - (m' - 1) *)
Fixpoint zr (a : Z) (n : nat) : list Z := match n with O => [] | S k => a :: zr (a + 1) k end.
Definition overlapb (x y : Z * Z) : bool :=
  let d := (fst y - fst x) mod M16 in
  (0 <? snd x) && (0 <? snd y) && ((d <=? snd x - 1) || (M16 - snd y + 1 <=? d)).
Fixpoint disjointb (blocks : list (Z * Z)) : bool :=
  match blocks with
  | [] => true
  | b :: r => forallb (fun b' => negb (overlapb b b')) r && disjointb r
  end.
