(** How long a whole request (RunTraceroute) takes, from how long its parts take: the runs start together, the
    end-to-end probes are launched e2e_delay apart, the public-IP lookup starts once the last probe is launched,
    everything is waited for, and reverse-DNS enrichment (lookups in parallel, each under its own 5 s deadline) follows a
    successful request.  No proofs here. *)
From Coq Require Import List ZArith Bool.
From TR Require Import Generated.Consts.
Import ListNotations.
Open Scope Z_scope.

Definition zmax_list (l : list Z) : Z := fold_left Z.max l 0.

(** e2eQueriesDelay := min(1 s, MaxTTL * Timeout / E2eQueries)  (time.Duration arithmetic, integer division) *)
Definition e2e_delay (max_ttl timeout e : Z) : Z := if e <=? 0 then 0 else Z.min 1000000000 ((max_ttl * timeout) / e).

Fixpoint e2e_finish (d : Z) (i : Z) (e2es : list Z) : list Z :=
  match e2es with [] => [] | x :: r => (i * d + x) :: e2e_finish d (i + 1) r end.

(** rdns: -2 off, -1 never answers, else the resolver's delay; pub: -2 off, else the fetcher's time *)
Definition request_elapsed (max_ttl timeout : Z) (runs e2es : list Z) (failed : bool) (rdns pub : Z) : Z :=
  let e := Z.of_nat (length e2es) in
  let d := e2e_delay max_ttl timeout e in
  let t_loop := if e <=? 0 then 0 else (e - 1) * d in
  let t_pub := if pub =? -2 then 0 else t_loop + pub in
  let base := Z.max (Z.max (zmax_list runs) t_loop) (Z.max (zmax_list (e2e_finish d 0 e2es)) t_pub) in
  if failed || (rdns =? -2) || (match runs with [] => true | _ => false end) then base   (* nothing to look up *)
  else base + (if rdns =? -1 then reversedns_reverseDnsDefaultTimeout else Z.min rdns reversedns_reverseDnsDefaultTimeout).

(** the bound computable from the parameters, given bounds on the parts *)
Definition request_bound (max_ttl timeout e b_run b_e2e b_pub : Z) (rdns_on pub_on : bool) : Z :=
  let d := e2e_delay max_ttl timeout e in
  let t_loop := if e <=? 0 then 0 else (e - 1) * d in
  Z.max (Z.max b_run t_loop) (Z.max (t_loop + b_e2e) (if pub_on then t_loop + b_pub else 0))
  + (if rdns_on then reversedns_reverseDnsDefaultTimeout else 0).
