(** The parallel engine as a two-thread transition system (TracerouteParallel):
    a sender thread (check writerCtx, then SendProbe), a receiver thread
    (ReceiveProbe, validate, writeProbe under resultsMu, writerCancel on a
    destination reply) and the environment (deadline / group cancellation).
    Every step is one atomic action of the Go code; [writeProbe] is atomic
    because it runs under [resultsMu] (supported by C14).  No proofs here. *)
From Coq Require Import List ZArith Bool.
From TR Require Import Eng.Engine.
Import ListNotations.
Open Scope Z_scope.

Inductive spc := SIdle | SChecked | SDone.

Record pstate := mkP {
  ps_results : slots;        (* results, guarded by resultsMu *)
  ps_next : Z;               (* loop variable i of the sender *)
  ps_spc : spc;              (* sender between its cancellation check and SendProbe *)
  ps_wcancel : bool;         (* writerCtx cancelled *)
  ps_gdone : bool;           (* groupCtx done (deadline or external cancel) *)
  ps_rdone : bool;           (* receiver returned *)
  ps_failed : bool;          (* receiver returned an error (invalid TTL) *)
  ps_accepted : list probe;  (* ghost: replies handed to writeProbe, in order *)
  ps_sent : list Z           (* ghost: TTLs passed to SendProbe, in order *)
}.

Definition pinit (first last : Z) : pstate :=
  mkP (init last) first SIdle false false false false [] [].

Inductive pstep (first last : Z) : pstate -> pstate -> Prop :=
| st_check_go : forall s,            (* writerCtx.Err() == nil, i <= MaxTTL *)
    ps_spc s = SIdle -> ps_wcancel s = false -> ps_gdone s = false -> ps_next s <= last ->
    pstep first last s (mkP (ps_results s) (ps_next s) SChecked (ps_wcancel s) (ps_gdone s) (ps_rdone s) (ps_failed s) (ps_accepted s) (ps_sent s))
| st_check_stop : forall s,          (* cancelled or loop finished: sender returns *)
    ps_spc s = SIdle -> (ps_wcancel s = true \/ ps_gdone s = true \/ last < ps_next s) ->
    pstep first last s (mkP (ps_results s) (ps_next s) SDone (ps_wcancel s) (ps_gdone s) (ps_rdone s) (ps_failed s) (ps_accepted s) (ps_sent s))
| st_send : forall s,                (* SendProbe(i); i++ *)
    ps_spc s = SChecked ->
    pstep first last s (mkP (ps_results s) (ps_next s + 1) SIdle (ps_wcancel s) (ps_gdone s) (ps_rdone s) (ps_failed s) (ps_accepted s) (ps_sent s ++ [ps_next s]))
| st_recv_ok : forall s p,           (* ReceiveProbe returned p; validateProbe ok; writeProbe; maybe writerCancel *)
    ps_rdone s = false -> valid_probe first last p = true ->
    pstep first last s (mkP (write (ps_results s) p) (ps_next s) (ps_spc s) (ps_wcancel s || p_dest p) (ps_gdone s) false (ps_failed s) (ps_accepted s ++ [p]) (ps_sent s))
| st_recv_bad : forall s p,          (* validateProbe failed: the receiver returns the error, the group is cancelled *)
    ps_rdone s = false -> valid_probe first last p = false ->
    pstep first last s (mkP (ps_results s) (ps_next s) (ps_spc s) true true true true (ps_accepted s) (ps_sent s))
| st_recv_exit : forall s,           (* groupCtx.Err() != nil at the loop head *)
    ps_rdone s = false -> ps_gdone s = true ->
    pstep first last s (mkP (ps_results s) (ps_next s) (ps_spc s) (ps_wcancel s) (ps_gdone s) true (ps_failed s) (ps_accepted s) (ps_sent s))
| st_deadline : forall s,            (* MaxTimeout elapsed / external cancellation *)
    pstep first last s (mkP (ps_results s) (ps_next s) (ps_spc s) true true (ps_rdone s) (ps_failed s) (ps_accepted s) (ps_sent s)).

Inductive reachable (first last : Z) : pstate -> Prop :=
| r_init : reachable first last (pinit first last)
| r_step : forall s s', reachable first last s -> pstep first last s s' -> reachable first last s'.

(** g.Wait() returned: both threads are done *)
Definition finished (s : pstate) : Prop := ps_spc s = SDone /\ ps_rdone s = true.

(** what TracerouteParallel returns from a finished state without error *)
Definition presult (first : Z) (s : pstate) : option slots := clip first (ps_results s).
