(** Timed model of both engines run against a scripted network: a deterministic
    function of the parameters and a script of reply entries.  Time is [Z]
    nanoseconds on a virtual clock starting at the first send.

    Script semantics (what the harness' scripted driver implements): entry [e]
    becomes readable at [send_time (e_ttl e) + e_delay e] provided that TTL was
    sent; ReceiveProbe returns the readable entry with the smallest ready time
    (script order on equal times) as soon as it is ready, or the no-packet error
    after [poll].  Kind 0 = reply, kind 1 = retryable noise, kind 2 = a reply the
    driver hands out at absolute time [e_delay] whether or not its TTL was probed
    (a misbehaving driver / stale traffic; RTT reported = time since start).

    Two events at the same virtual instant on different goroutines have no
    defined order; the model reports [TTie] there instead of guessing. *)
From Coq Require Import List ZArith Bool.
From TR Require Import Eng.Engine.
Import ListNotations.
Open Scope Z_scope.

Record entry := mkEntry { e_ttl : Z; e_delay : Z; e_ip : Z; e_dest : bool; e_kind : Z }.

Record tparams := mkTP { tp_first : Z; tp_last : Z; tp_timeout : Z; tp_poll : Z; tp_delay : Z }.

Record tresult := mkTR {
  tr_slots : option slots;        (* clipResults output; None = slice panic *)
  tr_accepted : list probe;       (* replies handed to the engine, in order *)
  tr_sends : list (Z * Z);        (* (ttl, send time) in order *)
  tr_elapsed : Z
}.

Inductive tout := TDone (r : tresult) | TError (acc : list probe) | TFail | TTie | TOutOfFuel.

(** earliest ready entry among those whose TTL has a send time *)
Definition ready (st : Z -> option Z) (e : entry) : option Z :=
  if e_kind e =? 2 then Some (e_delay e)
  else match st (e_ttl e) with Some s => Some (s + e_delay e) | None => None end.

Definition origin (st : Z -> option Z) (e : entry) : Z :=
  if e_kind e =? 2 then 0 else match st (e_ttl e) with Some s => s | None => 0 end.

(** the RTT the driver reports when it hands over entry [e] at instant [T]: processing instant minus the send instant
    of that TTL's probe; a rogue driver (kind 2) reports an RTT unrelated to arrival order *)
Definition reported_rtt (st : Z -> option Z) (e : entry) (T : Z) : Z :=
  if e_kind e =? 2 then (e_delay e mod 50021) * 997 else T - origin st e.

Fixpoint best (st : Z -> option Z) (pend : list entry) (idx : nat) : option (Z * nat * entry) :=
  match pend with
  | [] => None
  | e :: t =>
      let rest := best st t (S idx) in
      match ready st e with
      | None => rest
      | Some a =>
          match rest with
          | Some (a', i', e') => if a' <? a then rest else Some (a, idx, e)
          | None => Some (a, idx, e)
          end
      end
  end.

Fixpoint remove_nth {A} (n : nat) (l : list A) : list A :=
  match n, l with
  | _, [] => []
  | O, _ :: t => t
  | S n', h :: t => h :: remove_nth n' t
  end.

(** ---------------- parallel engine ---------------- *)
Definition count (p : tparams) : Z := tp_last p - tp_first p + 1.
Definition pdeadline (p : tparams) : Z := tp_timeout p + tp_delay p * count p.   (* MaxTimeout *)
Definition psend_time (p : tparams) (t : Z) : Z := (t - tp_first p) * tp_delay p.

(** TTL t is sent iff in range and its send instant precedes the writer's cancellation *)
Definition psent (p : tparams) (cancel : option Z) (t : Z) : option Z :=
  if (tp_first p <=? t) && (t <=? tp_last p) then
    match cancel with
    | None => Some (psend_time p t)
    | Some c => if psend_time p t <? c then Some (psend_time p t) else None
    end
  else None.

Fixpoint zrange (a : Z) (n : nat) : list Z := match n with O => [] | S n' => a :: zrange (a + 1) n' end.

Definition psends (p : tparams) (cancel : option Z) : list (Z * Z) :=
  flat_map (fun t => match psent p cancel t with Some s => [(t, s)] | None => [] end)
           (zrange (tp_first p) (Z.to_nat (count p))).

(** a send instant equal to the cancellation instant: undefined order *)
Definition cancel_tie (p : tparams) (c : Z) : bool :=
  existsb (fun t => psend_time p t =? c) (zrange (tp_first p) (Z.to_nat (count p))).

(** [D] is the instant the group context ends: MaxTimeout, or an earlier external cancellation *)
Fixpoint prun (fuel : nat) (p : tparams) (D : Z) (T : Z) (pend : list entry) (cancel : option Z)
              (rs : slots) (acc : list probe) : tout :=
  match fuel with
  | O => TOutOfFuel
  | S fuel' =>
      if T =? D then TTie
      else if D <? T then
        TDone (mkTR (clip (tp_first p) rs) (rev acc) (psends p cancel) T)
      else
        let R := T + tp_poll p in
        match best (psent p cancel) pend O with
        | Some (a, i, e) =>
            if a <=? R then
              let T' := Z.max T a in
              let pend' := remove_nth i pend in
              if e_kind e =? 1 then prun fuel' p D T' pend' cancel rs acc
              else
                let pr := mkProbe (e_ttl e) (e_ip e) (reported_rtt (psent p cancel) e T') (e_dest e) in
                if negb (valid_probe (tp_first p) (tp_last p) pr) then TError (rev (pr :: acc))
                else
                let cancel' := match cancel with Some c => Some c | None => if e_dest e then Some T' else None end in
                if (match cancel with None => e_dest e && cancel_tie p T' | Some _ => false end) then TTie
                else prun fuel' p D T' pend' cancel' (write rs pr) (pr :: acc)
            else prun fuel' p D R pend cancel rs acc
        | None => prun fuel' p D R pend cancel rs acc
        end
  end.

Definition pfuel (p : tparams) (script : list entry) : nat :=
  (length script + Z.to_nat (pdeadline p / tp_poll p) + 3)%nat.

Definition params_ok (p : tparams) : bool :=
  (1 <=? tp_first p) && (tp_first p <=? tp_last p) && (tp_last p <=? 255)
  && (0 <? tp_timeout p) && (0 <? tp_poll p) && (0 <=? tp_delay p).

Definition parallel_run (p : tparams) (script : list entry) : tout :=
  if negb (params_ok p) then TFail
  else prun (pfuel p script) p (pdeadline p) 0 script None (init (tp_last p)) [].

(** the caller's context is cancelled at instant [c]: the group context ends at min(MaxTimeout, c);
    the sender leaves at its next cancellation check *)
Definition sender_exit (p : tparams) (c : Z) : Z :=
  if tp_delay p =? 0 then 0
  else Z.min (tp_delay p * count p) (tp_delay p * ((c + tp_delay p - 1) / tp_delay p)).

Definition parallel_run_cancelled (p : tparams) (script : list entry) (c : Z) : tout :=
  if negb (params_ok p) then TFail
  else prun (pfuel p script) p (Z.min (pdeadline p) c) 0 script None (init (tp_last p)) [].

(** ---------------- serial engine ---------------- *)
Definition lookup (sends : list (Z * Z)) (t : Z) : option Z :=
  match find (fun x => fst x =? t) sends with Some x => Some (snd x) | None => None end.

Inductive wres := WProbe (T : Z) (pr : probe) (pend : list entry) | WTimeout (T : Z) (pend : list entry) | WTie | WFuel.

(** the inner ReceiveProbe loop of one TTL: from loop-head time T until a reply or the window W closes *)
Fixpoint swindow (fuel : nat) (p : tparams) (sends : list (Z * Z)) (W T : Z) (pend : list entry) : wres :=
  match fuel with
  | O => WFuel
  | S fuel' =>
      if T =? W then WTie
      else if W <? T then WTimeout T pend
      else
        let R := T + tp_poll p in
        match best (lookup sends) pend O with
        | Some (a, i, e) =>
            if a <=? R then
              let T' := Z.max T a in
              let pend' := remove_nth i pend in
              if e_kind e =? 1 then swindow fuel' p sends W T' pend'
              else WProbe T' (mkProbe (e_ttl e) (e_ip e) (reported_rtt (lookup sends) e T') (e_dest e)) pend'
            else swindow fuel' p sends W R pend
        | None => swindow fuel' p sends W R pend
        end
  end.

Definition wfuel (p : tparams) (pend : list entry) : nat :=
  (length pend + Z.to_nat (tp_timeout p / tp_poll p) + 3)%nat.

Fixpoint srun (n : nat) (p : tparams) (i s : Z) (pend : list entry) (sends : list (Z * Z))
              (rs : slots) (acc : list probe) : tout :=
  match n with
  | O => TDone (mkTR (clip (tp_first p) rs) (rev acc) (rev sends) s)
  | S n' =>
      let sends' := (i, s) :: sends in
      match swindow (wfuel p pend) p sends' (s + tp_timeout p) s pend with
      | WFuel => TOutOfFuel
      | WTie => TTie
      | WTimeout T pend' => srun n' p (i + 1) (Z.max T (s + tp_delay p)) pend' sends' rs acc
      | WProbe T pr pend' =>
          if negb (valid_probe (tp_first p) (tp_last p) pr) then TError (rev (pr :: acc)) else
          let rs' := write rs pr in
          if p_dest pr then TDone (mkTR (clip (tp_first p) rs') (rev (pr :: acc)) (rev sends') T)
          else srun n' p (i + 1) (Z.max T (s + tp_delay p)) pend' sends' rs' (pr :: acc)
      end
  end.

Definition serial_run (p : tparams) (script : list entry) : tout :=
  if negb (params_ok p) then TFail
  else srun (Z.to_nat (count p)) p (tp_first p) 0 script [] (init (tp_last p)) [].
