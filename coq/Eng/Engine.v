(** Engine model: the merge rule ([writeProbe]), [clipResults], [ToHops] of
    common/traceroute_{parallel,serial,types}.go.  No proofs in this file. *)
From Coq Require Import List ZArith Bool.
Import ListNotations.
Open Scope Z_scope.

(** common.ProbeResponse; the address is an opaque value here *)
Record probe := mkProbe { p_ttl : Z; p_ip : Z; p_rtt : Z; p_dest : bool }.

Definition slots := list (option probe).

Fixpoint set_nth {A} (n : nat) (x : A) (l : list A) : list A :=
  match n, l with
  | _, [] => []
  | O, _ :: t => x :: t
  | S n', h :: t => h :: set_nth n' x t
  end.

(** shouldUpdate := previous == nil || (!previous.IsDest && probe.IsDest) *)
Definition should_update (prev : option probe) (p : probe) : bool :=
  match prev with
  | None => true
  | Some q => negb (p_dest q) && p_dest p
  end.

Definition upd (cur : option probe) (p : probe) : option probe :=
  if should_update cur p then Some p else cur.

(** results[probe.TTL] = probe under the rule above *)
Definition write (rs : slots) (p : probe) : slots :=
  let i := Z.to_nat (p_ttl p) in
  set_nth i (upd (nth i rs None) p) rs.

(** results := make([]*ProbeResponse, int(MaxTTL)+1) *)
Definition init (last : Z) : slots := repeat None (Z.to_nat last + 1).

(** validateProbe *)
Definition valid_probe (first last : Z) (p : probe) : bool :=
  (first <=? p_ttl p) && (p_ttl p <=? last).

Definition is_dest (o : option probe) : bool :=
  match o with Some p => p_dest p | None => false end.

(** slices.IndexFunc(results, pr != nil && pr.IsDest) *)
Fixpoint find_dest (rs : slots) : option nat :=
  match rs with
  | [] => None
  | o :: t => if is_dest o then Some O
              else match find_dest t with Some d => Some (S d) | None => None end
  end.

(** clipResults; [None] is the slice-bounds panic of [results[minTTL:]] *)
Definition clip (first : Z) (rs : slots) : option slots :=
  let rs' := match find_dest rs with Some d => firstn (S d) rs | None => rs end in
  if (Z.to_nat first <=? length rs')%nat then Some (skipn (Z.to_nat first) rs') else None.

(** result.TracerouteHop as far as the engines fill it *)
Record hop := mkHop { h_ttl : Z; h_ip : option Z; h_rtt : Z; h_dest : bool }.

(** ToHops; [None] is its "probe TTL mismatch" error *)
Fixpoint to_hops (expected : Z) (ps : slots) : option (list hop) :=
  match ps with
  | [] => Some []
  | o :: t =>
      match to_hops (expected + 1) t with
      | None => None
      | Some hs =>
          match o with
          | None => Some (mkHop expected None 0 false :: hs)
          | Some p => if p_ttl p =? expected
                      then Some (mkHop expected (Some (p_ip p)) (p_rtt p) (p_dest p) :: hs)
                      else None
          end
      end
  end.

(** the engines' data path: validate, merge in acceptance order, clip *)
Inductive outcome (A : Type) := Done (a : A) | EngineError | Panic.
Arguments Done {A} a. Arguments EngineError {A}. Arguments Panic {A}.

Definition merge_all (last : Z) (acc : list probe) : slots := fold_left write acc (init last).

Definition run_slots (first last : Z) (acc : list probe) : outcome slots :=
  if negb (forallb (valid_probe first last) acc) then EngineError
  else match clip first (merge_all last acc) with
       | Some s => Done s
       | None => Panic
       end.

Definition run_hops (first last : Z) (acc : list probe) : outcome (list hop) :=
  match run_slots first last acc with
  | Done s => match to_hops first s with Some hs => Done hs | None => EngineError end
  | EngineError => EngineError
  | Panic => Panic
  end.

(** ---- the abstract merge rule (C07): earliest destination reply for a TTL if
    any, else the earliest reply for that TTL *)
Definition for_ttl (t : Z) (p : probe) : bool := p_ttl p =? t.
Definition dest_for_ttl (t : Z) (p : probe) : bool := (p_ttl p =? t) && p_dest p.

Definition pick (acc : list probe) (t : Z) : option probe :=
  match find (dest_for_ttl t) acc with
  | Some p => Some p
  | None => find (for_ttl t) acc
  end.
