(** Probe-builder theorems (C06): TTL byte, lengths, flow fields, identifier uniqueness, and
    Internet-checksum validity for every configuration. *)
From Coq Require Import List ZArith Bool Lia.
From TR Require Import Lib.Bytes Wire.Decode Wire.Build Drv.Drivers Spec.C06.
Import ListNotations.
Open Scope Z_scope.

(** ---- identifiers *)
Lemma mod_add_inj M b t t' : 0 < M -> 0 <= t < M -> 0 <= t' < M -> (b + t) mod M = (b + t') mod M -> t = t'.
Proof.
  intros HM Ht Ht' H.
  assert (E : (t - t') mod M = 0).
  { replace (t - t') with ((b + t) - (b + t')) by lia. rewrite Zminus_mod, H, Z.sub_diag. apply Z.mod_0_l. lia. }
  apply Z.mod_divide in E; [|lia]. destruct E as [k E].
  assert (k = 0) by nia. lia.
Qed.

Theorem udp4_id_unique t t' : 0 <= t <= 255 -> 0 <= t' <= 255 -> udp4_id t = udp4_id t' -> t = t'.
Proof. unfold udp4_id. intros. eapply (mod_add_inj 65536 41821); eauto; lia. Qed.

Theorem udp6_id_unique t t' : 0 <= t <= 255 -> 0 <= t' <= 255 -> udp6_id t = udp6_id t' -> t = t'.
Proof.
  unfold udp6_id. intros H1 H2 H. replace (5 + t + 8) with (13 + t) in H by lia. replace (5 + t' + 8) with (13 + t') in H by lia.
  eapply (mod_add_inj 65536 13); eauto; lia.
Qed.

(** default TCP mode: base + ttl mod 2^16 at EVERY base, including the wrap-around *)
Theorem tcp_id_unique base t t' : 0 <= t <= 255 -> 0 <= t' <= 255 -> (base + t) mod 65536 = (base + t') mod 65536 -> t = t'.
Proof. intros. eapply (mod_add_inj 65536 base); eauto; lia. Qed.

(** SACK: isn + ttl mod 2^32 at EVERY initial sequence number *)
Theorem sack_seq_unique isn t t' : 0 <= t <= 255 -> 0 <= t' <= 255 ->
  (isn + t) mod 4294967296 = (isn + t') mod 4294967296 -> t = t'.
Proof. intros. eapply (mod_add_inj 4294967296 isn); eauto; lia. Qed.

(** probes of one run never share an identifier (deterministic schemes) *)
Theorem probe_ids_distinct c st t now rnd st' pkt :
  (c_variant c = VTcp -> c_paris c = false) -> 0 <= c_first c -> c_last c <= 255 ->
  Forall (fun s => 0 <= s_ttl s <= 255) st -> 0 <= t <= 255 ->
  (forall s, In s st -> s_id s = match c_variant c with
                                 | VIcmp => c_echo_id c | VUdp => if is_v6 c then udp6_id (s_ttl s) else udp4_id (s_ttl s)
                                 | VTcp => (c_base_id c + s_ttl s) mod 65536 | VSack => 41821 end
                      /\ s_seq s = match c_variant c with
                                   | VIcmp => s_ttl s | VUdp => 0 | VTcp => c_seq c | VSack => (c_init_seq c + s_ttl s) mod 4294967296 end) ->
  send c st t now rnd = SendOk st' pkt ->
  forall s, In s st -> s_ttl s <> t -> probe_id_clash c s t rnd = false.
Proof.
  intros Hp Hf Hl Hall Ht Hinv Hs s Hin Hne. rewrite Forall_forall in Hall. specialize (Hall s Hin). cbn in Hall.
  destruct (Hinv s Hin) as [Hid Hseq]. unfold probe_id_clash.
  destruct (c_variant c) eqn:V.
  - rewrite Hseq. apply Z.eqb_neq. exact Hne.
  - rewrite Hid. apply Z.eqb_neq. intros E. apply Hne.
    destruct (is_v6 c); [apply udp6_id_unique|apply udp4_id_unique]; auto.
  - rewrite (Hp eq_refl). rewrite Hid. apply Z.eqb_neq. intros E. apply Hne. eapply tcp_id_unique; eauto.
  - rewrite Hseq. apply Z.eqb_neq. intros E. apply Hne. eapply sack_seq_unique; eauto.
Qed.

(** ---- TTL / hop-limit byte, for every builder and every input *)
Theorem ttl_byte_v4 total id ff ttl proto src dst rest : nth 8 (ip4_header total id ff ttl proto src dst ++ rest) (-1) = ttl.
Proof. reflexivity. Qed.

Theorem ttl_byte_v6 plen nh hlim src dst rest : nth 7 (ip6_header plen nh hlim src dst ++ rest) (-1) = hlim.
Proof. reflexivity. Qed.

Theorem probe_ttl_icmp4 s d e t : probe_ttl_byte (icmp4_probe s d e t) = t.  Proof. reflexivity. Qed.
Theorem probe_ttl_icmp6 s d e t : probe_ttl_byte (icmp6_probe s d e t) = t.  Proof. reflexivity. Qed.
Theorem probe_ttl_udp4 s d sp dp t : probe_ttl_byte (udp4_probe s d sp dp t) = t.  Proof. reflexivity. Qed.
Theorem probe_ttl_udp6 s d sp dp t : probe_ttl_byte (udp6_probe s d sp dp t) = t.  Proof. reflexivity. Qed.
Theorem probe_ttl_syn s d sp dp id sq t : probe_ttl_byte (syn_probe s d sp dp id sq t) = t.  Proof. reflexivity. Qed.
Theorem probe_ttl_sack s d sp dp a b ts tv te t : probe_ttl_byte (sack_probe s d sp dp a b ts tv te t) = t.  Proof. reflexivity. Qed.

(** ---- Internet checksum *)
Ltac dm := Z.div_mod_to_equations; lia.

Lemma fold1_bound x : 0 <= x -> 0 <= fold1 x <= x.
Proof. intros H. unfold fold1. dm. Qed.

Lemma fold1_mod x : 0 <= x -> fold1 x mod 65535 = x mod 65535.
Proof.
  intros H. unfold fold1. pose proof (Z.div_mod x 65536 ltac:(lia)) as E.
  set (q := x / 65536) in *. set (r := x mod 65536) in *.
  assert (X : x = (q + r) + q * 65535) by lia.
  transitivity (((q + r) + q * 65535) mod 65535); [rewrite Z.mod_add by lia; reflexivity|rewrite <- X; reflexivity].
Qed.

Lemma fold1_small x : 0 <= x < 4294967296 -> 0 <= fold1 x < 131071.
Proof. intros H. unfold fold1. dm. Qed.

Lemma fold1_small2 y : 0 <= y < 131071 -> 0 <= fold1 y <= 65536 /\ (0 < y -> 0 < fold1 y).
Proof. intros H. unfold fold1. split; [|intros]; dm. Qed.

Lemma fold1_small3 y : 0 <= y <= 65536 -> 0 <= fold1 y <= 65535 /\ (0 < y -> 0 < fold1 y).
Proof. intros H. unfold fold1. split; [|intros]; dm. Qed.

Lemma fold1_pos x : 0 < x -> 0 < fold1 x.
Proof. intros H. unfold fold1. dm. Qed.

Lemma fold16_range x : 0 <= x < 4294967296 -> 0 <= fold16 x <= 65535 /\ fold16 x mod 65535 = x mod 65535 /\ (0 < x -> 0 < fold16 x).
Proof.
  intros H. unfold fold16.
  pose proof (fold1_small x H) as B1.
  destruct (fold1_small2 _ B1) as [B2 P2].
  destruct (fold1_small3 _ B2) as [B3 P3].
  split; [exact B3|]. split.
  - rewrite !fold1_mod; lia.
  - intros Hp. apply P3, P2, fold1_pos, Hp.
Qed.

(** the receiver's check passes when the transmitted checksum is 0xffff - fold(sum) *)
Theorem cksum_verifies s : 0 <= s < 4294901760 -> fold16 (s + (65535 - fold16 s)) = 65535.
Proof.
  intros H. destruct (fold16_range s ltac:(lia)) as [R1 [R2 R3]].
  set (c := 65535 - fold16 s) in *.
  destruct (fold16_range (s + c) ltac:(lia)) as [T1 [T2 T3]].
  assert (M : (s + c) mod 65535 = 0).
  { unfold c. rewrite Zplus_mod, Zminus_mod, R2, <- Zminus_mod, <- Zplus_mod.
    replace (s + (65535 - s)) with (1 * 65535) by lia. apply Z.mod_mul. lia. }
  rewrite M in T2.
  assert (P : 0 < fold16 (s + c)).
  { apply T3. destruct (Z.eq_dec s 0) as [->|]; [|lia]. unfold c. cbn. lia. }
  apply Z.mod_divide in T2; [|lia]. destruct T2 as [k Hk]. assert (k = 1) by nia. lia.
Qed.

(** ---- checksum placement on byte lists *)
Lemma list_ind2 {A} (P : list A -> Prop) :
  P [] -> (forall x, P [x]) -> (forall x y r, P r -> P (x :: y :: r)) -> forall l, P l.
Proof.
  intros H0 H1 H2. fix IH 1. intros [|x [|y r]]; [exact H0|apply H1|apply H2, IH].
Qed.

Lemma sum16_acc b : forall acc k, sum16 b (acc + k) = sum16 b acc + k.
Proof.
  induction b as [|x|x y r IH] using list_ind2; intros acc k.
  - reflexivity.
  - cbn; lia.
  - cbn [sum16]. replace (acc + k + 256 * x + y) with ((acc + 256 * x + y) + k) by lia. apply IH.
Qed.

Lemma sum16_app_even a : forall b acc, Nat.even (length a) = true -> sum16 (a ++ b) acc = sum16 b (sum16 a acc).
Proof.
  induction a as [|x|x y r IH] using list_ind2; intros b acc He.
  - reflexivity.
  - discriminate.
  - cbn [app sum16]. apply IH. cbn [length Nat.even] in He. exact He.
Qed.

Lemma u16b_val v : 0 <= v < 65536 -> 256 * ((v / 256) mod 256) + v mod 256 = v.
Proof. intros H. Z.div_mod_to_equations. lia. Qed.

Lemma sum16_put pre post v acc : Nat.even (length pre) = true -> 0 <= v < 65536 ->
  sum16 (pre ++ u16b v ++ post) acc = sum16 (pre ++ [0; 0] ++ post) acc + v.
Proof.
  intros He Hv. rewrite (sum16_app_even pre (u16b v ++ post)), (sum16_app_even pre ([0; 0] ++ post)) by exact He. unfold u16b. cbn [app sum16].
  replace (sum16 pre acc + 256 * 0 + 0) with (sum16 pre acc) by lia.
  replace (sum16 pre acc + 256 * ((v / 256) mod 256) + v mod 256) with (sum16 pre acc + v) by (pose proof (u16b_val v Hv); lia).
  exact (sum16_acc post (sum16 pre acc) v).
Qed.

Lemma sum16_bound b : forall acc, Forall byte_ok b -> acc <= sum16 b acc <= acc + 65535 * Z.of_nat (length b).
Proof.
  induction b as [|x|x y r IH] using list_ind2; intros acc H.
  - cbn. lia.
  - inversion H; subst. unfold byte_ok in *. cbn [sum16 length]. lia.
  - inversion H as [|? ? Hx H']; subst. inversion H' as [|? ? Hy H'']; subst. unfold byte_ok in *.
    cbn [sum16]. specialize (IH (acc + 256 * x + y) H''). cbn [length]. lia.
Qed.

(** a checksum computed over a buffer whose checksum field (at an even offset) is zero, and written
    into that field, verifies at the receiver *)
Theorem checksum_field_verifies pre post init :
  Nat.even (length pre) = true -> Forall byte_ok (pre ++ [0; 0] ++ post) -> 0 <= init < 16777216 ->
  len (pre ++ [0; 0] ++ post) <= 60000 ->
  verifies (pre ++ u16b (cksum (pre ++ [0; 0] ++ post) init) ++ post) init = true.
Proof.
  intros He Hb Hi Hl. unfold verifies, cksum. unfold len in Hl.
  pose proof (sum16_bound _ init Hb) as B.
  set (s := sum16 (pre ++ [0; 0] ++ post) init) in *.
  assert (Hs : 0 <= s < 4294901760) by lia.
  destruct (fold16_range s ltac:(lia)) as [R1 _].
  rewrite sum16_put by (auto; lia). fold s. rewrite cksum_verifies by exact Hs. reflexivity.
Qed.

(** [put16] is exactly that placement *)
Lemma put16_split off v b pre post :
  b = pre ++ [0; 0] ++ post -> off = len pre -> put16 off v b = pre ++ u16b v ++ post.
Proof.
  intros -> ->. unfold put16, takez, dropz, len. rewrite Nat2Z.id.
  rewrite firstn_app, Nat.sub_diag, firstn_all. cbn [firstn]. rewrite app_nil_r.
  replace (Z.to_nat (Z.of_nat (length pre) + 2)) with (length pre + 2)%nat by lia.
  rewrite skipn_app. rewrite skipn_all2 by lia. replace (length pre + 2 - length pre)%nat with 2%nat by lia. reflexivity.
Qed.

Lemma u16b_ok v : Forall byte_ok (u16b v).
Proof. unfold u16b. repeat constructor; unfold byte_ok; apply Z.mod_pos_bound; lia. Qed.
Lemma u32b_ok v : Forall byte_ok (u32b v).
Proof. unfold u32b. repeat constructor; unfold byte_ok; apply Z.mod_pos_bound; lia. Qed.

(** the IPv4 header of every probe verifies, for all field values *)
Theorem ip4_header_checksum total id ff ttl proto src dst :
  byte_ok ttl -> byte_ok proto -> Forall byte_ok src -> Forall byte_ok dst -> length src = 4%nat -> length dst = 4%nat ->
  verifies (ip4_header total id ff ttl proto src dst) 0 = true.
Proof.
  intros Ht Hp Hs Hd Ls Ld. unfold ip4_header.
  pose (pre := [69; 0] ++ u16b total ++ u16b id ++ u16b ff ++ [ttl; proto]).
  pose (post := src ++ dst).
  change (verifies (pre ++ u16b (cksum (pre ++ [0; 0] ++ post) 0) ++ post) 0 = true).
  apply checksum_field_verifies.
  - reflexivity.
  - unfold pre, post. repeat (apply Forall_app; split); auto using u16b_ok; repeat constructor; auto; unfold byte_ok; lia.
  - lia.
  - unfold pre, post, u16b, len. rewrite !app_length. cbn [length]. lia.
Qed.

(** the ICMPv4 echo body of every probe verifies *)
Theorem icmp4_body_checksum echo_id ttl : byte_ok ttl ->
  verifies (put16 2 (cksum ([8; 0; 0; 0] ++ u16b echo_id ++ u16b ttl ++ [ttl]) 0) ([8; 0; 0; 0] ++ u16b echo_id ++ u16b ttl ++ [ttl])) 0 = true.
Proof.
  intros Ht.
  rewrite (put16_split 2 _ _ [8; 0] (u16b echo_id ++ u16b ttl ++ [ttl])) by reflexivity.
  replace ([8; 0; 0; 0] ++ u16b echo_id ++ u16b ttl ++ [ttl]) with ([8; 0] ++ [0; 0] ++ (u16b echo_id ++ u16b ttl ++ [ttl])) by reflexivity.
  apply checksum_field_verifies; [reflexivity| |lia|unfold u16b, len; cbn; lia].
  repeat (apply Forall_app; split); auto using u16b_ok; repeat constructor; auto; unfold byte_ok; lia.
Qed.

(** TCP segments (SYN and SACK probes): the pseudo-header checksum verifies for all field values *)
Theorem tcp_segment_checksum src dst sport dport seq ack flags opts payload :
  Forall byte_ok src -> Forall byte_ok dst -> (length src <= 16)%nat -> (length dst <= 16)%nat ->
  byte_ok flags -> Forall byte_ok opts -> Forall byte_ok payload -> len opts <= 40 -> (length payload <= 1000)%nat ->
  verifies (tcp_segment src dst sport dport seq ack flags opts payload)
           (pseudo src dst 6 (len (tcp_segment src dst sport dport seq ack flags opts payload))) = true.
Proof.
  intros Hs Hd Ls Ld Hf Ho Hp Lo Lp. unfold tcp_segment.
  set (doff := (20 + len opts) / 4).
  set (pre := u16b sport ++ u16b dport ++ u32b seq ++ u32b ack ++ [doff * 16; flags] ++ u16b 1024).
  set (post := [0; 0] ++ opts ++ payload).
  set (s0 := u16b sport ++ u16b dport ++ u32b seq ++ u32b ack ++ [doff * 16; flags] ++ u16b 1024 ++ [0; 0; 0; 0] ++ opts ++ payload).
  assert (E0 : s0 = pre ++ [0; 0] ++ post) by (unfold s0, pre, post, u16b, u32b; reflexivity).
  assert (Lpre : len pre = 16) by (unfold pre, u16b, u32b, len; reflexivity).
  rewrite (put16_split 16 _ s0 pre post E0 (eq_sym Lpre)).
  assert (Ls0 : len (pre ++ u16b (cksum s0 (pseudo src dst 6 (len s0))) ++ post) = len s0).
  { rewrite E0. unfold len. rewrite !app_length. unfold u16b. cbn [length]. lia. }
  rewrite Ls0.
  assert (Hdoff : byte_ok (doff * 16)).
  { unfold byte_ok, doff. pose proof (len_ge0 opts). Z.div_mod_to_equations. lia. }
  assert (Hb : Forall byte_ok (pre ++ [0; 0] ++ post)).
  { unfold pre, post. repeat (apply Forall_app; split); auto using u16b_ok, u32b_ok; repeat constructor; auto; unfold byte_ok; lia. }
  assert (Hlen : len (pre ++ [0; 0] ++ post) <= 60000).
  { unfold pre, post, u16b, u32b, len. rewrite !app_length. cbn [length]. unfold len in Lo. lia. }
  rewrite E0. apply checksum_field_verifies; [unfold pre, u16b, u32b; reflexivity|exact Hb| |exact Hlen].
  unfold pseudo. pose proof (sum16_bound src 0 Hs). pose proof (sum16_bound dst 0 Hd).
  assert (0 <= len (pre ++ [0; 0] ++ post)) by apply len_ge0.
  Z.div_mod_to_equations. lia.
Qed.
