(** C02, engine lift (parallel engine): every reply that becomes readable no later than the deadline, for a TTL that
    was actually probed, is accepted by the receiver — for ANY script (loss, duplicates, reordering, noise). *)
From Coq Require Import List ZArith Bool Lia Arith.
From TR Require Import Eng.Engine Eng.Timed Proofs.EngFuel.
Import ListNotations.
Open Scope Z_scope.

Lemma best_min st : forall pend i a j e, best st pend i = Some (a, j, e) ->
  forall x ax, In x pend -> ready st x = Some ax -> a <= ax.
Proof.
  induction pend as [|y t IH]; intros i a j e H x ax Hin Hr; cbn [best] in H; [destruct Hin|].
  destruct (ready st y) as [s|] eqn:Ry.
  - destruct (best st t (S i)) as [[[a' i'] e']|] eqn:B.
    + destruct (a' <? s) eqn:C.
      * injection H as -> -> ->. apply Z.ltb_lt in C. destruct Hin as [<-|Hin]; [rewrite Ry in Hr; injection Hr as <-; lia|eapply IH; eauto].
      * injection H as <- <- <-. apply Z.ltb_ge in C. destruct Hin as [<-|Hin]; [rewrite Ry in Hr; injection Hr as <-; lia|].
        pose proof (IH _ _ _ _ B x ax Hin Hr). lia.
    + injection H as <- <- <-. destruct Hin as [<-|Hin]; [rewrite Ry in Hr; injection Hr as <-; lia|].
      exfalso. clear -B Hin Hr. revert B. generalize (S i). induction t as [|z t IH]; intros n B; [destruct Hin|]. cbn [best] in B.
      destruct Hin as [<-|Hin].
      * rewrite Hr in B. destruct (best st t (S n)) as [[[? ?] ?]|]; [destruct (_ <? _)|]; discriminate.
      * destruct (ready st z); [destruct (best st t (S n)) as [[[? ?] ?]|] eqn:B2; [destruct (_ <? _); discriminate|discriminate]|eapply IH; eauto].
  - destruct Hin as [<-|Hin]; [congruence|eapply IH; eauto].
Qed.

Lemma best_none st : forall pend i, best st pend i = None -> forall x, In x pend -> ready st x = None.
Proof.
  induction pend as [|y t IH]; intros i H x Hin; [destruct Hin|]. cbn [best] in H.
  destruct (ready st y) as [s|] eqn:Ry.
  - destruct (best st t (S i)) as [[[? ?] ?]|]; [destruct (_ <? _)|]; discriminate.
  - destruct Hin as [<-|Hin]; [exact Ry|eapply IH; eauto].
Qed.

Lemma best_nth st : forall pend i a j e, best st pend i = Some (a, j, e) -> nth_error pend (j - i) = Some e.
Proof.
  induction pend as [|y t IH]; intros i a j e H; cbn [best] in H; [discriminate|].
  destruct (ready st y) as [s|].
  - destruct (best st t (S i)) as [[[a' i'] e']|] eqn:B.
    + destruct (a' <? s).
      * injection H as -> -> ->. pose proof (best_index _ _ _ _ _ _ B). apply IH in B.
        replace (j - i)%nat with (S (j - S i)) by lia. exact B.
      * injection H as <- <- <-. rewrite Nat.sub_diag. reflexivity.
    + injection H as <- <- <-. rewrite Nat.sub_diag. reflexivity.
  - pose proof (best_index _ _ _ _ _ _ H). apply IH in H. replace (j - i)%nat with (S (j - S i)) by lia. exact H.
Qed.

Lemma remove_nth_in {A} : forall n (l : list A) x, In x (remove_nth n l) -> In x l.
Proof. induction n as [|n IH]; intros [|y l] x H; cbn in *; auto. destruct H as [->|H]; auto. Qed.

Lemma in_remove_nth {A} : forall n (l : list A) e x, nth_error l n = Some e -> In x l -> x = e \/ In x (remove_nth n l).
Proof.
  induction n as [|n IH]; intros [|y l] e x Hn Hin; cbn in *; try discriminate.
  - injection Hn as ->. destruct Hin as [->|Hin]; auto.
  - destruct Hin as [->|Hin]; [right; left; reflexivity|]. destruct (IH l e x Hn Hin); auto.
Qed.

Definition matches (e : entry) (q : probe) : Prop := p_ttl q = e_ttl e /\ p_ip q = e_ip e /\ p_dest q = e_dest e.

(** invariant: every reply of the script is still pending or has been accepted; once the loop head is past the
    deadline, nothing that is still pending was readable by the deadline *)
Lemma prun_complete : forall fuel p D T pend cancel rs acc r (script : list entry),
  (forall e, In e script -> e_kind e = 0 -> In e pend \/ exists q, In q acc /\ matches e q) ->
  (T <= D \/ forall e a, In e pend -> ready (psent p cancel) e = Some a -> D < a) ->
  prun fuel p D T pend cancel rs acc = TDone r ->
  forall e s, In e script -> e_kind e = 0 -> In (e_ttl e, s) (tr_sends r) -> s + e_delay e <= D ->
  exists q, In q (tr_accepted r) /\ matches e q.
Proof.
  induction fuel as [|fuel IH]; intros p D T pend cancel rs acc r script Inv Q H; cbn [prun] in H; [discriminate|].
  destruct (T =? D) eqn:E1; [discriminate|]. apply Z.eqb_neq in E1.
  destruct (D <? T) eqn:E2.
  - (* finished *)
    apply Z.ltb_lt in E2. injection H as <-. cbn [tr_sends tr_accepted]. intros e s He Hk Hs Hd.
    destruct (Inv e He Hk) as [Hp|[q [Hq Hm]]]; [|exists q; split; [apply -> in_rev; exact Hq|exact Hm]].
    exfalso. destruct Q as [Q|Q]; [lia|].
    assert (Hr : ready (psent p cancel) e = Some (s + e_delay e)).
    { unfold ready. rewrite Hk. cbn. unfold psends in Hs. apply in_flat_map in Hs. destruct Hs as [t [_ Ht]].
      destruct (psent p cancel t) as [s'|] eqn:Ps; [|destruct Ht]. destruct Ht as [Ht|[]]. injection Ht as -> ->. rewrite Ps. reflexivity. }
    specialize (Q e _ Hp Hr). lia.
  - apply Z.ltb_ge in E2. assert (HT : T < D) by lia.
    destruct (best (psent p cancel) pend 0) as [[[a i] e0]|] eqn:B.
    + pose proof (best_nth _ _ _ _ _ _ B) as Bn. rewrite Nat.sub_0_r in Bn.
      destruct (a <=? T + tp_poll p) eqn:E3.
      * apply Z.leb_le in E3.
        assert (Q' : forall c', (c' = cancel \/ (cancel = None /\ exists x, c' = Some x)) ->
                     Z.max T a <= D \/ forall e a0, In e (remove_nth i pend) -> ready (psent p c') e = Some a0 -> D < a0).
        { intros c' Hc. destruct (Z_le_dec (Z.max T a) D) as [|Hgt]; [left; lia|right].
          intros e a0 Hin Hr. apply remove_nth_in in Hin.
          assert (Hr' : ready (psent p cancel) e = Some a0).
          { destruct Hc as [->|[-> [x ->]]]; [exact Hr|]. unfold ready in Hr |- *. destruct (e_kind e =? 2); [exact Hr|].
            destruct (psent p (Some x) (e_ttl e)) as [s|] eqn:Ps; [|discriminate]. unfold psent in *.
            destruct ((tp_first p <=? e_ttl e) && (e_ttl e <=? tp_last p)); [|discriminate].
            destruct (psend_time p (e_ttl e) <? x); [|discriminate]. injection Ps as <-. exact Hr. }
          pose proof (best_min _ _ _ _ _ _ B e a0 Hin Hr'). lia. }
        destruct (e_kind e0 =? 1) eqn:K1.
        -- eapply IH; [| |exact H].
           ++ intros e He Hk. destruct (Inv e He Hk) as [Hp|Hq]; [|right; exact Hq].
              destruct (in_remove_nth _ _ _ _ Bn Hp) as [->|Hr]; [apply Z.eqb_eq in K1; lia|left; exact Hr].
           ++ apply Q'. left. reflexivity.
        -- match type of H with (if negb ?v then _ else _) = _ => destruct v eqn:V end; cbn [negb] in H; [|discriminate].
           destruct (match cancel with None => e_dest e0 && cancel_tie p (Z.max T a) | Some _ => false end); [discriminate|].
           eapply IH; [| |exact H].
           ++ intros e He Hk. destruct (Inv e He Hk) as [Hp|[q [Hq Hm]]]; [|right; exists q; split; [right; exact Hq|exact Hm]].
              destruct (in_remove_nth _ _ _ _ Bn Hp) as [->|Hr]; [|left; exact Hr].
              right. eexists. split; [left; reflexivity|]. unfold matches. cbn. auto.
           ++ apply Q'. destruct cancel as [c|]; [left; reflexivity|]. destruct (e_dest e0); [right; split; [reflexivity|eauto]|left; reflexivity].
      * apply Z.leb_gt in E3. eapply IH; [exact Inv| |exact H].
        destruct (Z_le_dec (T + tp_poll p) D) as [|Hgt]; [left; lia|right].
        intros e a0 Hin Hr. pose proof (best_min _ _ _ _ _ _ B e a0 Hin Hr). lia.
    + eapply IH; [exact Inv| |exact H]. right. intros e a0 Hin Hr. rewrite (best_none _ _ _ B e Hin) in Hr. discriminate.
Qed.

Theorem parallel_accepts_every_timely_reply p script r :
  parallel_run p script = TDone r ->
  forall e s, In e script -> e_kind e = 0 -> In (e_ttl e, s) (tr_sends r) -> s + e_delay e <= pdeadline p ->
  exists q, In q (tr_accepted r) /\ matches e q.
Proof.
  unfold parallel_run. destruct (params_ok p) eqn:P; [|discriminate]. cbn [negb]. intros H.
  eapply prun_complete; [| |exact H].
  - intros e He _. left. exact He.
  - left. unfold params_ok in P. rewrite !andb_true_iff in P. rewrite !Z.leb_le, !Z.ltb_lt in P. unfold pdeadline, count. nia.
Qed.
