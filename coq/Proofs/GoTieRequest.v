(** Tie kind A (C08, request level): the pacing delay between end-to-end probes as it stands in runTracerouteMulti is the
    request model's [e2e_delay]. *)
From Coq Require Import ZArith Bool Lia.
From TR Require Import Lib.GoLists Pol.Request Generated.GoTimeout.
Open Scope Z_scope.

Theorem go_e2e_delay_is_model max_ttl timeout e : 0 < e ->
  go_e2e_queries_delay max_ttl timeout e = e2e_delay max_ttl timeout e.
Proof.
  intros He. unfold go_e2e_queries_delay, e2e_delay. replace (e <=? 0) with false by (symmetry; apply Z.leb_gt; exact He).
  replace (1 * 1000000000) with 1000000000 by reflexivity.
  destruct (Z.ltb_spec 1000000000 (max_ttl * timeout / e)); lia.
Qed.
