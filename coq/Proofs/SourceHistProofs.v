(** Histories of filter installations on one capture socket: what Read hands out is decided by the LAST
    requested filter alone, and by frames that arrived after it was installed. *)
From Coq Require Import List ZArith Bool.
From TR Require Import Lib.Bytes Bpf.Vm Spec.C12 Generated.BpfProgs Proofs.C12Exact Pol.SourceHist.
Import ListNotations.
Open Scope Z_scope.

Lemma passes_install s f fr : passes (install s f) fr = selects f fr.
Proof.
  destruct f as [| | |a b c d|]; unfold install, passes; cbn [prog_for attached selects].
  - reflexivity.
  - apply icmp_exact.
  - apply udp_exact.
  - apply tcp4_exact.
  - apply synack_exact.
Qed.

Lemma attached_arrive s fr : attached (arrive s fr) = attached s.
Proof. unfold arrive. destruct (passes s fr); reflexivity. Qed.

Lemma passes_arrive s fr x : passes (arrive s fr) x = passes s x.
Proof. unfold passes. rewrite attached_arrive. reflexivity. Qed.

Lemma arrivals_queue (sel : bytes -> bool) : forall frs s,
  (forall fr, passes s fr = sel fr) ->
  queue (fold_left sstep (map OArrive frs) s) = queue s ++ filter sel frs.
Proof.
  induction frs as [|fr frs IH]; intros s Hs; cbn [map fold_left filter sstep].
  - symmetry. apply app_nil_r.
  - rewrite IH by (intro x; rewrite passes_arrive; apply Hs).
    unfold arrive. rewrite Hs. destruct (sel fr); cbn [queue].
    + rewrite <- app_assoc. reflexivity.
    + reflexivity.
Qed.

(** after a history [h] of any installations and arrivals, installing a program for [f] and then receiving
    [frs]: the queue is exactly the frames of [frs] that [f] selects, in order - nothing of [h] is left, no
    earlier filter has a say *)
Theorem history_exact h f frs :
  f <> FsNone ->
  queue (fold_left sstep (map OArrive frs) (install (srun h) f)) = filter (selects f) frs.
Proof.
  intro Hf. rewrite (arrivals_queue (selects f)) by (intro fr; apply passes_install).
  destruct f; try contradiction; reflexivity.
Qed.

(** detaching keeps what is queued and lets everything in *)
Theorem history_detach h frs :
  queue (fold_left sstep (map OArrive frs) (install (srun h) FsNone)) = queue (srun h) ++ frs.
Proof.
  rewrite (arrivals_queue (fun _ => true)) by (intro fr; reflexivity).
  cbn [install prog_for queue]. f_equal. induction frs as [|x r IH]; cbn [filter]; [reflexivity|f_equal; exact IH].
Qed.

Lemma srun_app a b : srun (a ++ b) = fold_left sstep b (srun a).
Proof. unfold srun. apply fold_left_app. Qed.

(** the lab's observable: after ANY sequence of installations, a frame is handed out iff the last one selects it *)
Theorem captured_last specs f fr : captured (specs ++ [f]) fr = selects f fr.
Proof.
  unfold captured. rewrite map_app, srun_app. cbn [map fold_left sstep]. apply passes_install.
Qed.

(** a frame captured under an earlier filter never comes out once a program has been installed after it *)
Theorem stale_never_after_program specs f fr : f <> FsNone -> stale_captured (specs ++ [f]) fr = false.
Proof.
  intro Hf. unfold stale_captured. rewrite rev_app_distr. cbn [rev app].
  destruct f; try contradiction; reflexivity.
Qed.

Example history_witness :
  let a := FsTcp 0xc6336407 0xc0000202 443 40001 in
  let b := FsTcp 0xc6336407 0xc0000202 443 40002 in
  captured [a; b] [] = selects b [] /\ a <> FsNone.
Proof. split; [apply (captured_last [FsTcp _ _ _ _])|discriminate]. Qed.
