(** Tie kind A (C06): per-probe identifiers as translated from the source = what the driver model puts on the wire. *)
From Coq Require Import ZArith Bool Lia List.
Import ListNotations.
Open Scope Z_scope.
From TR Require Import Lib.Bytes Wire.Build Drv.Drivers Generated.GoIds.

Theorem go_tcp_ids c ttl rnd : 0 <= ttl < 256 ->
  go_tcp_tcpDriver_getNextPacketIDAndSeqNum ttl (c_paris c) rnd (c_base_id c) (c_seq c)
  = ((if c_paris c then 41821 else (c_base_id c + ttl) mod 65536), (if c_paris c then rnd else c_seq c)).
Proof.
  intros H. unfold go_tcp_tcpDriver_getNextPacketIDAndSeqNum. destruct (c_paris c); [reflexivity|].
  rewrite (Z.mod_small ttl 65536) by lia. reflexivity.
Qed.

Theorem go_udp4_id ttl : 0 <= ttl < 256 -> go_udp4_ip_id ttl = udp4_id ttl.
Proof. intros H. unfold go_udp4_ip_id, udp4_id. rewrite (Z.mod_small ttl 65536) by lia. reflexivity. Qed.
