(** C11 / C01, engine lift (parallel engine): what a run's result contains comes from the non-noise entries of its own
    script, whatever else is on the wire; packets the driver does not match (noise — e.g. every packet that belongs to
    another run) never enter the result and never keep a timely reply out of it. *)
From Coq Require Import List ZArith Bool Lia Arith.
From TR Require Import Eng.Engine Eng.Timed Proofs.EngFuel Proofs.EngComplete.
Import ListNotations.
Open Scope Z_scope.

Lemma prun_sound : forall fuel p D T pend cancel rs acc r (script : list entry),
  (forall e, In e pend -> In e script) ->
  (forall q, In q acc -> exists e, In e script /\ e_kind e <> 1 /\ matches e q) ->
  prun fuel p D T pend cancel rs acc = TDone r ->
  forall q, In q (tr_accepted r) -> exists e, In e script /\ e_kind e <> 1 /\ matches e q.
Proof.
  induction fuel as [|fuel IH]; intros p D T pend cancel rs acc r script Hp Ha H; cbn [prun] in H; [discriminate|].
  destruct (T =? D); [discriminate|].
  destruct (D <? T).
  - injection H as <-. cbn [tr_accepted]. intros q Hq. apply in_rev in Hq. auto.
  - destruct (best (psent p cancel) pend 0) as [[[a i] e0]|] eqn:B; [|eapply IH; eauto].
    pose proof (best_nth _ _ _ _ _ _ B) as Bn. rewrite Nat.sub_0_r in Bn. apply nth_error_In in Bn.
    destruct (a <=? T + tp_poll p); [|eapply IH; eauto].
    assert (Hp' : forall e, In e (remove_nth i pend) -> In e script) by (intros e He; apply Hp; eapply remove_nth_in; eauto).
    destruct (e_kind e0 =? 1) eqn:K; [eapply IH; eauto|].
    match type of H with (if negb ?v then _ else _) = _ => destruct v end; cbn [negb] in H; [|discriminate].
    destruct (match cancel with None => e_dest e0 && cancel_tie p (Z.max T a) | Some _ => false end); [discriminate|].
    eapply IH; [exact Hp'| |exact H].
    intros q [<-|Hq]; [|auto]. exists e0. split; [auto|]. split; [apply Z.eqb_neq in K; exact K|]. unfold matches. cbn. auto.
Qed.

Theorem parallel_accepts_only_script_replies p script r :
  parallel_run p script = TDone r ->
  forall q, In q (tr_accepted r) -> exists e, In e script /\ e_kind e <> 1 /\ matches e q.
Proof.
  unfold parallel_run. destruct (params_ok p); [|discriminate]. cbn [negb]. intros H.
  eapply prun_sound; [| |exact H]; [auto|intros q []].
Qed.

(** a shared wire: [shared] holds the run's own entries [own] and, interleaved in any way, entries [foreign] that the
    run's driver does not match (kind 1).  Whatever the interleaving: *)
Theorem shared_wire_isolation p own foreign shared r :
  (forall e, In e shared <-> In e own \/ In e foreign) ->
  (forall e, In e foreign -> e_kind e = 1) ->
  parallel_run p shared = TDone r ->
  (* nothing foreign is in the result: every accepted reply is one of the run's own entries *)
  (forall q, In q (tr_accepted r) -> exists e, In e own /\ e_kind e <> 1 /\ matches e q)
  (* and nothing foreign displaces an own reply: each own reply readable by the deadline is accepted *)
  /\ (forall e s, In e own -> e_kind e = 0 -> In (e_ttl e, s) (tr_sends r) -> s + e_delay e <= pdeadline p ->
        exists q, In q (tr_accepted r) /\ matches e q).
Proof.
  intros Hs Hf H. split.
  - intros q Hq. destruct (parallel_accepts_only_script_replies p shared r H q Hq) as [e [He [Hk Hm]]].
    exists e. split; [|auto]. apply Hs in He. destruct He as [He|He]; [exact He|]. apply Hf in He. contradiction.
  - intros e s He Hk Hsnd Hd. eapply parallel_accepts_every_timely_reply; eauto. apply Hs. left. exact He.
Qed.
