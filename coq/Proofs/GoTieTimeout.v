(** Tie kind A (C08): ProbeCount / MaxTimeout as translated from the source = the model's [count] / [pdeadline]. *)
From Coq Require Import ZArith Bool Lia List.
Import ListNotations.
Open Scope Z_scope.
From TR Require Import Eng.Engine Eng.Timed Generated.GoTimeout.

Theorem go_ProbeCount_is_count p : tp_first p <= tp_last p ->
  go_common_TracerouteParams_ProbeCount (tp_first p) (tp_last p) = count p.
Proof. intros H. unfold go_common_TracerouteParams_ProbeCount, count. destruct (Z.ltb_spec (tp_last p) (tp_first p)); lia. Qed.

Theorem go_MaxTimeout_is_pdeadline p : tp_first p <= tp_last p ->
  go_common_TracerouteParallelParams_MaxTimeout (tp_delay p) (tp_first p) (tp_last p) (tp_timeout p) = pdeadline p.
Proof. intros H. unfold go_common_TracerouteParallelParams_MaxTimeout, pdeadline. rewrite go_ProbeCount_is_count by exact H. lia. Qed.

Theorem go_sack_MaxTimeout hs fin p : tp_first p <= tp_last p ->
  go_sack_Params_MaxTimeout hs fin (tp_delay p) (tp_first p) (tp_last p) (tp_timeout p) = hs + fin + pdeadline p.
Proof. intros H. unfold go_sack_Params_MaxTimeout. rewrite go_MaxTimeout_is_pdeadline by exact H. reflexivity. Qed.
