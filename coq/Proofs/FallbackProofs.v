(** Tie kind A (C20): performTCPFallback as extracted from the source on this run evaluates, for EVERY method and EVERY
    outcome of the three implementations, to the model's [perform]. *)
From Coq Require Import List ZArith Bool.
From TR Require Import Pol.Params Pol.FallbackProg Generated.Fallback.
Import ListNotations.
Open Scope Z_scope.

Definition go_fallback_case (m : tmethod) : list fstep :=
  match (match m with MDefault => go_fallback_empty_method_is | _ => m end) with
  | MSyn => go_fallback_case_MSyn
  | MSack => go_fallback_case_MSack
  | MSynSocket => go_fallback_case_MSynSocket
  | MPrefer => go_fallback_case_MPrefer
  | MDefault | MOther => go_fallback_default
  end.

Definition outs (syn sack sock : run_out) (i : fimpl) : run_out := match i with ISyn => syn | ISack => sack | ISynSocket => sock end.

Theorem extracted_fallback_is_perform m syn sack sock :
  feval (go_fallback_case m) (outs syn sack sock) (mkFS None 0 0 0) = Some (perform m syn sack sock).
Proof.
  destruct m; cbn; try reflexivity.
  destruct sack as [|e]; cbn; [reflexivity|]. destruct (has_notsup e); reflexivity.
Qed.
