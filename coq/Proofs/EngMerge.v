(** Lemmas about the merge rule: the slot for TTL t after merging any accepted
    sequence is [pick acc t]. *)
From Coq Require Import List ZArith Bool Lia Arith.
From TR Require Import Eng.Engine.
Import ListNotations.
Open Scope Z_scope.

Lemma set_nth_length {A} (x : A) : forall n l, length (set_nth n x l) = length l.
Proof. induction n as [|n IH]; intros [|h t]; cbn; auto. Qed.

Lemma nth_set_nth {A} (x d : A) : forall i l j,
  nth j (set_nth i x l) d = if (Nat.eqb i j && Nat.ltb i (length l))%bool then x else nth j l d.
Proof.
  induction i as [|i IH]; intros [|h t] j; cbn [set_nth length].
  - destruct j; cbn; rewrite ?andb_false_r; reflexivity.
  - destruct j; cbn; reflexivity.
  - destruct j; cbn; rewrite ?andb_false_r; reflexivity.
  - destruct j as [|j]; cbn [nth]; [reflexivity|]. rewrite IH. reflexivity.
Qed.

Lemma write_length s p : length (write s p) = length s.
Proof. unfold write. apply set_nth_length. Qed.

Lemma write_nth s p j :
  nth j (write s p) None =
  if (Nat.eqb (Z.to_nat (p_ttl p)) j && Nat.ltb j (length s))%bool then upd (nth j s None) p else nth j s None.
Proof.
  unfold write. rewrite nth_set_nth.
  destruct (Nat.eqb (Z.to_nat (p_ttl p)) j) eqn:E; cbn [andb]; [|reflexivity].
  apply Nat.eqb_eq in E. subst j. reflexivity.
Qed.

Lemma fold_write_length acc : forall s, length (fold_left write acc s) = length s.
Proof. induction acc as [|p acc IH]; intros s; cbn; [reflexivity|]. rewrite IH. apply write_length. Qed.

Definition step_slot (t : nat) (c : option probe) (p : probe) : option probe :=
  if Nat.eqb (Z.to_nat (p_ttl p)) t then upd c p else c.

Lemma fold_write_nth acc : forall s t, (t < length s)%nat ->
  nth t (fold_left write acc s) None = fold_left (step_slot t) acc (nth t s None).
Proof.
  induction acc as [|p acc IH]; intros s t Ht; cbn [fold_left]; [reflexivity|].
  rewrite IH by (rewrite write_length; exact Ht).
  f_equal. rewrite write_nth. unfold step_slot.
  apply Nat.ltb_lt in Ht. rewrite Ht, andb_true_r. reflexivity.
Qed.

(** starting from a destination reply nothing changes *)
Lemma fold_step_dest t acc : forall q, p_dest q = true ->
  fold_left (step_slot t) acc (Some q) = Some q.
Proof.
  induction acc as [|p acc IH]; intros q Hq; cbn [fold_left]; [reflexivity|].
  unfold step_slot at 2. destruct (Nat.eqb _ t); [|apply IH; exact Hq].
  unfold upd, should_update. rewrite Hq. cbn. apply IH; exact Hq.
Qed.

Definition zt (t : nat) := Z.of_nat t.

Lemma ttl_eqb_nat p t : 0 <= p_ttl p -> Nat.eqb (Z.to_nat (p_ttl p)) t = (p_ttl p =? Z.of_nat t).
Proof.
  intros H. destruct (Nat.eqb_spec (Z.to_nat (p_ttl p)) t) as [E|E]; destruct (Z.eqb_spec (p_ttl p) (Z.of_nat t)) as [F|F]; try reflexivity; exfalso; lia.
Qed.

(** starting from a non-destination reply: the first destination reply for t replaces it *)
Lemma fold_step_nondest t acc : Forall (fun p => 0 <= p_ttl p) acc -> forall q, p_dest q = false ->
  fold_left (step_slot t) acc (Some q) =
  match find (dest_for_ttl (Z.of_nat t)) acc with Some p => Some p | None => Some q end.
Proof.
  induction acc as [|p acc IH]; intros Hall q Hq; cbn [fold_left find]; [reflexivity|].
  inversion Hall as [|? ? Hp Hacc]; subst.
  unfold step_slot at 2, dest_for_ttl. rewrite ttl_eqb_nat by exact Hp.
  destruct (p_ttl p =? Z.of_nat t) eqn:E; cbn [andb].
  - unfold upd, should_update. rewrite Hq. cbn [negb andb].
    destruct (p_dest p) eqn:D.
    + apply fold_step_dest; exact D.
    + apply IH; assumption.
  - apply IH; assumption.
Qed.

Lemma fold_step_none t acc : Forall (fun p => 0 <= p_ttl p) acc ->
  fold_left (step_slot t) acc None = pick acc (Z.of_nat t).
Proof.
  induction acc as [|p acc IH]; intros Hall; [reflexivity|].
  inversion Hall as [|? ? Hp Hacc]; subst. cbn [fold_left].
  unfold step_slot at 2. rewrite ttl_eqb_nat by exact Hp.
  unfold pick. cbn [find]. unfold dest_for_ttl at 1, for_ttl at 1.
  destruct (p_ttl p =? Z.of_nat t) eqn:E; cbn [andb].
  - unfold upd, should_update. destruct (p_dest p) eqn:D.
    + apply fold_step_dest; exact D.
    + rewrite fold_step_nondest by assumption. reflexivity.
  - rewrite IH by assumption. reflexivity.
Qed.

Lemma init_length last : length (init last) = (Z.to_nat last + 1)%nat.
Proof. unfold init. apply repeat_length. Qed.

Lemma init_nth last t : nth t (init last) None = None.
Proof. unfold init. generalize (Z.to_nat last + 1)%nat. intros n. revert t. induction n; intros [|t]; cbn; auto. Qed.

(** C07 core: the merged table is a function of the accepted sequence through [pick] only *)
Lemma merge_all_nth last acc t :
  Forall (fun p => 0 <= p_ttl p) acc -> (t <= Z.to_nat last)%nat ->
  nth t (merge_all last acc) None = pick acc (Z.of_nat t).
Proof.
  intros Hall Ht. unfold merge_all.
  rewrite fold_write_nth by (rewrite init_length; lia).
  rewrite init_nth. apply fold_step_none; exact Hall.
Qed.

Lemma merge_all_length last acc : length (merge_all last acc) = (Z.to_nat last + 1)%nat.
Proof. unfold merge_all. rewrite fold_write_length. apply init_length. Qed.

Lemma pick_ttl acc t p : pick acc t = Some p -> p_ttl p = t /\ In p acc.
Proof.
  unfold pick. destruct (find (dest_for_ttl t) acc) eqn:F.
  - intros H; injection H as ->. apply find_some in F. destruct F as [Hin F].
    unfold dest_for_ttl in F. apply andb_true_iff in F. destruct F as [F _]. apply Z.eqb_eq in F. auto.
  - intros H. apply find_some in H. destruct H as [Hin H]. unfold for_ttl in H. apply Z.eqb_eq in H. auto.
Qed.

Lemma pick_none acc t : pick acc t = None <-> (forall p, In p acc -> p_ttl p <> t).
Proof.
  unfold pick. split.
  - destruct (find (dest_for_ttl t) acc) eqn:F; [discriminate|]. intros H p Hin E.
    eapply find_none in H; [|exact Hin]. unfold for_ttl in H. apply Z.eqb_neq in H. auto.
  - intros H. destruct (find (dest_for_ttl t) acc) eqn:F.
    + apply find_some in F. destruct F as [Hin F]. unfold dest_for_ttl in F. apply andb_true_iff in F.
      destruct F as [F _]. apply Z.eqb_eq in F. exfalso. eapply H; eauto.
    + destruct (find (for_ttl t) acc) eqn:G; [|reflexivity].
      apply find_some in G. destruct G as [Hin G]. unfold for_ttl in G. apply Z.eqb_eq in G. exfalso. eapply H; eauto.
Qed.

Lemma pick_dest acc t : is_dest (pick acc t) = true <-> (exists p, In p acc /\ p_ttl p = t /\ p_dest p = true).
Proof.
  unfold pick. split.
  - destruct (find (dest_for_ttl t) acc) eqn:F.
    + intros _. apply find_some in F. destruct F as [Hin F]. unfold dest_for_ttl in F. apply andb_true_iff in F.
      destruct F as [F1 F2]. apply Z.eqb_eq in F1. eauto.
    + destruct (find (for_ttl t) acc) eqn:G; cbn; [|discriminate]. intros D.
      apply find_some in G. destruct G as [Hin G]. unfold for_ttl in G.
      eapply find_none in F; [|exact Hin]. unfold dest_for_ttl in F. rewrite G, D in F. discriminate.
  - intros [p [Hin [Ht Hd]]]. destruct (find (dest_for_ttl t) acc) eqn:F.
    + apply find_some in F. destruct F as [_ F]. unfold dest_for_ttl in F. apply andb_true_iff in F. cbn. tauto.
    + eapply find_none in F; [|exact Hin]. unfold dest_for_ttl in F. rewrite Hd in F. apply Z.eqb_eq in Ht. rewrite Ht in F. discriminate.
Qed.
