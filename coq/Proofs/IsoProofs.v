(** C11: a packet cannot be a genuine reply for two runs unless their identifying fields collide. *)
From Coq Require Import List ZArith Bool Lia.
From TR Require Import Lib.Bytes Wire.Decode Drv.Drivers Spec.C01 Proofs.DrvProofs.
Import ListNotations.
Open Scope Z_scope.

Lemma bytes_eqb_true a b : bytes_eqb a b = true -> a = b.
Proof. apply bytes_eqb_eq. Qed.

(** two ICMP runs: a shared reply forces the same echo identifier (and the same target) *)
Theorem icmp_runs_share_only_on_same_echo_id cA cB stA stB v tA tB :
  c_variant cA = VIcmp -> c_variant cB = VIcmp ->
  genuine cA stA v tA = true -> genuine cB stB v tB = true ->
  c_echo_id cA = c_echo_id cB /\ c_target cA = c_target cB /\ tA = tB.
Proof.
  intros VA VB GA GB. unfold genuine in GA, GB. rewrite VA in GA. rewrite VB in GB.
  destruct (v_l4 v) as [tc|ty co id seq pay|ty co pay]; [discriminate| |].
  - apply andb_true_iff in GA. destruct GA as [_ GA]. apply andb_true_iff in GB. destruct GB as [_ GB].
    destruct (ty =? 11).
    + destruct (icmp_info v) as [ii|]; [|discriminate].
      apply andb_true_iff in GA. destruct GA as [FA QA]. apply andb_true_iff in GB. destruct GB as [FB QB].
      unfold quoted_flow_ok in FA, FB. apply andb_true_iff in FA. destruct FA as [DA _]. apply andb_true_iff in FB. destruct FB as [DB _].
      apply bytes_eqb_true in DA, DB.
      destruct (quoted_echo4 (ii_payload ii)) as [[qid qseq]|]; [|discriminate].
      apply andb_true_iff in QA. destruct QA as [IA SA]. apply andb_true_iff in QB. destruct QB as [IB SB].
      apply Z.eqb_eq in IA, IB, SA, SB. split; [congruence|]. split; congruence.
    + apply andb_true_iff in GA. destruct GA as [GA SA]. apply andb_true_iff in GA. destruct GA as [GA IA]. apply andb_true_iff in GA. destruct GA as [_ FA].
      apply andb_true_iff in GB. destruct GB as [GB SB]. apply andb_true_iff in GB. destruct GB as [GB IB]. apply andb_true_iff in GB. destruct GB as [_ FB].
      unfold from_target_to_local in FA, FB. apply andb_true_iff in FA. destruct FA as [TA _]. apply andb_true_iff in FB. destruct FB as [TB _].
      apply bytes_eqb_true in TA, TB. apply Z.eqb_eq in IA, IB, SA, SB. split; [congruence|]. split; congruence.
  - apply andb_true_iff in GA. destruct GA as [_ GA]. apply andb_true_iff in GB. destruct GB as [_ GB].
    destruct (ty =? 3).
    + destruct (icmp_info v) as [ii|]; [|discriminate].
      apply andb_true_iff in GA. destruct GA as [FA QA]. apply andb_true_iff in GB. destruct GB as [FB QB].
      unfold quoted_flow_ok in FA, FB. apply andb_true_iff in FA. destruct FA as [DA _]. apply andb_true_iff in FB. destruct FB as [DB _].
      apply bytes_eqb_true in DA, DB.
      destruct (quoted_echo6 (ii_payload ii)) as [[qid qseq]|]; [|discriminate].
      apply andb_true_iff in QA. destruct QA as [IA SA]. apply andb_true_iff in QB. destruct QB as [IB SB].
      apply Z.eqb_eq in IA, IB, SA, SB. split; [congruence|]. split; congruence.
    + apply andb_true_iff in GA. destruct GA as [GA PA]. apply andb_true_iff in GA. destruct GA as [_ FA].
      apply andb_true_iff in GB. destruct GB as [GB PB]. apply andb_true_iff in GB. destruct GB as [_ FB].
      unfold from_target_to_local in FA, FB. apply andb_true_iff in FA. destruct FA as [TA _]. apply andb_true_iff in FB. destruct FB as [TB _].
      apply bytes_eqb_true in TA, TB.
      destruct pay as [|i1 [|i2 [|q1 [|q2 rest]]]]; try discriminate.
      apply andb_true_iff in PA. destruct PA as [IA SA]. apply andb_true_iff in PB. destruct PB as [IB SB].
      apply Z.eqb_eq in IA, IB, SA, SB. split; [congruence|]. split; congruence.
Qed.

(** UDP / TCP SYN / SACK runs (same variant): a shared reply forces the same target endpoint, and with strict
    checking on both sides the same local endpoint — which the OS never hands to two sockets held at once *)
Theorem port_runs_share_only_on_same_flow cA cB stA stB v tA tB :
  c_variant cA = c_variant cB -> c_variant cA <> VIcmp ->
  genuine cA stA v tA = true -> genuine cB stB v tB = true ->
  c_target cA = c_target cB /\ c_dport cA = c_dport cB
  /\ (is_ttl_exceeded (v_l4 v) = false -> is_dest_unreachable (v_l4 v) = false -> c_local cA = c_local cB /\ c_sport cA = c_sport cB)
  /\ (c_loosen cA = false -> c_loosen cB = false -> c_local cA = c_local cB /\ c_sport cA = c_sport cB).
Proof.
  intros VE VN GA GB. unfold genuine in GA, GB. rewrite <- VE in GB.
  assert (QF : forall c ii, quoted_flow_ok c ii true = true ->
             exists sp dp x, first8 (ii_payload ii) = Some (sp, dp, x) /\ ii_dst ii = c_target c /\ dp = c_dport c
                             /\ (c_loosen c = false -> ii_src ii = c_local c /\ sp = c_sport c)).
  { intros c ii H. unfold quoted_flow_ok in H. destruct (first8 (ii_payload ii)) as [[[sp dp] x]|]; [|discriminate].
    apply andb_true_iff in H. destruct H as [H L]. apply andb_true_iff in H. destruct H as [D P].
    apply bytes_eqb_true in D. apply Z.eqb_eq in P. exists sp, dp, x. split; [reflexivity|]. split; [exact D|]. split; [exact P|].
    intros Lo. rewrite Lo in L. cbn in L. apply andb_true_iff in L. destruct L as [L1 L2]. apply bytes_eqb_true in L1. apply Z.eqb_eq in L2. auto. }
  assert (QQ : forall ii, quoted_flow_ok cA ii true = true -> quoted_flow_ok cB ii true = true ->
             c_target cA = c_target cB /\ c_dport cA = c_dport cB
             /\ (c_loosen cA = false -> c_loosen cB = false -> c_local cA = c_local cB /\ c_sport cA = c_sport cB)).
  { intros ii HA HB. destruct (QF _ _ HA) as [sp [dp [x [F1 [D1 [P1 L1]]]]]]. destruct (QF _ _ HB) as [sp' [dp' [x' [F2 [D2 [P2 L2]]]]]].
    rewrite F1 in F2. injection F2 as <- <- <-. split; [congruence|]. split; [congruence|].
    intros LA LB. destruct (L1 LA), (L2 LB). split; congruence. }
  assert (DIRECT : forall tc, from_target_to_local cA v = true -> from_target_to_local cB v = true ->
             t_sport tc = c_dport cA -> t_sport tc = c_dport cB -> t_dport tc = c_sport cA -> t_dport tc = c_sport cB ->
             c_target cA = c_target cB /\ c_dport cA = c_dport cB /\ c_local cA = c_local cB /\ c_sport cA = c_sport cB).
  { intros tc FA FB S1 S2 D1 D2. unfold from_target_to_local in FA, FB.
    apply andb_true_iff in FA. destruct FA as [T1 L1]. apply andb_true_iff in FB. destruct FB as [T2 L2].
    apply bytes_eqb_true in T1, T2, L1, L2. repeat split; congruence. }
  destruct (c_variant cA) eqn:V; [congruence| | |].
  - (* UDP *)
    destruct (v_l4 v) as [tc|ty co id seq pay|ty co pay] eqn:L4; [discriminate| |].
    all: apply andb_true_iff in GA; destruct GA as [TA GA]; apply andb_true_iff in GB; destruct GB as [_ GB].
    all: destruct (icmp_info v) as [ii|]; [|discriminate].
    all: apply andb_true_iff in GA; destruct GA as [QA _]; apply andb_true_iff in GB; destruct GB as [QB _].
    all: destruct (QQ ii QA QB) as [H1 [H2 H3]]; split; [exact H1|]; split; [exact H2|]; split; [|exact H3].
    all: intros N1 N2; rewrite N1, N2 in TA; discriminate.
  - (* TCP SYN *)
    destruct (v_l4 v) as [tc|ty co id seq pay|ty co pay] eqn:L4; [| |discriminate].
    + apply andb_true_iff in GA. destruct GA as [GA _]. apply andb_true_iff in GA. destruct GA as [GA DA].
      apply andb_true_iff in GA. destruct GA as [GA SA]. apply andb_true_iff in GA. destruct GA as [_ FA].
      apply andb_true_iff in GB. destruct GB as [GB _]. apply andb_true_iff in GB. destruct GB as [GB DB].
      apply andb_true_iff in GB. destruct GB as [GB SB]. apply andb_true_iff in GB. destruct GB as [_ FB].
      apply Z.eqb_eq in SA, SB, DA, DB. destruct (DIRECT tc FA FB SA SB DA DB) as [H1 [H2 [H3 H4]]]. repeat split; auto.
    + apply andb_true_iff in GA. destruct GA as [TA GA]. apply andb_true_iff in GB. destruct GB as [_ GB].
      destruct (icmp_info v) as [ii|]; [|discriminate].
      apply andb_true_iff in GA. destruct GA as [QA _]. apply andb_true_iff in GB. destruct GB as [QB _].
      destruct (QQ ii QA QB) as [H1 [H2 H3]]. split; [exact H1|]. split; [exact H2|]. split; [|exact H3].
      intros N1 _. rewrite N1 in TA. discriminate.
  - (* SACK *)
    destruct (v_l4 v) as [tc|ty co id seq pay|ty co pay] eqn:L4; [| |discriminate].
    + apply andb_true_iff in GA. destruct GA as [GA _]. apply andb_true_iff in GA. destruct GA as [GA _].
      apply andb_true_iff in GA. destruct GA as [GA DA]. apply andb_true_iff in GA. destruct GA as [GA SA]. apply andb_true_iff in GA. destruct GA as [_ FA].
      apply andb_true_iff in GB. destruct GB as [GB _]. apply andb_true_iff in GB. destruct GB as [GB _].
      apply andb_true_iff in GB. destruct GB as [GB DB]. apply andb_true_iff in GB. destruct GB as [GB SB]. apply andb_true_iff in GB. destruct GB as [_ FB].
      apply Z.eqb_eq in SA, SB, DA, DB. destruct (DIRECT tc FA FB SA SB DA DB) as [H1 [H2 [H3 H4]]]. repeat split; auto.
    + apply andb_true_iff in GA. destruct GA as [GA QA]. apply andb_true_iff in GA. destruct GA as [_ TA].
      apply andb_true_iff in GB. destruct GB as [GB QB].
      destruct (icmp_info v) as [ii|]; [|discriminate].
      apply andb_true_iff in QA. destruct QA as [QA _]. apply andb_true_iff in QB. destruct QB as [QB _].
      destruct (QQ ii QA QB) as [H1 [H2 H3]]. split; [exact H1|]. split; [exact H2|]. split; [|exact H3].
      intros N1 _. rewrite N1 in TA. discriminate.
Qed.

(** the bridge to the engine: on a wire that every capture handle sees in full, a packet that is a genuine reply for run B
    is NOT a hop for run A (it is "noise" for A's engine) unless the identifying fields collide *)
Theorem foreign_icmp_reply_is_noise cA cB stA stB b v now tB :
  cfg_ok cA -> c_variant cA = VIcmp -> c_variant cB = VIcmp -> c_echo_id cA <> c_echo_id cB ->
  frame_parse b = PView v -> genuine cB stB v tB = true ->
  forall t a r d, recv cA stA b now <> Hop t a r d.
Proof.
  intros Hc VA VB Hne P GB t a r d H.
  destruct (recv_sound cA stA b now t a r d Hc H) as [v' [P' [GA _]]].
  rewrite P in P'. injection P' as <-.
  destruct (icmp_runs_share_only_on_same_echo_id cA cB stA stB v t tB VA VB GA GB) as [E _]. contradiction.
Qed.

Theorem foreign_port_reply_is_noise cA cB stA stB b v now tB :
  cfg_ok cA -> c_variant cA = c_variant cB -> c_variant cA <> VIcmp ->
  (c_target cA <> c_target cB \/ c_dport cA <> c_dport cB
   \/ (c_loosen cA = false /\ c_loosen cB = false /\ (c_local cA <> c_local cB \/ c_sport cA <> c_sport cB))) ->
  frame_parse b = PView v -> genuine cB stB v tB = true ->
  forall t a r d, recv cA stA b now <> Hop t a r d.
Proof.
  intros Hc VE VN Hne P GB t a r d H.
  destruct (recv_sound cA stA b now t a r d Hc H) as [v' [P' [GA _]]].
  rewrite P in P'. injection P' as <-.
  destruct (port_runs_share_only_on_same_flow cA cB stA stB v t tB VE VN GA GB) as [E1 [E2 [_ E4]]].
  destruct Hne as [N|[N|[LA [LB N]]]]; [contradiction|contradiction|].
  destruct (E4 LA LB) as [E5 E6]. destruct N; contradiction.
Qed.
