(** Tie kind A (C11): the identifier allocators as translated from the source = the model's [alloc] / [echo_ids]. *)
From Coq Require Import ZArith Bool Lia List.
Import ListNotations.
Open Scope Z_scope.
From TR Require Import Pol.Alloc Generated.GoAlloc.

Theorem go_AllocPacketID_is_alloc c m : 0 <= m < 256 ->
  go_packets_AllocPacketID m c = snd (alloc c m) /\ (c + m) mod M32 = fst (alloc c m).
Proof.
  intros H. unfold go_packets_AllocPacketID, alloc, M32, M16. cbn [fst snd].
  rewrite (Z.mod_small m 4294967296) by lia. split; reflexivity.
Qed.

Theorem go_nextEchoID_is_echo_ids c : echo_ids c 1 = [go_icmp_nextEchoID c].
Proof. unfold echo_ids, go_icmp_nextEchoID, M32, M16. cbn. rewrite Z.add_0_r. reflexivity. Qed.
