(** Theorems about the timed engine models: data path = merge of the accepted
    replies; elapsed-time bounds (C08); accepted TTLs are in range. *)
From Coq Require Import List ZArith Bool Lia Arith.
From TR Require Import Eng.Engine Eng.Timed Spec.C08 Proofs.EngMerge.
Import ListNotations.
Open Scope Z_scope.

Lemma best_some st : forall pend i a j e, best st pend i = Some (a, j, e) -> ready st e = Some a.
Proof.
  induction pend as [|x t IH]; intros i a j e H; cbn [best] in H; [discriminate|].
  destruct (ready st x) as [s|] eqn:Hst.
  - destruct (best st t (S i)) as [[[a' i'] e']|] eqn:B.
    + destruct (a' <? s).
      * injection H as -> -> ->. eapply IH; eauto.
      * injection H as <- <- <-. exact Hst.
    + injection H as <- <- <-. exact Hst.
  - eapply IH; eauto.
Qed.

Lemma valid_in_range p q : valid_probe (tp_first p) (tp_last p) q = true -> tp_first p <= p_ttl q <= tp_last p.
Proof. unfold valid_probe. rewrite andb_true_iff, !Z.leb_le. tauto. Qed.

Lemma psent_range p c t s : psent p c t = Some s -> tp_first p <= t <= tp_last p /\ s = psend_time p t.
Proof.
  unfold psent. destruct ((tp_first p <=? t) && (t <=? tp_last p)) eqn:E; [|discriminate].
  apply andb_true_iff in E. destruct E as [E1 E2]. apply Z.leb_le in E1, E2.
  destruct c as [c|]; [destruct (psend_time p t <? c)|]; intros H; try discriminate; injection H as <-; auto.
Qed.

Definition in_range (p : tparams) (q : probe) : Prop := tp_first p <= p_ttl q <= tp_last p.

(** ---- parallel *)
Lemma prun_inv : forall fuel p D T pend cancel rs acc r,
  rs = fold_left write (rev acc) (init (tp_last p)) ->
  Forall (in_range p) acc ->
  T < D + tp_poll p -> 0 < tp_poll p ->
  prun fuel p D T pend cancel rs acc = TDone r ->
  tr_slots r = clip (tp_first p) (merge_all (tp_last p) (tr_accepted r))
  /\ Forall (in_range p) (tr_accepted r)
  /\ D < tr_elapsed r < D + tp_poll p.
Proof.
  induction fuel as [|fuel IH]; intros p D T pend cancel rs acc r Hrs Hacc HT Hpoll H; cbn [prun] in H; [discriminate|].
  destruct (T =? D) eqn:E1; [discriminate|].
  destruct (D <? T) eqn:E2.
  - injection H as <-. cbn. apply Z.ltb_lt in E2. split; [unfold merge_all; rewrite Hrs; reflexivity|].
    split; [apply Forall_rev; exact Hacc|lia].
  - apply Z.ltb_ge in E2. apply Z.eqb_neq in E1.
    destruct (best (psent p cancel) pend 0) as [[[a i] e]|] eqn:B.
    + destruct (a <=? T + tp_poll p) eqn:E3.
      * apply Z.leb_le in E3.
        destruct (e_kind e =? 1).
        -- eapply IH in H; eauto; lia.
        -- match type of H with (if negb ?v then _ else _) = _ => destruct v eqn:V end; cbn [negb] in H; [|discriminate].
           destruct (match cancel with None => e_dest e && cancel_tie p (Z.max T a) | Some _ => false end); [discriminate|].
           eapply IH in H; eauto; try lia.
           ++ cbn [rev]. rewrite fold_left_app. cbn. rewrite <- Hrs. reflexivity.
           ++ constructor; [|exact Hacc]. apply valid_in_range in V. exact V.
      * eapply IH in H; eauto; lia.
    + eapply IH in H; eauto; lia.
Qed.

Lemma params_ok_facts p : params_ok p = true ->
  1 <= tp_first p <= tp_last p /\ tp_last p <= 255 /\ 0 < tp_timeout p /\ 0 < tp_poll p /\ 0 <= tp_delay p.
Proof.
  unfold params_ok. rewrite !andb_true_iff. rewrite !Z.leb_le, !Z.ltb_lt. tauto.
Qed.

Theorem parallel_run_spec p script r :
  parallel_run p script = TDone r ->
  tr_slots r = clip (tp_first p) (merge_all (tp_last p) (tr_accepted r))
  /\ Forall (in_range p) (tr_accepted r)
  /\ tr_elapsed r < parallel_bound p.
Proof.
  unfold parallel_run. destruct (params_ok p) eqn:P; [|discriminate]. cbn [negb].
  apply params_ok_facts in P. destruct P as [P1 [P2 [P3 [P4 P5]]]].
  intros H. apply prun_inv in H; auto.
  - destruct H as [H1 [H2 H3]]. repeat split; auto. unfold parallel_bound, pdeadline in *. lia.
  - unfold pdeadline, count. nia.
Qed.

(** prompt cancellation (C08): with the caller's context cancelled at [c] >= 0, the receiver
    leaves less than one poll interval after min(deadline, c) *)
Theorem parallel_run_cancel_spec p script c r :
  0 <= c -> parallel_run_cancelled p script c = TDone r ->
  Z.min (pdeadline p) c < tr_elapsed r < Z.min (pdeadline p) c + tp_poll p
  /\ tr_elapsed r < c + tp_poll p.
Proof.
  unfold parallel_run_cancelled. destruct (params_ok p) eqn:P; [|discriminate]. cbn [negb].
  apply params_ok_facts in P. destruct P as [P1 [P2 [P3 [P4 P5]]]].
  intros Hc H. apply prun_inv in H; auto.
  - destruct H as [_ [_ H3]]. split; [exact H3|]. lia.
  - assert (0 < pdeadline p) by (unfold pdeadline, count; nia). lia.
Qed.

(** the sender notices at its next check: at most one send delay after the cancellation *)
Theorem sender_exit_bound p c : 0 <= c -> 0 <= tp_delay p -> 0 <= count p -> sender_exit p c <= c + tp_delay p.
Proof.
  intros Hc Hd Hn. unfold sender_exit. destruct (tp_delay p =? 0) eqn:E; [lia|]. apply Z.eqb_neq in E.
  assert (tp_delay p * ((c + tp_delay p - 1) / tp_delay p) <= c + tp_delay p - 1).
  { apply Z.mul_div_le. lia. }
  lia.
Qed.

(** ---- serial *)
Lemma lookup_cons_range sends i s t v : lookup ((i, s) :: sends) t = Some v -> t = i \/ lookup sends t = Some v.
Proof.
  unfold lookup. cbn [find fst]. destruct (i =? t) eqn:E; [apply Z.eqb_eq in E; auto|]. auto.
Qed.

Lemma swindow_inv : forall fuel p sends W T pend,
  0 < tp_poll p -> T < W + tp_poll p ->
  match swindow fuel p sends W T pend with
  | WProbe T' pr _ => T <= T' < W + tp_poll p
  | WTimeout T' _ => T <= T' < W + tp_poll p
  | _ => True
  end.
Proof.
  induction fuel as [|fuel IH]; intros p sends W T pend Hpoll HT; cbn [swindow]; [exact I|].
  destruct (T =? W) eqn:E1; [exact I|]. destruct (W <? T) eqn:E2; [lia|].
  apply Z.ltb_ge in E2. apply Z.eqb_neq in E1.
  assert (Hgen : forall T2, T <= T2 -> T2 < W + tp_poll p ->
     match swindow fuel p sends W T2 pend with
     | WProbe T' pr _ => T <= T' < W + tp_poll p
     | WTimeout T' _ => T <= T' < W + tp_poll p | _ => True end).
  { intros T2 H1 H2. specialize (IH p sends W T2 pend Hpoll H2).
    destruct (swindow fuel p sends W T2 pend); auto; intuition lia. }
  destruct (best (lookup sends) pend 0) as [[[a i] e]|] eqn:B.
  - destruct (a <=? T + tp_poll p) eqn:E3.
    + apply Z.leb_le in E3. destruct (e_kind e =? 1).
      * specialize (IH p sends W (Z.max T a) (remove_nth i pend) Hpoll ltac:(lia)).
        destruct (swindow fuel p sends W (Z.max T a) (remove_nth i pend)); auto; intuition lia.
      * lia.
    + apply Hgen; lia.
  - apply Hgen; lia.
Qed.

Definition step_bound (p : tparams) : Z := Z.max (tp_timeout p + tp_poll p) (tp_delay p).

Definition sends_in_range (p : tparams) (i : Z) (sends : list (Z * Z)) : Prop :=
  forall t v, lookup sends t = Some v -> tp_first p <= t < i.

Lemma srun_inv : forall n p i s pend sends rs acc r,
  rs = fold_left write (rev acc) (init (tp_last p)) ->
  Forall (in_range p) acc ->
  sends_in_range p i sends -> tp_first p <= i -> i + Z.of_nat n = tp_last p + 1 ->
  0 < tp_poll p -> 0 < tp_timeout p -> 0 <= tp_delay p ->
  srun n p i s pend sends rs acc = TDone r ->
  tr_slots r = clip (tp_first p) (merge_all (tp_last p) (tr_accepted r))
  /\ Forall (in_range p) (tr_accepted r)
  /\ tr_elapsed r <= s + Z.of_nat n * step_bound p.
Proof.
  induction n as [|n IH]; intros p i s pend sends rs acc r Hrs Hacc Hsr Hi Hn Hpoll Hto Hdl H; cbn [srun] in H.
  - injection H as <-. cbn. split; [unfold merge_all; rewrite Hrs; reflexivity|]. split; [apply Forall_rev; exact Hacc|lia].
  - pose proof (swindow_inv (wfuel p pend) p ((i, s) :: sends) (s + tp_timeout p) s pend Hpoll ltac:(lia)) as W.
    assert (Hsr' : sends_in_range p (i + 1) ((i, s) :: sends)).
    { intros t v Hl. apply lookup_cons_range in Hl. destruct Hl as [->|Hl]; [lia|]. apply Hsr in Hl. lia. }
    destruct (swindow (wfuel p pend) p ((i, s) :: sends) (s + tp_timeout p) s pend) as [T pr pend'|T pend'| |]; try discriminate.
    + rename W into W1.
      match type of H with (if negb ?v then _ else _) = _ => destruct v eqn:V end; cbn [negb] in H; [|discriminate].
      assert (Hpr : in_range p pr) by (apply valid_in_range in V; exact V).
      destruct (p_dest pr).
      * injection H as <-. cbn [tr_slots tr_accepted tr_elapsed]. split.
        { unfold merge_all. cbn [rev]. rewrite fold_left_app. cbn. rewrite <- Hrs. reflexivity. }
        split; [cbn [rev]; apply Forall_app; split; [apply Forall_rev; exact Hacc|constructor; [exact Hpr|constructor]]|]. unfold step_bound. nia.
      * eapply IH in H; eauto; try lia.
        -- destruct H as [H1 [H2 H3]]. repeat split; auto. unfold step_bound in *. nia.
        -- cbn [rev]. rewrite fold_left_app. cbn. rewrite <- Hrs. reflexivity.
    + eapply IH in H; eauto; try lia.
      destruct H as [H1 [H2 H3]]. repeat split; auto. unfold step_bound in *. nia.
Qed.

Theorem serial_run_spec p script r :
  serial_run p script = TDone r ->
  tr_slots r = clip (tp_first p) (merge_all (tp_last p) (tr_accepted r))
  /\ Forall (in_range p) (tr_accepted r)
  /\ tr_elapsed r <= serial_bound p.
Proof.
  unfold serial_run. destruct (params_ok p) eqn:P; [|discriminate]. cbn [negb].
  apply params_ok_facts in P. destruct P as [P1 [P2 [P3 [P4 P5]]]].
  intros H. apply srun_inv in H; auto.
  - destruct H as [H1 [H2 H3]]. repeat split; auto. unfold serial_bound, step_bound, count in *.
    rewrite Z2Nat.id in H3 by lia. lia.
  - intros t v Hl. cbn in Hl. discriminate.
  - lia.
  - unfold count. lia.
Qed.
