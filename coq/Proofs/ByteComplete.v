(** C02 on raw bytes (IPv4): codec lemma for option-less IPv4 headers and, on top of it, recognition of the
    time-exceeded with a 28-byte quote and of the echo reply by the ICMP driver, for ALL field values. *)
From Coq Require Import List ZArith Bool Lia.
From TR Require Import Lib.Bytes Wire.Decode Wire.Build Drv.Drivers.
Import ListNotations.
Open Scope Z_scope.

Lemma u16_hi_lo v : 0 <= v < 65536 -> 256 * ((v / 256) mod 256) + v mod 256 = v.
Proof. intros H. Z.div_mod_to_equations. lia. Qed.

Lemma len_cons' (x : Z) l : len (x :: l) = 1 + len l.
Proof. unfold len. cbn [length]. lia. Qed.

(** an IPv4 header without options in front of [rest]; every field arbitrary *)
Definition hdr4 (tos l1 l2 i1 i2 f1 f2 ttl pr c1 c2 s1 s2 s3 s4 d1 d2 d3 d4 : Z) (rest : bytes) : bytes :=
  69 :: tos :: l1 :: l2 :: i1 :: i2 :: f1 :: f2 :: ttl :: pr :: c1 :: c2 :: s1 :: s2 :: s3 :: s4 :: d1 :: d2 :: d3 :: d4 :: rest.

Lemma decode_ip4_noopt tos l1 l2 i1 i2 f1 f2 ttl pr c1 c2 s1 s2 s3 s4 d1 d2 d3 d4 rest :
  let l := 256 * l1 + l2 in
  20 <= l -> len rest < 60000 ->
  decode_ip4 (hdr4 tos l1 l2 i1 i2 f1 f2 ttl pr c1 c2 s1 s2 s3 s4 d1 d2 d3 d4 rest)
  = Some (mkIp4 5 tos l (256 * i1 + i2) ((256 * f1 + f2) / 8192) ((256 * f1 + f2) mod 8192) ttl pr [s1; s2; s3; s4] [d1; d2; d3; d4]
                (if l <? 20 + len rest then takez (l - 20) rest else rest)).
Proof.
  intros l Hl Hr. unfold decode_ip4, hdr4. fold l.
  replace (69 mod 16) with 5 by reflexivity.
  set (d := 69 :: tos :: l1 :: l2 :: i1 :: i2 :: f1 :: f2 :: ttl :: pr :: c1 :: c2 :: s1 :: s2 :: s3 :: s4 :: d1 :: d2 :: d3 :: d4 :: rest).
  assert (Ld : len d = 20 + len rest) by (unfold d, len; cbn [length]; lia).
  pose proof (len_ge0 rest) as Hr0.
  destruct (l =? 0) eqn:E0; [apply Z.eqb_eq in E0; lia|].
  destruct (l <? 20) eqn:E1; [apply Z.ltb_lt in E1; lia|].
  replace (5 <? 5) with false by reflexivity.
  destruct (l <? 5 * 4) eqn:E2; [apply Z.ltb_lt in E2; lia|].
  rewrite Ld.
  replace (20 + len rest <? 5 * 4) with false by (symmetry; apply Z.ltb_ge; lia). rewrite andb_false_r.
  assert (Hopts : forall d', (d' = d \/ d' = takez l d) -> dropz 20 (takez (5 * 4) d') = []).
  { intros d' [-> | ->].
    - unfold d, dropz, takez. reflexivity.
    - unfold takez, dropz. replace (Z.to_nat (5 * 4)) with 20%nat by reflexivity. replace (Z.to_nat 20) with 20%nat by reflexivity.
      rewrite firstn_firstn. replace (Init.Nat.min 20 (Z.to_nat l)) with 20%nat by lia. unfold d. reflexivity. }
  destruct (l <? 20 + len rest) eqn:E3.
  - rewrite (Hopts (takez l d)) by auto. cbn [length ip4_opts_ok negb].
    f_equal. f_equal. unfold takez, dropz, d.
    replace (Z.to_nat (5 * 4)) with 20%nat by reflexivity.
    replace (Z.to_nat l) with (20 + Z.to_nat (l - 20))%nat by lia.
    cbn [firstn Init.Nat.add skipn]. reflexivity.
  - rewrite (Hopts d) by auto. cbn [length ip4_opts_ok negb]. reflexivity.
Qed.

Lemma bytes_eqb_refl a : bytes_eqb a a = true.
Proof. apply bytes_eqb_eq. reflexivity. Qed.

Definition is_addr4 (a : bytes) (w x y z : Z) : Prop := a = [w; x; y; z].

(** the probe for TTL t as an explicit byte list *)
Lemma icmp4_probe_bytes l1 l2 l3 l4 t1 t2 t3 t4 eid t :
  exists ck1 ck2 v1 v2,
  icmp4_probe [l1; l2; l3; l4] [t1; t2; t3; t4] eid t =
  hdr4 0 0 29 ((eid / 256) mod 256) (eid mod 256) 0 0 t 1 ck1 ck2 l1 l2 l3 l4 t1 t2 t3 t4
       [8; 0; v1; v2; (eid / 256) mod 256; eid mod 256; (t / 256) mod 256; t mod 256; t].
Proof.
  unfold icmp4_probe, ip4_header, put16, hdr4.
  set (body0 := [8; 0; 0; 0] ++ u16b eid ++ u16b t ++ [t]).
  set (v := cksum body0 0).
  assert (Eb : takez 2 body0 ++ u16b v ++ dropz (2 + 2) body0 = [8; 0; (v / 256) mod 256; v mod 256; (eid / 256) mod 256; eid mod 256; (t / 256) mod 256; t mod 256; t])
    by (unfold body0, u16b; reflexivity).
  rewrite Eb.
  replace (len [8; 0; (v / 256) mod 256; v mod 256; (eid / 256) mod 256; eid mod 256; (t / 256) mod 256; t mod 256; t]) with 9 by reflexivity.
  replace (20 + 9) with 29 by reflexivity.
  set (ck := cksum _ 0). exists ((ck / 256) mod 256), (ck mod 256), ((v / 256) mod 256), (v mod 256).
  unfold u16b. reflexivity.
Qed.

(** C02, byte level, ICMP over IPv4: a time-exceeded from ANY router address, with ANY outer TOS / IP-ID / TTL /
    checksum (DF allowed), ANY ICMP checksum and unused bytes, quoting the first 28 bytes of the probe for TTL t,
    is recognised as the hop for t with that router's address *)
Theorem icmp4_te28_recognised c st t now s tos i1 i2 f1 ttl0 c1 c2 k1 k2 u1 u2 u3 u4 r1 r2 r3 r4 l1 l2 l3 l4 t1 t2 t3 t4 :
  c_variant c = VIcmp -> c_local c = [l1; l2; l3; l4] -> c_target c = [t1; t2; t3; t4] ->
  0 <= c_first c -> c_last c <= 255 -> in_ttl_range c t = true -> 0 <= c_echo_id c < 65536 ->
  (f1 = 0 \/ f1 = 64) ->
  find_ttl st t = Some s ->
  let probe := icmp4_probe (c_local c) (c_target c) (c_echo_id c) t in
  recv c st (hdr4 tos 0 56 i1 i2 f1 0 ttl0 1 c1 c2 r1 r2 r3 r4 l1 l2 l3 l4 ([11; 0; k1; k2; u1; u2; u3; u4] ++ takez 28 probe)) now
  = Hop t [r1; r2; r3; r4] (now - s_time s) false.
Proof.
  intros V EL ET Hf Hl Hr He Hff Hs probe.
  assert (Ht : 0 <= t <= 255).
  { unfold in_ttl_range in Hr. apply andb_true_iff in Hr. destruct Hr as [A B]. apply Z.leb_le in A, B. lia. }
  unfold probe. rewrite EL, ET.
  destruct (icmp4_probe_bytes l1 l2 l3 l4 t1 t2 t3 t4 (c_echo_id c) t) as [ck1 [ck2 [v1 [v2 EP]]]]. rewrite EP.
  unfold hdr4 at 2. unfold takez. replace (Z.to_nat 28) with 28%nat by reflexivity. cbn [firstn app].
  (* outer header *)
  unfold recv, frame_parse. unfold hdr4 at 1. replace (69 / 16 =? 4) with true by reflexivity.
  fold (hdr4 tos 0 56 i1 i2 f1 0 ttl0 1 c1 c2 r1 r2 r3 r4 l1 l2 l3 l4).
  match goal with |- context [decode_ip4 (hdr4 _ _ _ _ _ _ _ _ _ _ _ _ _ _ _ _ _ _ _ ?rest)] =>
    rewrite (decode_ip4_noopt tos 0 56 i1 i2 f1 0 ttl0 1 c1 c2 r1 r2 r3 r4 l1 l2 l3 l4 rest) by (unfold len; cbn [length Z.of_nat]; lia) end.
  match goal with |- context [if ?cond then takez _ ?r else ?r] => replace cond with false by reflexivity end.
  unfold parse_l4_v4. cbn [i4_flags i4_fragoff i4_proto i4_payload i4_src i4_dst].
  assert (Hfrag : more_frags ((256 * f1 + 0) / 8192) || negb ((256 * f1 + 0) mod 8192 =? 0) = false) by (destruct Hff as [-> | ->]; reflexivity).
  rewrite Hfrag. replace (1 =? 6) with false by reflexivity. replace (1 =? 1) with true by reflexivity.
  unfold recv_view. rewrite V. unfold recv_icmp. cbn [v_l4 v_src v_dst]. replace (11 =? 11) with true by reflexivity.
  (* the quoted header *)
  unfold icmp_info. cbn [v_l4].
  match goal with |- context [decode_ip4 ?q] =>
    change q with (hdr4 0 0 29 ((c_echo_id c / 256) mod 256) (c_echo_id c mod 256) 0 0 t 1 ck1 ck2 l1 l2 l3 l4 t1 t2 t3 t4
                        [8; 0; v1; v2; (c_echo_id c / 256) mod 256; c_echo_id c mod 256; (t / 256) mod 256; t mod 256]) end.
  rewrite decode_ip4_noopt by (unfold len; cbn [length Z.of_nat]; lia).
  match goal with |- context [if ?cond then takez _ ?r else ?r] => replace cond with false by reflexivity end.
  cbn [ii_dst ii_src ii_payload ii_id i4_src i4_dst i4_payload i4_id].
  unfold addr_eqb. rewrite ET, EL, !bytes_eqb_refl. cbn [negb].
  unfold quoted_echo4. replace ((8 =? 8) || (8 =? 0)) with true by reflexivity.
  unfold be16. rewrite !u16_hi_lo by lia. rewrite Z.eqb_refl. cbn [negb].
  unfold hop_for, rtt_of. rewrite Hr, Hs. rewrite Z.mod_small by lia. reflexivity.
Qed.

(** the echo reply from the target to the local address with the run's id and sequence number t (any TOS / IP-ID /
    TTL / checksums, any trailing data) is the destination hop for t *)
Theorem icmp4_echo_reply_recognised c st t now s tos i1 i2 f1 ttl0 c1 c2 k1 k2 l1 l2 l3 l4 t1 t2 t3 t4 data :
  c_variant c = VIcmp -> c_local c = [l1; l2; l3; l4] -> c_target c = [t1; t2; t3; t4] ->
  0 <= c_first c -> c_last c <= 255 -> in_ttl_range c t = true -> 0 <= c_echo_id c < 65536 ->
  (f1 = 0 \/ f1 = 64) -> len data <= 200 ->
  find_ttl st t = Some s ->
  let tot := 28 + len data in
  recv c st (hdr4 tos ((tot / 256) mod 256) (tot mod 256) i1 i2 f1 0 ttl0 1 c1 c2 t1 t2 t3 t4 l1 l2 l3 l4
                  ([0; 0; k1; k2; (c_echo_id c / 256) mod 256; c_echo_id c mod 256; (t / 256) mod 256; t mod 256] ++ data)) now
  = Hop t [t1; t2; t3; t4] (now - s_time s) true.
Proof.
  intros V EL ET Hf Hl Hr He Hff Hd Hs tot.
  assert (Ht : 0 <= t <= 255).
  { unfold in_ttl_range in Hr. apply andb_true_iff in Hr. destruct Hr as [A B]. apply Z.leb_le in A, B. lia. }
  pose proof (len_ge0 data) as Hd0.
  assert (Htot : 256 * ((tot / 256) mod 256) + tot mod 256 = tot) by (apply u16_hi_lo; unfold tot; lia).
  unfold recv, frame_parse. unfold hdr4 at 1. replace (69 / 16 =? 4) with true by reflexivity.
  fold (hdr4 tos ((tot / 256) mod 256) (tot mod 256) i1 i2 f1 0 ttl0 1 c1 c2 t1 t2 t3 t4 l1 l2 l3 l4).
  assert (Lr : len ([0; 0; k1; k2; (c_echo_id c / 256) mod 256; c_echo_id c mod 256; (t / 256) mod 256; t mod 256] ++ data) = 8 + len data)
    by (unfold len; rewrite app_length; cbn [length]; lia).
  rewrite decode_ip4_noopt by (rewrite ?Htot, ?Lr; unfold tot; lia).
  rewrite Htot, Lr. replace (tot <? 20 + (8 + len data)) with false by (symmetry; apply Z.ltb_ge; unfold tot; lia).
  unfold parse_l4_v4. cbn [i4_flags i4_fragoff i4_proto i4_payload i4_src i4_dst].
  assert (Hfrag : more_frags ((256 * f1 + 0) / 8192) || negb ((256 * f1 + 0) mod 8192 =? 0) = false) by (destruct Hff as [-> | ->]; reflexivity).
  rewrite Hfrag. replace (1 =? 6) with false by reflexivity. replace (1 =? 1) with true by reflexivity.
  cbn [app].
  unfold recv_view. rewrite V. unfold recv_icmp. cbn [v_l4 v_src v_dst].
  replace (0 =? 11) with false by reflexivity. replace (0 =? 0) with true by reflexivity.
  unfold addr_eqb. rewrite ET, EL, !bytes_eqb_refl. cbn [negb orb].
  unfold be16. rewrite !u16_hi_lo by lia. rewrite Z.eqb_refl. cbn [negb].
  unfold hop_for, rtt_of. rewrite Hr, Hs. rewrite Z.mod_small by lia. reflexivity.
Qed.

(** the UDP probe for TTL t as an explicit byte list *)
Lemma udp4_probe_bytes l1 l2 l3 l4 t1 t2 t3 t4 sp dp t :
  exists ck1 ck2 v1 v2,
  udp4_probe [l1; l2; l3; l4] [t1; t2; t3; t4] sp dp t =
  hdr4 0 0 36 ((udp4_id t / 256) mod 256) (udp4_id t mod 256) 64 0 t 17 ck1 ck2 l1 l2 l3 l4 t1 t2 t3 t4
       [(sp / 256) mod 256; sp mod 256; (dp / 256) mod 256; dp mod 256; 0; 16; v1; v2;
        78; 83; 77; 78; 67; 0; (udp4_id t / 256) mod 256; udp4_id t mod 256].
Proof.
  unfold udp4_probe, udp_segment, ip4_header, put16, hdr4, magic.
  set (id := udp4_id t).
  set (s0 := u16b sp ++ u16b dp ++ u16b (8 + len ([78; 83; 77; 78; 67] ++ [0] ++ u16b id)) ++ [0; 0] ++ [78; 83; 77; 78; 67] ++ [0] ++ u16b id).
  set (v := udp_ck (cksum s0 _)).
  assert (Es : takez 6 s0 ++ u16b v ++ dropz (6 + 2) s0 =
               [(sp / 256) mod 256; sp mod 256; (dp / 256) mod 256; dp mod 256; 0; 16; (v / 256) mod 256; v mod 256; 78; 83; 77; 78; 67; 0; (id / 256) mod 256; id mod 256])
    by (unfold s0, u16b; reflexivity).
  rewrite Es.
  replace (len [(sp / 256) mod 256; sp mod 256; (dp / 256) mod 256; dp mod 256; 0; 16; (v / 256) mod 256; v mod 256; 78; 83; 77; 78; 67; 0; (id / 256) mod 256; id mod 256]) with 16 by reflexivity.
  replace (20 + 16) with 36 by reflexivity.
  set (ck := cksum _ 0). exists ((ck / 256) mod 256), (ck mod 256), ((v / 256) mod 256), (v mod 256).
  unfold u16b. reflexivity.
Qed.

(** C02, byte level, UDP over IPv4: a time-exceeded (or any destination-unreachable) from ANY address quoting the
    first 28 bytes of the probe for TTL t is recognised as the hop for t; it is the destination iff it comes from the target *)
Theorem udp4_icmp_error28_recognised c st t now s ty co tos i1 i2 f1 ttl0 c1 c2 k1 k2 u1 u2 u3 u4 r1 r2 r3 r4 l1 l2 l3 l4 t1 t2 t3 t4 :
  c_variant c = VUdp -> c_local c = [l1; l2; l3; l4] -> c_target c = [t1; t2; t3; t4] ->
  0 <= c_sport c < 65536 -> 0 <= c_dport c < 65536 -> 0 <= t <= 255 ->
  (f1 = 0 \/ f1 = 64) -> ((ty = 11 /\ co = 0) \/ ty = 3) ->
  find (fun x => s_id x =? udp4_id t) st = Some s ->
  let probe := udp4_probe (c_local c) (c_target c) (c_sport c) (c_dport c) t in
  recv c st (hdr4 tos 0 56 i1 i2 f1 0 ttl0 1 c1 c2 r1 r2 r3 r4 l1 l2 l3 l4 ([ty; co; k1; k2; u1; u2; u3; u4] ++ takez 28 probe)) now
  = Hop (s_ttl s) [r1; r2; r3; r4] (now - s_time s) (bytes_eqb [r1; r2; r3; r4] [t1; t2; t3; t4]).
Proof.
  intros V EL ET Hsp Hdp Ht Hff Hty Hs probe.
  unfold probe. rewrite EL, ET.
  destruct (udp4_probe_bytes l1 l2 l3 l4 t1 t2 t3 t4 (c_sport c) (c_dport c) t) as [ck1 [ck2 [v1 [v2 EP]]]]. rewrite EP.
  unfold hdr4 at 2. unfold takez. replace (Z.to_nat 28) with 28%nat by reflexivity. cbn [firstn app].
  unfold recv, frame_parse. unfold hdr4 at 1. replace (69 / 16 =? 4) with true by reflexivity.
  fold (hdr4 tos 0 56 i1 i2 f1 0 ttl0 1 c1 c2 r1 r2 r3 r4 l1 l2 l3 l4).
  match goal with |- context [decode_ip4 (hdr4 _ _ _ _ _ _ _ _ _ _ _ _ _ _ _ _ _ _ _ ?rest)] =>
    rewrite (decode_ip4_noopt tos 0 56 i1 i2 f1 0 ttl0 1 c1 c2 r1 r2 r3 r4 l1 l2 l3 l4 rest) by (unfold len; cbn [length Z.of_nat]; lia) end.
  match goal with |- context [if ?cond then takez _ ?r else ?r] => replace cond with false by reflexivity end.
  unfold parse_l4_v4. cbn [i4_flags i4_fragoff i4_proto i4_payload i4_src i4_dst].
  assert (Hfrag : more_frags ((256 * f1 + 0) / 8192) || negb ((256 * f1 + 0) mod 8192 =? 0) = false) by (destruct Hff as [-> | ->]; reflexivity).
  rewrite Hfrag. replace (1 =? 6) with false by reflexivity. replace (1 =? 1) with true by reflexivity.
  unfold recv_view. rewrite V. unfold recv_udp. cbn [v_l4 v_src v_dst].
  assert (Hk : negb (is_ttl_exceeded (L4Icmp4 ty co (be16 u1 u2) (be16 u3 u4)
                 [69; 0; 0; 36; (udp4_id t / 256) mod 256; udp4_id t mod 256; 64; 0; t; 17; ck1; ck2; l1; l2; l3; l4; t1; t2; t3; t4;
                  (c_sport c / 256) mod 256; c_sport c mod 256; (c_dport c / 256) mod 256; c_dport c mod 256; 0; 16; v1; v2]))
              && negb (is_dest_unreachable (L4Icmp4 ty co (be16 u1 u2) (be16 u3 u4)
                 [69; 0; 0; 36; (udp4_id t / 256) mod 256; udp4_id t mod 256; 64; 0; t; 17; ck1; ck2; l1; l2; l3; l4; t1; t2; t3; t4;
                  (c_sport c / 256) mod 256; c_sport c mod 256; (c_dport c / 256) mod 256; c_dport c mod 256; 0; 16; v1; v2])) = false).
  { cbn [is_ttl_exceeded is_dest_unreachable]. destruct Hty as [[-> ->]| ->]; [reflexivity|]. replace (3 =? 3) with true by reflexivity. cbn [negb]. apply andb_false_r. }
  rewrite Hk.
  unfold icmp_info. cbn [v_l4].
  match goal with |- context [decode_ip4 ?q] =>
    change q with (hdr4 0 0 36 ((udp4_id t / 256) mod 256) (udp4_id t mod 256) 64 0 t 17 ck1 ck2 l1 l2 l3 l4 t1 t2 t3 t4
                        [(c_sport c / 256) mod 256; c_sport c mod 256; (c_dport c / 256) mod 256; c_dport c mod 256; 0; 16; v1; v2]) end.
  rewrite decode_ip4_noopt by (unfold len; cbn [length Z.of_nat]; lia).
  match goal with |- context [if ?cond then takez _ ?r else ?r] => replace cond with false by reflexivity end.
  cbn [ii_dst ii_src ii_payload ii_id i4_src i4_dst i4_payload i4_id first8].
  unfold addr_eqb, be16. rewrite ET, EL, !bytes_eqb_refl, !u16_hi_lo, !Z.eqb_refl by (unfold udp4_id; try lia; apply Z.mod_pos_bound; lia).
  cbn [andb negb]. rewrite andb_false_r. rewrite Hs. reflexivity.
Qed.

Lemma u32_bytes v : 0 <= v < 4294967296 ->
  be32 ((v / 16777216) mod 256) ((v / 65536) mod 256) ((v / 256) mod 256) (v mod 256) = v.
Proof. intros H. unfold be32. Z.div_mod_to_equations. lia. Qed.

(** C02, byte level, TCP SYN: a SYN-ACK, RST or RST-ACK (no TCP options, any window / checksum / sequence number)
    from the target's address and port to the run's local address and port, acknowledging seq+1 when ACK is set,
    is the destination hop for the most recently sent probe *)
Theorem tcp_direct_reply_recognised c st now tos i1 i2 f1 ttl0 c1 c2 q1 q2 q3 q4 fl w1 w2 k1 k2 g1 g2 l1 l2 l3 l4 t1 t2 t3 t4 lastp :
  c_variant c = VTcp -> c_local c = [l1; l2; l3; l4] -> c_target c = [t1; t2; t3; t4] ->
  0 <= c_sport c < 65536 -> 0 <= c_dport c < 65536 -> (f1 = 0 \/ f1 = 64) ->
  (fl = 18 \/ fl = 4 \/ fl = 20) ->
  rev st = lastp :: tl (rev st) -> 0 <= s_seq lastp < 4294967296 ->
  let ack := (s_seq lastp + 1) mod 4294967296 in
  recv c st (hdr4 tos 0 40 i1 i2 f1 0 ttl0 6 c1 c2 t1 t2 t3 t4 l1 l2 l3 l4
                  ([(c_dport c / 256) mod 256; c_dport c mod 256; (c_sport c / 256) mod 256; c_sport c mod 256; q1; q2; q3; q4;
                    (ack / 16777216) mod 256; (ack / 65536) mod 256; (ack / 256) mod 256; ack mod 256; 80; fl; w1; w2; k1; k2; g1; g2])) now
  = Hop (s_ttl lastp) [t1; t2; t3; t4] (now - s_time lastp) true.
Proof.
  intros V EL ET Hsp Hdp Hff Hfl Hrev Hseq ack.
  assert (Hack : 0 <= ack < 4294967296) by (unfold ack; apply Z.mod_pos_bound; lia).
  unfold recv, frame_parse. unfold hdr4 at 1. replace (69 / 16 =? 4) with true by reflexivity.
  fold (hdr4 tos 0 40 i1 i2 f1 0 ttl0 6 c1 c2 t1 t2 t3 t4 l1 l2 l3 l4).
  rewrite decode_ip4_noopt by (unfold len; cbn [length Z.of_nat]; lia).
  match goal with |- context [if ?cond then takez _ ?r else ?r] => replace cond with false by reflexivity end.
  unfold parse_l4_v4. cbn [i4_flags i4_fragoff i4_proto i4_payload i4_src i4_dst].
  assert (Hfrag : more_frags ((256 * f1 + 0) / 8192) || negb ((256 * f1 + 0) mod 8192 =? 0) = false) by (destruct Hff as [-> | ->]; reflexivity).
  rewrite Hfrag. replace (6 =? 6) with true by reflexivity.
  unfold decode_tcp. replace (80 / 16) with 5 by reflexivity. replace (5 <? 5) with false by reflexivity.
  match goal with |- context [len ?l <? 5 * 4] => replace (len l <? 5 * 4) with false by reflexivity end.
  replace (Z.to_nat 20) with 20%nat by reflexivity.
  unfold dropz, takez. replace (Z.to_nat (5 * 4)) with 20%nat by reflexivity. replace (Z.to_nat 20) with 20%nat by reflexivity.
  cbn [firstn skipn length tcp_opts].
  unfold recv_view. rewrite V. unfold recv_tcp. cbn [v_l4 v_src v_dst t_syn t_ackf t_rst t_sport t_dport t_ack].
  unfold addr_eqb, be16. rewrite ET, EL, !bytes_eqb_refl, !u16_hi_lo, !Z.eqb_refl by lia. cbn [andb negb].
  rewrite u32_bytes by exact Hack. rewrite Hrev.
  assert (Hm : (ack - 1) mod 4294967296 = s_seq lastp).
  { unfold ack. rewrite Zminus_mod, Z.mod_mod, <- Zminus_mod by lia. replace (s_seq lastp + 1 - 1) with (s_seq lastp) by lia. apply Z.mod_small. lia. }
  rewrite Hm, Z.eqb_refl.
  destruct Hfl as [-> | [-> | ->]]; reflexivity.
Qed.
