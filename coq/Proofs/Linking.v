(** C12, linking property: the capture filter an entry point installs accepts every frame its matcher turns into a
    hop — for ALL frames, with exactly one excepted shape (IPv6 with a hop-by-hop header first: the known finding). *)
From Coq Require Import List ZArith Bool Lia Arith.
From TR Require Import Lib.Bytes Lib.Sx Wire.Decode Drv.Drivers Drv.Handshake Bpf.Vm Spec.C12 Generated.BpfProgs Run.Drv Proofs.C12Exact Proofs.DrvProofs.
Import ListNotations.
Open Scope Z_scope.

(** ---- the Ethernet frame the AF_PACKET source hands to the filter *)
Lemma ether_ldb b k : 0 <= k -> ldb (ether b) (14 + k) = nth_error b (Z.to_nat k).
Proof.
  intros Hk. unfold ldb. replace (14 + k <? 0) with false by (symmetry; apply Z.ltb_ge; lia).
  replace (Z.to_nat (14 + k)) with (14 + Z.to_nat k)%nat by lia.
  unfold ether. destruct b as [|v r]; [cbn [app]|destruct (v / 16 =? 6); cbn [app]]; reflexivity.
Qed.

Lemma ether_type b v r : b = v :: r ->
  ldh (ether b) 12 = Some (if v / 16 =? 6 then 0x86dd else 0x800).
Proof. intros ->. unfold ether, ldh, ldb. destruct (v / 16 =? 6); reflexivity. Qed.

(** ---- what a successful parse says about the bytes *)
Lemma decode_ip4_bytes d h : decode_ip4 d = Some h ->
  exists vi tos l1 l2 i1 i2 f1 f2 ttl pr c1 c2 s1 s2 s3 s4 d1 d2 d3 d4 rest,
    d = vi :: tos :: l1 :: l2 :: i1 :: i2 :: f1 :: f2 :: ttl :: pr :: c1 :: c2 :: s1 :: s2 :: s3 :: s4 :: d1 :: d2 :: d3 :: d4 :: rest
    /\ i4_proto h = pr /\ i4_src h = [s1; s2; s3; s4] /\ i4_dst h = [d1; d2; d3; d4]
    /\ i4_flags h = (256 * f1 + f2) / 8192 /\ i4_fragoff h = (256 * f1 + f2) mod 8192
    /\ 5 <= vi mod 16
    /\ exists d', (d' = d \/ exists l, d' = takez l d) /\ i4_payload h = dropz (vi mod 16 * 4) d'.
Proof.
  intros H. unfold decode_ip4 in H.
  do 20 (destruct d as [|? d]; [discriminate|]).
  match type of H with context [if ?l0 =? 0 then _ else _] => set (L := if l0 =? 0 then _ else l0) in H end.
  destruct (L <? 20); [discriminate|].
  destruct (z mod 16 <? 5) eqn:E5; [discriminate|]. apply Z.ltb_ge in E5.
  destruct (L <? z mod 16 * 4); [discriminate|].
  match type of H with context [if ?c then None else _] => destruct c; [discriminate|] end.
  match type of H with context [if negb ?c then None else _] => destruct c; cbn [negb] in H; [|discriminate] end.
  injection H as <-. cbn [i4_proto i4_src i4_dst i4_flags i4_fragoff i4_payload].
  do 21 eexists. split; [reflexivity|]. repeat (split; [reflexivity|]). split; [exact E5|].
  match goal with |- context [dropz _ (if ?c then takez ?l ?dd else ?dd)] => destruct c; [exists (takez l dd); split; [right; eexists; reflexivity|reflexivity]|exists dd; split; [left; reflexivity|reflexivity]] end.
Qed.

Lemma frame_parse_icmp4 b v ty co id sq pay :
  frame_parse b = PView v -> v_l4 v = L4Icmp4 ty co id sq pay ->
  exists x r, b = x :: r /\ (x / 16 =? 6) = false /\ nth_error b 9 = Some 1.
Proof.
  unfold frame_parse. destruct b as [|x r]; [discriminate|].
  destruct (x / 16 =? 4) eqn:E4.
  - destruct (decode_ip4 (x :: r)) as [h|] eqn:D; [|discriminate].
    destruct (parse_l4_v4 h) as [l|] eqn:P; [|discriminate]. intros H Hl. injection H as <-. cbn [v_l4] in Hl. subst l.
    destruct (decode_ip4_bytes _ _ D) as (vi & tos & l1 & l2 & i1 & i2 & f1 & f2 & ttl & pr & c1 & c2 & s1 & s2 & s3 & s4 & d1 & d2 & d3 & d4 & rest & Eb & Epr & _).
    exists x, r. split; [reflexivity|]. apply Z.eqb_eq in E4. split; [apply Z.eqb_neq; lia|].
    rewrite Eb. cbn [nth_error]. f_equal.
    unfold parse_l4_v4 in P. destruct (more_frags (i4_flags h) || negb (i4_fragoff h =? 0)); [discriminate|].
    destruct (i4_payload h) as [|p0 pr0]; [discriminate|].
    destruct (i4_proto h =? 6) eqn:E6; [destruct (decode_tcp (p0 :: pr0)); discriminate|].
    destruct (i4_proto h =? 1) eqn:E1; [|discriminate]. apply Z.eqb_eq in E1. congruence.
  - destruct (x / 16 =? 6) eqn:E6.
    + destruct (decode_ip6 (x :: r)) as [h|]; [|discriminate]. destruct (parse_l4_v6 h) as [l|] eqn:P; [|discriminate].
      intros H Hl. injection H as <-. cbn [v_l4] in Hl. subst l. exfalso. unfold parse_l4_v6 in P.
      destruct (i6_payload h) as [|p0 pr0]; [discriminate|].
      destruct (i6_nh h =? 6); [destruct (decode_tcp (p0 :: pr0)); discriminate|].
      destruct (i6_nh h =? 58); [|discriminate]. destruct pr0 as [|? [|? [|? ?]]]; discriminate.
    + discriminate.
Qed.

Lemma decode_ip6_nh d h : decode_ip6 d = Some h ->
  exists nh, nth_error d 6 = Some nh /\ (nh = 0 \/ i6_nh h = nh).
Proof.
  unfold decode_ip6. destruct (len d <? 40); [discriminate|].
  do 8 (destruct d as [|? d]; [discriminate|]).
  intros H. exists z5. split; [reflexivity|].
  destruct (z5 =? 0) eqn:E0; [left; apply Z.eqb_eq; exact E0|right].
  destruct (256 * z3 + z4 =? 0); [discriminate|]. injection H as <-. reflexivity.
Qed.

Lemma frame_parse_icmp6 b v ty co pay :
  frame_parse b = PView v -> v_l4 v = L4Icmp6 ty co pay ->
  exists x r nh, b = x :: r /\ (x / 16 =? 6) = true /\ nth_error b 6 = Some nh /\ (nh = 0 \/ nh = 58).
Proof.
  unfold frame_parse. destruct b as [|x r]; [discriminate|].
  destruct (x / 16 =? 4) eqn:E4.
  - destruct (decode_ip4 (x :: r)) as [h|]; [|discriminate]. destruct (parse_l4_v4 h) as [l|] eqn:P; [|discriminate].
    intros H Hl. injection H as <-. cbn [v_l4] in Hl. subst l. exfalso. unfold parse_l4_v4 in P.
    destruct (more_frags (i4_flags h) || negb (i4_fragoff h =? 0)); [discriminate|].
    destruct (i4_payload h) as [|p0 pr0]; [discriminate|].
    destruct (i4_proto h =? 6); [destruct (decode_tcp (p0 :: pr0)); discriminate|].
    destruct (i4_proto h =? 1); [|discriminate]. destruct pr0 as [|? [|? [|? [|? [|? [|? [|? ?]]]]]]]; discriminate.
  - destruct (x / 16 =? 6) eqn:E6; [|discriminate].
    destruct (decode_ip6 (x :: r)) as [h|] eqn:D; [|discriminate]. destruct (parse_l4_v6 h) as [l|] eqn:P; [|discriminate].
    intros H Hl. injection H as <-. cbn [v_l4] in Hl. subst l.
    destruct (decode_ip6_nh _ _ D) as [nh [Hn Hc]]. exists x, r, nh. split; [reflexivity|]. split; [exact E6|]. split; [exact Hn|].
    destruct Hc as [->|Hc]; [left; reflexivity|right]. rewrite <- Hc.
    unfold parse_l4_v6 in P. destruct (i6_payload h) as [|p0 pr0]; [discriminate|].
    destruct (i6_nh h =? 6) eqn:E66; [destruct (decode_tcp (p0 :: pr0)); discriminate|].
    destruct (i6_nh h =? 58) eqn:E58; [apply Z.eqb_eq; exact E58|discriminate].
Qed.

(** ---- ICMP and UDP runs: the 'icmp || icmp6' program *)
Theorem linking_icmp_udp c st b now t a r d :
  (c_variant c = VIcmp \/ c_variant c = VUdp) ->
  recv c st b now = Hop t a r d ->
  v6_hop_by_hop b = false ->
  accepts (prog_of raw_icmp) (ether b) = true.
Proof.
  intros HV H Hh. rewrite icmp_exact. unfold recv in H.
  destruct (frame_parse b) as [v| |] eqn:P; try discriminate.
  assert (HL : (exists ty co id sq pay, v_l4 v = L4Icmp4 ty co id sq pay) \/ (exists ty co pay, v_l4 v = L4Icmp6 ty co pay)).
  { unfold recv_view in H. destruct HV as [HV|HV]; rewrite HV in H; [unfold recv_icmp in H|unfold recv_udp in H];
    destruct (v_l4 v) as [tc|ty co id sq pay|ty co pay]; try discriminate; [left|right|left|right]; eauto 10. }
  unfold icmp_specb. destruct HL as [(ty & co & id & sq & pay & HL)|(ty & co & pay & HL)].
  - destruct (frame_parse_icmp4 _ _ _ _ _ _ _ P HL) as (x & r0 & Eb & E6 & E9).
    rewrite (ether_type b x r0 Eb), E6.
    replace 23 with (14 + 9) by reflexivity. rewrite ether_ldb by lia. replace (Z.to_nat 9) with 9%nat by reflexivity. rewrite E9.
    reflexivity.
  - destruct (frame_parse_icmp6 _ _ _ _ _ P HL) as (x & r0 & nh & Eb & E6 & En & Hn).
    rewrite (ether_type b x r0 Eb), E6.
    replace 20 with (14 + 6) by reflexivity. rewrite ether_ldb by lia. replace (Z.to_nat 6) with 6%nat by reflexivity. rewrite En.
    destruct Hn as [->| ->].
    + exfalso. unfold v6_hop_by_hop in Hh. rewrite Eb in Hh. rewrite E6 in Hh. cbn [andb] in Hh.
      rewrite Eb in En. rewrite (nth_error_nth _ _ (-1) En) in Hh. discriminate.
    + change (oeq (Some 34525) 2048) with false. change (oeq (Some 34525) 34525) with true. change (oeq (Some 58) 58) with true. reflexivity.
Qed.

(** ---- TCP SYN and SACK runs (IPv4): the per-tuple program *)
Lemma nth_takez : forall n (l : bytes) j x, nth_error (takez n l) j = Some x -> nth_error l j = Some x.
Proof.
  intros n l. unfold takez. generalize (Z.to_nat n). clear n. intros n. revert l.
  induction n as [|n IH]; intros [|y l] [|j] x H; cbn in *; try discriminate; auto.
Qed.

Lemma nth_dropz : forall k (l : bytes) j x, nth_error (dropz k l) j = Some x -> nth_error l (Z.to_nat k + j) = Some x.
Proof.
  intros k l. unfold dropz. generalize (Z.to_nat k). clear k. intros n. revert l.
  induction n as [|n IH]; intros l j x H; cbn [skipn Nat.add] in *; [exact H|].
  destruct l as [|y l]; [destruct j; discriminate|]. cbn [nth_error]. apply IH. exact H.
Qed.

Lemma decode_ip6_src_len d h : decode_ip6 d = Some h -> length (i6_src h) = 16%nat.
Proof.
  unfold decode_ip6. destruct (len d <? 40) eqn:E; [discriminate|]. apply Z.ltb_ge in E.
  do 8 (destruct d as [|? d]; [discriminate|]).
  assert (L : (32 <= length d)%nat) by (unfold len in E; cbn [length] in E; lia).
  assert (S16 : length (takez 16 d) = 16%nat) by (unfold takez; rewrite firstn_length; replace (Z.to_nat 16) with 16%nat by reflexivity; lia).
  intros H.
  repeat (match type of H with
          | context [if ?c then _ else _] => destruct c
          | context [match ?x with _ => _ end] => destruct x
          end; try discriminate).
  all: injection H as <-; exact S16.
Qed.

Lemma decode_tcp_ports p t : decode_tcp p = Some t ->
  exists a b c0 d, nth_error p 0 = Some a /\ nth_error p 1 = Some b /\ nth_error p 2 = Some c0 /\ nth_error p 3 = Some d
                   /\ t_sport t = be16 a b /\ t_dport t = be16 c0 d.
Proof.
  unfold decode_tcp. do 20 (destruct p as [|? p]; [discriminate|]).
  intros H.
  repeat (match type of H with
          | context [if ?c then _ else _] => destruct c
          | context [match ?x with _ => _ end] => destruct x
          end; try discriminate).
  injection H as <-. do 4 eexists. repeat split; reflexivity.
Qed.

Lemma land15 v : Z.land v 15 = v mod 16.
Proof. change 15 with (Z.ones 4). rewrite Z.land_ones by lia. reflexivity. Qed.

Lemma land8191 v : Z.land v 8191 = v mod 8192.
Proof. change 8191 with (Z.ones 13). rewrite Z.land_ones by lia. reflexivity. Qed.

Theorem linking_tcp_sack c st b now t a r d :
  (c_variant c = VTcp \/ c_variant c = VSack) ->
  length (c_local c) = 4%nat -> length (c_target c) = 4%nat ->
  recv c st b now = Hop t a r d ->
  accepts (prog_of (raw_tcp4 (addr32 (c_target c)) (addr32 (c_local c)) (c_dport c) (c_sport c))) (ether b) = true.
Proof.
  intros HV LL LT H. rewrite tcp4_exact. unfold recv in H.
  destruct (frame_parse b) as [v| |] eqn:P; try discriminate.
  unfold tcp4_specb.
  destruct (v_l4 v) as [tc|ty co id sq pay|ty co pay] eqn:HL.
  2:{ (* an ICMP error: accepted whatever it quotes *)
      destruct (frame_parse_icmp4 _ _ _ _ _ _ _ P HL) as (x & r0 & Eb & E6 & E9).
      rewrite (ether_type b x r0 Eb), E6.
      replace 23 with (14 + 9) by reflexivity. rewrite ether_ldb by lia. replace (Z.to_nat 9) with 9%nat by reflexivity. rewrite E9. reflexivity. }
  2:{ exfalso. unfold recv_view in H. destruct HV as [HV|HV]; rewrite HV in H; [unfold recv_tcp in H|unfold recv_sack in H]; rewrite HL in H; discriminate. }
  (* a direct TCP reply: the matcher has checked the whole tuple *)
  assert (HM : addr_eqb (v_src v) (c_target c) = true /\ addr_eqb (v_dst v) (c_local c) = true /\ t_sport tc = c_dport c /\ t_dport tc = c_sport c).
  { unfold recv_view in H. destruct HV as [HV|HV]; rewrite HV in H; [unfold recv_tcp in H|unfold recv_sack in H]; rewrite HL in H.
    - destruct (negb (t_syn tc && t_ackf tc) && negb (t_rst tc)); [discriminate|].
      destruct (addr_eqb (v_src v) (c_target c) && addr_eqb (v_dst v) (c_local c)) eqn:A; cbn [negb] in H; [|discriminate].
      destruct (t_sport tc =? c_dport c) eqn:S1; cbn [negb] in H; [|discriminate].
      destruct (t_dport tc =? c_sport c) eqn:S2; cbn [negb] in H; [|discriminate].
      apply andb_true_iff in A. apply Z.eqb_eq in S1, S2. tauto.
    - destruct (addr_eqb (v_src v) (c_target c) && addr_eqb (v_dst v) (c_local c)) eqn:A; cbn [negb] in H; [|discriminate].
      destruct (t_sport tc =? c_dport c) eqn:S1; cbn [negb orb] in H; [|discriminate].
      destruct (t_dport tc =? c_sport c) eqn:S2; cbn [negb orb] in H; [|discriminate].
      apply andb_true_iff in A. apply Z.eqb_eq in S1, S2. tauto. }
  destruct HM as [A1 [A2 [S1 S2]]]. unfold addr_eqb in A1, A2. apply bytes_eqb_eq in A1, A2.
  unfold frame_parse in P. destruct b as [|x r0]; [discriminate|].
  destruct (x / 16 =? 4) eqn:E4.
  - destruct (decode_ip4 (x :: r0)) as [h|] eqn:D; [|discriminate].
    destruct (parse_l4_v4 h) as [l|] eqn:PL; [|discriminate]. injection P as <-. cbn [v_l4 v_src v_dst] in *. subst l.
    destruct (decode_ip4_bytes _ _ D) as (vi & tos & l1 & l2 & i1 & i2 & f1 & f2 & ttl & pr & c1 & c2 & s1 & s2 & s3 & s4 & d1 & d2 & d3 & d4 & rest & Eb & Epr & Es & Ed & Efl & Efo & Eihl & d' & Hd' & Epay).
    unfold parse_l4_v4 in PL.
    destruct (more_frags (i4_flags h) || negb (i4_fragoff h =? 0)) eqn:FR; [discriminate|].
    destruct (i4_payload h) as [|p0 pr0] eqn:EP; [discriminate|].
    destruct (i4_proto h =? 6) eqn:E6p.
    2:{ destruct (i4_proto h =? 1); [|discriminate]. destruct pr0 as [|? [|? [|? [|? [|? [|? [|? ?]]]]]]]; discriminate. }
    destruct (decode_tcp (p0 :: pr0)) as [t0|] eqn:DT; [|discriminate]. injection PL as ->.
    destruct (decode_tcp_ports _ _ DT) as (pa & pb & pc & pd & N0 & N1 & N2 & N3 & SP & DP).
    assert (HN : forall j y, nth_error (p0 :: pr0) j = Some y -> nth_error (x :: r0) (Z.to_nat (vi mod 16 * 4) + j) = Some y).
    { intros j y Hj. rewrite Epay in Hj. apply nth_dropz in Hj. destruct Hd' as [->|[l ->]]; [exact Hj|eapply nth_takez; exact Hj]. }
    assert (E6' : (x / 16 =? 6) = false) by (apply Z.eqb_eq in E4; apply Z.eqb_neq; lia).
    rewrite (ether_type (x :: r0) x r0 eq_refl), E6'. change (oeq (Some 2048) 2048) with true. cbn [andb].
    assert (EE : ether (x :: r0) = [2; 0; 0; 0; 0; 1; 2; 0; 0; 0; 0; 2; 8; 0] ++
                 (vi :: tos :: l1 :: l2 :: i1 :: i2 :: f1 :: f2 :: ttl :: pr :: c1 :: c2 :: s1 :: s2 :: s3 :: s4 :: d1 :: d2 :: d3 :: d4 :: rest)).
    { unfold ether. rewrite E6'. rewrite <- Eb. reflexivity. }
    assert (B23 : ldb (ether (x :: r0)) 23 = Some pr) by (rewrite EE; reflexivity).
    apply Z.eqb_eq in E6p. rewrite Epr in E6p. subst pr. rewrite B23. change (oeq (Some 6) 1) with false. change (oeq (Some 6) 6) with true. cbn [orb andb].
    assert (W26 : ldw (ether (x :: r0)) 26 = Some (be32 s1 s2 s3 s4)) by (rewrite EE; reflexivity).
    assert (W30 : ldw (ether (x :: r0)) 30 = Some (be32 d1 d2 d3 d4)) by (rewrite EE; reflexivity).
    rewrite W26, W30. rewrite <- A1, <- A2, Es, Ed. cbn [addr32]. unfold oeq at 1 2. rewrite !Z.eqb_refl. cbn [andb].
    (* not a fragment *)
    assert (UF : unfragmented (ether (x :: r0)) = true).
    { unfold unfragmented. replace (ldh (ether (x :: r0)) 20) with (Some (be16 f1 f2)) by (rewrite EE; reflexivity). unfold be16. rewrite land8191.
      rewrite Efl, Efo in FR. apply orb_false_iff in FR. destruct FR as [_ FR]. apply negb_false_iff in FR. exact FR. }
    rewrite UF. cbn [andb].
    replace (ldb (ether (x :: r0)) 14) with (Some vi) by (rewrite EE; reflexivity). rewrite land15.
    assert (P0 : ldb (ether (x :: r0)) (4 * (vi mod 16) + 14) = Some pa).
    { replace (4 * (vi mod 16) + 14) with (14 + (vi mod 16 * 4 + 0)) by lia. rewrite ether_ldb by lia. rewrite <- (HN 0%nat pa N0). f_equal. lia. }
    assert (P1 : ldb (ether (x :: r0)) (4 * (vi mod 16) + 14 + 1) = Some pb).
    { replace (4 * (vi mod 16) + 14 + 1) with (14 + (vi mod 16 * 4 + 1)) by lia. rewrite ether_ldb by lia. rewrite <- (HN 1%nat pb N1). f_equal. lia. }
    assert (P2 : ldb (ether (x :: r0)) (4 * (vi mod 16) + 16) = Some pc).
    { replace (4 * (vi mod 16) + 16) with (14 + (vi mod 16 * 4 + 2)) by lia. rewrite ether_ldb by lia. rewrite <- (HN 2%nat pc N2). f_equal. lia. }
    assert (P3 : ldb (ether (x :: r0)) (4 * (vi mod 16) + 16 + 1) = Some pd).
    { replace (4 * (vi mod 16) + 16 + 1) with (14 + (vi mod 16 * 4 + 3)) by lia. rewrite ether_ldb by lia. rewrite <- (HN 3%nat pd N3). f_equal. lia. }
    unfold ldh. rewrite P0, P1, P2, P3.
    unfold oeq. rewrite <- SP, <- DP, S1, S2, !Z.eqb_refl. reflexivity.
  - (* an IPv6 packet cannot carry the 4-byte target address *)
    exfalso. destruct (x / 16 =? 6); [|discriminate].
    destruct (decode_ip6 (x :: r0)) as [h|] eqn:D; [|discriminate]. destruct (parse_l4_v6 h); [|discriminate].
    injection P as <-. cbn [v_src] in A1. pose proof (decode_ip6_src_len _ _ D) as L6. rewrite A1 in L6. lia.
Qed.

(** ---- the linking property, for every variant and every frame *)
Definition addrs_ok (c : cfg) : Prop :=
  (length (c_local c) = 4%nat /\ length (c_target c) = 4%nat) \/ (length (c_local c) = 16%nat /\ length (c_target c) = 16%nat).

Theorem filter_accepts_every_hop c st b now t a r d p :
  addrs_ok c ->
  recv c st b now = Hop t a r d ->
  v6_hop_by_hop b = false ->
  installed_filter c = Some p ->
  accepts p (ether b) = true.
Proof.
  intros HA H Hh HF. unfold installed_filter in HF. destruct (c_variant c) eqn:V.
  - injection HF as <-. eapply linking_icmp_udp; eauto.
  - injection HF as <-. eapply linking_icmp_udp; eauto.
  - destruct (is_v6 c) eqn:V6; [discriminate|]. injection HF as <-.
    destruct HA as [[L4 T4]|[L16 _]]; [eapply linking_tcp_sack; eauto|].
    unfold is_v6, len in V6. rewrite L16 in V6. discriminate.
  - destruct (is_v6 c) eqn:V6; [discriminate|]. injection HF as <-.
    destruct HA as [[L4 T4]|[L16 _]]; [eapply linking_tcp_sack; eauto|].
    unfold is_v6, len in V6. rewrite L16 in V6. discriminate.
Qed.

(** ---- the SYN-ACK program installed while the SACK handshake is read *)
Lemma decode_tcp_flags p t : decode_tcp p = Some t ->
  exists fl, nth_error p 13 = Some fl /\ t_syn t = bit fl 2 /\ t_ackf t = bit fl 16.
Proof.
  unfold decode_tcp. do 20 (destruct p as [|? p]; [discriminate|]).
  intros H.
  repeat (match type of H with
          | context [if ?c then _ else _] => destruct c
          | context [match ?x with _ => _ end] => destruct x
          end; try discriminate).
  injection H as <-. eexists. repeat split; reflexivity.
Qed.

Theorem linking_synack c b v :
  length (c_target c) = 4%nat ->
  frame_parse b = PView v ->
  handle_handshake c v <> HIgnore ->
  accepts (prog_of raw_synack) (ether b) = true.
Proof.
  intros LT P HH. rewrite synack_exact. unfold synack_specb.
  unfold handle_handshake in HH. destruct (v_l4 v) as [tc|ty co id sq pay|ty co pay] eqn:HL; try (exfalso; apply HH; reflexivity).
  destruct (addr_eqb (v_src v) (c_target c) && addr_eqb (v_dst v) (c_local c)) eqn:A; cbn [negb] in HH; [|exfalso; apply HH; reflexivity].
  destruct (negb (t_sport tc =? c_dport c) || negb (t_dport tc =? c_sport c)); [exfalso; apply HH; reflexivity|].
  destruct (t_syn tc) eqn:SY; cbn [negb orb] in HH; [|exfalso; apply HH; reflexivity].
  destruct (t_ackf tc) eqn:AK; cbn [negb] in HH; [|exfalso; apply HH; reflexivity].
  apply andb_true_iff in A. destruct A as [A1 _]. unfold addr_eqb in A1. apply bytes_eqb_eq in A1.
  unfold frame_parse in P. destruct b as [|x r0]; [discriminate|].
  destruct (x / 16 =? 4) eqn:E4.
  - destruct (decode_ip4 (x :: r0)) as [h|] eqn:D; [|discriminate].
    destruct (parse_l4_v4 h) as [l|] eqn:PL; [|discriminate]. injection P as <-. cbn [v_l4 v_src v_dst] in *. subst l.
    destruct (decode_ip4_bytes _ _ D) as (vi & tos & l1 & l2 & i1 & i2 & f1 & f2 & ttl & pr & c1 & c2 & s1 & s2 & s3 & s4 & d1 & d2 & d3 & d4 & rest & Eb & Epr & Es & Ed & Efl & Efo & Eihl & d' & Hd' & Epay).
    unfold parse_l4_v4 in PL.
    destruct (more_frags (i4_flags h) || negb (i4_fragoff h =? 0)) eqn:FR; [discriminate|].
    destruct (i4_payload h) as [|p0 pr0] eqn:EP; [discriminate|].
    destruct (i4_proto h =? 6) eqn:E6p.
    2:{ destruct (i4_proto h =? 1); [|discriminate]. destruct pr0 as [|? [|? [|? [|? [|? [|? [|? ?]]]]]]]; discriminate. }
    destruct (decode_tcp (p0 :: pr0)) as [t0|] eqn:DT; [|discriminate]. injection PL as ->.
    destruct (decode_tcp_flags _ _ DT) as (fl & NF & SF & AF).
    assert (HN : nth_error (x :: r0) (Z.to_nat (vi mod 16 * 4) + 13) = Some fl).
    { rewrite Epay in NF. apply nth_dropz in NF. destruct Hd' as [->|[l ->]]; [exact NF|eapply nth_takez; exact NF]. }
    assert (E6' : (x / 16 =? 6) = false) by (apply Z.eqb_eq in E4; apply Z.eqb_neq; lia).
    rewrite (ether_type (x :: r0) x r0 eq_refl), E6'. change (oeq (Some 2048) 2048) with true. cbn [andb].
    assert (EE : ether (x :: r0) = [2; 0; 0; 0; 0; 1; 2; 0; 0; 0; 0; 2; 8; 0] ++
                 (vi :: tos :: l1 :: l2 :: i1 :: i2 :: f1 :: f2 :: ttl :: pr :: c1 :: c2 :: s1 :: s2 :: s3 :: s4 :: d1 :: d2 :: d3 :: d4 :: rest)).
    { unfold ether. rewrite E6'. rewrite <- Eb. reflexivity. }
    assert (B23 : ldb (ether (x :: r0)) 23 = Some pr) by (rewrite EE; reflexivity).
    apply Z.eqb_eq in E6p. rewrite Epr in E6p. subst pr. rewrite B23. change (oeq (Some 6) 6) with true. cbn [andb].
    assert (UF : unfragmented (ether (x :: r0)) = true).
    { unfold unfragmented. replace (ldh (ether (x :: r0)) 20) with (Some (be16 f1 f2)) by (rewrite EE; reflexivity). unfold be16. rewrite land8191.
      rewrite Efl, Efo in FR. apply orb_false_iff in FR. destruct FR as [_ FR]. apply negb_false_iff in FR. exact FR. }
    rewrite UF. cbn [andb].
    replace (ldb (ether (x :: r0)) 14) with (Some vi) by (rewrite EE; reflexivity). rewrite land15.
    replace (4 * (vi mod 16) + 27) with (14 + (vi mod 16 * 4 + 13)) by lia. rewrite ether_ldb by lia.
    replace (Z.to_nat (vi mod 16 * 4 + 13)) with (Z.to_nat (vi mod 16 * 4) + 13)%nat by lia. rewrite HN.
    unfold bit in SF, AF. rewrite SY in SF. rewrite AK in AF. rewrite <- SF, <- AF. reflexivity.
  - exfalso. destruct (x / 16 =? 6); [|discriminate].
    destruct (decode_ip6 (x :: r0)) as [h|] eqn:D; [|discriminate]. destruct (parse_l4_v6 h); [|discriminate].
    injection P as <-. cbn [v_src] in A1. pose proof (decode_ip6_src_len _ _ D) as L6. rewrite A1 in L6. lia.
Qed.
