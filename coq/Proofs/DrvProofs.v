(** Matcher theorems on the parsed view: soundness (C01), destination marking (C04), RTT
    attribution (C05), completeness (C02), and never-fatal / not-supported (C09) on raw bytes. *)
From Coq Require Import List ZArith Bool Lia.
From TR Require Import Lib.Bytes Wire.Decode Wire.Build Drv.Drivers Spec.C01.
Import ListNotations.
Open Scope Z_scope.

Ltac break_in H :=
  repeat match type of H with
         | context [match ?x with _ => _ end] => destruct x eqn:?; try discriminate H
         end.

Lemma find_ttl_some st t s : find_ttl st t = Some s -> In s st /\ s_ttl s = t.
Proof. unfold find_ttl. intros H. apply find_some in H. rewrite Z.eqb_eq in H. exact H. Qed.

Lemma hop_for_inv c st now rel ip dest t a r d :
  c_last c <= 255 -> 0 <= c_first c ->
  hop_for c st now rel ip dest = Hop t a r d ->
  t = rel /\ a = ip /\ d = dest /\ in_ttl_range c rel = true
  /\ exists s, find_ttl st rel = Some s /\ r = now - s_time s.
Proof.
  intros Hl Hf H. unfold hop_for, rtt_of in H.
  destruct (in_ttl_range c rel) eqn:R; [|discriminate].
  destruct (find_ttl st rel) as [s|] eqn:F; [|discriminate].
  injection H as <- <- <- <-.
  unfold in_ttl_range in R. apply andb_true_iff in R. destruct R as [R1 R2]. apply Z.leb_le in R1, R2.
  rewrite Z.mod_small by lia. split; [reflexivity|]. split; [reflexivity|]. split; [reflexivity|].
  split; [reflexivity|]. eauto.
Qed.

Definition cfg_ok (c : cfg) : Prop := 0 <= c_first c /\ c_last c <= 255.

(** what every reported hop satisfies *)
Definition hop_ok (c : cfg) (st : dstate) (v : view) (now t : Z) (a : bytes) (r : Z) (d : bool) : Prop :=
  genuine c st v t = true /\ a = v_src v /\ d = proof_of_arrival c v
  /\ exists s, In s st /\ s_ttl s = t /\ r = now - s_time s.

Lemma andb_negb_false_l a b : negb (a && b) = false -> a = true /\ b = true.
Proof. destruct a, b; cbn; intros; try discriminate; auto. Qed.

Lemma orb_negb_false a b : negb a || negb b = false -> a = true /\ b = true.
Proof. destruct a, b; cbn; intros; try discriminate; auto. Qed.

(** ---- ICMP *)
Lemma recv_icmp_sound c st v now t a r d :
  cfg_ok c -> c_variant c = VIcmp -> recv_icmp c st v now = Hop t a r d -> hop_ok c st v now t a r d.
Proof.
  intros [Hf Hl] Hv H. unfold recv_icmp in H. unfold hop_ok, genuine, proof_of_arrival. rewrite Hv.
  destruct (v_l4 v) as [tc|ty co id seq pay|ty co pay] eqn:L4; [discriminate| |].
  - destruct (ty =? 11) eqn:E11.
    + destruct (icmp_info v) as [ii|] eqn:II; [|discriminate].
      destruct (negb (addr_eqb (ii_dst ii) (c_target c))) eqn:D; [discriminate|].
      destruct (negb (addr_eqb (ii_src ii) (c_local c))) eqn:S; [discriminate|].
      destruct (quoted_echo4 (ii_payload ii)) as [[qid qseq]|] eqn:Q; [|discriminate].
      destruct (negb (qid =? c_echo_id c)) eqn:I; [discriminate|].
      apply hop_for_inv in H; auto. destruct H as [-> [-> [-> [R [s [F ->]]]]]].
      apply negb_false_iff in D, S, I. rewrite R, F. unfold quoted_flow_ok. rewrite D, S, I, Z.eqb_refl. cbn.
      apply Z.eqb_eq in E11. subst ty. cbn. repeat split; auto.
      apply find_ttl_some in F. exists s. tauto.
    + destruct (ty =? 0) eqn:E0; [|discriminate].
      destruct (negb (addr_eqb (v_src v) (c_target c)) || negb (addr_eqb (v_dst v) (c_local c))) eqn:P; [discriminate|].
      destruct (negb (id =? c_echo_id c)) eqn:I; [discriminate|].
      apply hop_for_inv in H; auto. destruct H as [-> [-> [-> [R [s [F ->]]]]]].
      apply orb_negb_false in P. destruct P as [P1 P2]. apply negb_false_iff in I.
      rewrite R, F. unfold from_target_to_local. rewrite P1, P2, I, Z.eqb_refl. cbn. repeat split; auto.
      apply find_ttl_some in F. exists s. tauto.
  - destruct (ty =? 3) eqn:E3.
    + destruct (icmp_info v) as [ii|] eqn:II; [|discriminate].
      destruct (negb (addr_eqb (ii_dst ii) (c_target c))) eqn:D; [discriminate|].
      destruct (negb (addr_eqb (ii_src ii) (c_local c))) eqn:S; [discriminate|].
      destruct (quoted_echo6 (ii_payload ii)) as [[qid qseq]|] eqn:Q; [|discriminate].
      destruct (negb (qid =? c_echo_id c)) eqn:I; [discriminate|].
      apply hop_for_inv in H; auto. destruct H as [-> [-> [-> [R [s [F ->]]]]]].
      apply negb_false_iff in D, S, I. rewrite R, F. unfold quoted_flow_ok. rewrite D, S, I, Z.eqb_refl. cbn.
      apply Z.eqb_eq in E3. subst ty. cbn. repeat split; auto.
      apply find_ttl_some in F. exists s. tauto.
    + destruct (ty =? 129) eqn:E129; [|discriminate].
      destruct (negb (addr_eqb (v_src v) (c_target c)) || negb (addr_eqb (v_dst v) (c_local c))) eqn:P; [discriminate|].
      destruct pay as [|i1 [|i2 [|q1 [|q2 rest]]]]; try discriminate.
      destruct (negb (be16 i1 i2 =? c_echo_id c)) eqn:I; [discriminate|].
      apply hop_for_inv in H; auto. destruct H as [-> [-> [-> [R [s [F ->]]]]]].
      apply orb_negb_false in P. destruct P as [P1 P2]. apply negb_false_iff in I.
      rewrite R, F. unfold from_target_to_local. rewrite P1, P2, I, Z.eqb_refl. cbn. repeat split; auto.
      apply find_ttl_some in F. exists s. tauto.
Qed.

(** ---- UDP *)
Lemma recv_udp_sound c st v now t a r d :
  c_variant c = VUdp -> recv_udp c st v now = Hop t a r d -> hop_ok c st v now t a r d.
Proof.
  intros Hv H. unfold recv_udp in H. unfold hop_ok, genuine, proof_of_arrival. rewrite Hv.
  destruct (v_l4 v) as [tc|ty co id seq pay|ty co pay] eqn:L4; [discriminate| |].
  all: match type of H with (if ?x then _ else _) = _ => destruct x eqn:T; [discriminate|] end.
  all: destruct (icmp_info v) as [ii|] eqn:II; [|discriminate].
  all: destruct (first8 (ii_payload ii)) as [[[sp dp] sq]|] eqn:F8; [|discriminate].
  all: match type of H with (if ?x then _ else _) = _ => destruct x eqn:D; [discriminate|] end.
  all: match type of H with (if ?x then _ else _) = _ => destruct x eqn:S; [discriminate|] end.
  all: destruct (find (fun s => s_id s =? ii_id ii) st) as [s|] eqn:F; [|discriminate].
  all: injection H as <- <- <- <-.
  all: apply negb_false_iff in D.
  all: unfold quoted_flow_ok; rewrite F8, D; cbn [andb].
  all: assert (T' : (is_ttl_exceeded (v_l4 v) || is_dest_unreachable (v_l4 v)) = true)
         by (rewrite L4; destruct (is_ttl_exceeded _), (is_dest_unreachable _); cbn in *; congruence).
  all: rewrite L4 in T'; rewrite T'; cbn [andb].
  all: assert (S' : (c_loosen c || addr_eqb (ii_src ii) (c_local c) && (sp =? c_sport c)) = true)
         by (destruct (c_loosen c), (addr_eqb (ii_src ii) (c_local c) && (sp =? c_sport c)); cbn in *; congruence).
  all: rewrite S', Z.eqb_refl; cbn.
  all: repeat split; auto.
  all: apply find_some in F; exists s; tauto.
Qed.

(** ---- TCP SYN *)
Lemma recv_tcp_sound c st v now t a r d :
  c_variant c = VTcp -> recv_tcp c st v now = Hop t a r d -> hop_ok c st v now t a r d.
Proof.
  intros Hv H. unfold recv_tcp in H. unfold hop_ok, genuine, proof_of_arrival. rewrite Hv.
  destruct (v_l4 v) as [tc|ty co id seq pay|ty co pay] eqn:L4; [| |discriminate].
  - match type of H with (if ?x then _ else _) = _ => destruct x eqn:FL; [discriminate|] end.
    match type of H with (if ?x then _ else _) = _ => destruct x eqn:P; [discriminate|] end.
    match type of H with (if ?x then _ else _) = _ => destruct x eqn:SP; [discriminate|] end.
    match type of H with (if ?x then _ else _) = _ => destruct x eqn:DP; [discriminate|] end.
    unfold last_sent. destruct (rev st) as [|lastp rest] eqn:RV; [discriminate|].
    match type of H with (if ?x then _ else _) = _ => destruct x eqn:AK; [discriminate|] end.
    injection H as <- <- <- <-.
    apply negb_false_iff in P, SP, DP. apply andb_true_iff in P. destruct P as [P1 P2].
    unfold from_target_to_local. rewrite P1, P2, SP, DP, Z.eqb_refl. cbn [andb].
    assert (FL' : (t_syn tc && t_ackf tc || t_rst tc) = true)
      by (destruct (t_syn tc && t_ackf tc), (t_rst tc); cbn in *; congruence).
    rewrite FL'. cbn [andb].
    assert (AK' : (negb (t_ackf tc) || (s_seq lastp =? (t_ack tc - 1) mod 4294967296)) = true).
    { destruct (t_ackf tc) eqn:A; [|reflexivity]. cbn. rewrite !andb_true_r in AK.
      destruct (t_syn tc) eqn:SY, (t_rst tc) eqn:RS; cbn in *; try discriminate;
        destruct (s_seq lastp =? (t_ack tc - 1) mod 4294967296); cbn in *; congruence. }
    rewrite AK'. repeat split; auto.
    exists lastp. repeat split; auto. apply in_rev. rewrite RV. left. reflexivity.
  - match type of H with (if ?x then _ else _) = _ => destruct x eqn:T; [discriminate|] end.
    destruct (icmp_info v) as [ii|] eqn:II; [|discriminate].
    destruct (first8 (ii_payload ii)) as [[[sp dp] sq]|] eqn:F8; [|discriminate].
    match type of H with (if ?x then _ else _) = _ => destruct x eqn:D; [discriminate|] end.
    match type of H with (if ?x then _ else _) = _ => destruct x eqn:S; [discriminate|] end.
    destruct (find (fun s => (s_id s =? ii_id ii) && (s_seq s =? sq)) st) as [s|] eqn:F; [|discriminate].
    injection H as <- <- <- <-.
    apply negb_false_iff in T, D. rewrite T. unfold quoted_flow_ok. rewrite F8, D. cbn [andb].
    assert (S' : (c_loosen c || addr_eqb (ii_src ii) (c_local c) && (sp =? c_sport c)) = true)
      by (destruct (c_loosen c), (addr_eqb (ii_src ii) (c_local c) && (sp =? c_sport c)); cbn in *; congruence).
    rewrite S', Z.eqb_refl. cbn. repeat split; auto.
    apply find_some in F. exists s. tauto.
Qed.

(** ---- SACK *)
Lemma recv_sack_sound c st v now t a r d :
  cfg_ok c -> c_variant c = VSack -> recv_sack c st v now = Hop t a r d -> hop_ok c st v now t a r d.
Proof.
  intros [Hf Hl] Hv H. unfold recv_sack in H. unfold hop_ok, genuine, proof_of_arrival. rewrite Hv.
  destruct (v_l4 v) as [tc|ty co id seq pay|ty co pay] eqn:L4; [| |discriminate].
  - match type of H with (if ?x then _ else _) = _ => destruct x eqn:P; [discriminate|] end.
    match type of H with (if ?x then _ else _) = _ => destruct x eqn:PO; [discriminate|] end.
    match type of H with (if ?x then _ else _) = _ => destruct x eqn:FL; [discriminate|] end.
    destruct (min_sack (c_init_seq c) (t_opts tc)) as [rel|] eqn:MS; [|discriminate].
    apply hop_for_inv in H; auto. destruct H as [-> [-> [-> [R [s [F ->]]]]]].
    apply negb_false_iff in P. apply andb_true_iff in P. destruct P as [P1 P2].
    apply orb_negb_false in PO. destruct PO as [PO1 PO2].
    unfold from_target_to_local. rewrite R, F, P1, P2, PO1, PO2, Z.eqb_refl. cbn [andb negb].
    destruct (t_syn tc), (t_fin tc), (t_rst tc); cbn in FL; try discriminate. cbn. repeat split; auto.
    apply find_ttl_some in F. exists s. tauto.
  - match type of H with (if ?x then _ else _) = _ => destruct x eqn:T; [discriminate|] end.
    destruct (icmp_info v) as [ii|] eqn:II; [|discriminate].
    destruct (first8 (ii_payload ii)) as [[[sp dp] sq]|] eqn:F8; [|discriminate].
    match type of H with (if ?x then _ else _) = _ => destruct x eqn:D; [discriminate|] end.
    match type of H with (if ?x then _ else _) = _ => destruct x eqn:S; [discriminate|] end.
    apply hop_for_inv in H; auto. destruct H as [-> [-> [-> [R [s [F ->]]]]]].
    apply negb_false_iff in T, D. rewrite R, F, T. unfold quoted_flow_ok. rewrite F8, D. cbn [andb].
    assert (S' : (c_loosen c || addr_eqb (ii_src ii) (c_local c) && (sp =? c_sport c)) = true)
      by (destruct (c_loosen c), (addr_eqb (ii_src ii) (c_local c) && (sp =? c_sport c)); cbn in *; congruence).
    rewrite S', Z.eqb_refl. cbn. repeat split; auto.
    apply find_ttl_some in F. exists s. tauto.
Qed.

Theorem recv_view_sound c st v now t a r d :
  cfg_ok c -> recv_view c st v now = Hop t a r d -> hop_ok c st v now t a r d.
Proof.
  intros Hc H. unfold recv_view in H. destruct (c_variant c) eqn:V.
  - apply recv_icmp_sound; auto.
  - apply recv_udp_sound; auto.
  - apply recv_tcp_sound; auto.
  - apply recv_sack_sound; auto.
Qed.

(** on raw bytes: every hop comes from a packet that parses, and its view satisfies the above *)
Theorem recv_sound c st b now t a r d :
  cfg_ok c -> recv c st b now = Hop t a r d ->
  exists v, frame_parse b = PView v /\ hop_ok c st v now t a r d.
Proof.
  intros Hc H. unfold recv in H. destruct (frame_parse b) as [v| |] eqn:P; try discriminate.
  exists v. split; [reflexivity|]. apply recv_view_sound; assumption.
Qed.

(** ---- C09 *)
Theorem recv_never_fatal c st b now :
  b <> [] -> (c_variant c = VTcp -> st <> []) -> recv c st b now <> Fatal.
Proof.
  intros Hb Hst. unfold recv. destruct (frame_parse b) as [v| |] eqn:P.
  - unfold recv_view. destruct (c_variant c) eqn:V.
    + unfold recv_icmp, hop_for. intros H. break_in H.
    + unfold recv_udp. intros H. break_in H.
    + unfold recv_tcp. intros H. break_in H. apply Hst; [reflexivity|]. 
      match goal with R : rev st = [] |- _ => apply (f_equal (@rev _)) in R; rewrite rev_involutive in R; exact R end.
    + unfold recv_sack, hop_for. intros H. break_in H.
  - discriminate.
  - unfold frame_parse in P. destruct b; [congruence|]. break_in P.
Qed.

Theorem recv_not_supported_iff c st b now :
  recv c st b now = NotSupported <->
  (c_variant c = VSack /\ exists v tc, frame_parse b = PView v /\ v_l4 v = L4Tcp tc
     /\ from_target_to_local c v = true /\ t_sport tc = c_dport c /\ t_dport tc = c_sport c
     /\ t_syn tc = false /\ t_fin tc = false /\ t_rst tc = false
     /\ min_sack (c_init_seq c) (t_opts tc) = None).
Proof.
  split.
  - intros H. unfold recv in H. destruct (frame_parse b) as [v| |] eqn:P; try discriminate.
    unfold recv_view in H. destruct (c_variant c) eqn:V.
    + exfalso. unfold recv_icmp, hop_for in H. break_in H.
    + exfalso. unfold recv_udp in H. break_in H.
    + exfalso. unfold recv_tcp in H. break_in H.
    + split; [reflexivity|]. unfold recv_sack, hop_for in H.
      destruct (v_l4 v) as [tc| |] eqn:L4.
      * exists v, tc. split; [reflexivity|]. split; [exact L4|].
        match type of H with (if ?x then _ else _) = _ => destruct x eqn:PA; [discriminate|] end.
        match type of H with (if ?x then _ else _) = _ => destruct x eqn:PO; [discriminate|] end.
        match type of H with (if ?x then _ else _) = _ => destruct x eqn:FL; [discriminate|] end.
        destruct (min_sack (c_init_seq c) (t_opts tc)) eqn:MS; [break_in H|].
        apply negb_false_iff in PA. apply orb_negb_false in PO. destruct PO as [PO1 PO2].
        apply Z.eqb_eq in PO1, PO2.
        destruct (t_syn tc), (t_fin tc), (t_rst tc); cbn in FL; try discriminate. tauto.
      * exfalso. break_in H.
      * discriminate.
  - intros [V [v [tc [P [L4 [FT [SP [DP [SY [FI [RS MS]]]]]]]]]]].
    unfold recv. rewrite P. unfold recv_view. rewrite V. unfold recv_sack. rewrite L4.
    unfold from_target_to_local in FT. rewrite FT, SP, DP, !Z.eqb_refl, SY, FI, RS, MS. reflexivity.
Qed.

(** ---- C02: completeness on the view *)
Theorem recv_view_complete c st v now t :
  cfg_ok c -> genuine c st v t = true ->
  exists r, recv_view c st v now = Hop t (v_src v) r (proof_of_arrival c v).
Proof.
  intros [Hf Hl] G. unfold genuine in G. unfold recv_view, proof_of_arrival.
  assert (HF : forall rel ip dest, in_ttl_range c rel = true -> (exists s, find_ttl st rel = Some s) ->
               exists r, hop_for c st now rel ip dest = Hop rel ip r dest).
  { intros rel ip dest R [s F]. unfold hop_for, rtt_of. rewrite R, F. eexists. f_equal.
    unfold in_ttl_range in R. apply andb_true_iff in R. destruct R as [R1 R2]. apply Z.leb_le in R1, R2. apply Z.mod_small. lia. }
  destruct (c_variant c) eqn:V; destruct (v_l4 v) as [tc|ty co id seq pay|ty co pay] eqn:L4; try discriminate.
  - (* icmp4 *)
    unfold recv_icmp. rewrite L4.
    apply andb_true_iff in G. destruct G as [G G3]. apply andb_true_iff in G. destruct G as [G1 G2].
    destruct (find_ttl st t) as [s|] eqn:F; [|discriminate].
    destruct (ty =? 11) eqn:E11.
    + destruct (icmp_info v) as [ii|]; [|discriminate].
      apply andb_true_iff in G3. destruct G3 as [Q1 Q2]. unfold quoted_flow_ok in Q1. apply andb_true_iff in Q1. destruct Q1 as [D S].
      rewrite D, S. cbn [negb]. destruct (quoted_echo4 (ii_payload ii)) as [[qid qseq]|]; [|discriminate].
      apply andb_true_iff in Q2. destruct Q2 as [I Sq]. rewrite I. cbn [negb]. apply Z.eqb_eq in Sq. subst qseq.
      destruct (HF t (v_src v) false G1 (ex_intro _ s F)) as [r Hr]. exists r. rewrite Hr. repeat f_equal.
      apply Z.eqb_eq in E11. subst ty. reflexivity.
    + apply andb_true_iff in G3. destruct G3 as [G3 Sq]. apply andb_true_iff in G3. destruct G3 as [G3 I].
      apply andb_true_iff in G3. destruct G3 as [E0 FT]. rewrite E0. unfold from_target_to_local in FT.
      apply andb_true_iff in FT. destruct FT as [P1 P2]. rewrite P1, P2, I. cbn [negb orb]. apply Z.eqb_eq in Sq. subst seq.
      destruct (HF t (v_src v) true G1 (ex_intro _ s F)) as [r Hr]. exists r. rewrite Hr. reflexivity.
  - (* icmp6 *)
    unfold recv_icmp. rewrite L4.
    apply andb_true_iff in G. destruct G as [G G3]. apply andb_true_iff in G. destruct G as [G1 G2].
    destruct (find_ttl st t) as [s|] eqn:F; [|discriminate].
    destruct (ty =? 3) eqn:E3.
    + destruct (icmp_info v) as [ii|]; [|discriminate].
      apply andb_true_iff in G3. destruct G3 as [Q1 Q2]. unfold quoted_flow_ok in Q1. apply andb_true_iff in Q1. destruct Q1 as [D S].
      rewrite D, S. cbn [negb]. destruct (quoted_echo6 (ii_payload ii)) as [[qid qseq]|]; [|discriminate].
      apply andb_true_iff in Q2. destruct Q2 as [I Sq]. rewrite I. cbn [negb]. apply Z.eqb_eq in Sq. subst qseq.
      destruct (HF t (v_src v) false G1 (ex_intro _ s F)) as [r Hr]. exists r. rewrite Hr. repeat f_equal.
      apply Z.eqb_eq in E3. subst ty. reflexivity.
    + apply andb_true_iff in G3. destruct G3 as [G3 PY]. apply andb_true_iff in G3. destruct G3 as [E129 FT].
      rewrite E129. unfold from_target_to_local in FT. apply andb_true_iff in FT. destruct FT as [P1 P2]. rewrite P1, P2. cbn [negb orb].
      destruct pay as [|i1 [|i2 [|q1 [|q2 rest]]]]; try discriminate.
      apply andb_true_iff in PY. destruct PY as [I Sq]. rewrite I. cbn [negb]. apply Z.eqb_eq in Sq. rewrite Sq.
      destruct (HF t (v_src v) true G1 (ex_intro _ s F)) as [r Hr]. exists r. rewrite Hr. reflexivity.
  - (* udp / icmp4 *)
    unfold recv_udp. rewrite L4. apply andb_true_iff in G. destruct G as [T G].
    destruct (icmp_info v) as [ii|]; [|discriminate]. apply andb_true_iff in G. destruct G as [Q F].
    unfold quoted_flow_ok in Q. destruct (first8 (ii_payload ii)) as [[[sp dp] sq]|]; [|discriminate].
    apply andb_true_iff in Q. destruct Q as [D S].
    destruct (find (fun s => s_id s =? ii_id ii) st) as [s|]; [|discriminate]. apply Z.eqb_eq in F. subst t.
    assert (T' : (negb (is_ttl_exceeded (L4Icmp4 ty co id seq pay)) && negb (is_dest_unreachable (L4Icmp4 ty co id seq pay))) = false)
      by (destruct (is_ttl_exceeded _), (is_dest_unreachable _); cbn in *; congruence).
    rewrite T', D. cbn [negb].
    assert (S' : (negb (c_loosen c) && negb (addr_eqb (ii_src ii) (c_local c) && (sp =? c_sport c))) = false)
      by (destruct (c_loosen c), (addr_eqb (ii_src ii) (c_local c) && (sp =? c_sport c)); cbn in *; congruence).
    rewrite S'. eexists. reflexivity.
  - (* udp / icmp6 *)
    unfold recv_udp. rewrite L4. apply andb_true_iff in G. destruct G as [T G].
    destruct (icmp_info v) as [ii|]; [|discriminate]. apply andb_true_iff in G. destruct G as [Q F].
    unfold quoted_flow_ok in Q. destruct (first8 (ii_payload ii)) as [[[sp dp] sq]|]; [|discriminate].
    apply andb_true_iff in Q. destruct Q as [D S].
    destruct (find (fun s => s_id s =? ii_id ii) st) as [s|]; [|discriminate]. apply Z.eqb_eq in F. subst t.
    assert (T' : (negb (is_ttl_exceeded (L4Icmp6 ty co pay)) && negb (is_dest_unreachable (L4Icmp6 ty co pay))) = false)
      by (destruct (is_ttl_exceeded _), (is_dest_unreachable _); cbn in *; congruence).
    rewrite T', D. cbn [negb].
    assert (S' : (negb (c_loosen c) && negb (addr_eqb (ii_src ii) (c_local c) && (sp =? c_sport c))) = false)
      by (destruct (c_loosen c), (addr_eqb (ii_src ii) (c_local c) && (sp =? c_sport c)); cbn in *; congruence).
    rewrite S'. eexists. reflexivity.
  - (* tcp direct *)
    unfold recv_tcp. rewrite L4.
    apply andb_true_iff in G. destruct G as [G LS]. apply andb_true_iff in G. destruct G as [G DP].
    apply andb_true_iff in G. destruct G as [G SP]. apply andb_true_iff in G. destruct G as [FL FT].
    unfold from_target_to_local in FT. rewrite FT, SP, DP. cbn [negb].
    assert (FL' : (negb (t_syn tc && t_ackf tc) && negb (t_rst tc)) = false)
      by (destruct (t_syn tc && t_ackf tc), (t_rst tc); cbn in *; congruence).
    rewrite FL'. unfold last_sent in LS. destruct (rev st) as [|lastp rest]; [discriminate|].
    apply andb_true_iff in LS. destruct LS as [TT AK]. apply Z.eqb_eq in TT. subst t.
    assert (AK' : ((t_syn tc && t_ackf tc || t_rst tc && t_ackf tc) && negb (s_seq lastp =? (t_ack tc - 1) mod 4294967296)) = false).
    { destruct (t_ackf tc); cbn in AK; [rewrite AK; cbn; apply andb_false_r|]. rewrite !andb_false_r. reflexivity. }
    rewrite AK'. apply andb_true_iff in FT. destruct FT as [FT1 _]. cbv beta iota. rewrite FT1. eexists. reflexivity.
  - (* tcp / icmp4 *)
    unfold recv_tcp. rewrite L4. apply andb_true_iff in G. destruct G as [T G]. rewrite T. cbn [negb].
    destruct (icmp_info v) as [ii|]; [|discriminate]. apply andb_true_iff in G. destruct G as [Q F].
    unfold quoted_flow_ok in Q. destruct (first8 (ii_payload ii)) as [[[sp dp] sq]|]; [|discriminate].
    apply andb_true_iff in Q. destruct Q as [D S]. rewrite D. cbn [negb].
    assert (S' : (negb (c_loosen c) && negb (addr_eqb (ii_src ii) (c_local c) && (sp =? c_sport c))) = false)
      by (destruct (c_loosen c), (addr_eqb (ii_src ii) (c_local c) && (sp =? c_sport c)); cbn in *; congruence).
    rewrite S'. destruct (find (fun s => (s_id s =? ii_id ii) && (s_seq s =? sq)) st) as [s|]; [|discriminate].
    apply Z.eqb_eq in F. subst t. eexists. reflexivity.
  - (* sack direct *)
    unfold recv_sack. rewrite L4.
    apply andb_true_iff in G. destruct G as [G MS]. apply andb_true_iff in G. destruct G as [G FL].
    apply andb_true_iff in G. destruct G as [G DP]. apply andb_true_iff in G. destruct G as [G SP].
    apply andb_true_iff in G. destruct G as [G FT]. apply andb_true_iff in G. destruct G as [G1 G2].
    destruct (find_ttl st t) as [s|] eqn:F; [|discriminate].
    unfold from_target_to_local in FT. rewrite FT, SP, DP. cbn [negb orb]. apply negb_true_iff in FL. rewrite FL.
    destruct (min_sack (c_init_seq c) (t_opts tc)) as [rel|]; [|discriminate]. apply Z.eqb_eq in MS. subst rel.
    destruct (HF t (v_src v) true G1 (ex_intro _ s F)) as [r Hr]. exists r. rewrite Hr.
    apply andb_true_iff in FT. destruct FT as [FT1 _]. rewrite FT1. reflexivity.
  - (* sack / icmp4 *)
    unfold recv_sack. rewrite L4.
    apply andb_true_iff in G. destruct G as [G Q]. apply andb_true_iff in G. destruct G as [G T].
    apply andb_true_iff in G. destruct G as [G1 G2]. destruct (find_ttl st t) as [s|] eqn:F; [|discriminate].
    rewrite T. cbn [negb].
    destruct (icmp_info v) as [ii|]; [|discriminate]. apply andb_true_iff in Q. destruct Q as [Q SQ].
    unfold quoted_flow_ok in Q. destruct (first8 (ii_payload ii)) as [[[sp dp] sq]|]; [|discriminate].
    apply andb_true_iff in Q. destruct Q as [D S]. rewrite D. cbn [negb].
    assert (S' : (negb (c_loosen c) && negb (addr_eqb (ii_src ii) (c_local c) && (sp =? c_sport c))) = false)
      by (destruct (c_loosen c), (addr_eqb (ii_src ii) (c_local c) && (sp =? c_sport c)); cbn in *; congruence).
    rewrite S'. apply Z.eqb_eq in SQ. rewrite SQ.
    destruct (HF t (v_src v) (addr_eqb (v_src v) (c_target c)) G1 (ex_intro _ s F)) as [r Hr]. exists r. rewrite Hr. reflexivity.
Qed.
