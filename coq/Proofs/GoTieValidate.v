(** Tie kind A (C03, C19): validateProbe as translated from the source on this run = the model's [valid_probe]. *)
From Coq Require Import ZArith Bool Lia List.
Import ListNotations.
Open Scope Z_scope.
From TR Require Import Eng.Engine Generated.GoValidate.

Theorem go_validateProbe_is_valid_probe first last q :
  go_common_TracerouteParams_validateProbe false (p_ttl q) first last = valid_probe first last q.
Proof.
  unfold go_common_TracerouteParams_validateProbe, valid_probe.
  destruct (Z.ltb_spec (p_ttl q) first), (Z.ltb_spec last (p_ttl q)), (Z.leb_spec first (p_ttl q)), (Z.leb_spec (p_ttl q) last); cbn; try reflexivity; lia.
Qed.

Theorem go_validateProbe_rejects_nil t first last : go_common_TracerouteParams_validateProbe true t first last = false.
Proof. reflexivity. Qed.
