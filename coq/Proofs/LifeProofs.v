From Coq Require Import List ZArith Bool Lia.
From TR Require Import Pol.Lifecycle.
Import ListNotations.
Open Scope Z_scope.

Lemma fires_op f o k : fires f o k = true -> f_op f = o.
Proof. unfold fires. intros H. apply andb_true_iff in H. destruct H as [H _]. destruct (f_op f), o; try discriminate; reflexivity. Qed.

Lemma engine_err : forall plan f a b c kept,
  engine plan f a b c = LErr kept -> (kept = false <-> f_op f = LRead /\ f_class f = FZero).
Proof.
  induction plan as [|o rest IH]; intros f a b c kept H; cbn [engine] in H; [discriminate|].
  destruct o; cbn zeta in H; try (eapply IH; exact H).
  - destruct (fires f LSend (a + 1)) eqn:F; [|eapply IH; exact H]. apply fires_op in F. unfold decide in H.
    destruct (f_class f) eqn:C; cbn in H.
    + injection H as <-. split; [discriminate|intros [E _]; congruence].
    + injection H as <-. split; [discriminate|intros [E _]; congruence].
    + pose proof (IH _ _ _ _ _ H) as X. rewrite C in X. exact X.
  - destruct (fires f LDeadline (b + 1)) eqn:F; [|eapply IH; exact H]. apply fires_op in F. unfold decide in H.
    destruct (f_class f) eqn:C; cbn in H.
    + injection H as <-. split; [discriminate|intros [E _]; congruence].
    + injection H as <-. split; [discriminate|intros [E _]; congruence].
    + pose proof (IH _ _ _ _ _ H) as X. rewrite C in X. exact X.
  - destruct (fires f LRead (c + 1)) eqn:F; [|eapply IH; exact H]. apply fires_op in F. unfold decide in H.
    destruct (f_class f) eqn:C; cbn in H.
    + injection H as <-. split; [discriminate|intros [_ E]; discriminate].
    + pose proof (IH _ _ _ _ _ H) as X. rewrite C in X. exact X.
    + injection H as <-. split; auto.
Qed.

(** C10 on the lifecycle model, for every plan of engine operations and every injected fault *)
Theorem lifecycle_spec plan f :
  let r := fst (run_entry plan f) in let h := snd (run_entry plan f) in
  (* each handle the run opened is closed exactly once and never used afterwards *)
  (h_opened h = true -> h_src_closes h = 1 /\ h_snk_closes h = 1) /\ (h_opened h = false -> h_src_closes h = 0 /\ h_snk_closes h = 0)
  /\ h_used_after_close h = false
  (* all-or-nothing: the outcome is a full success or an error; an error keeps the injected cause unless it is the
     zero-length read, which has no underlying cause *)
  /\ (forall kept, r = LErr kept -> (kept = false <-> f_op f = LRead /\ f_class f = FZero)).
Proof.
  cbn zeta. unfold run_entry.
  destruct (fires f LOpen 1 && negb match f_class f with FZero => true | _ => false end) eqn:E1.
  - cbn [fst snd h_opened h_src_closes h_snk_closes h_used_after_close].
    apply andb_true_iff in E1. destruct E1 as [E1 _]. apply fires_op in E1.
    split; [discriminate|]. split; [auto|]. split; [reflexivity|].
    intros kept H. injection H as <-. split; [discriminate|intros [E _]; congruence].
  - destruct (fires f LFilter 1 && negb match f_class f with FZero => true | _ => false end) eqn:E2.
    + cbn [fst snd h_opened h_src_closes h_snk_closes h_used_after_close].
      apply andb_true_iff in E2. destruct E2 as [E2 _]. apply fires_op in E2.
      split; [auto|]. split; [discriminate|]. split; [reflexivity|].
      intros kept H. injection H as <-. split; [discriminate|intros [E _]; congruence].
    + cbn [fst snd h_opened h_src_closes h_snk_closes h_used_after_close].
      split; [auto|]. split; [discriminate|]. split; [reflexivity|].
      intros kept H. eapply engine_err; exact H.
Qed.

(** a fault that is never reached (k beyond the calls the run makes) leaves the run a success *)
Fixpoint count_op (plan : list lop) (o : lop) : Z :=
  match plan with [] => 0 | x :: r => (if lop_eqb x o then 1 else 0) + count_op r o end.

Lemma count_nonneg plan o : 0 <= count_op plan o.
Proof. induction plan as [|x r IH]; cbn; [lia|]. destruct (lop_eqb x o); lia. Qed.

Lemma engine_unreached f : forall plan a b c,
  (f_op f = LSend -> a + count_op plan LSend < f_k f) -> (f_op f = LDeadline -> b + count_op plan LDeadline < f_k f) ->
  (f_op f = LRead -> c + count_op plan LRead < f_k f) -> engine plan f a b c = LOk.
Proof.
  induction plan as [|o rest IH]; intros a b c Ha Hb Hc; [reflexivity|]. cbn [engine].
  destruct o; cbn [count_op lop_eqb] in *; cbn zeta.
  - apply IH; intros E; [specialize (Ha E)|specialize (Hb E)|specialize (Hc E)]; lia.
  - apply IH; intros E; [specialize (Ha E)|specialize (Hb E)|specialize (Hc E)]; lia.
  - assert (fires f LSend (a + 1) = false) as ->.
    { unfold fires. destruct (f_op f) eqn:O; try reflexivity. specialize (Ha eq_refl). cbn. pose proof (count_nonneg rest LSend). apply Z.eqb_neq. lia. }
    apply IH; intros E; [specialize (Ha E)|specialize (Hb E)|specialize (Hc E)]; lia.
  - assert (fires f LDeadline (b + 1) = false) as ->.
    { unfold fires. destruct (f_op f) eqn:O; try reflexivity. specialize (Hb eq_refl). cbn. pose proof (count_nonneg rest LDeadline). apply Z.eqb_neq. lia. }
    apply IH; intros E; [specialize (Ha E)|specialize (Hb E)|specialize (Hc E)]; lia.
  - assert (fires f LRead (c + 1) = false) as ->.
    { unfold fires. destruct (f_op f) eqn:O; try reflexivity. specialize (Hc eq_refl). cbn. pose proof (count_nonneg rest LRead). apply Z.eqb_neq. lia. }
    apply IH; intros E; [specialize (Ha E)|specialize (Hb E)|specialize (Hc E)]; lia.
Qed.

Theorem unreached_fault_is_harmless plan f :
  f_op f <> LOpen -> f_op f <> LFilter -> count_op plan (f_op f) < f_k f ->
  fst (run_entry plan f) = LOk.
Proof.
  intros H1 H2 Hk. unfold run_entry.
  assert (fires f LOpen 1 = false) as -> by (unfold fires; destruct (f_op f); try reflexivity; congruence).
  assert (fires f LFilter 1 = false) as -> by (unfold fires; destruct (f_op f); try reflexivity; congruence).
  cbn [andb fst].
  apply engine_unreached; intros E; rewrite E in Hk; lia.
Qed.
