(** Exactness of the regenerated programs against the field-level specs:
    for every frame (any length) and every configuration the program's verdict
    equals the spec.  The proof re-runs on every check against the programs
    dumped from the current tree. *)
From Coq Require Import List ZArith Bool Lia.
From TR Require Import Lib.Bytes Bpf.Vm Spec.C12 Generated.BpfProgs.
Import ListNotations.
Open Scope Z_scope.

Ltac bool_close :=
  repeat match goal with
  | H : (_ =? _) = true |- _ => apply Z.eqb_eq in H
  | H : (_ =? _) = false |- _ => apply Z.eqb_neq in H
  end; subst; try congruence; try lia.

(** Walk the decision tree in program order: always split on the scrutinee at
    the head of the left-hand side, so dead branches disappear immediately. *)
Ltac head_scrut t :=
  lazymatch t with
  | match ?x with Some _ => _ | None => _ end => head_scrut x
  | if ?c then _ else _ => head_scrut c
  | negb ?c => head_scrut c
  | andb ?c _ => head_scrut c
  | orb ?c _ => head_scrut c
  | _ => t
  end.

Ltac step :=
  lazymatch goal with
  | |- ?lhs = ?rhs =>
      let s := head_scrut lhs in
      let split t :=
        lazymatch t with
        | true => fail "no scrutinee left"
        | false => fail "no scrutinee left"
        | Some _ => fail "no scrutinee left"
        | None => fail "no scrutinee left"
        | _ => destruct t eqn:?
        end in
      lazymatch s with
      | true => let s' := head_scrut rhs in split s'
      | false => let s' := head_scrut rhs in split s'
      | _ => split s
      end; lazy beta iota; cbn [negb andb orb]
  end.
Ltac go := first [ reflexivity | solve [bool_close] | step; go ].

Ltac tree :=
  unfold accepts, exec;
  lazy beta iota zeta delta [run nth_error length Nat.add]; go.

Lemma decode_static_ok :
  is_some (decode_all raw_icmp) && is_some (decode_all raw_udp)
  && is_some (decode_all raw_synack) && is_some (decode_all raw_dropall) = true.
Proof. vm_compute. reflexivity. Qed.

Lemma decode_tcp4_ok s d sp dp : is_some (decode_all (raw_tcp4 s d sp dp)) = true.
Proof. vm_compute. reflexivity. Qed.

Lemma dropall_exact f : accepts (prog_of raw_dropall) f = dropall_specb f.
Proof. reflexivity. Qed.

Lemma icmp_exact f : accepts (prog_of raw_icmp) f = icmp_specb f.
Proof.
  unfold icmp_specb, oeq.
  let t := eval vm_compute in (prog_of raw_icmp) in change (prog_of raw_icmp) with t.
  tree.
Qed.

Lemma udp_exact f : accepts (prog_of raw_udp) f = udp_specb f.
Proof.
  unfold udp_specb, oeq.
  let t := eval vm_compute in (prog_of raw_udp) in change (prog_of raw_udp) with t.
  tree.
Qed.

Lemma synack_exact f : accepts (prog_of raw_synack) f = synack_specb f.
Proof.
  unfold synack_specb, unfragmented, oeq.
  let t := eval vm_compute in (prog_of raw_synack) in change (prog_of raw_synack) with t.
  tree.
Qed.

Lemma tcp4_exact s d sp dp f :
  accepts (prog_of (raw_tcp4 s d sp dp)) f = tcp4_specb s d sp dp f.
Proof.
  unfold tcp4_specb, unfragmented, oeq.
  let t := eval vm_compute in (prog_of (raw_tcp4 s d sp dp)) in
    change (prog_of (raw_tcp4 s d sp dp)) with t.
  tree.
Qed.

(** "SYN and ACK set" on a flag byte, in the form the property uses. *)
Lemma synack_bits_byte : forall fl, 0 <= fl < 256 ->
  (negb (Z.land fl 2 =? 0) && negb (Z.land fl 16 =? 0)) = (Z.land fl 18 =? 18).
Proof.
  intros fl Hfl.
  assert (H : forallb (fun n => Bool.eqb (negb (Z.land (Z.of_nat n) 2 =? 0) && negb (Z.land (Z.of_nat n) 16 =? 0))
                                        (Z.land (Z.of_nat n) 18 =? 18)) (seq 0 256) = true) by (vm_compute; reflexivity).
  rewrite forallb_forall in H.
  specialize (H (Z.to_nat fl)). rewrite Z2Nat.id in H by lia.
  apply eqb_prop, H, in_seq. lia.
Qed.
