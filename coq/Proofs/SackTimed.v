(** C08 for the SACK path: the handshake reader is bounded by its single deadline for EVERY packet stream, and the
    whole SACK run by (run deadline) + (handshake read timeout) + (one poll interval). *)
From Coq Require Import List ZArith Bool Lia.
From TR Require Import Lib.Bytes Wire.Decode Drv.Drivers Drv.Handshake Eng.Engine Eng.Timed Proofs.EngTimed Generated.Structure.
Import ListNotations.
Open Scope Z_scope.

Theorem handshake_read_bounded c D : forall frames,
  0 <= D -> Forall (fun x => 0 <= fst x) frames ->
  0 <= snd (read_handshake_timed c D frames) <= D.
Proof.
  induction frames as [|[a f] r IH]; intros HD HF; cbn [read_handshake_timed snd]; [lia|].
  inversion HF as [|x l Ha HF']; subst. cbn [fst] in Ha.
  destruct (D <=? a) eqn:E; [cbn; lia|]. apply Z.leb_gt in E.
  destruct (frame_parse f) as [v| |]; [|apply IH; assumption|cbn; lia].
  destruct (handle_handshake c v); try (cbn; lia). apply IH; assumption.
Qed.

(** the whole SACK run: dial (returns by the run deadline M — an oracle on net.Dialer with a context), then the
    handshake reader, then the parallel engine under the SAME context (cancelled at M) *)
Definition sack_total (M dial hs : Z) (p : tparams) (script : list entry) : option Z :=
  match parallel_run_cancelled p script (Z.max 0 (M - (dial + hs))) with
  | TDone r => Some (dial + hs + tr_elapsed r)
  | _ => None
  end.

Theorem sack_total_bounded M dial hs p script total :
  0 <= dial <= M -> 0 <= hs <= handshake_read_timeout ->
  sack_total M dial hs p script = Some total ->
  total < M + handshake_read_timeout + tp_poll p.
Proof.
  intros Hd Hh. unfold sack_total.
  destruct (parallel_run_cancelled p script (Z.max 0 (M - (dial + hs)))) as [r| | | |] eqn:R; try discriminate.
  intros H. injection H as <-.
  destruct (parallel_run_cancel_spec p script (Z.max 0 (M - (dial + hs))) r ltac:(lia) R) as [_ H2]. lia.
Qed.

(** tie to the source (regenerated on every run): ReadHandshake arms exactly one read deadline before its loop, nothing
    the loop runs re-arms one, and the deadline is the model's *)
Theorem handshake_reader_structure :
  sack_handshake_deadlines_before_loop = 1 /\ sack_handshake_deadline_in_loop = false /\ sack_handshake_timeout_ns = handshake_read_timeout.
Proof. repeat split; reflexivity. Qed.
