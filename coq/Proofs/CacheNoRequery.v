(** C18 "cached lookups return the stored success until expiry without re-querying": over EVERY operation sequence on a
    non-decreasing clock, the cache model never invokes the callback while a success it stored for that key is still
    within the lifetime it was stored with. *)
From Coq Require Import List ZArith Bool Lia.
From TR Require Import Pol.Cache.
Import ListNotations.
Open Scope Z_scope.

Fixpoint times_ok (T : Z) (ops : list cop) : Prop :=
  match ops with [] => True | o :: r => T <= op_now o /\ times_ok (op_now o) r end.

(** every stored success with a positive lifetime is still served at any later instant inside that lifetime *)
Definition live_inv (hist : list (cop * (option Z * bool))) (s : cstate) (T : Z) : Prop :=
  forall h v, In h hist -> snd (snd h) = true -> fst (snd h) = Some v -> 0 < op_expire (fst h) ->
  forall now, T <= now -> now < op_now (fst h) + op_expire (fst h) ->
  exists v', cache_get s now (op_key (fst h)) = Some v'.

Lemma lookup_other k k' v e s : k' <> k ->
  lookup_item (mkItem k v e :: filter (fun i => negb (it_key i =? k)) s) k' = lookup_item s k'.
Proof.
  intros Hne. unfold lookup_item. cbn [find it_key].
  replace (k =? k') with false by (symmetry; apply Z.eqb_neq; congruence).
  induction s as [|i s IH]; [reflexivity|]. cbn [filter find].
  destruct (it_key i =? k) eqn:E; cbn [negb].
  - apply Z.eqb_eq in E. replace (it_key i =? k') with false by (symmetry; apply Z.eqb_neq; congruence). exact IH.
  - cbn [find]. destruct (it_key i =? k'); [reflexivity|exact IH].
Qed.

Lemma get_after_set dflt s now k v e now' : 0 < e -> now' < now + e ->
  cache_get (cache_set dflt s now k v e) now' k = Some v.
Proof.
  intros He Hn. unfold cache_get, cache_set, lookup_item. cbn [find it_key]. rewrite Z.eqb_refl. cbn [it_exp it_val].
  replace (e =? 0) with false by (symmetry; apply Z.eqb_neq; lia).
  replace (0 <? e) with true by (symmetry; apply Z.ltb_lt; lia).
  replace (now + e <? now') with false by (symmetry; apply Z.ltb_ge; lia).
  rewrite andb_false_r. reflexivity.
Qed.

Lemma get_other_after_set dflt s now k v e now' k' : k' <> k ->
  cache_get (cache_set dflt s now k v e) now' k' = cache_get s now' k'.
Proof. intros Hne. unfold cache_get, cache_set. rewrite lookup_other by exact Hne. reflexivity. Qed.

Lemma norequery_step dflt hist s T o :
  live_inv hist s T -> T <= op_now o ->
  let c := get_or_compute dflt s (op_now o) (op_key o) (op_cb o) (op_expire o) in
  requeried_early hist o (cr_val c, cr_called c) = false
  /\ live_inv ((o, (cr_val c, cr_called c)) :: hist) (cr_state c) (op_now o).
Proof.
  intros Inv HT c. unfold c, get_or_compute.
  assert (Weak : live_inv hist s (op_now o)).
  { intros h v Hin Hc Hv He now Hn Hw. apply (Inv h v Hin Hc Hv He now); lia. }
  destruct (cache_get s (op_now o) (op_key o)) as [v0|] eqn:G.
  - (* served from the cache *)
    cbn [cr_val cr_called cr_state]. split; [reflexivity|].
    intros h v [<-|Hin] Hc Hv He now Hn Hw; [discriminate Hc|]. exact (Weak h v Hin Hc Hv He now Hn Hw).
  - assert (NoLive : forall h v, In h hist -> snd (snd h) = true -> fst (snd h) = Some v -> 0 < op_expire (fst h) ->
                      op_key (fst h) = op_key o -> op_now (fst h) + op_expire (fst h) <= op_now o).
    { intros h v Hin Hc Hv He Hk. destruct (Z_lt_le_dec (op_now o) (op_now (fst h) + op_expire (fst h))) as [Hlt|]; [|assumption].
      destruct (Inv h v Hin Hc Hv He (op_now o) HT Hlt) as [v' Hg]. rewrite Hk, G in Hg. discriminate. }
    assert (NotEarly : forall r, requeried_early hist o r = false).
    { intros r. unfold requeried_early. destruct (snd r); [|reflexivity]. cbn [andb].
      apply not_true_is_false. intros Hex. apply existsb_exists in Hex. destruct Hex as [h [Hin Hb]].
      apply andb_true_iff in Hb. destruct Hb as [Hb Hw]. apply andb_true_iff in Hb. destruct Hb as [Hb He].
      apply andb_true_iff in Hb. destruct Hb as [Hb Hs]. apply andb_true_iff in Hb. destruct Hb as [Hk Hc].
      apply Z.eqb_eq in Hk. apply Z.ltb_lt in He. apply Z.ltb_lt in Hw.
      destruct (fst (snd h)) as [v|] eqn:Hv; [|discriminate].
      pose proof (NoLive h v Hin Hc Hv He Hk). lia. }
    destruct (op_cb o) as [v|] eqn:Ecb; cbn [cr_val cr_called cr_state].
    + split; [apply NotEarly|].
      intros h v1 [<-|Hin] Hc Hv He now Hn Hw.
      * cbn [fst snd] in *. exists v. apply get_after_set; assumption.
      * destruct (Z.eq_dec (op_key (fst h)) (op_key o)) as [Hk|Hk].
        -- pose proof (NoLive h v1 Hin Hc Hv He Hk). lia.
        -- rewrite get_other_after_set by exact Hk. exact (Weak h v1 Hin Hc Hv He now Hn Hw).
    + split; [apply NotEarly|].
      intros h v1 [<-|Hin] Hc Hv He now Hn Hw; [discriminate Hv|]. exact (Weak h v1 Hin Hc Hv He now Hn Hw).
Qed.

Theorem cache_never_requeries_early dflt : forall ops hist s T,
  live_inv hist s T -> times_ok T ops -> cache_norequery hist ops (run_cache dflt s ops) = true.
Proof.
  induction ops as [|o ops IH]; intros hist s T Inv Ht; [reflexivity|].
  destruct Ht as [HT Ht]. cbn [run_cache cache_norequery].
  destruct (norequery_step dflt hist s T o Inv HT) as [E Inv']. cbn zeta in E, Inv'.
  rewrite E. cbn [negb andb]. exact (IH _ _ _ Inv' Ht).
Qed.

(** from the empty cache: the statement the correspondence check evaluates on the implementation *)
Corollary cache_never_requeries_early_from_empty dflt ops T :
  times_ok T ops -> cache_norequery [] ops (run_cache dflt [] ops) = true.
Proof. apply cache_never_requeries_early. intros h v []. Qed.

(** non-vacuity: a sequence in which the clause has something to forbid (a second lookup inside the lifetime is served
    from the cache; one after it calls back again) *)
Example norequery_example :
  let ops := [mkCop 0 7 (Some 1) 100; mkCop 50 7 (Some 2) 100; mkCop 101 7 (Some 3) 100] in
  times_ok 0 ops /\ run_cache 300 [] ops = [(Some 1, true); (Some 1, false); (Some 3, true)]
  /\ cache_norequery [] ops [(Some 1, true); (Some 2, true); (Some 3, true)] = false.
Proof. cbn. repeat split; lia. Qed.
