(** Tie kind A (C07, C04): the merge rule of both engines as translated from the source = the model's [should_update]. *)
From Coq Require Import ZArith Bool Lia List.
Import ListNotations.
Open Scope Z_scope.
From TR Require Import Eng.Engine Generated.GoMerge.

Theorem go_parallel_merge_rule prev p :
  go_parallel_shouldUpdate (match prev with None => true | Some _ => false end) (is_dest prev) (p_dest p) = should_update prev p.
Proof. destruct prev as [q|]; cbn; [destruct (p_dest q), (p_dest p); reflexivity|reflexivity]. Qed.

Theorem go_serial_merge_rule prev p :
  go_serial_shouldUpdate (match prev with None => true | Some _ => false end) (is_dest prev) (p_dest p) = should_update prev p.
Proof. destruct prev as [q|]; cbn; [destruct (p_dest q), (p_dest p); reflexivity|reflexivity]. Qed.

(** an empty slot is always filled, whatever flag value the code would read next to it *)
Theorem go_merge_rule_empty_slot b p : go_parallel_shouldUpdate true b (p_dest p) = true /\ go_serial_shouldUpdate true b (p_dest p) = true.
Proof. split; destruct b, (p_dest p); reflexivity. Qed.
