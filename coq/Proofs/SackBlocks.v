(** C02 / C09 for SACK acknowledgements with any number of blocks: the driver model's [sack_edges] is the running minimum of
    the RELATIVE left edges (modulo 2^32, so blocks straddling the sequence wrap are compared correctly), whatever the
    order of the blocks, and up to seven stray bytes after the last whole block are ignored. *)
From Coq Require Import List ZArith Bool Lia Permutation.
From TR Require Import Lib.Bytes Wire.Build Drv.Drivers Proofs.ByteComplete.
Import ListNotations.
Open Scope Z_scope.

Definition block_bytes (b : Z * Z) : bytes := u32b (fst b) ++ u32b (snd b).
Definition blocks_data (bs : list (Z * Z)) (stray : bytes) : bytes := concat (map block_bytes bs) ++ stray.

Definition rel (init le : Z) : Z := (le - init) mod 4294967296.
Definition min_step (init : Z) (cur : option Z) (b : Z * Z) : option Z :=
  Some (match cur with Some m => Z.min m (rel init (fst b)) | None => rel init (fst b) end).

Lemma sack_edges_short init data : forall fuel cur, (length data < 8)%nat -> sack_edges init data fuel cur = cur.
Proof.
  intros fuel cur H.
  do 8 (destruct data as [|? data]; [destruct fuel; reflexivity|]). cbn [length] in H. lia.
Qed.

Theorem sack_edges_blocks init : forall bs stray fuel cur,
  (length stray < 8)%nat -> (length bs <= fuel)%nat -> Forall (fun b => 0 <= fst b < 4294967296) bs ->
  sack_edges init (blocks_data bs stray) fuel cur = fold_left (min_step init) bs cur.
Proof.
  induction bs as [|b bs IH]; intros stray fuel cur Hs Hf Hb.
  - cbn [blocks_data map concat app fold_left]. apply sack_edges_short. exact Hs.
  - destruct fuel as [|f]; [cbn [length] in Hf; lia|].
    inversion Hb as [|? ? Hb1 Hb2]; subst.
    unfold blocks_data. cbn [map concat]. unfold block_bytes at 1. unfold u32b. cbn [app sack_edges fold_left].
    rewrite (u32_bytes (fst b) Hb1).
    fold (blocks_data bs stray). unfold min_step at 2. fold (rel init (fst b)).
    apply IH; [exact Hs|cbn [length] in Hf; lia|exact Hb2].
Qed.

(** the result over a non-empty list of blocks: a lower bound of every relative left edge that is attained by one of them *)
Lemma fold_min_spec init : forall bs cur m,
  fold_left (min_step init) bs cur = Some m ->
  (forall b, In b bs -> m <= rel init (fst b)) /\ (match cur with Some c => m <= c | None => True end)
  /\ ((exists b, In b bs /\ m = rel init (fst b)) \/ cur = Some m).
Proof.
  induction bs as [|b bs IH]; intros cur m H.
  - cbn in H. subst cur. split; [intros b []|]. split; [lia|right; reflexivity].
  - cbn [fold_left] in H. destruct (IH _ _ H) as [A [B C]]. unfold min_step in B, C. cbn beta iota in B.
    split; [|split].
    + intros b' [<-|Hin]; [destruct cur; lia|apply A; exact Hin].
    + destruct cur; [lia|exact I].
    + destruct C as [[b' [Hin E]]|E]; [left; exists b'; split; [right; exact Hin|exact E]|].
      injection E as E. destruct cur as [c|].
      * destruct (Z.min_spec c (rel init (fst b))) as [[_ Hm]|[_ Hm]]; rewrite Hm in E.
        -- right. congruence.
        -- left. exists b. split; [left; reflexivity|congruence].
      * left. exists b. split; [left; reflexivity|congruence].
Qed.

Lemma blocks_data_fuel bs stray : (length bs <= length (blocks_data bs stray))%nat.
Proof.
  unfold blocks_data. rewrite app_length.
  assert (H : (length bs <= length (concat (map block_bytes bs)))%nat).
  { induction bs as [|b bs IH]; [cbn; lia|]. cbn [map concat]. rewrite app_length.
    replace (length (block_bytes b)) with 8%nat by reflexivity. cbn [length]. lia. }
  lia.
Qed.

Theorem sack_option_minimum init bs stray m :
  bs <> [] -> (length stray < 8)%nat -> Forall (fun b => 0 <= fst b < 4294967296) bs ->
  min_sack init [(5, blocks_data bs stray)] = Some m ->
  (forall b, In b bs -> m <= rel init (fst b)) /\ exists b, In b bs /\ m = rel init (fst b).
Proof.
  intros Hne Hs Hb H. unfold min_sack in H. cbn [fold_left fst snd] in H. replace (5 =? 5) with true in H by reflexivity.
  rewrite sack_edges_blocks in H; [|exact Hs| |exact Hb].
  - destruct (fold_min_spec init bs None m H) as [A [_ [C|C]]]; [split; assumption|discriminate].
  - apply blocks_data_fuel.
Qed.

(** ... and some block there always is a result *)
Lemma fold_min_some init : forall bs c, exists m, fold_left (min_step init) bs (Some c) = Some m.
Proof. induction bs as [|b bs IH]; intros c; [exists c; reflexivity|]. cbn [fold_left]. unfold min_step at 2. apply IH. Qed.

Theorem sack_option_some init bs stray :
  bs <> [] -> (length stray < 8)%nat -> Forall (fun b => 0 <= fst b < 4294967296) bs ->
  exists m, min_sack init [(5, blocks_data bs stray)] = Some m.
Proof.
  intros Hne Hs Hb. unfold min_sack. cbn [fold_left fst snd]. replace (5 =? 5) with true by reflexivity.
  rewrite sack_edges_blocks; [|exact Hs|apply blocks_data_fuel|exact Hb].
  destruct bs as [|b bs]; [congruence|]. cbn [fold_left]. unfold min_step at 2. apply fold_min_some.
Qed.

(** the order of the blocks and the stray bytes do not matter *)
Theorem sack_blocks_order_irrelevant init bs bs' stray stray' :
  Permutation bs bs' -> (length stray < 8)%nat -> (length stray' < 8)%nat ->
  Forall (fun b => 0 <= fst b < 4294967296) bs ->
  min_sack init [(5, blocks_data bs stray)] = min_sack init [(5, blocks_data bs' stray')].
Proof.
  intros P Hs Hs' Hb.
  assert (Hb' : Forall (fun b => 0 <= fst b < 4294967296) bs').
  { rewrite Forall_forall in *. intros b Hin. apply Hb. eapply Permutation_in; [apply Permutation_sym; exact P|exact Hin]. }
  destruct bs as [|b0 bs0].
  - apply Permutation_nil in P. subst bs'. unfold min_sack, blocks_data. cbn [map concat app fold_left fst snd].
    replace (5 =? 5) with true by reflexivity. rewrite !sack_edges_short by assumption. reflexivity.
  - assert (N : b0 :: bs0 <> []) by discriminate.
    assert (N' : bs' <> []) by (intros ->; apply Permutation_sym, Permutation_nil in P; discriminate).
    destruct (sack_option_some init _ stray N Hs Hb) as [m E]. destruct (sack_option_some init _ stray' N' Hs' Hb') as [m' E'].
    destruct (sack_option_minimum init _ stray m N Hs Hb E) as [L [b [Hin Eb]]].
    destruct (sack_option_minimum init _ stray' m' N' Hs' Hb' E') as [L' [b' [Hin' Eb']]].
    assert (m <= m') by (rewrite Eb'; apply L; eapply Permutation_in; [apply Permutation_sym; exact P|exact Hin']).
    assert (m' <= m) by (rewrite Eb; apply L'; eapply Permutation_in; [exact P|exact Hin]).
    rewrite E, E'. f_equal. lia.
Qed.

(** blocks straddling the 2^32 wrap: ISN 0xfffffffe, blocks for the probes with TTL 4 (wrapped to 2) and TTL 1 in either order *)
Example sack_wrap_example :
  min_sack 4294967294 [(5, blocks_data [(2, 3); (4294967295, 0)] [])] = Some 1
  /\ min_sack 4294967294 [(5, blocks_data [(4294967295, 0); (2, 3)] [170; 171; 172])] = Some 1.
Proof. split; reflexivity. Qed.
