(** Theorems about the result-document model (C15, C16, C17, C18-enrichment). *)
From Coq Require Import List ZArith Bool Lia Arith Permutation.
From TR Require Import Res.Doc.
Import ListNotations.
Open Scope Z_scope.

(** ---------------- C17: private ranges ---------------- *)
Definition byte (b : Z) : Prop := 0 <= b < 256.

Lemma land240 b : byte b -> (Z.land b 240 =? 16) = ((16 <=? b) && (b <=? 31)).
Proof.
  intros H. assert (In b (map Z.of_nat (seq 0 256))) as Hin.
  { apply in_map_iff. exists (Z.to_nat b). split; [unfold byte in H; lia|]. apply in_seq. unfold byte in H; lia. }
  revert b Hin H. 
  assert (forallb (fun b => Bool.eqb (Z.land b 240 =? 16) ((16 <=? b) && (b <=? 31))) (map Z.of_nat (seq 0 256)) = true) as F by (vm_compute; reflexivity).
  rewrite forallb_forall in F. intros b Hin _. apply F in Hin. apply eqb_prop in Hin. exact Hin.
Qed.

Lemma land254 b : byte b -> (Z.land b 254 =? 252) = ((252 <=? b) && (b <=? 253)).
Proof.
  intros H. assert (In b (map Z.of_nat (seq 0 256))) as Hin.
  { apply in_map_iff. exists (Z.to_nat b). split; [unfold byte in H; lia|]. apply in_seq. unfold byte in H; lia. }
  assert (forallb (fun b => Bool.eqb (Z.land b 254 =? 252) ((252 <=? b) && (b <=? 253))) (map Z.of_nat (seq 0 256)) = true) as F by (vm_compute; reflexivity).
  rewrite forallb_forall in F. apply F in Hin. apply eqb_prop in Hin. exact Hin.
Qed.

Definition v4val (a b c d : Z) : Z := 16777216 * a + 65536 * b + 256 * c + d.
Definition in_private_v4 (v : Z) : Prop :=
  v4val 10 0 0 0 <= v <= v4val 10 255 255 255
  \/ v4val 172 16 0 0 <= v <= v4val 172 31 255 255
  \/ v4val 192 168 0 0 <= v <= v4val 192 168 255 255.

Theorem is_private_v4 a b c d : byte a -> byte b -> byte c -> byte d ->
  (is_private [a; b; c; d] = true <-> in_private_v4 (v4val a b c d)).
Proof.
  intros Ha Hb Hc Hd. unfold is_private. cbn [to4]. rewrite land240 by exact Hb.
  unfold in_private_v4, v4val, byte in *.
  rewrite !orb_true_iff, !andb_true_iff, !Z.eqb_eq, !Z.leb_le. lia.
Qed.

Theorem is_private_mapped a b c d :
  is_private [0; 0; 0; 0; 0; 0; 0; 0; 0; 0; 255; 255; a; b; c; d] = is_private [a; b; c; d].
Proof. reflexivity. Qed.

Theorem is_private_v6 ip : length ip = 16%nat -> to4 ip = None -> Forall byte ip ->
  (is_private ip = true <-> 252 <= hd 0 ip <= 253).
Proof.
  intros Hl Ht Hb. unfold is_private. rewrite Ht. rewrite Hl.
  replace (Z.of_nat 16 =? 16) with true by reflexivity. cbn [andb].
  destruct ip as [|x t]; [discriminate|]. inversion Hb; subst. cbn [hd].
  rewrite land254 by assumption. rewrite andb_true_iff. rewrite !Z.leb_le. tauto.
Qed.

Lemma is_private_nil : is_private [] = false. Proof. reflexivity. Qed.

(** redaction, per run *)
Definition blank (h : hopd) : Prop := hd_ip h = [] /\ hd_rtt h = 0 /\ hd_reach h = false /\ hd_rdns h = [] /\ hd_dest h = false.

Theorem redact_run_spec r :
  length (rd_hops (redact_run r)) = length (rd_hops r)
  /\ map hd_ttl (rd_hops (redact_run r)) = map hd_ttl (rd_hops r)
  /\ Forall (fun h => is_private (hd_ip h) = false) (rd_hops (redact_run r))
  /\ Forall2 (fun h h' => if is_private (hd_ip h) then blank h' /\ hd_ttl h' = hd_ttl h else h' = h)
             (rd_hops r) (rd_hops (redact_run r)).
Proof.
  unfold redact_run; cbn [rd_hops]. induction (rd_hops r) as [|h t IH]; cbn [map length].
  - repeat split; constructor.
  - destruct IH as [I1 [I2 [I3 I4]]]. repeat split.
    + rewrite I1. reflexivity.
    + rewrite I2. f_equal. unfold redact_hop. destruct (is_private (hd_ip h)); reflexivity.
    + constructor; [|exact I3]. unfold redact_hop. destruct (is_private (hd_ip h)) eqn:E; [reflexivity|exact E].
    + constructor; [|exact I4]. unfold redact_hop. destruct (is_private (hd_ip h)) eqn:E; [|reflexivity].
      unfold blank; cbn. tauto.
Qed.

(** the pipeline applies redaction last: after enrichment and normalisation *)
Theorem pipeline_order fl rv runs :
  pipeline_runs fl rv runs =
  (if f_skip_private fl then map redact_run else (fun x => x))
    (map norm_run ((if f_rdns fl then map (enrich_run rv) else (fun x => x)) runs)).
Proof. unfold pipeline_runs. destruct (f_rdns fl), (f_skip_private fl); reflexivity. Qed.

Theorem pipeline_no_private rv rd runs :
  Forall (fun r => Forall (fun h => is_private (hd_ip h) = false) (rd_hops r))
         (pipeline_runs (mkFlags rd true false) rv runs).
Proof.
  unfold pipeline_runs; cbn. apply Forall_forall. intros r Hin. apply in_map_iff in Hin.
  destruct Hin as [r0 [<- _]]. apply redact_run_spec.
Qed.

(** ---------------- C18: enrichment ---------------- *)
Theorem enrich_hop_spec rv h :
  hd_rdns (enrich_hop rv h) = resolve rv (hd_ip h)
  /\ hd_ttl (enrich_hop rv h) = hd_ttl h /\ hd_ip (enrich_hop rv h) = hd_ip h /\ hd_rtt (enrich_hop rv h) = hd_rtt h
  /\ hd_reach (enrich_hop rv h) = hd_reach h /\ hd_dest (enrich_hop rv h) = hd_dest h.
Proof. cbn. tauto. Qed.

Theorem enrich_run_spec rv r :
  rd_dst_rdns (enrich_run rv r) = resolve rv (rd_dst_ip r)
  /\ map hd_rdns (rd_hops (enrich_run rv r)) = map (fun h => resolve rv (hd_ip h)) (rd_hops r)
  /\ map (fun h => (hd_ttl h, hd_ip h, hd_rtt h, hd_reach h, hd_dest h)) (rd_hops (enrich_run rv r))
     = map (fun h => (hd_ttl h, hd_ip h, hd_rtt h, hd_reach h, hd_dest h)) (rd_hops r)
  /\ rd_src_ip (enrich_run rv r) = rd_src_ip r /\ rd_dst_ip (enrich_run rv r) = rd_dst_ip r.
Proof.
  cbn. repeat split. all: induction (rd_hops r) as [|h t IH]; cbn; [reflexivity|rewrite IH; reflexivity].
Qed.

(** a failed or absent lookup leaves the names empty; an empty hop is never looked up *)
Theorem resolve_failure rv ip :
  (forall names, ~ In (canon ip, Some names) rv) -> resolve rv ip = [].
Proof.
  intros H. unfold resolve. destruct ip as [|x t]; [reflexivity|].
  destruct (find (fun e => ip_eqb (fst e) (canon (x :: t))) rv) as [[k [names|]]|] eqn:F; try reflexivity.
  exfalso. apply find_some in F. destruct F as [Hin Heq]. cbn in Heq.
  assert (k = canon (x :: t)) as ->.
  { clear -Heq. revert Heq. generalize (canon (x :: t)). induction k as [|a k IH]; intros [|b l]; cbn; intros H; try discriminate; [reflexivity|].
    apply andb_true_iff in H. destruct H as [H1 H2]. apply Z.eqb_eq in H1. f_equal; auto. }
  eapply H; eauto.
Qed.

(** ---------------- C16: normalisation ---------------- *)
Theorem norm_reachable h : hd_reach h = false -> hd_reach (norm_hop h) = has_addr (hd_ip h).
Proof. intros H. cbn. rewrite H. reflexivity. Qed.

Theorem norm_keeps h : hd_ttl (norm_hop h) = hd_ttl h /\ hd_ip (norm_hop h) = hd_ip h /\ hd_rtt (norm_hop h) = hd_rtt h
  /\ hd_rdns (norm_hop h) = hd_rdns h /\ hd_dest (norm_hop h) = hd_dest h.
Proof. cbn. tauto. Qed.

Lemma last_addr_bounds hs : forall i cur,
  (match cur with Some c => 1 <= c <= i | None => True end) -> 0 <= i ->
  match last_addr hs i cur with
  | Some c => 1 <= c <= i + Z.of_nat (length hs)
  | None => True
  end.
Proof.
  induction hs as [|h t IH]; intros i cur Hc Hi; cbn [last_addr length].
  - destruct cur; [lia|exact I].
  - specialize (IH (i + 1) (if has_addr (hd_ip h) then Some (i + 1) else cur)).
    destruct (last_addr t (i + 1) (if has_addr (hd_ip h) then Some (i + 1) else cur)); [|exact I].
    assert (1 <= z <= i + 1 + Z.of_nat (length t)).
    { apply IH; [|lia]. destruct (has_addr (hd_ip h)); [lia|]. destruct cur; [lia|exact I]. }
    lia.
Qed.

Theorem hop_count_bounds r : rd_hops r <> [] -> 1 <= hop_count r <= Z.of_nat (length (rd_hops r)).
Proof.
  intros H. unfold hop_count. pose proof (last_addr_bounds (rd_hops r) 0 None I ltac:(lia)) as B.
  destruct (last_addr (rd_hops r) 0 None); [lia|]. destruct (rd_hops r); [congruence|]. cbn [length]. lia.
Qed.

Lemma fold_min_step cs : forall m, 0 < m -> Forall (fun c => 0 < c) cs ->
  0 < fold_left min_step cs m /\ fold_left min_step cs m <= m
  /\ Forall (fun c => fold_left min_step cs m <= c) cs
  /\ (fold_left min_step cs m = m \/ In (fold_left min_step cs m) cs).
Proof.
  induction cs as [|c t IH]; intros m Hm Hall; cbn [fold_left].
  - repeat split; auto; lia.
  - inversion Hall as [|? ? Hc Ht]; subst.
    assert (Hs : 0 < min_step m c /\ min_step m c <= m /\ min_step m c <= c /\ (min_step m c = m \/ min_step m c = c)).
    { unfold min_step. destruct (c <? m) eqn:E1; cbn [orb].
      - apply Z.ltb_lt in E1. lia.
      - apply Z.ltb_ge in E1. destruct (m =? 0) eqn:E2; [apply Z.eqb_eq in E2; lia|]. lia. }
    destruct Hs as [S1 [S2 [S3 S4]]].
    destruct (IH (min_step m c) S1 Ht) as [I1 [I2 [I3 I4]]].
    repeat split; [exact I1|lia| |].
    + constructor; [lia|exact I3].
    + destruct I4 as [I4|I4]; [|right; right; exact I4]. rewrite I4. destruct S4 as [->| ->]; [left; reflexivity|right; left; reflexivity].
Qed.

Lemma fold_max_step cs : forall m,
  m <= fold_left max_step cs m /\ Forall (fun c => c <= fold_left max_step cs m) cs
  /\ (fold_left max_step cs m = m \/ In (fold_left max_step cs m) cs).
Proof.
  induction cs as [|c t IH]; intros m; cbn [fold_left].
  - repeat split; auto; lia.
  - assert (Hs : m <= max_step m c /\ c <= max_step m c /\ (max_step m c = m \/ max_step m c = c)).
    { unfold max_step. destruct (m <? c) eqn:E; [apply Z.ltb_lt in E|apply Z.ltb_ge in E]; lia. }
    destruct Hs as [S1 [S2 S3]]. destruct (IH (max_step m c)) as [I1 [I2 I3]].
    repeat split; [lia| |].
    + constructor; [lia|exact I2].
    + destruct I3 as [I3|I3]; [|right; right; exact I3]. rewrite I3. destruct S3 as [->| ->]; [left; reflexivity|right; left; reflexivity].
Qed.

Lemma fold_add_bounds cs : forall acc lo hi, Forall (fun c => lo <= c <= hi) cs ->
  acc + Z.of_nat (length cs) * lo <= fold_left Z.add cs acc <= acc + Z.of_nat (length cs) * hi.
Proof.
  induction cs as [|c t IH]; intros acc lo hi H; cbn [fold_left length]; [lia|].
  inversion H as [|? ? Hc Ht]; subst. specialize (IH (acc + c) lo hi Ht). lia.
Qed.

(** hop-count statistics: 1 <= min <= avg <= max <= longest run, min and max are counts of actual runs *)
Theorem hop_stats_spec runs :
  runs <> [] -> Forall (fun r => rd_hops r <> []) runs ->
  let s := hop_stats runs in
  hs_n s = Z.of_nat (length runs)
  /\ 1 <= hs_min s /\ hs_min s <= hs_max s
  /\ hs_n s * hs_min s <= hs_total s <= hs_n s * hs_max s          (* min <= avg <= max, cross-multiplied *)
  /\ In (hs_min s) (map hop_count runs) /\ In (hs_max s) (map hop_count runs)
  /\ (exists r, In r runs /\ hs_max s <= Z.of_nat (length (rd_hops r))).
Proof.
  intros Hne Hall. cbn zeta. unfold hop_stats; cbn [hs_n hs_min hs_max hs_total]. rewrite map_length.
  set (cs := map hop_count runs).
  assert (Hpos : Forall (fun c => 0 < c) cs).
  { unfold cs. apply Forall_forall. intros c Hin. apply in_map_iff in Hin. destruct Hin as [r [<- Hr]].
    rewrite Forall_forall in Hall. pose proof (hop_count_bounds r (Hall r Hr)). lia. }
  destruct runs as [|r0 rs]; [congruence|]. 
  assert (Hcs : cs = hop_count r0 :: map hop_count rs) by reflexivity.
  assert (Hmin : fold_left min_step cs 0 = fold_left min_step (map hop_count rs) (hop_count r0)).
  { rewrite Hcs. cbn [fold_left]. unfold min_step at 2. cbn. rewrite orb_true_r. reflexivity. }
  assert (Hmax : fold_left max_step cs 0 = fold_left max_step (map hop_count rs) (hop_count r0)).
  { rewrite Hcs. cbn [fold_left]. unfold max_step at 2. inversion Hpos; subst. rewrite Hcs in *.
    match goal with H : 0 < hop_count r0 |- _ => apply Z.ltb_lt in H; rewrite H end. reflexivity. }
  rewrite Hcs in Hpos. inversion Hpos as [|? ? P0 Prs]; subst.
  destruct (fold_min_step (map hop_count rs) (hop_count r0) P0 Prs) as [M1 [M2 [M3 M4]]].
  destruct (fold_max_step (map hop_count rs) (hop_count r0)) as [X1 [X2 X3]].
  rewrite Hmin, Hmax.
  set (mn := fold_left min_step (map hop_count rs) (hop_count r0)) in *.
  set (mx := fold_left max_step (map hop_count rs) (hop_count r0)) in *.
  assert (Hb : Forall (fun c => mn <= c <= mx) cs).
  { rewrite Hcs. constructor; [lia|]. rewrite Forall_forall in *. intros c Hc. split; [apply M3|apply X2]; exact Hc. }
  pose proof (fold_add_bounds cs 0 mn mx Hb) as FB.
  assert (Hlen : length cs = length (r0 :: rs)) by (unfold cs; apply map_length). rewrite Hlen in FB.
  split; [reflexivity|]. split; [lia|]. split; [lia|]. split; [fold cs; lia|].
  split; [rewrite Hcs; destruct M4 as [->|M4]; [left; reflexivity|right; exact M4]|].
  split; [rewrite Hcs; destruct X3 as [->|X3]; [left; reflexivity|right; exact X3]|].
  assert (In mx cs) as Hin by (rewrite Hcs; destruct X3 as [->|X3]; [left; reflexivity|right; exact X3]).
  unfold cs in Hin. apply in_map_iff in Hin. destruct Hin as [r [Hr Hrin]]. exists r. split; [exact Hrin|].
  rewrite Forall_forall in Hall. pose proof (hop_count_bounds r (Hall r Hrin)). lia.
Qed.

(** e2e statistics *)
Lemma positives_spec l x : In x (positives l) <-> In x l /\ 0 < x.
Proof. unfold positives. rewrite filter_In, Z.ltb_lt. tauto. Qed.

Lemma fold_zmin t : forall x, fold_left Z.min t x <= x /\ Forall (fun c => fold_left Z.min t x <= c) t
  /\ (fold_left Z.min t x = x \/ In (fold_left Z.min t x) t).
Proof.
  induction t as [|c t IH]; intros x; cbn [fold_left]; [repeat split; auto; lia|].
  destruct (IH (Z.min x c)) as [I1 [I2 I3]]. repeat split; [lia|constructor; [lia|exact I2]|].
  destruct I3 as [I3|I3]; [|right; right; exact I3]. rewrite I3. destruct (Z.min_spec x c) as [[_ ->]|[_ ->]]; [left; reflexivity|right; left; reflexivity].
Qed.

Lemma fold_zmax t : forall x, x <= fold_left Z.max t x /\ Forall (fun c => c <= fold_left Z.max t x) t
  /\ (fold_left Z.max t x = x \/ In (fold_left Z.max t x) t).
Proof.
  induction t as [|c t IH]; intros x; cbn [fold_left]; [repeat split; auto; lia|].
  destruct (IH (Z.max x c)) as [I1 [I2 I3]]. repeat split; [lia|constructor; [lia|exact I2]|].
  destruct I3 as [I3|I3]; [|right; right; exact I3]. rewrite I3. destruct (Z.max_spec x c) as [[_ ->]|[_ ->]]; [right; left; reflexivity|left; reflexivity].
Qed.

Lemma abs_diffs_bound t : forall prev lo hi, lo <= prev <= hi -> Forall (fun c => lo <= c <= hi) t ->
  0 <= abs_diffs prev t <= Z.of_nat (length t) * (hi - lo).
Proof.
  induction t as [|c t IH]; intros prev lo hi Hp H; cbn [abs_diffs length]; [lia|].
  inversion H as [|? ? Hc Ht]; subst. specialize (IH c lo hi Hc Ht). lia.
Qed.

Theorem e2e_stats_spec rtts : Forall (fun x => 0 <= x) rtts ->
  let s := e2e_stats rtts in
  e_sent s = Z.of_nat (length rtts)
  /\ e_recv s = Z.of_nat (length (positives rtts))
  /\ 0 <= e_sent s - e_recv s <= e_sent s                                       (* 0 <= loss <= 1 *)
  /\ (positives rtts <> [] ->
        In (e_min s) (positives rtts) /\ In (e_max s) (positives rtts)
        /\ Forall (fun x => e_min s <= x <= e_max s) (positives rtts)
        /\ e_recv s * e_min s <= e_sum s <= e_recv s * e_max s                    (* min <= avg <= max *)
        /\ 0 < e_jit_den s
        /\ 0 <= e_jit_num s <= e_jit_den s * (e_max s - e_min s))                 (* 0 <= jitter <= max - min *)
  /\ (positives rtts = [] -> e_recv s = 0 /\ e_jit_num s = 0).
Proof.
  intros Hnn. cbn zeta. unfold e2e_stats.
  assert (Hlen : (length (positives rtts) <= length rtts)%nat).
  { unfold positives. clear. induction rtts as [|a l IH]; cbn; [lia|]. destruct (0 <? a); cbn; lia. }
  destruct (positives rtts) as [|x t] eqn:P; cbn [e_sent e_recv e_sum e_min e_max e_jit_num e_jit_den].
  - cbn [length] in *. repeat split; try lia; try congruence.
  - destruct (fold_zmin t x) as [N1 [N2 N3]]. destruct (fold_zmax t x) as [X1 [X2 X3]].
    set (mn := fold_left Z.min t x) in *. set (mx := fold_left Z.max t x) in *.
    assert (Hb : Forall (fun c => mn <= c <= mx) (x :: t)).
    { constructor; [lia|]. rewrite Forall_forall in *. intros c Hc. split; [apply N2|apply X2]; exact Hc. }
    pose proof (fold_add_bounds (x :: t) 0 mn mx Hb) as FB.
    split; [reflexivity|]. split; [reflexivity|]. split; [cbn [length] in *; lia|]. split; [|intros; discriminate].
    intros _. split; [destruct N3 as [->|N3]; [left; reflexivity|right; exact N3]|].
    split; [destruct X3 as [->|X3]; [left; reflexivity|right; exact X3]|].
    split; [exact Hb|]. split; [lia|].
    destruct t as [|y t']; [subst mn mx; cbn [fold_left length abs_diffs Z.of_nat]; lia|].
    split; [cbn [length]; lia|].
    inversion Hb as [|? ? Hx Ht]; subst.
    pose proof (abs_diffs_bound (y :: t') x mn mx Hx Ht). lia.
Qed.

(** order-insensitive statistics are invariant under any permutation of the samples *)
Lemma fold_add_perm l l' : Permutation l l' -> forall a, fold_left Z.add l a = fold_left Z.add l' a.
Proof. induction 1; intros a; cbn; auto; [f_equal; lia|congruence]. Qed.

Lemma positives_perm l l' : Permutation l l' -> Permutation (positives l) (positives l').
Proof.
  induction 1; cbn.
  - constructor.
  - destruct (0 <? x); [constructor|]; assumption.
  - destruct (0 <? x), (0 <? y); try constructor; try apply Permutation_refl. 
  - eapply Permutation_trans; eauto.
Qed.

Theorem e2e_perm_invariant l l' : Permutation l l' -> Forall (fun x => 0 <= x) l -> positives l <> [] ->
  e_sent (e2e_stats l) = e_sent (e2e_stats l') /\ e_recv (e2e_stats l) = e_recv (e2e_stats l')
  /\ e_sum (e2e_stats l) = e_sum (e2e_stats l') /\ e_min (e2e_stats l) = e_min (e2e_stats l') /\ e_max (e2e_stats l) = e_max (e2e_stats l').
Proof.
  intros HP Hnn Hne.
  assert (Hnn' : Forall (fun x => 0 <= x) l') by (eapply Permutation_Forall; eauto).
  pose proof (positives_perm _ _ HP) as PP.
  assert (Hne' : positives l' <> []) by (intros E; rewrite E in PP; apply Permutation_sym, Permutation_nil in PP; congruence).
  destruct (e2e_stats_spec l Hnn) as [A1 [A2 [_ [A4 _]]]]. destruct (e2e_stats_spec l' Hnn') as [B1 [B2 [_ [B4 _]]]].
  destruct (A4 Hne) as [Amin [Amax [Aall _]]]. destruct (B4 Hne') as [Bmin [Bmax [Ball _]]].
  split; [rewrite A1, B1, (Permutation_length HP); reflexivity|].
  split; [rewrite A2, B2, (Permutation_length PP); reflexivity|].
  split.
  - unfold e2e_stats. destruct (positives l) eqn:E1; [congruence|]. destruct (positives l') eqn:E2; [congruence|]. cbn [e_sum].
    apply fold_add_perm. exact PP.
  - rewrite Forall_forall in Aall, Ball. split.
    + pose proof (Aall _ (Permutation_in _ (Permutation_sym PP) Bmin)). pose proof (Ball _ (Permutation_in _ PP Amin)). lia.
    + pose proof (Aall _ (Permutation_in _ (Permutation_sym PP) Bmax)). pose proof (Ball _ (Permutation_in _ PP Amax)). lia.
Qed.

(** fresh identifiers: n+1 draws from an oracle that never repeats land in pairwise distinct slots *)
Section Ids.
  Variable id : Type.
  Variable fresh : nat -> id.
  Hypothesis fresh_inj : forall i j, fresh i = fresh j -> i = j.
  Theorem ids_distinct k n : NoDup (map fresh (seq k (S n))).
  Proof.
    apply FinFun.Injective_map_NoDup; [intros i j; apply fresh_inj|apply seq_NoDup].
  Qed.
End Ids.

(** ---------------- C15: multi-query aggregation ---------------- *)
Lemma insert_by_perm q l : Permutation (insert_by q l) (q :: l).
Proof.
  induction l as [|x t IH]; cbn; [apply Permutation_refl|].
  destruct (q_done q <? q_done x); [apply Permutation_refl|].
  eapply Permutation_trans; [apply perm_skip; exact IH|apply perm_swap].
Qed.

Lemma sort_done_perm l : Permutation (sort_done l) l.
Proof.
  induction l as [|q t IH]; cbn; [constructor|].
  eapply Permutation_trans; [apply insert_by_perm|apply perm_skip; exact IH].
Qed.

Definition ok_runs (l : list qout) : list rund := flat_map (fun q => match q_res q with Some r => [r] | None => [] end) l.
Definition failures (l : list qout) : list Z := flat_map (fun q => match q_res q with Some _ => [] | None => [q_err q] end) l.

Lemma flat_map_perm {X Y} (f : X -> list Y) l l' : Permutation l l' -> Permutation (flat_map f l) (flat_map f l').
Proof.
  induction 1; cbn; [constructor|apply Permutation_app_head; assumption| |eapply Permutation_trans; eauto].
  rewrite !app_assoc. apply Permutation_app_tail. apply Permutation_app_comm.
Qed.

Theorem multi_acc_spec runs e2es :
  let m := multi_acc runs e2es in
  Permutation (m_runs m) (ok_runs runs)                       (* no run lost or duplicated, whatever the completion order *)
  /\ length (m_rtts m) = length e2es                          (* one sample per probe, unanswered/failed as 0 *)
  /\ Permutation (m_errs m) (failures (runs ++ e2es))         (* every individual failure is exposed *)
  /\ (m_errs m = [] <-> Forall (fun q => q_res q <> None) (runs ++ e2es)).
Proof.
  cbn zeta. unfold multi_acc; cbn [m_runs m_rtts m_errs].
  split; [apply flat_map_perm, sort_done_perm|].
  split; [rewrite map_length; apply Permutation_length, sort_done_perm|].
  assert (PE : Permutation (sort_done runs ++ sort_done e2es) (runs ++ e2es)) by (apply Permutation_app; apply sort_done_perm).
  split; [apply flat_map_perm; exact PE|].
  split.
  - intros E. apply Forall_forall. intros q Hin Hn.
    apply (Permutation_in _ (Permutation_sym PE)) in Hin.
    assert (In (q_err q) (flat_map (fun q0 => match q_res q0 with Some _ => [] | None => [q_err q0] end) (sort_done runs ++ sort_done e2es))).
    { apply in_flat_map. exists q. split; [exact Hin|]. rewrite Hn. left. reflexivity. }
    rewrite E in H. exact H.
  - intros H. destruct (flat_map _ (sort_done runs ++ sort_done e2es)) as [|e t] eqn:E; [reflexivity|].
    assert (In e (e :: t)) as Hin by (left; reflexivity). rewrite <- E in Hin. apply in_flat_map in Hin.
    destruct Hin as [q [Hq He]]. apply (Permutation_in _ PE) in Hq. rewrite Forall_forall in H. specialize (H q Hq).
    destruct (q_res q); [destruct He|congruence].
Qed.

(** all-or-error, and the public IP never decides *)
Theorem pipeline_all_or_error fl rv pub runs e2es :
  (pipeline fl rv pub (multi_acc runs e2es) <> None <-> Forall (fun q => q_res q <> None) (runs ++ e2es)).
Proof.
  rewrite <- (proj2 (proj2 (proj2 (multi_acc_spec runs e2es)))).
  unfold pipeline. destruct (m_errs (multi_acc runs e2es)); split; intros H; try congruence; try discriminate.
Qed.

Theorem pipeline_pubip_irrelevant fl rv pub pub' m :
  (pipeline fl rv pub m = None <-> pipeline fl rv pub' m = None)
  /\ (forall d d', pipeline fl rv pub m = Some d -> pipeline fl rv pub' m = Some d' ->
        d_runs d = d_runs d' /\ d_hopstats d = d_hopstats d' /\ d_rtts d = d_rtts d' /\ d_e2e d = d_e2e d').
Proof.
  unfold pipeline. destruct (m_errs m); split; try tauto; try (split; intros; discriminate).
  intros d d' H1 H2. injection H1 as <-. injection H2 as <-. cbn. tauto.
Qed.

Theorem pipeline_counts fl rv pub runs e2es d :
  pipeline fl rv pub (multi_acc runs e2es) = Some d ->
  length (d_runs d) = length runs /\ length (d_rtts d) = length e2es.
Proof.
  intros H. pose proof (multi_acc_spec runs e2es) as S. cbn zeta in S. destruct S as [S1 [S2 [S3 S4]]].
  unfold pipeline in H. destruct (m_errs (multi_acc runs e2es)) eqn:E; [|discriminate]. injection H as <-. cbn [d_runs d_rtts].
  split; [|exact S2].
  assert (length (m_runs (multi_acc runs e2es)) = length runs).
  { rewrite (Permutation_length S1). pose proof (proj1 S4 eq_refl) as F. apply Forall_app in F. destruct F as [F _].
    clear -F. induction runs as [|q t IH]; [reflexivity|]. inversion F; subst. cbn. destruct (q_res q); [cbn; f_equal; apply IH; assumption|congruence]. }
  destruct (f_skip_private fl), (f_rdns fl); rewrite ?map_length; exact H.
Qed.
