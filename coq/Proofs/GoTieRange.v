(** Tie kind A (C19): the TTL range check of runTracerouteOnce as translated from the source = the model's. *)
From Coq Require Import ZArith Bool Lia List.
Import ListNotations.
Open Scope Z_scope.
From TR Require Import Pol.Params Generated.GoRange.

Theorem go_ttl_range_check p : go_runOnce_ttl_range_rejected (rp_min p) (rp_max p) = negb (ttl_range_ok p).
Proof.
  unfold go_runOnce_ttl_range_rejected, ttl_range_ok.
  destruct (Z.ltb_spec (rp_min p) 1), (Z.ltb_spec 255 (rp_max p)), (Z.ltb_spec (rp_max p) (rp_min p)),
           (Z.leb_spec 1 (rp_min p)), (Z.leb_spec (rp_max p) 255), (Z.leb_spec (rp_min p) (rp_max p)); cbn; try reflexivity; lia.
Qed.

(** RunTraceroute: the destination port handed to every run is the model's [dest_port] (the default when 0) *)
Theorem go_destination_port_is_model p : go_destination_port (rp_port p) = dest_port p.
Proof. unfold go_destination_port, dest_port, default_port. destruct (rp_port p =? 0); reflexivity. Qed.
