(** Tie kind A (C03): clipResults as translated from the source on this run = the model's [clip], whenever the model
    does not run into the slice-bounds panic. *)
From Coq Require Import ZArith Bool Lia List Arith.
From TR Require Import Lib.GoLists Eng.Engine Generated.GoClip.
Import ListNotations.
Open Scope Z_scope.

(** what the translated code looks at in a slot: (is nil, IsDest) *)
Definition enc_slot (o : option probe) : bool * bool := match o with None => (true, false) | Some p => (false, p_dest p) end.

Lemma index_func_find_dest rs :
  gx_index_func (fun pr : bool * bool => negb (fst pr) && snd pr) (map enc_slot rs)
  = match find_dest rs with Some d => Z.of_nat d | None => -1 end.
Proof.
  induction rs as [|o t IH]; cbn [map gx_index_func find_dest]; [reflexivity|].
  assert (E : negb (fst (enc_slot o)) && snd (enc_slot o) = is_dest o) by (destruct o; reflexivity).
  rewrite E. destruct (is_dest o); [reflexivity|]. rewrite IH. destruct (find_dest t) as [d|]; [|reflexivity].
  replace (Z.of_nat d =? -1) with false by (symmetry; apply Z.eqb_neq; lia). lia.
Qed.

Theorem go_clipResults_is_clip first rs r : 0 <= first -> clip first rs = Some r ->
  go_common_clipResults first (map enc_slot rs) = map enc_slot r.
Proof.
  intros Hf H. unfold clip in H. unfold go_common_clipResults. cbv zeta.
  rewrite index_func_find_dest.
  destruct (find_dest rs) as [d|].
  - replace (Z.of_nat d =? -1) with false by (symmetry; apply Z.eqb_neq; lia). cbn [negb].
    replace (Z.to_nat (Z.of_nat d + 1)) with (S d) by lia.
    destruct (Z.to_nat first <=? length (firstn (S d) rs))%nat; [|discriminate]. injection H as <-.
    rewrite firstn_map, skipn_map. reflexivity.
  - cbn. destruct (Z.to_nat first <=? length rs)%nat; [|discriminate]. injection H as <-. rewrite skipn_map. reflexivity.
Qed.
