(** C08 at the request level: the elapsed time of a request is bounded by the bound computable from its parameters
    and the bounds of its parts. *)
From Coq Require Import List ZArith Bool Lia.
From TR Require Import Pol.Request Generated.Consts.
Import ListNotations.
Open Scope Z_scope.

Lemma fold_max_le : forall l a b, a <= b -> Forall (fun x => x <= b) l -> fold_left Z.max l a <= b.
Proof. induction l as [|x l IH]; intros a b Ha Hl; cbn; [exact Ha|]. inversion Hl; subst. apply IH; [lia|assumption]. Qed.

Lemma zmax_list_le l b : 0 <= b -> Forall (fun x => x <= b) l -> zmax_list l <= b.
Proof. intros. unfold zmax_list. apply fold_max_le; assumption. Qed.

Lemma fold_max_ge : forall l a, a <= fold_left Z.max l a.
Proof. induction l as [|x l IH]; intros a; cbn; [lia|]. specialize (IH (Z.max a x)). lia. Qed.

Lemma e2e_finish_le d b : 0 <= d -> forall e2es i, 0 <= i -> Forall (fun x => x <= b) e2es ->
  Forall (fun x => x <= (i + Z.of_nat (length e2es) - 1) * d + b) (e2e_finish d i e2es).
Proof.
  intros Hd. induction e2es as [|x r IH]; intros i Hi Hl; cbn [e2e_finish]; [constructor|].
  inversion Hl; subst. constructor.
  - cbn [length]. nia.
  - specialize (IH (i + 1) ltac:(lia) H2). eapply Forall_impl; [|exact IH]. cbn [length]. intros a Ha. nia.
Qed.

Theorem request_elapsed_bounded max_ttl timeout runs e2es failed rdns pub b_run b_e2e b_pub :
  0 <= max_ttl -> 0 <= timeout -> 0 <= b_run -> 0 <= b_e2e -> 0 <= b_pub ->
  Forall (fun x => x <= b_run) runs -> Forall (fun x => x <= b_e2e) e2es -> (pub = -2 \/ (0 <= pub <= b_pub)) -> (-2 <= rdns) ->
  request_elapsed max_ttl timeout runs e2es failed rdns pub
  <= request_bound max_ttl timeout (Z.of_nat (length e2es)) b_run b_e2e b_pub (negb (rdns =? -2)) (negb (pub =? -2)).
Proof.
  intros Hm Ht Hbr Hbe Hbp Hr He Hp Hrd. unfold request_elapsed, request_bound.
  set (e := Z.of_nat (length e2es)). set (d := e2e_delay max_ttl timeout e).
  assert (Hd : 0 <= d).
  { unfold d, e2e_delay. destruct (e <=? 0) eqn:E; [lia|]. apply Z.leb_gt in E. apply Z.min_glb; [lia|]. apply Z.div_pos; nia. }
  set (t_loop := if e <=? 0 then 0 else (e - 1) * d).
  assert (Hl : 0 <= t_loop) by (unfold t_loop; destruct (e <=? 0) eqn:E; [lia|apply Z.leb_gt in E; nia]).
  assert (H1 : zmax_list runs <= b_run) by (apply zmax_list_le; assumption).
  assert (H2 : zmax_list (e2e_finish d 0 e2es) <= t_loop + b_e2e).
  { apply zmax_list_le; [lia|]. pose proof (e2e_finish_le d b_e2e Hd e2es 0 ltac:(lia) He) as F.
    assert (He0 : 0 <= e) by (unfold e; lia).
    eapply Forall_impl; [|exact F]. intros a Ha. fold e in Ha. unfold t_loop. destruct (e <=? 0) eqn:E; [apply Z.leb_le in E; assert (E0 : e = 0) by lia; rewrite E0 in Ha; lia|replace ((0 + e - 1) * d) with ((e - 1) * d) in Ha by ring; lia]. }
  assert (H3 : (if pub =? -2 then 0 else t_loop + pub) <= (if negb (pub =? -2) then t_loop + b_pub else 0)).
  { destruct Hp as [-> | Hp]; [cbn; lia|]. replace (pub =? -2) with false by (symmetry; apply Z.eqb_neq; lia). cbn. lia. }
  set (base := Z.max (Z.max (zmax_list runs) t_loop) (Z.max (zmax_list (e2e_finish d 0 e2es)) (if pub =? -2 then 0 else t_loop + pub))).
  assert (HB : base <= Z.max (Z.max b_run t_loop) (Z.max (t_loop + b_e2e) (if negb (pub =? -2) then t_loop + b_pub else 0))) by (unfold base; lia).
  unfold reversedns_reverseDnsDefaultTimeout.
  destruct (rdns =? -2) eqn:R2; cbn [negb orb].
  - rewrite orb_true_r. cbn. lia.
  - rewrite orb_false_r. destruct failed; cbn [orb]; [lia|]. destruct runs; cbn [orb]; [lia|].
    destruct (rdns =? -1); lia.
Qed.
