(** C02, engine lift (serial engine): on histories in which every entry is a reply or noise (no rogue driver), at most
    one reply exists per TTL and each reply arrives within its own listening window (delay <= timeout), every reply to
    a probe that was sent is accepted — the restriction C02 states for the serial engine. *)
From Coq Require Import List ZArith Bool Lia Arith.
From TR Require Import Eng.Engine Eng.Timed Proofs.EngFuel Proofs.EngComplete Proofs.EngTimed.
Import ListNotations.
Open Scope Z_scope.

Definition replyb (e : entry) : bool := negb (e_kind e =? 1).
Definition R (l : list entry) : list Z := map e_ttl (filter replyb l).

Lemma R_remove_nth : forall n l e, nth_error l n = Some e ->
  (replyb e = true -> exists l1 l2, R l = l1 ++ e_ttl e :: l2 /\ R (remove_nth n l) = l1 ++ l2)
  /\ (replyb e = false -> R (remove_nth n l) = R l).
Proof.
  induction n as [|n IH]; intros [|x l] e Hn; cbn in Hn; try discriminate.
  - injection Hn as ->. unfold R. cbn [remove_nth filter]. split; intros Hr; rewrite Hr.
    + exists [], (map e_ttl (filter replyb l)). split; reflexivity.
    + reflexivity.
  - destruct (IH l e Hn) as [A B]. unfold R in *. cbn [remove_nth filter]. split; intros Hr.
    + destruct (A Hr) as [l1 [l2 [E1 E2]]]. destruct (replyb x); cbn [map].
      * exists (e_ttl x :: l1), l2. rewrite E1, E2. split; reflexivity.
      * exists l1, l2. split; assumption.
    + rewrite (B Hr) || (destruct (replyb x); cbn [map]; rewrite (B Hr)); reflexivity.
Qed.

Lemma in_R l e : In e l -> replyb e = true -> In (e_ttl e) (R l).
Proof. intros H1 H2. unfold R. apply in_map. apply filter_In. split; assumption. Qed.

(** what one listening window does to the pending list *)
Lemma swindow_spec : forall fuel p sends W T pend,
  (forall e, In e pend -> e_kind e = 0 \/ e_kind e = 1) ->
  NoDup (R pend) ->
  (T <= W \/ forall x a, In x pend -> ready (lookup sends) x = Some a -> W < a) ->
  match swindow fuel p sends W T pend with
  | WProbe T' pr pend' =>
      exists e0, In e0 pend /\ e_kind e0 = 0 /\ matches e0 pr /\ (exists a, ready (lookup sends) e0 = Some a)
                 /\ (forall x, In x pend' -> In x pend) /\ (forall x, In x pend -> e_kind x = 0 -> x = e0 \/ In x pend')
                 /\ NoDup (R pend') /\ ~ In (e_ttl e0) (R pend')
  | WTimeout T' pend' =>
      (forall x a, In x pend' -> ready (lookup sends) x = Some a -> W < a)
      /\ (forall x, In x pend' -> In x pend) /\ (forall x, In x pend -> e_kind x = 0 -> In x pend') /\ NoDup (R pend')
  | _ => True
  end.
Proof.
  induction fuel as [|fuel IH]; intros p sends W T pend HK HN Q; cbn [swindow]; [exact I|].
  destruct (T =? W) eqn:E1; [exact I|]. apply Z.eqb_neq in E1.
  destruct (W <? T) eqn:E2.
  - apply Z.ltb_lt in E2. destruct Q as [Q|Q]; [lia|]. repeat split; auto.
  - apply Z.ltb_ge in E2. assert (HT : T < W) by lia.
    destruct (best (lookup sends) pend 0) as [[[a i] e0]|] eqn:B.
    + pose proof (best_nth _ _ _ _ _ _ B) as Bn. rewrite Nat.sub_0_r in Bn.
      pose proof (nth_error_In _ _ Bn) as Bin.
      destruct (a <=? T + tp_poll p) eqn:E3.
      * apply Z.leb_le in E3.
        assert (HK' : forall e, In e (remove_nth i pend) -> e_kind e = 0 \/ e_kind e = 1) by (intros e He; apply HK; eapply remove_nth_in; eauto).
        destruct (R_remove_nth i pend e0 Bn) as [RA RB].
        destruct (e_kind e0 =? 1) eqn:K1.
        -- (* noise: dropped, the window goes on *)
           assert (Hr0 : replyb e0 = false) by (unfold replyb; rewrite K1; reflexivity).
           assert (HN' : NoDup (R (remove_nth i pend))) by (rewrite (RB Hr0); exact HN).
           assert (Q' : Z.max T a <= W \/ forall x a0, In x (remove_nth i pend) -> ready (lookup sends) x = Some a0 -> W < a0).
           { destruct (Z_le_dec (Z.max T a) W) as [|Hgt]; [left; lia|right]. intros x a0 Hx Hr. apply remove_nth_in in Hx.
             pose proof (best_min _ _ _ _ _ _ B x a0 Hx Hr). lia. }
           specialize (IH p sends W (Z.max T a) (remove_nth i pend) HK' HN' Q').
           destruct (swindow fuel p sends W (Z.max T a) (remove_nth i pend)) as [T' pr pend'|T' pend'| |]; try exact I.
           ++ destruct IH as [e1 [H1 [H2 [H3 [H4 [H5 [H6 [H7 H8]]]]]]]]. exists e1.
              split; [eapply remove_nth_in; eauto|]. split; [exact H2|]. split; [exact H3|]. split; [exact H4|].
              split; [intros x Hx; eapply remove_nth_in; eauto|]. split; [|split; assumption].
              intros x Hx Hk. destruct (in_remove_nth _ _ _ _ Bn Hx) as [->|Hx']; [apply Z.eqb_eq in K1; lia|]. auto.
           ++ destruct IH as [H1 [H2 [H3 H4]]]. split; [exact H1|]. split; [intros x Hx; eapply remove_nth_in; eauto|]. split; [|exact H4].
              intros x Hx Hk. destruct (in_remove_nth _ _ _ _ Bn Hx) as [->|Hx']; [apply Z.eqb_eq in K1; lia|]. auto.
        -- (* a reply: the window ends *)
           assert (K0 : e_kind e0 = 0) by (destruct (HK e0 Bin) as [|K]; [assumption|rewrite K in K1; discriminate]).
           assert (Hr0 : replyb e0 = true) by (unfold replyb; rewrite K1; reflexivity).
           destruct (RA Hr0) as [l1 [l2 [E1' E2']]].
           exists e0. split; [exact Bin|]. split; [exact K0|]. split; [unfold matches; cbn; auto|].
           split; [exists a; eapply best_some; eauto|].
           split; [intros x Hx; eapply remove_nth_in; eauto|].
           split; [intros x Hx _; destruct (in_remove_nth _ _ _ _ Bn Hx); auto|].
           rewrite E1' in HN. rewrite E2'. split; [eapply NoDup_remove_1; eauto|eapply NoDup_remove_2; eauto].
      * apply Z.leb_gt in E3.
        assert (Q' : T + tp_poll p <= W \/ forall x a0, In x pend -> ready (lookup sends) x = Some a0 -> W < a0).
        { destruct (Z_le_dec (T + tp_poll p) W) as [|Hgt]; [left; lia|right]. intros x a0 Hx Hr.
          pose proof (best_min _ _ _ _ _ _ B x a0 Hx Hr). lia. }
        specialize (IH p sends W (T + tp_poll p) pend HK HN Q').
        destruct (swindow fuel p sends W (T + tp_poll p) pend); exact IH.
    + assert (Q' : T + tp_poll p <= W \/ forall x a0, In x pend -> ready (lookup sends) x = Some a0 -> W < a0).
      { right. intros x a0 Hx Hr. rewrite (best_none _ _ _ B x Hx) in Hr. discriminate. }
      specialize (IH p sends W (T + tp_poll p) pend HK HN Q').
      destruct (swindow fuel p sends W (T + tp_poll p) pend); exact IH.
Qed.

Lemma lookup_in sends t v : lookup sends t = Some v -> In (t, v) sends.
Proof.
  unfold lookup. destruct (find (fun x => fst x =? t) sends) as [[t' v']|] eqn:F; [|discriminate].
  intros H. injection H as <-. apply find_some in F. destruct F as [F1 F2]. cbn in F2. apply Z.eqb_eq in F2. subst. exact F1.
Qed.

Lemma lookup_head sends i s : lookup ((i, s) :: sends) i = Some s.
Proof. unfold lookup. cbn [find fst]. rewrite Z.eqb_refl. reflexivity. Qed.

Lemma srun_complete : forall n p i s pend sends rs acc r (script : list entry),
  0 < tp_timeout p ->
  (forall e, In e pend -> In e script) ->
  (forall e, In e script -> (e_kind e = 0 \/ e_kind e = 1) /\ (e_kind e = 0 -> 0 <= e_delay e <= tp_timeout p)) ->
  NoDup (R pend) ->
  (forall e, In e pend -> e_kind e = 0 -> i <= e_ttl e \/ e_ttl e < tp_first p) ->
  (forall t v, In (t, v) sends -> tp_first p <= t < i) -> tp_first p <= i ->
  (forall e, In e script -> e_kind e = 0 -> In e pend \/ exists q, In q acc /\ matches e q) ->
  srun n p i s pend sends rs acc = TDone r ->
  forall e s0, In e script -> e_kind e = 0 -> In (e_ttl e, s0) (tr_sends r) ->
  exists q, In q (tr_accepted r) /\ matches e q.
Proof.
  induction n as [|n IH]; intros p i s pend sends rs acc r script Ht Hsub Hscr HN Hc Hd Hfi He H; cbn [srun] in H.
  - injection H as <-. cbn [tr_sends tr_accepted]. intros e s0 Hin Hk Hs. apply in_rev in Hs.
    destruct (He e Hin Hk) as [Hp|[q [Hq Hm]]]; [|exists q; split; [apply -> in_rev; exact Hq|exact Hm]].
    exfalso. pose proof (Hc e Hp Hk). pose proof (Hd _ _ Hs). lia.
  - set (sends' := (i, s) :: sends) in *.
    assert (HK : forall e, In e pend -> e_kind e = 0 \/ e_kind e = 1) by (intros e Hp; apply Hscr, Hsub, Hp).
    pose proof (swindow_spec (wfuel p pend) p sends' (s + tp_timeout p) s pend HK HN ltac:(left; lia)) as WS.
    destruct (swindow (wfuel p pend) p sends' (s + tp_timeout p) s pend) as [T pr pend'|T pend'| |] eqn:W; try discriminate.
    + destruct WS as [e0 [H1 [H2 [H3 [[a H4] [H5 [H6 [H7 H8]]]]]]]].
      (* the accepted reply is the one for TTL i *)
      assert (Ei : e_ttl e0 = i).
      { unfold ready in H4. rewrite H2 in H4. cbn in H4. destruct (lookup sends' (e_ttl e0)) as [v|] eqn:L; [|discriminate].
        apply lookup_in in L. destruct L as [L|L]; [injection L as <- _; reflexivity|].
        pose proof (Hd _ _ L). pose proof (Hc e0 H1 H2). lia. }
      assert (Hc' : forall e, In e pend' -> e_kind e = 0 -> i + 1 <= e_ttl e \/ e_ttl e < tp_first p).
      { intros e Hp Hk. pose proof (Hc e (H5 e Hp) Hk). destruct (Z.eq_dec (e_ttl e) i) as [E|]; [|lia].
        exfalso. apply H8. rewrite Ei, <- E. apply in_R; [exact Hp|]. unfold replyb. rewrite Hk. reflexivity. }
      assert (Hd' : forall t v, In (t, v) sends' -> tp_first p <= t < i + 1).
      { intros t v [L|L]; [injection L as <- _; lia|]. pose proof (Hd _ _ L). lia. }
      assert (He' : forall e, In e script -> e_kind e = 0 -> In e pend' \/ exists q, In q (pr :: acc) /\ matches e q).
      { intros e Hin Hk. destruct (He e Hin Hk) as [Hp|[q [Hq Hm]]]; [|right; exists q; split; [right; exact Hq|exact Hm]].
        destruct (H6 e Hp Hk) as [->|Hp']; [right; exists pr; split; [left; reflexivity|exact H3]|left; exact Hp']. }
      destruct (negb (valid_probe (tp_first p) (tp_last p) pr)); [discriminate|].
      destruct (p_dest pr).
      * injection H as <-. unfold tr_sends, tr_accepted. intros e s0 Hin Hk Hs0. pose proof (proj2 (in_rev sends' _) Hs0) as Hs.
        destruct (He' e Hin Hk) as [Hp|[q [Hq Hm]]]; [|exists q; split; [apply (in_rev (pr :: acc) q); exact Hq|exact Hm]].
        exfalso. pose proof (Hc' e Hp Hk). pose proof (Hd' _ _ Hs). lia.
      * eapply IH; [exact Ht| |exact Hscr|exact H7|exact Hc'|exact Hd'|lia|exact He'|exact H].
        intros e Hp. apply Hsub, H5, Hp.
    + destruct WS as [H1 [H2 [H3 H4]]].
      assert (Hc' : forall e, In e pend' -> e_kind e = 0 -> i + 1 <= e_ttl e \/ e_ttl e < tp_first p).
      { intros e Hp Hk. pose proof (Hc e (H2 e Hp) Hk). destruct (Z.eq_dec (e_ttl e) i) as [E|]; [|lia].
        exfalso. assert (Hr : ready (lookup sends') e = Some (s + e_delay e)).
        { unfold ready. rewrite Hk. cbn. rewrite E. unfold sends'. rewrite lookup_head. reflexivity. }
        pose proof (H1 e _ Hp Hr). destruct (Hscr e (Hsub e (H2 e Hp))) as [_ Hdl]. specialize (Hdl Hk). lia. }
      assert (Hd' : forall t v, In (t, v) sends' -> tp_first p <= t < i + 1).
      { intros t v [L|L]; [injection L as <- _; lia|]. pose proof (Hd _ _ L). lia. }
      eapply IH; [exact Ht| |exact Hscr|exact H4|exact Hc'|exact Hd'|lia| |exact H].
      * intros e Hp. apply Hsub, H2, Hp.
      * intros e Hin Hk. destruct (He e Hin Hk) as [Hp|Hq]; [left; apply H3; assumption|right; exact Hq].
Qed.

Theorem serial_accepts_every_reply_in_its_window p script r :
  serial_run p script = TDone r ->
  (forall e, In e script -> (e_kind e = 0 \/ e_kind e = 1) /\ (e_kind e = 0 -> 0 <= e_delay e <= tp_timeout p)) ->
  NoDup (R script) ->
  forall e s0, In e script -> e_kind e = 0 -> In (e_ttl e, s0) (tr_sends r) ->
  exists q, In q (tr_accepted r) /\ matches e q.
Proof.
  unfold serial_run. destruct (params_ok p) eqn:P; [|discriminate]. cbn [negb]. intros H Hscr HN.
  apply params_ok_facts in P. destruct P as [P1 [P2 [P3 [P4 P5]]]].
  eapply srun_complete; [exact P3| |exact Hscr|exact HN| | | | |exact H].
  - auto.
  - intros e Hp Hk. lia.
  - intros t v [].
  - lia.
  - intros e Hin _. left. exact Hin.
Qed.

(** ---- soundness and isolation for the serial engine *)
Lemma swindow_sound : forall fuel p sends W T pend,
  match swindow fuel p sends W T pend with
  | WProbe T' pr pend' => (exists e0, In e0 pend /\ e_kind e0 <> 1 /\ matches e0 pr) /\ (forall x, In x pend' -> In x pend)
  | WTimeout T' pend' => forall x, In x pend' -> In x pend
  | _ => True
  end.
Proof.
  induction fuel as [|fuel IH]; intros p sends W T pend; cbn [swindow]; [exact I|].
  destruct (T =? W); [exact I|]. destruct (W <? T); [auto|].
  destruct (best (lookup sends) pend 0) as [[[a i] e0]|] eqn:B.
  - pose proof (best_nth _ _ _ _ _ _ B) as Bn. rewrite Nat.sub_0_r in Bn. pose proof (nth_error_In _ _ Bn) as Bin.
    destruct (a <=? T + tp_poll p).
    + destruct (e_kind e0 =? 1) eqn:K.
      * specialize (IH p sends W (Z.max T a) (remove_nth i pend)).
        destruct (swindow fuel p sends W (Z.max T a) (remove_nth i pend)) as [T' pr pend'|T' pend'| |]; try exact I.
        -- destruct IH as [[e1 [H1 [H2 H3]]] H4]. split; [exists e1; split; [eapply remove_nth_in; eauto|auto]|].
           intros x Hx. eapply remove_nth_in; eauto.
        -- intros x Hx. eapply remove_nth_in; eauto.
      * split; [exists e0; split; [exact Bin|split; [apply Z.eqb_neq; exact K|unfold matches; cbn; auto]]|].
        intros x Hx. eapply remove_nth_in; eauto.
    + specialize (IH p sends W (T + tp_poll p) pend). destruct (swindow fuel p sends W (T + tp_poll p) pend); exact IH.
  - specialize (IH p sends W (T + tp_poll p) pend). destruct (swindow fuel p sends W (T + tp_poll p) pend); exact IH.
Qed.

Lemma srun_sound : forall n p i s pend sends rs acc r (script : list entry),
  (forall e, In e pend -> In e script) ->
  (forall q, In q acc -> exists e, In e script /\ e_kind e <> 1 /\ matches e q) ->
  srun n p i s pend sends rs acc = TDone r ->
  forall q, In q (tr_accepted r) -> exists e, In e script /\ e_kind e <> 1 /\ matches e q.
Proof.
  induction n as [|n IH]; intros p i s pend sends rs acc r script Hp Ha H; cbn [srun] in H.
  - injection H as <-. cbn [tr_accepted]. intros q Hq. apply in_rev in Hq. auto.
  - pose proof (swindow_sound (wfuel p pend) p ((i, s) :: sends) (s + tp_timeout p) s pend) as WS.
    destruct (swindow (wfuel p pend) p ((i, s) :: sends) (s + tp_timeout p) s pend) as [T pr pend'|T pend'| |]; try discriminate.
    + destruct WS as [[e0 [H1 [H2 H3]]] H4].
      assert (Ha' : forall q, In q (pr :: acc) -> exists e, In e script /\ e_kind e <> 1 /\ matches e q).
      { intros q [<-|Hq]; [exists e0; auto|auto]. }
      destruct (negb (valid_probe (tp_first p) (tp_last p) pr)); [discriminate|].
      destruct (p_dest pr).
      * injection H as <-. unfold tr_accepted. intros q Hq. apply (in_rev (pr :: acc) q) in Hq. auto.
      * eapply IH; [| |exact H]; auto.
    + eapply IH; [| |exact H]; auto.
Qed.

Theorem serial_accepts_only_script_replies p script r :
  serial_run p script = TDone r ->
  forall q, In q (tr_accepted r) -> exists e, In e script /\ e_kind e <> 1 /\ matches e q.
Proof.
  unfold serial_run. destruct (params_ok p); [|discriminate]. cbn [negb]. intros H.
  eapply srun_sound; [| |exact H]; [auto|intros q []].
Qed.

(** a shared wire, serial engine: foreign packets (noise for this run's driver) interleaved in any way with the run's
    own replies — one per TTL, each within its window — neither enter the result nor keep an own reply out of it *)
Theorem shared_wire_isolation_serial p own foreign shared r :
  (forall e, In e shared <-> In e own \/ In e foreign) ->
  (forall e, In e foreign -> e_kind e = 1) ->
  (forall e, In e own -> e_kind e = 0 /\ 0 <= e_delay e <= tp_timeout p) ->
  NoDup (R shared) ->
  serial_run p shared = TDone r ->
  (forall q, In q (tr_accepted r) -> exists e, In e own /\ matches e q)
  /\ (forall e s0, In e own -> In (e_ttl e, s0) (tr_sends r) -> exists q, In q (tr_accepted r) /\ matches e q).
Proof.
  intros Hs Hf Ho HN H. split.
  - intros q Hq. destruct (serial_accepts_only_script_replies p shared r H q Hq) as [e [He [Hk Hm]]].
    exists e. split; [|exact Hm]. apply Hs in He. destruct He as [He|He]; [exact He|]. apply Hf in He. contradiction.
  - intros e s0 He Hsnd. destruct (Ho e He) as [Hk Hd].
    eapply serial_accepts_every_reply_in_its_window; [exact H| |exact HN| |exact Hk|exact Hsnd].
    + intros x Hx. apply Hs in Hx. destruct Hx as [Hx|Hx].
      * destruct (Ho x Hx) as [K D]. split; [left; exact K|intros _; exact D].
      * split; [right; apply Hf; exact Hx|intros K0; rewrite (Hf x Hx) in K0; discriminate].
    + apply Hs. left. exact He.
Qed.
