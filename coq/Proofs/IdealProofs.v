From Coq Require Import List ZArith Bool Lia.
From TR Require Import Eng.Engine Spec.C03 Proofs.EngShape Net.Ideal.
Import ListNotations.
Open Scope Z_scope.

(** C13 composition: against an RFC-conformant path (any number of routers, an optional silent router, the
    destination not silent), with the drivers handing the engine exactly the genuine replies (C01, C02), the run
    reports exactly the chain of router addresses followed by the destination: one entry per TTL from [first]
    to min(last, n+1), the silent router as an empty entry, the destination as the only destination-marked hop,
    non-negative RTTs. *)
Theorem ideal_chain_path pa first last acc :
  1 <= first <= last -> 0 <= pa_n pa -> first <= pa_n pa + 1 -> pa_silent pa <> pa_n pa + 1 ->
  ideal_accepted pa first last acc ->
  exists hs, run_hops first last acc = Done hs
    /\ Z.of_nat (length hs) = Z.min last (pa_n pa + 1) - first + 1
    /\ forall i h, nth_error hs i = Some h -> expected_hop pa (first + Z.of_nat i) h.
Proof.
  intros Hfl Hn Hfn Hsil [Hall Hans].
  assert (Hv : Forall (fun p => first <= p_ttl p <= last) acc).
  { eapply Forall_impl; [|exact Hall]. cbn. tauto. }
  destruct (run_hops_shape first last acc Hfl Hv) as [hs [Hr Hs]].
  exists hs. split; [exact Hr|].
  assert (Hdest : forall t, has_dest acc t -> pa_n pa < t).
  { intros t [p [Hin [Ht Hd]]]. rewrite Forall_forall in Hall. destruct (Hall p Hin) as [_ [_ [_ [Hd' _]]]]. rewrite Hd in Hd'. symmetry in Hd'. apply Z.ltb_lt in Hd'. lia. }
  assert (Hlen : Z.of_nat (length hs) = Z.min last (pa_n pa + 1) - first + 1).
  { destruct (sh_len _ _ _ _ Hs) as [[d [[Hd Hlow] Hl]]|[Hno Hl]].
    - assert (pa_n pa < d) by (apply Hdest; exact Hd).
      assert (d <= last) by (destruct Hd as [p [Hin [Ht _]]]; rewrite Forall_forall in Hv; specialize (Hv p Hin); cbn in Hv; lia).
      destruct (Z_lt_dec (pa_n pa + 1) d) as [Hgt|Hle]; [|lia].
      exfalso. apply (Hlow (pa_n pa + 1) Hgt).
      destruct (Hans (pa_n pa + 1)) as [p [Hin Ht]]; [lia|auto|].
      exists p. split; [exact Hin|]. split; [exact Ht|].
      rewrite Forall_forall in Hall. destruct (Hall p Hin) as [_ [_ [_ [Hd' _]]]]. rewrite Hd', Ht. apply Z.ltb_lt. lia.
    - destruct (Z_le_dec (pa_n pa + 1) last) as [Hle|Hgt]; [|lia].
      exfalso. destruct (Hans (pa_n pa + 1)) as [p [Hin Ht]]; [lia|auto|].
      apply (Hno (pa_n pa + 1)). exists p. split; [exact Hin|]. split; [exact Ht|].
      rewrite Forall_forall in Hall. destruct (Hall p Hin) as [_ [_ [_ [Hd' _]]]]. rewrite Hd', Ht. apply Z.ltb_lt. lia. }
  split; [exact Hlen|].
  intros i h Hi. pose proof (sh_ttls _ _ _ _ Hs i h Hi) as Ht.
  assert (Hil : (i < length hs)%nat) by (apply nth_error_Some; congruence).
  set (t := first + Z.of_nat i) in *.
  assert (Htr : first <= t <= Z.min last (pa_n pa + 1)) by lia.
  unfold expected_hop. split; [exact Ht|].
  destruct (h_ip h) as [a|] eqn:Ea.
  - destruct (sh_backed _ _ _ _ Hs i h a Hi Ea) as [p [Hin [Hp1 [Hp2 [Hp3 Hp4]]]]].
    rewrite Forall_forall in Hall. destruct (Hall p Hin) as [_ [Hq1 [Hq2 [Hq3 Hq4]]]]. rewrite Hp1, Ht in *.
    split; [intros E; congruence|]. split; [intros _; congruence|]. split.
    + rewrite <- Hp4, Hq3. destruct (t =? pa_silent pa) eqn:E1; [apply Z.eqb_eq in E1; congruence|]. rewrite andb_true_r.
      destruct (Z.ltb_spec (pa_n pa) t), (Z.eqb_spec t (pa_n pa + 1)); try reflexivity; lia.
    + rewrite <- Hp3. exact Hq4.
  - pose proof (proj1 (sh_empty _ _ _ _ Hs i h Hi) Ea) as Hna.
    destruct (sh_empty_zero _ _ _ _ Hs i h Hi Ea) as [Hz Hd0].
    assert (Hsl : t = pa_silent pa).
    { destruct (Z.eq_dec t (pa_silent pa)) as [E|E]; [exact E|]. exfalso. apply Hna. rewrite Ht. apply Hans; [exact Htr|exact E]. }
    split; [reflexivity|]. split; [congruence|]. split; [|lia].
    rewrite Hd0, Hsl, Z.eqb_refl. cbn. rewrite andb_false_r. reflexivity.
Qed.
