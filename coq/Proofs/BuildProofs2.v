(** C06: UDP and ICMPv6 checksum validity (same pattern as the TCP segment theorem). *)
From Coq Require Import List ZArith Bool Lia.
From TR Require Import Lib.Bytes Wire.Build Spec.C06 Proofs.BuildProofs.
Import ListNotations.
Open Scope Z_scope.

Lemma pseudo_bound src dst proto l :
  Forall byte_ok src -> Forall byte_ok dst -> (length src <= 16)%nat -> (length dst <= 16)%nat -> 0 <= proto < 256 -> 0 <= l < 65536 ->
  0 <= pseudo src dst proto l < 16777216.
Proof.
  intros Hs Hd Ls Ld Hp Hl. unfold pseudo. pose proof (sum16_bound src 0 Hs). pose proof (sum16_bound dst 0 Hd).
  Z.div_mod_to_equations. lia.
Qed.

(** every UDP segment the builders emit verifies against the pseudo-header *)
Theorem udp_segment_checksum src dst sport dport payload :
  Forall byte_ok src -> Forall byte_ok dst -> (length src <= 16)%nat -> (length dst <= 16)%nat ->
  Forall byte_ok payload -> (length payload <= 1000)%nat ->
  verifies (udp_segment src dst sport dport payload) (pseudo src dst 17 (len (udp_segment src dst sport dport payload))) = true.
Proof.
  intros Hs Hd Ls Ld Hp Lp. unfold udp_segment.
  set (l := 8 + len payload).
  set (pre := u16b sport ++ u16b dport ++ u16b l).
  set (s0 := u16b sport ++ u16b dport ++ u16b l ++ [0; 0] ++ payload).
  assert (E0 : s0 = pre ++ [0; 0] ++ payload) by (unfold s0, pre, u16b; reflexivity).
  assert (Lpre : len pre = 6) by (unfold pre, u16b, len; reflexivity).
  rewrite (put16_split 6 _ s0 pre payload E0 (eq_sym Lpre)).
  assert (Ll : len (pre ++ u16b (cksum s0 (pseudo src dst 17 l)) ++ payload) = l).
  { unfold l, len. rewrite !app_length. unfold pre, u16b. cbn [length app]. lia. }
  rewrite Ll. rewrite E0.
  apply checksum_field_verifies.
  - unfold pre, u16b. reflexivity.
  - unfold pre. repeat (apply Forall_app; split); auto using u16b_ok; repeat constructor; unfold byte_ok; lia.
  - apply pseudo_bound; auto; try lia. unfold l, len. lia.
  - unfold pre, u16b, len. rewrite !app_length. cbn [length]. lia.
Qed.

(** the ICMPv6 echo body of every probe verifies against the pseudo-header *)
Theorem icmp6_body_checksum src dst echo_id ttl :
  Forall byte_ok src -> Forall byte_ok dst -> (length src <= 16)%nat -> (length dst <= 16)%nat -> byte_ok ttl ->
  let body0 := [128; 0; 0; 0] ++ u16b echo_id ++ u16b ttl ++ [ttl] in
  verifies (put16 2 (cksum body0 (pseudo src dst 58 (len body0))) body0) (pseudo src dst 58 (len body0)) = true.
Proof.
  intros Hs Hd Ls Ld Ht. cbn zeta.
  rewrite (put16_split 2 _ _ [128; 0] (u16b echo_id ++ u16b ttl ++ [ttl])) by reflexivity.
  replace ([128; 0; 0; 0] ++ u16b echo_id ++ u16b ttl ++ [ttl]) with ([128; 0] ++ [0; 0] ++ (u16b echo_id ++ u16b ttl ++ [ttl])) by reflexivity.
  apply checksum_field_verifies.
  - reflexivity.
  - repeat (apply Forall_app; split); auto using u16b_ok; repeat constructor; auto; unfold byte_ok; lia.
  - apply pseudo_bound; auto; try lia. unfold u16b, len. cbn. lia.
  - unfold u16b, len. cbn. lia.
Qed.
