(** C06: UDP and ICMPv6 checksum validity (same pattern as the TCP segment theorem). *)
From Coq Require Import List ZArith Bool Lia.
From TR Require Import Lib.Bytes Wire.Build Spec.C06 Proofs.BuildProofs.
Import ListNotations.
Open Scope Z_scope.

Lemma pseudo_bound src dst proto l :
  Forall byte_ok src -> Forall byte_ok dst -> (length src <= 16)%nat -> (length dst <= 16)%nat -> 0 <= proto < 256 -> 0 <= l < 65536 ->
  0 <= pseudo src dst proto l < 16777216.
Proof.
  intros Hs Hd Ls Ld Hp Hl. unfold pseudo. pose proof (sum16_bound src 0 Hs). pose proof (sum16_bound dst 0 Hd).
  Z.div_mod_to_equations. lia.
Qed.

(** the all-ones substitute of a zero checksum verifies just as the zero would *)
Lemma fold16_add_ffff s : 0 <= s < 4294901760 -> fold16 s = 65535 -> fold16 (s + 65535) = 65535.
Proof. unfold fold16, fold1. intros Hs H. Z.div_mod_to_equations. lia. Qed.

Theorem udp_checksum_field_verifies pre post init :
  Nat.even (length pre) = true -> Forall byte_ok (pre ++ [0; 0] ++ post) -> 0 <= init < 16777216 ->
  len (pre ++ [0; 0] ++ post) <= 60000 ->
  verifies (pre ++ u16b (udp_ck (cksum (pre ++ [0; 0] ++ post) init)) ++ post) init = true.
Proof.
  intros He Hb Hi Hl. unfold udp_ck. destruct (cksum (pre ++ [0; 0] ++ post) init =? 0) eqn:E0.
  - apply Z.eqb_eq in E0. unfold verifies. unfold cksum in E0. unfold len in Hl.
    pose proof (sum16_bound _ init Hb) as B.
    set (s := sum16 (pre ++ [0; 0] ++ post) init) in *.
    assert (Hs : 0 <= s < 4294901760) by lia.
    rewrite sum16_put by (auto; lia). fold s. rewrite fold16_add_ffff by (auto; lia). reflexivity.
  - apply checksum_field_verifies; assumption.
Qed.

Lemma udp_ck_range c : 0 <= c <= 65535 -> 1 <= udp_ck c <= 65535.
Proof. intros H. unfold udp_ck. destruct (c =? 0) eqn:E; [lia|]. apply Z.eqb_neq in E. lia. Qed.

(** every UDP segment the builders emit verifies against the pseudo-header *)
Theorem udp_segment_checksum src dst sport dport payload :
  Forall byte_ok src -> Forall byte_ok dst -> (length src <= 16)%nat -> (length dst <= 16)%nat ->
  Forall byte_ok payload -> (length payload <= 1000)%nat ->
  verifies (udp_segment src dst sport dport payload) (pseudo src dst 17 (len (udp_segment src dst sport dport payload))) = true.
Proof.
  intros Hs Hd Ls Ld Hp Lp. unfold udp_segment.
  set (l := 8 + len payload).
  set (pre := u16b sport ++ u16b dport ++ u16b l).
  set (s0 := u16b sport ++ u16b dport ++ u16b l ++ [0; 0] ++ payload).
  assert (E0 : s0 = pre ++ [0; 0] ++ payload) by (unfold s0, pre, u16b; reflexivity).
  assert (Lpre : len pre = 6) by (unfold pre, u16b, len; reflexivity).
  rewrite (put16_split 6 _ s0 pre payload E0 (eq_sym Lpre)).
  assert (Ll : len (pre ++ u16b (udp_ck (cksum s0 (pseudo src dst 17 l))) ++ payload) = l).
  { unfold l, len. rewrite !app_length. unfold pre, u16b. cbn [length app]. lia. }
  rewrite Ll. rewrite E0.
  apply udp_checksum_field_verifies.
  - unfold pre, u16b. reflexivity.
  - unfold pre. repeat (apply Forall_app; split); auto using u16b_ok; repeat constructor; unfold byte_ok; lia.
  - apply pseudo_bound; auto; try lia. unfold l, len. lia.
  - unfold pre, u16b, len. rewrite !app_length. cbn [length]. lia.
Qed.

(** the ICMPv6 echo body of every probe verifies against the pseudo-header *)
Theorem icmp6_body_checksum src dst echo_id ttl :
  Forall byte_ok src -> Forall byte_ok dst -> (length src <= 16)%nat -> (length dst <= 16)%nat -> byte_ok ttl ->
  let body0 := [128; 0; 0; 0] ++ u16b echo_id ++ u16b ttl ++ [ttl] in
  verifies (put16 2 (cksum body0 (pseudo src dst 58 (len body0))) body0) (pseudo src dst 58 (len body0)) = true.
Proof.
  intros Hs Hd Ls Ld Ht. cbn zeta.
  rewrite (put16_split 2 _ _ [128; 0] (u16b echo_id ++ u16b ttl ++ [ttl])) by reflexivity.
  replace ([128; 0; 0; 0] ++ u16b echo_id ++ u16b ttl ++ [ttl]) with ([128; 0] ++ [0; 0] ++ (u16b echo_id ++ u16b ttl ++ [ttl])) by reflexivity.
  apply checksum_field_verifies.
  - reflexivity.
  - repeat (apply Forall_app; split); auto using u16b_ok; repeat constructor; auto; unfold byte_ok; lia.
  - apply pseudo_bound; auto; try lia. unfold u16b, len. cbn. lia.
  - unfold u16b, len. cbn. lia.
Qed.

(** the checksum field of every UDP segment the builders emit is non-zero (RFC 768; RFC 8200 section 8.1: an IPv6
    receiver discards a UDP datagram whose checksum field is zero), for every address, port and payload *)
Theorem udp_segment_checksum_nonzero src dst sport dport payload :
  Forall byte_ok src -> Forall byte_ok dst -> (length src <= 16)%nat -> (length dst <= 16)%nat ->
  Forall byte_ok payload -> (length payload <= 1000)%nat ->
  let seg := udp_segment src dst sport dport payload in
  1 <= be16 (nth 6 seg 0) (nth 7 seg 0) <= 65535.
Proof.
  intros Hs Hd Ls Ld Hp Lp. cbn zeta. unfold udp_segment.
  set (l := 8 + len payload).
  set (pre := u16b sport ++ u16b dport ++ u16b l).
  set (s0 := u16b sport ++ u16b dport ++ u16b l ++ [0; 0] ++ payload).
  assert (E0 : s0 = pre ++ [0; 0] ++ payload) by (unfold s0, pre, u16b; reflexivity).
  assert (Lpre : len pre = 6) by (unfold pre, u16b, len; reflexivity).
  rewrite (put16_split 6 _ s0 pre payload E0 (eq_sym Lpre)).
  set (v := udp_ck _).
  assert (Hv : 1 <= v <= 65535).
  { unfold v. apply udp_ck_range. unfold cksum.
    assert (Hb : Forall byte_ok s0).
    { rewrite E0. unfold pre. repeat (apply Forall_app; split); auto using u16b_ok; repeat constructor; unfold byte_ok; lia. }
    pose proof (sum16_bound s0 (pseudo src dst 17 l) Hb) as B.
    assert (Pb : 0 <= pseudo src dst 17 l < 16777216) by (apply pseudo_bound; auto; try lia; unfold l, len; lia).
    assert (Ls0 : (length s0 <= 1008)%nat) by (unfold s0, u16b; rewrite !app_length; cbn [length]; lia).
    destruct (fold16_range (sum16 s0 (pseudo src dst 17 l)) ltac:(lia)) as [R1 _]. lia. }
  unfold pre, u16b. cbn [app nth]. unfold be16.
  Z.div_mod_to_equations. lia.
Qed.
