From Coq Require Import List ZArith Bool Lia.
From TR Require Import Pol.Alloc.
Import ListNotations.
Open Scope Z_scope.

Lemma mod32_16 x : (x mod M32) mod M16 = x mod M16.
Proof. unfold M32, M16. Z.div_mod_to_equations. lia. Qed.

Lemma alloc_base c m : snd (alloc c m) = c mod M16.
Proof.
  unfold alloc. cbn [snd]. rewrite mod32_16. rewrite Zminus_mod, mod32_16, <- Zminus_mod. f_equal. lia.
Qed.

Lemma alloc_counter c m : fst (alloc c m) mod M16 = (c + m) mod M16.
Proof. unfold alloc. cbn [fst]. apply mod32_16. Qed.

(** the i-th block of a sequence starts at c0 + (sum of the earlier sizes), modulo 2^16 — whatever the 32-bit counter does *)
Fixpoint sum (l : list Z) : Z := match l with [] => 0 | x :: r => x + sum r end.

Lemma alloc_seq_nth : forall ms c i b,
  nth_error (alloc_seq c ms) i = Some b ->
  exists m, nth_error ms i = Some m /\ snd b = m /\ fst b = (c + sum (firstn i ms)) mod M16.
Proof.
  induction ms as [|m r IH]; intros c i b H; [destruct i; discriminate|].
  cbn [alloc_seq] in H. destruct (alloc c m) as [c' b0] eqn:A.
  destruct i as [|i]; cbn [nth_error firstn sum] in *.
  - injection H as <-. exists m. cbn. split; [reflexivity|]. split; [reflexivity|].
    pose proof (alloc_base c m) as B. rewrite A in B. cbn in B. rewrite B. f_equal. lia.
  - apply IH in H. destruct H as [m' [H1 [H2 H3]]]. exists m'. split; [exact H1|]. split; [exact H2|].
    rewrite H3. pose proof (alloc_counter c m) as C. rewrite A in C. cbn in C.
    rewrite Zplus_mod, C, <- Zplus_mod. f_equal. lia.
Qed.

Lemma mod_eq_small M a b : 0 < M -> a mod M = b mod M -> -M < a - b < M -> a = b.
Proof.
  intros HM H Hd. assert (E : (a - b) mod M = 0) by (rewrite Zminus_mod, H, Z.sub_diag; apply Z.mod_0_l; lia).
  apply Z.mod_divide in E; [|lia]. destruct E as [k E]. assert (k = 0) by nia. lia.
Qed.

(** C11: blocks handed out by any allocation sequence, from ANY 32-bit counter value, do not overlap
    while the identifiers from the start of the earlier block to the end of the later one number at most 65536 *)
Theorem blocks_disjoint ms c i j bi bj x :
  Forall (fun m => 0 <= m) ms -> (i < j)%nat ->
  nth_error (alloc_seq c ms) i = Some bi -> nth_error (alloc_seq c ms) j = Some bj ->
  sum (firstn (S j) ms) - sum (firstn i ms) <= M16 ->
  in_block bi x -> in_block bj x -> False.
Proof.
  intros Hnn Hij Hi Hj Hsum [t [Ht ->]] [t' [Ht' E]].
  apply alloc_seq_nth in Hi. apply alloc_seq_nth in Hj.
  destruct Hi as [mi [Ni [Si Fi]]]. destruct Hj as [mj [Nj [Sj Fj]]].
  unfold block_id in E. rewrite Fi, Fj in E. rewrite !Zplus_mod_idemp_l in E.
  (* sums: firstn j = firstn i + mi + (between) ; firstn (S j) = firstn j + mj *)
  assert (Hsplit : forall k l, Forall (fun m => 0 <= m) l -> (k <= length l)%nat -> 0 <= sum (firstn k l)).
  { intros k l. revert k. induction l as [|a l IHl]; intros [|k] Hl Hk; cbn; try lia.
    inversion Hl; subst. cbn in Hk. specialize (IHl k H2 ltac:(lia)). lia. }
  assert (Hmono : forall l a b, Forall (fun m => 0 <= m) l -> (a <= b)%nat -> sum (firstn a l) <= sum (firstn b l)).
  { induction l as [|y l IHl]; intros a b Hl Hab; [destruct a, b; cbn; lia|].
    inversion Hl; subst. destruct a as [|a], b as [|b]; cbn; try lia.
    - assert (0 <= sum (firstn b l)).
      { clear -H2. revert b. induction l as [|z l IH2]; intros [|b]; cbn; try lia. inversion H2; subst. specialize (IH2 H3 b). lia. }
      lia.
    - specialize (IHl a b H2 ltac:(lia)). lia. }
  assert (HS : forall l k m, nth_error l k = Some m -> sum (firstn (S k) l) = sum (firstn k l) + m).
  { induction l as [|y l IHl]; intros [|k] m Hn; cbn in *; try discriminate.
    - injection Hn as ->. destruct l; cbn; lia.
    - rewrite (IHl k m Hn). destruct l; cbn in *; lia. }
  pose proof (HS ms i mi Ni) as Ei. pose proof (HS ms j mj Nj) as Ej.
  pose proof (Hmono ms (S i) j Hnn ltac:(lia)) as Hm.
  rewrite Si in Ht. rewrite Sj in Ht'. cbn [snd] in *.
  (* the two identifiers are congruent but strictly less than 2^16 apart *)
  apply (mod_eq_small M16) in E; [lia|unfold M16; lia|unfold M16 in *; lia].
Qed.

Lemma NoDup_map_in {A B} (f : A -> B) (l : list A) :
  (forall x y, In x l -> In y l -> f x = f y -> x = y) -> NoDup l -> NoDup (map f l).
Proof.
  intros Hinj Hnd. induction Hnd as [|a l Hna Hnd IH]; cbn; constructor.
  - intros Hin. apply in_map_iff in Hin. destruct Hin as [y [Hy Hyl]].
    assert (y = a) by (apply Hinj; [right; exact Hyl|left; reflexivity|exact Hy]). subst. contradiction.
  - apply IH. intros x y Hx Hy. apply Hinj; right; assumption.
Qed.

(** echo identifiers: n consecutive allocations with n <= 65536 are pairwise distinct, from any counter value *)
Theorem echo_ids_distinct c n : Z.of_nat n <= M16 -> NoDup (echo_ids c n).
Proof.
  intros Hn. unfold echo_ids. apply NoDup_map_in; [|apply seq_NoDup].
  intros i j Hi Hj E. apply in_seq in Hi, Hj. rewrite !mod32_16 in E.
  apply (mod_eq_small M16) in E; [lia|unfold M16; lia|unfold M16 in *; lia].
Qed.
