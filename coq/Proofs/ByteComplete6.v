(** C02 on raw bytes (IPv6): codec lemma for IPv6 headers without extension headers and recognition of the ICMPv6
    time-exceeded quoting the whole probe, and of the echo reply, by the ICMP driver — for ALL field values. *)
From Coq Require Import List ZArith Bool Lia.
From TR Require Import Lib.Bytes Wire.Decode Wire.Build Drv.Drivers Proofs.ByteComplete.
Import ListNotations.
Open Scope Z_scope.

(** an IPv6 header in front of [rest]; version/class/flow bytes, hop limit, addresses arbitrary *)
Definition hdr6 (v0 v1 v2 v3 l1 l2 nh hl : Z) (src dst rest : bytes) : bytes :=
  v0 :: v1 :: v2 :: v3 :: l1 :: l2 :: nh :: hl :: src ++ dst ++ rest.

Lemma takez_app_exact (a b : bytes) n : len a = n -> takez n (a ++ b) = a.
Proof.
  intros H. unfold takez, len in *. replace (Z.to_nat n) with (length a + 0)%nat by lia.
  rewrite firstn_app_2. cbn. apply app_nil_r.
Qed.

Lemma dropz_app_exact (a b : bytes) n : len a = n -> dropz n (a ++ b) = b.
Proof.
  intros H. unfold dropz, len in *. replace (Z.to_nat n) with (length a) by lia.
  rewrite skipn_app, skipn_all, Nat.sub_diag. reflexivity.
Qed.

Lemma decode_ip6_noext v0 v1 v2 v3 l1 l2 nh hl src dst rest :
  len src = 16 -> len dst = 16 -> nh <> 0 -> 256 * l1 + l2 <> 0 ->
  decode_ip6 (hdr6 v0 v1 v2 v3 l1 l2 nh hl src dst rest)
  = Some (mkIp6 (256 * l1 + l2) nh nh hl src dst (takez (256 * l1 + l2) rest)).
Proof.
  intros Hs Hd Hn Hl. unfold decode_ip6, hdr6.
  assert (Ll : len (v0 :: v1 :: v2 :: v3 :: l1 :: l2 :: nh :: hl :: src ++ dst ++ rest) = 40 + len rest).
  { unfold len in *. cbn [length]. rewrite !app_length. lia. }
  rewrite Ll. pose proof (len_ge0 rest).
  replace (40 + len rest <? 40) with false by (symmetry; apply Z.ltb_ge; lia).
  replace (nh =? 0) with false by (symmetry; apply Z.eqb_neq; exact Hn).
  replace (256 * l1 + l2 =? 0) with false by (symmetry; apply Z.eqb_neq; exact Hl).
  rewrite (takez_app_exact src (dst ++ rest) 16 Hs).
  rewrite (dropz_app_exact src (dst ++ rest) 16 Hs).
  rewrite (takez_app_exact dst rest 16 Hd).
  replace (dropz 32 (src ++ dst ++ rest)) with rest.
  - reflexivity.
  - rewrite app_assoc. symmetry. apply dropz_app_exact. unfold len in *. rewrite app_length. lia.
Qed.

Lemma takez_all (l : bytes) n : len l <= n -> takez n l = l.
Proof. intros H. unfold takez, len in *. apply firstn_all2. lia. Qed.

(** the ICMPv6 probe for TTL t as an explicit byte list *)
Lemma icmp6_probe_bytes src dst eid t :
  exists v1 v2,
  icmp6_probe src dst eid t =
  hdr6 96 0 0 0 0 9 58 t src dst [128; 0; v1; v2; (eid / 256) mod 256; eid mod 256; (t / 256) mod 256; t mod 256; t].
Proof.
  unfold icmp6_probe, ip6_header, put16, hdr6.
  set (body0 := [128; 0; 0; 0] ++ u16b eid ++ u16b t ++ [t]).
  set (v := cksum body0 (pseudo src dst 58 (len body0))).
  assert (Eb : takez 2 body0 ++ u16b v ++ dropz (2 + 2) body0 = [128; 0; (v / 256) mod 256; v mod 256; (eid / 256) mod 256; eid mod 256; (t / 256) mod 256; t mod 256; t])
    by (unfold body0, u16b; reflexivity).
  rewrite Eb. exists ((v / 256) mod 256), (v mod 256).
  replace (len [128; 0; (v / 256) mod 256; v mod 256; (eid / 256) mod 256; eid mod 256; (t / 256) mod 256; t mod 256; t]) with 9 by reflexivity.
  unfold u16b. replace ((9 / 256) mod 256) with 0 by reflexivity. replace (9 mod 256) with 9 by reflexivity.
  cbn [app]. rewrite <- !app_assoc. reflexivity.
Qed.

(** C02, byte level, ICMP over IPv6: a time-exceeded from ANY router address, with ANY traffic class / flow label /
    hop limit, ANY ICMPv6 checksum and unused bytes, quoting the WHOLE probe for TTL t (the minimum MTU guarantees
    it fits), is recognised as the hop for t with that router's address *)
Theorem icmp6_te_recognised c st t now s w1 w2 w3 hl0 k1 k2 u1 u2 u3 u4 router :
  c_variant c = VIcmp -> len (c_local c) = 16 -> len (c_target c) = 16 -> len router = 16 ->
  0 <= c_first c -> c_last c <= 255 -> in_ttl_range c t = true -> 0 <= c_echo_id c < 65536 ->
  find_ttl st t = Some s ->
  let probe := icmp6_probe (c_local c) (c_target c) (c_echo_id c) t in
  recv c st (hdr6 96 w1 w2 w3 0 57 58 hl0 router (c_local c) ([3; 0; k1; k2; u1; u2; u3; u4] ++ probe)) now
  = Hop t router (now - s_time s) false.
Proof.
  intros V LL LT LR Hf Hl Hr He Hs probe.
  assert (Ht : 0 <= t <= 255).
  { unfold in_ttl_range in Hr. apply andb_true_iff in Hr. destruct Hr as [A B]. apply Z.leb_le in A, B. lia. }
  unfold probe.
  destruct (icmp6_probe_bytes (c_local c) (c_target c) (c_echo_id c) t) as [v1 [v2 EP]]. rewrite EP.
  set (q := hdr6 96 0 0 0 0 9 58 t (c_local c) (c_target c) [128; 0; v1; v2; (c_echo_id c / 256) mod 256; c_echo_id c mod 256; (t / 256) mod 256; t mod 256; t]).
  assert (Lq : len q = 49).
  { unfold q, hdr6, len in *. cbn [length]. rewrite !app_length. cbn [length]. lia. }
  unfold recv, frame_parse. unfold hdr6 at 1. replace (96 / 16 =? 4) with false by reflexivity. replace (96 / 16 =? 6) with true by reflexivity.
  match goal with |- context [decode_ip6 ?b] => change b with (hdr6 96 w1 w2 w3 0 57 58 hl0 router (c_local c) ([3; 0; k1; k2; u1; u2; u3; u4] ++ q)) end.
  rewrite (decode_ip6_noext 96 w1 w2 w3 0 57 58 hl0 router (c_local c) ([3; 0; k1; k2; u1; u2; u3; u4] ++ q) LR LL ltac:(lia) ltac:(lia)).
  replace (256 * 0 + 57) with 57 by reflexivity.
  rewrite takez_all by (unfold len in *; cbn [app length]; lia).
  unfold parse_l4_v6. cbn [i6_payload i6_nh i6_src i6_dst app]. replace (58 =? 6) with false by reflexivity. replace (58 =? 58) with true by reflexivity.
  unfold recv_view. rewrite V. unfold recv_icmp. cbn [v_l4 v_src v_dst]. replace (3 =? 3) with true by reflexivity.
  unfold icmp_info. cbn [v_l4].
  replace (dropz 4 (u1 :: u2 :: u3 :: u4 :: q)) with q by reflexivity.
  unfold q at 1. unfold hdr6 at 1. replace (96 / 16 =? 6) with true by reflexivity.
  unfold q. rewrite (decode_ip6_noext 96 0 0 0 0 9 58 t (c_local c) (c_target c) _ LL LT ltac:(lia) ltac:(lia)).
  replace (256 * 0 + 9) with 9 by reflexivity.
  rewrite takez_all by (unfold len; cbn [length]; lia).
  cbn [ii_dst ii_src ii_payload ii_id i6_src i6_dst i6_payload i6_nh_raw i6_len].
  unfold addr_eqb. rewrite !bytes_eqb_refl. cbn [negb].
  unfold quoted_echo6. replace ((128 =? 128) || (128 =? 129)) with true by reflexivity.
  unfold be16. rewrite !u16_hi_lo by lia. rewrite Z.eqb_refl. cbn [negb].
  unfold hop_for, rtt_of. rewrite Hr, Hs. rewrite Z.mod_small by lia. reflexivity.
Qed.

(** the ICMPv6 echo reply from the target (any trailing data) is the destination hop for t *)
Theorem icmp6_echo_reply_recognised c st t now s w1 w2 w3 l1 l2 hl0 k1 k2 data :
  c_variant c = VIcmp -> len (c_local c) = 16 -> len (c_target c) = 16 ->
  0 <= c_first c -> c_last c <= 255 -> in_ttl_range c t = true -> 0 <= c_echo_id c < 65536 ->
  256 * l1 + l2 = 8 + len data ->
  find_ttl st t = Some s ->
  recv c st (hdr6 96 w1 w2 w3 l1 l2 58 hl0 (c_target c) (c_local c)
                  ([129; 0; k1; k2; (c_echo_id c / 256) mod 256; c_echo_id c mod 256; (t / 256) mod 256; t mod 256] ++ data)) now
  = Hop t (c_target c) (now - s_time s) true.
Proof.
  intros V LL LT Hf Hl Hr He Hlen Hs.
  assert (Ht : 0 <= t <= 255).
  { unfold in_ttl_range in Hr. apply andb_true_iff in Hr. destruct Hr as [A B]. apply Z.leb_le in A, B. lia. }
  pose proof (len_ge0 data) as Hd0.
  unfold recv, frame_parse. unfold hdr6 at 1. replace (96 / 16 =? 4) with false by reflexivity. replace (96 / 16 =? 6) with true by reflexivity.
  match goal with |- context [decode_ip6 ?b] => change b with (hdr6 96 w1 w2 w3 l1 l2 58 hl0 (c_target c) (c_local c) ([129; 0; k1; k2; (c_echo_id c / 256) mod 256; c_echo_id c mod 256; (t / 256) mod 256; t mod 256] ++ data)) end.
  rewrite (decode_ip6_noext 96 w1 w2 w3 l1 l2 58 hl0 (c_target c) (c_local c) _ LT LL ltac:(lia) ltac:(lia)).
  rewrite takez_all by (unfold len in *; cbn [app length] in *; lia).
  unfold parse_l4_v6. cbn [i6_payload i6_nh i6_src i6_dst app]. replace (58 =? 6) with false by reflexivity. replace (58 =? 58) with true by reflexivity.
  unfold recv_view. rewrite V. unfold recv_icmp. cbn [v_l4 v_src v_dst]. replace (129 =? 3) with false by reflexivity. replace (129 =? 129) with true by reflexivity.
  unfold addr_eqb. rewrite !bytes_eqb_refl. cbn [negb orb].
  unfold be16. rewrite !u16_hi_lo by lia. rewrite Z.eqb_refl. cbn [negb].
  unfold hop_for, rtt_of. rewrite Hr, Hs. rewrite Z.mod_small by lia. reflexivity.
Qed.

(** ---- UDP over IPv6 *)
Lemma repeat_magic_length : forall n cur, length (repeat_magic n cur) = n.
Proof.
  induction n as [|n IH]; intros cur; cbn [repeat_magic]; [reflexivity|].
  destruct cur as [|x r]; cbn [magic length]; rewrite IH; reflexivity.
Qed.

Lemma udp_segment_bytes src dst sp dp payload :
  exists v1 v2,
  udp_segment src dst sp dp payload =
  [(sp / 256) mod 256; sp mod 256; (dp / 256) mod 256; dp mod 256; ((8 + len payload) / 256) mod 256; (8 + len payload) mod 256; v1; v2] ++ payload.
Proof.
  unfold udp_segment, put16.
  set (l := 8 + len payload).
  set (s0 := u16b sp ++ u16b dp ++ u16b l ++ [0; 0] ++ payload).
  set (v := udp_ck (cksum s0 _)).
  exists ((v / 256) mod 256), (v mod 256). unfold s0, u16b. reflexivity.
Qed.

(** C02, byte level, UDP over IPv6: a time-exceeded or ANY destination-unreachable code from ANY address quoting the
    whole probe for TTL t is recognised as the hop of the probe with that payload length; destination iff from the target *)
Theorem udp6_icmp_error_recognised c st t now s ty co w1 w2 w3 L1 L2 hl0 k1 k2 u1 u2 u3 u4 router :
  c_variant c = VUdp -> len (c_local c) = 16 -> len (c_target c) = 16 -> len router = 16 ->
  0 <= c_sport c < 65536 -> 0 <= c_dport c < 65536 -> 0 <= t <= 255 ->
  ((ty = 3 /\ co = 0) \/ ty = 1) -> 256 * L1 + L2 = 61 + t ->
  find (fun x => s_id x =? udp6_id t) st = Some s ->
  let probe := udp6_probe (c_local c) (c_target c) (c_sport c) (c_dport c) t in
  recv c st (hdr6 96 w1 w2 w3 L1 L2 58 hl0 router (c_local c) ([ty; co; k1; k2; u1; u2; u3; u4] ++ probe)) now
  = Hop (s_ttl s) router (now - s_time s) (bytes_eqb router (c_target c)).
Proof.
  intros V LL LT LR Hsp Hdp Ht Hty HL Hs probe.
  unfold probe, udp6_probe.
  set (pl := repeat_magic (Z.to_nat (5 + t)) magic).
  assert (Lpl : len pl = 5 + t) by (unfold pl, len; rewrite repeat_magic_length; lia).
  destruct (udp_segment_bytes (c_local c) (c_target c) (c_sport c) (c_dport c) pl) as [v1 [v2 ES]]. rewrite ES.
  set (seg := [(c_sport c / 256) mod 256; c_sport c mod 256; (c_dport c / 256) mod 256; c_dport c mod 256;
               ((8 + len pl) / 256) mod 256; (8 + len pl) mod 256; v1; v2] ++ pl).
  assert (Lseg : len seg = 13 + t) by (unfold seg, len in *; rewrite app_length; cbn [length]; lia).
  unfold ip6_header. rewrite Lseg.
  set (q := [96; 0; 0; 0] ++ u16b (13 + t) ++ [17; t] ++ c_local c ++ c_target c).
  assert (Eq : (q ++ seg) = hdr6 96 0 0 0 (((13 + t) / 256) mod 256) ((13 + t) mod 256) 17 t (c_local c) (c_target c) seg).
  { unfold q, hdr6, u16b. cbn [app]. rewrite <- !app_assoc. reflexivity. }
  rewrite Eq.
  assert (E16 : 256 * (((13 + t) / 256) mod 256) + (13 + t) mod 256 = 13 + t) by (apply u16_hi_lo; lia).
  set (Q := hdr6 96 0 0 0 (((13 + t) / 256) mod 256) ((13 + t) mod 256) 17 t (c_local c) (c_target c) seg).
  assert (LQ : len Q = 53 + t).
  { unfold Q, hdr6, len in *. cbn [length]. rewrite !app_length. lia. }
  unfold recv, frame_parse. unfold hdr6 at 1. replace (96 / 16 =? 4) with false by reflexivity. replace (96 / 16 =? 6) with true by reflexivity.
  match goal with |- context [decode_ip6 ?b] => change b with (hdr6 96 w1 w2 w3 L1 L2 58 hl0 router (c_local c) ([ty; co; k1; k2; u1; u2; u3; u4] ++ Q)) end.
  rewrite (decode_ip6_noext 96 w1 w2 w3 L1 L2 58 hl0 router (c_local c) _ LR LL ltac:(lia) ltac:(lia)).
  rewrite takez_all by (unfold len in *; cbn [app length]; lia).
  unfold parse_l4_v6. cbn [i6_payload i6_nh i6_src i6_dst app]. replace (58 =? 6) with false by reflexivity. replace (58 =? 58) with true by reflexivity.
  unfold recv_view. rewrite V. unfold recv_udp. cbn [v_l4 v_src v_dst].
  assert (Hk : negb (is_ttl_exceeded (L4Icmp6 ty co (u1 :: u2 :: u3 :: u4 :: Q))) && negb (is_dest_unreachable (L4Icmp6 ty co (u1 :: u2 :: u3 :: u4 :: Q))) = false).
  { cbn [is_ttl_exceeded is_dest_unreachable]. destruct Hty as [[-> ->]| ->]; [reflexivity|]. replace (1 =? 1) with true by reflexivity. cbn [negb]. apply andb_false_r. }
  rewrite Hk.
  unfold icmp_info. cbn [v_l4].
  replace (dropz 4 (u1 :: u2 :: u3 :: u4 :: Q)) with Q by reflexivity.
  unfold Q at 1. unfold hdr6 at 1. replace (96 / 16 =? 6) with true by reflexivity.
  unfold Q. rewrite (decode_ip6_noext 96 0 0 0 _ _ 17 t (c_local c) (c_target c) seg LL LT ltac:(lia) ltac:(rewrite E16; lia)).
  rewrite E16. rewrite takez_all by lia.
  cbn [ii_dst ii_src ii_payload ii_id i6_src i6_dst i6_payload i6_nh_raw i6_len].
  replace (17 =? 17) with true by reflexivity.
  unfold seg at 1. cbn [app first8].
  unfold addr_eqb, be16. rewrite !bytes_eqb_refl, !u16_hi_lo, !Z.eqb_refl by lia.
  cbn [andb negb]. rewrite andb_false_r.
  replace (13 + t) with (udp6_id t) by (unfold udp6_id; rewrite Z.mod_small; lia).
  rewrite Hs. reflexivity.
Qed.
