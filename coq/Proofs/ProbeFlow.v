(** C06: the probes the driver model sends carry the run's addresses and ports ([probe_flow_ok]) and this TTL's
    per-probe identifier ([wire_id_ok]) — for every configuration, TTL and identifier base. *)
From Coq Require Import List ZArith Bool Lia.
From TR Require Import Lib.Bytes Wire.Decode Wire.Build Drv.Drivers Spec.C06
  Proofs.BuildProofs Proofs.BuildProofs2 Proofs.ByteComplete Proofs.ByteComplete6 Proofs.ProbeWf.
Import ListNotations.
Open Scope Z_scope.

Lemma takez16_dropz8_hdr6 v0 v1 v2 v3 l1 l2 nh hl src dst rest :
  len src = 16 -> len dst = 16 ->
  takez 16 (dropz 8 (hdr6 v0 v1 v2 v3 l1 l2 nh hl src dst rest)) = src
  /\ takez 16 (dropz 24 (hdr6 v0 v1 v2 v3 l1 l2 nh hl src dst rest)) = dst.
Proof.
  intros Hs Hd. unfold hdr6. split.
  - change (dropz 8 (v0 :: v1 :: v2 :: v3 :: l1 :: l2 :: nh :: hl :: src ++ dst ++ rest)) with (src ++ dst ++ rest).
    apply takez_app_exact. exact Hs.
  - change (dropz 24 (v0 :: v1 :: v2 :: v3 :: l1 :: l2 :: nh :: hl :: src ++ dst ++ rest)) with (dropz 16 (src ++ dst ++ rest)).
    rewrite (dropz_app_exact src (dst ++ rest) 16 Hs). apply takez_app_exact. exact Hd.
Qed.

Lemma tcp_segment_bytes src dst sp dp seq ack flags opts payload :
  exists v1 v2,
  tcp_segment src dst sp dp seq ack flags opts payload =
  [(sp / 256) mod 256; sp mod 256; (dp / 256) mod 256; dp mod 256;
   (seq / 16777216) mod 256; (seq / 65536) mod 256; (seq / 256) mod 256; seq mod 256;
   (ack / 16777216) mod 256; (ack / 65536) mod 256; (ack / 256) mod 256; ack mod 256;
   (20 + len opts) / 4 * 16; flags; 4; 0; v1; v2; 0; 0] ++ opts ++ payload.
Proof.
  unfold tcp_segment.
  set (doff := (20 + len opts) / 4).
  set (pre := u16b sp ++ u16b dp ++ u32b seq ++ u32b ack ++ [doff * 16; flags] ++ u16b 1024).
  set (post := [0; 0] ++ opts ++ payload).
  set (s0 := u16b sp ++ u16b dp ++ u32b seq ++ u32b ack ++ [doff * 16; flags] ++ u16b 1024 ++ [0; 0; 0; 0] ++ opts ++ payload).
  assert (E0 : s0 = pre ++ [0; 0] ++ post) by (unfold s0, pre, post, u16b, u32b; reflexivity).
  assert (Lpre : len pre = 16) by (unfold pre, u16b, u32b, len; reflexivity).
  rewrite (put16_split 16 _ s0 pre post E0 (eq_sym Lpre)).
  set (v := cksum _ _). exists ((v / 256) mod 256), (v mod 256).
  unfold pre, post, u16b, u32b. reflexivity.
Qed.

Lemma ip4_probe_bytes total id ff t pr s1 s2 s3 s4 d1 d2 d3 d4 body :
  exists c1 c2,
  ip4_header total id ff t pr [s1; s2; s3; s4] [d1; d2; d3; d4] ++ body
  = hdr4 0 ((total / 256) mod 256) (total mod 256) ((id / 256) mod 256) (id mod 256) ((ff / 256) mod 256) (ff mod 256) t pr c1 c2 s1 s2 s3 s4 d1 d2 d3 d4 body.
Proof.
  unfold ip4_header, hdr4. set (ck := cksum _ 0). exists ((ck / 256) mod 256), (ck mod 256). unfold u16b. reflexivity.
Qed.

Lemma hdr4_fields tos l1 l2 i1 i2 f1 f2 ttl pr c1 c2 s1 s2 s3 s4 d1 d2 d3 d4 rest :
  let p := hdr4 tos l1 l2 i1 i2 f1 f2 ttl pr c1 c2 s1 s2 s3 s4 d1 d2 d3 d4 rest in
  takez 4 (dropz 12 p) = [s1; s2; s3; s4] /\ takez 4 (dropz 16 p) = [d1; d2; d3; d4]
  /\ nth 4 p 0 = i1 /\ nth 5 p 0 = i2 /\ (forall k, nth (20 + k) p 0 = nth k rest 0).
Proof. cbn zeta. repeat split. Qed.

Definition cfg_ids_ok (c : cfg) (rnd : Z) : Prop :=
  0 <= c_echo_id c < 65536 /\ 0 <= c_seq c < 4294967296 /\ 0 <= rnd < 4294967296.

Ltac v4_open EP :=
  match type of EP with _ = hdr4 ?tos ?a ?b ?i1 ?i2 ?f1 ?f2 ?tt ?pr ?c1 ?c2 ?s1 ?s2 ?s3 ?s4 ?d1 ?d2 ?d3 ?d4 ?rest =>
    destruct (hdr4_fields tos a b i1 i2 f1 f2 tt pr c1 c2 s1 s2 s3 s4 d1 d2 d3 d4 rest) as [Fs [Fd [F4 [F5 Fn]]]]; cbn zeta in Fs, Fd, F4, F5, Fn
  end.

Theorem icmp4_flow_id c t l1 l2 l3 l4 t1 t2 t3 t4 :
  c_variant c = VIcmp -> c_local c = [l1; l2; l3; l4] -> c_target c = [t1; t2; t3; t4] ->
  0 <= c_echo_id c < 65536 -> 0 <= t <= 255 ->
  let p := icmp4_probe (c_local c) (c_target c) (c_echo_id c) t in
  probe_flow_ok c p = true /\ wire_id_ok c t 0 p = true.
Proof.
  intros V EL ET He Ht p. unfold p, probe_flow_ok, wire_id_ok, is_v6. rewrite V, EL, ET.
  replace (len [l1; l2; l3; l4] =? 16) with false by reflexivity.
  destruct (icmp4_probe_bytes l1 l2 l3 l4 t1 t2 t3 t4 (c_echo_id c) t) as [ck1 [ck2 [v1 [v2 EP]]]]. rewrite EP.
  v4_open EP. rewrite Fs, Fd, !bytes_eqb_refl. unfold w16.
  unfold hdr4. cbn [nth]. unfold be16. rewrite !u16_hi_lo by lia. rewrite !Z.eqb_refl. split; reflexivity.
Qed.

Theorem udp4_flow_id c t l1 l2 l3 l4 t1 t2 t3 t4 :
  c_variant c = VUdp -> c_local c = [l1; l2; l3; l4] -> c_target c = [t1; t2; t3; t4] ->
  0 <= c_sport c < 65536 -> 0 <= c_dport c < 65536 -> 0 <= t <= 255 ->
  let p := udp4_probe (c_local c) (c_target c) (c_sport c) (c_dport c) t in
  probe_flow_ok c p = true /\ wire_id_ok c t 0 p = true.
Proof.
  intros V EL ET Hsp Hdp Ht p. unfold p, probe_flow_ok, wire_id_ok, is_v6. rewrite V, EL, ET.
  replace (len [l1; l2; l3; l4] =? 16) with false by reflexivity.
  destruct (udp4_probe_bytes l1 l2 l3 l4 t1 t2 t3 t4 (c_sport c) (c_dport c) t) as [ck1 [ck2 [v1 [v2 EP]]]]. rewrite EP.
  v4_open EP. rewrite Fs, Fd, !bytes_eqb_refl. unfold w16.
  assert (Hid : 0 <= udp4_id t < 65536) by (unfold udp4_id; apply Z.mod_pos_bound; lia).
  replace (Z.to_nat 20) with 20%nat by reflexivity. unfold hdr4. cbn [nth Nat.add]. unfold be16. rewrite !u16_hi_lo by lia. rewrite !Z.eqb_refl. split; reflexivity.
Qed.

Lemma tcp4_flow c t id seq ack flags opts payload l1 l2 l3 l4 t1 t2 t3 t4 :
  (c_variant c = VTcp \/ c_variant c = VSack) -> c_local c = [l1; l2; l3; l4] -> c_target c = [t1; t2; t3; t4] ->
  0 <= c_sport c < 65536 -> 0 <= c_dport c < 65536 -> 0 <= id < 65536 -> 0 <= seq < 4294967296 ->
  let seg := tcp_segment (c_local c) (c_target c) (c_sport c) (c_dport c) seq ack flags opts payload in
  let p := ip4_header (20 + len seg) id 0 t 6 (c_local c) (c_target c) ++ seg in
  probe_flow_ok c p = true /\ w16 p 4 = id /\ w32 p 24 = seq.
Proof.
  intros V EL ET Hsp Hdp Hid Hseq seg p. unfold p, probe_flow_ok, is_v6.
  destruct (tcp_segment_bytes (c_local c) (c_target c) (c_sport c) (c_dport c) seq ack flags opts payload) as [v1 [v2 ES]].
  fold seg in ES. rewrite EL, ET.
  replace (len [l1; l2; l3; l4] =? 16) with false by reflexivity.
  destruct (ip4_probe_bytes (20 + len seg) id 0 t 6 l1 l2 l3 l4 t1 t2 t3 t4 seg) as [c1 [c2 EP]]. rewrite EP.
  v4_open EP. rewrite Fs, Fd, !bytes_eqb_refl. unfold w16, w32.
  replace (Z.to_nat 20) with 20%nat by reflexivity. rewrite ES. unfold hdr4. cbn [nth app Nat.add]. unfold be16.
  rewrite !u16_hi_lo by lia. rewrite u32_bytes by lia. rewrite !Z.eqb_refl.
  split; [destruct V as [-> | ->]; reflexivity|]. split; reflexivity.
Qed.

Theorem icmp6_flow_id c t :
  c_variant c = VIcmp -> len (c_local c) = 16 -> len (c_target c) = 16 ->
  0 <= c_echo_id c < 65536 -> 0 <= t <= 255 ->
  let p := icmp6_probe (c_local c) (c_target c) (c_echo_id c) t in
  probe_flow_ok c p = true /\ wire_id_ok c t 0 p = true.
Proof.
  intros V LL LT He Ht p. unfold p, probe_flow_ok, wire_id_ok, is_v6. rewrite V, LL.
  replace (16 =? 16) with true by reflexivity.
  destruct (icmp6_probe_bytes (c_local c) (c_target c) (c_echo_id c) t) as [v1 [v2 EP]]. rewrite EP.
  destruct (takez16_dropz8_hdr6 96 0 0 0 0 9 58 t (c_local c) (c_target c)
              [128; 0; v1; v2; (c_echo_id c / 256) mod 256; c_echo_id c mod 256; (t / 256) mod 256; t mod 256; t] LL LT) as [Fs Fd].
  rewrite Fs, Fd, !bytes_eqb_refl. unfold w16.
  change 47%nat with (40 + 7)%nat. change 46%nat with (40 + 6)%nat. change 45%nat with (40 + 5)%nat. change 44%nat with (40 + 4)%nat.
  rewrite !nth_hdr6 by assumption. cbn [nth]. unfold be16. rewrite !u16_hi_lo by lia. rewrite !Z.eqb_refl. split; reflexivity.
Qed.

Theorem udp6_flow_id c t :
  c_variant c = VUdp -> len (c_local c) = 16 -> len (c_target c) = 16 ->
  0 <= c_sport c < 65536 -> 0 <= c_dport c < 65536 -> 0 <= t <= 255 ->
  let p := udp6_probe (c_local c) (c_target c) (c_sport c) (c_dport c) t in
  probe_flow_ok c p = true /\ wire_id_ok c t 0 p = true.
Proof.
  intros V LL LT Hsp Hdp Ht p. unfold p, probe_flow_ok, wire_id_ok, is_v6. rewrite V, LL.
  replace (16 =? 16) with true by reflexivity. unfold udp6_probe.
  set (pl := repeat_magic (Z.to_nat (5 + t)) magic).
  assert (Lpl : len pl = 5 + t) by (unfold pl, len; rewrite repeat_magic_length; lia).
  destruct (udp_segment_bytes (c_local c) (c_target c) (c_sport c) (c_dport c) pl) as [v1 [v2 ES]].
  set (seg := udp_segment (c_local c) (c_target c) (c_sport c) (c_dport c) pl) in *.
  assert (Lseg : len seg = 13 + t) by (rewrite ES; unfold len in *; rewrite app_length; cbn [length]; lia).
  rewrite ip6_header_hdr6. rewrite Lseg.
  destruct (takez16_dropz8_hdr6 96 0 0 0 (((13 + t) / 256) mod 256) ((13 + t) mod 256) 17 t (c_local c) (c_target c) seg LL LT) as [Fs Fd].
  rewrite Fs, Fd, !bytes_eqb_refl. unfold w16.
  replace (Z.to_nat 40) with 40%nat by reflexivity.
  change (40 + 1)%nat with (40 + 1)%nat. replace 40%nat with (40 + 0)%nat at 1 by reflexivity.
  replace (40 + 0 + 1)%nat with (40 + 1)%nat by reflexivity. replace (40 + 0 + 2)%nat with (40 + 2)%nat by reflexivity. replace (40 + 0 + 3)%nat with (40 + 3)%nat by reflexivity.
  rewrite !nth_hdr6 by assumption.
  rewrite ES. cbn [nth app]. unfold hdr6. cbn [nth]. unfold be16. rewrite !u16_hi_lo by lia.
  replace (13 + t) with (udp6_id t) by (unfold udp6_id; rewrite Z.mod_small; lia).
  rewrite !Z.eqb_refl. split; reflexivity.
Qed.

(** ---- all variants: flow fields and identifier of every probe the driver model sends *)
Theorem sent_probe_flow_id_ok c st t now rnd st' pkt :
  cfg_wire_ok c -> cfg_ids_ok c rnd -> 0 <= t <= 255 -> send c st t now rnd = SendOk st' pkt ->
  probe_flow_ok c pkt = true /\ wire_id_ok c t rnd pkt = true.
Proof.
  intros [BL [BT [Hsp [Hdp Hfam]]]] [He [Hsq Hr]] Ht S. unfold send in S.
  destruct Hfam as [[l1 [l2 [l3 [l4 [t1 [t2 [t3 [t4 [EL ET]]]]]]]]] | [LL [LT V6]]].
  - assert (F : is_v6 c = false) by (unfold is_v6; rewrite EL; reflexivity).
    rewrite ?F in S.
    destruct (c_variant c) eqn:V.
    + destruct (negb (in_ttl_range c t)); [discriminate|]. destruct (find_ttl st t); [discriminate|].
      inversion S; subst.
      destruct (icmp4_flow_id c t l1 l2 l3 l4 t1 t2 t3 t4 V EL ET He Ht) as [A B]. split; [exact A|].
      unfold wire_id_ok in *. rewrite V in *. exact B.
    + destruct (existsb _ st); [discriminate|]. inversion S; subst.
      destruct (udp4_flow_id c t l1 l2 l3 l4 t1 t2 t3 t4 V EL ET Hsp Hdp Ht) as [A B]. split; [exact A|].
      unfold wire_id_ok in *. rewrite V in *. exact B.
    + inversion S; subst. unfold syn_probe.
      assert (Hid : 0 <= (if c_paris c then 41821 else (c_base_id c + t) mod 65536) < 65536)
        by (destruct (c_paris c); [lia|apply Z.mod_pos_bound; lia]).
      assert (Hq : 0 <= (if c_paris c then rnd else c_seq c) < 4294967296) by (destruct (c_paris c); lia).
      destruct (tcp4_flow c t _ _ 0 2 [] [] l1 l2 l3 l4 t1 t2 t3 t4 (or_introl V) EL ET Hsp Hdp Hid Hq) as [A [B C]].
      cbn zeta in A, B, C. split; [exact A|].
      unfold wire_id_ok. rewrite V, B, C. destruct (c_paris c); rewrite !Z.eqb_refl; reflexivity.
    + destruct (negb (in_ttl_range c t)); [discriminate|]. destruct (find_ttl st t); [discriminate|].
      inversion S; subst. unfold sack_probe.
      assert (Hq : 0 <= (c_init_seq c + t) mod 4294967296 < 4294967296) by (apply Z.mod_pos_bound; lia).
      destruct (tcp4_flow c t 41821 _ (c_init_ack c) 24 (sack_ts_opts (c_has_ts c) (c_tsval c) (c_tsecr c) t) [t]
                  l1 l2 l3 l4 t1 t2 t3 t4 (or_intror V) EL ET Hsp Hdp ltac:(lia) Hq) as [A [B C]].
      cbn zeta in A, B, C. split; [exact A|].
      unfold wire_id_ok. rewrite V, C. apply Z.eqb_refl.
  - assert (F : is_v6 c = true) by (unfold is_v6; rewrite LL; reflexivity).
    rewrite ?F in S.
    destruct V6 as [V | V]; rewrite V in S.
    + destruct (negb (in_ttl_range c t)); [discriminate|]. destruct (find_ttl st t); [discriminate|].
      inversion S; subst.
      destruct (icmp6_flow_id c t V LL LT He Ht) as [A B]. split; [exact A|].
      unfold wire_id_ok in *. rewrite V in *. exact B.
    + destruct (existsb _ st); [discriminate|]. inversion S; subst.
      destruct (udp6_flow_id c t V LL LT Hsp Hdp Ht) as [A B]. split; [exact A|].
      unfold wire_id_ok in *. rewrite V in *. exact B.
Qed.
