From Coq Require Import List ZArith Bool Lia.
From TR Require Import Pol.Params.
Import ListNotations.
Open Scope Z_scope.

(** C19: every accepted parameter set is executed exactly as stated *)
Theorem accept_exact p k f l port :
  accept p = Exec k f l port ->
  1 <= f <= l /\ l <= 255 /\ f = rp_min p /\ l = rp_max p
  /\ (k <> KIcmp -> port = (if rp_port p =? 0 then default_port else rp_port p) /\ 1 <= port <= 65535)
  /\ (k = KIcmp <-> rp_proto p = PIcmp) /\ (k = KUdp <-> rp_proto p = PUdp)
  /\ (k = KTcpSyn <-> rp_proto p = PTcp /\ (rp_method p = MDefault \/ rp_method p = MSyn))
  /\ (k = KTcpSack <-> rp_proto p = PTcp /\ rp_method p = MSack)
  /\ (k = KTcpPrefer <-> rp_proto p = PTcp /\ rp_method p = MPrefer).
Proof.
  unfold accept. destruct (ttl_range_ok p) eqn:T; cbn [negb]; [|discriminate].
  unfold ttl_range_ok in T. apply andb_true_iff in T. destruct T as [T T3]. apply andb_true_iff in T. destruct T as [T1 T2].
  apply Z.leb_le in T1, T2, T3.
  assert (PO : forall x, port_ok x = true -> 1 <= x <= 65535).
  { intros x H. unfold port_ok in H. apply andb_true_iff in H. destruct H as [H1 H2]. apply Z.leb_le in H1, H2. lia. }
  destruct (rp_proto p) eqn:P; try discriminate.
  - destruct (port_ok (dest_port p)) eqn:O; [|discriminate]. intros H. injection H as <- <- <- <-. apply PO in O.
    repeat split; try lia; try congruence; intros; try discriminate; intuition congruence.
  - destruct (port_ok (dest_port p)) eqn:O; [|discriminate]. apply PO in O.
    destruct (rp_method p) eqn:M; try discriminate; intros H; injection H as <- <- <- <-;
      repeat split; try lia; try congruence; intros; try discriminate; intuition congruence.
  - intros H. injection H as <- <- <- <-.
    repeat split; try lia; try congruence; intros; try discriminate; intuition congruence.
Qed.

(** values that cannot be represented on the wire are rejected, never wrapped or truncated *)
Theorem unrepresentable_rejected p :
  (rp_min p < 1 \/ rp_max p > 255 \/ rp_min p > rp_max p -> accept p = Reject)
  /\ (rp_proto p = POther -> accept p = Reject)
  /\ ((rp_proto p = PUdp \/ rp_proto p = PTcp) -> (dest_port p < 1 \/ dest_port p > 65535) -> accept p = Reject)
  /\ (rp_proto p = PTcp -> rp_method p = MOther -> accept p = Reject).
Proof.
  unfold accept. repeat split.
  - intros H. assert (ttl_range_ok p = false) as ->; [|reflexivity].
    unfold ttl_range_ok. destruct H as [H|[H|H]].
    + replace (1 <=? rp_min p) with false by (symmetry; apply Z.leb_gt; lia). reflexivity.
    + replace (rp_max p <=? 255) with false by (symmetry; apply Z.leb_gt; lia). apply andb_false_iff. left. apply andb_false_r.
    + replace (rp_min p <=? rp_max p) with false by (symmetry; apply Z.leb_gt; lia). apply andb_false_r.
  - intros ->. destruct (negb (ttl_range_ok p)); reflexivity.
  - intros Hp Ho. assert (port_ok (dest_port p) = false) as E.
    { unfold port_ok. destruct Ho as [Ho|Ho].
      - replace (1 <=? dest_port p) with false by (symmetry; apply Z.leb_gt; lia). reflexivity.
      - replace (dest_port p <=? 65535) with false by (symmetry; apply Z.leb_gt; lia). apply andb_false_r. }
    destruct (negb (ttl_range_ok p)); [reflexivity|]. destruct Hp as [-> | ->]; rewrite E; reflexivity.
  - intros -> ->. destruct (negb (ttl_range_ok p)); [reflexivity|]. destruct (port_ok (dest_port p)); reflexivity.
Qed.

(** end-to-end probes: single TTL = the maximum, SYN whatever the method *)
Theorem e2e_uses_syn p : rp_proto p = PTcp ->
  rp_method (e2e_params p) <> MSack /\ rp_method (e2e_params p) <> MPrefer /\ rp_min (e2e_params p) = rp_max p /\ rp_max (e2e_params p) = rp_max p.
Proof. intros H. unfold e2e_params. rewrite H. destruct (rp_method p); cbn; repeat split; congruence. Qed.

(** C20 *)
Theorem policy_sack syn sack sock :
  fb_syn_calls (perform MSack syn sack sock) = 0
  /\ (fb_trace (perform MSack syn sack sock) = Some TSack \/ fb_err (perform MSack syn sack sock) <> None)
  /\ fb_trace (perform MSack syn sack sock) <> Some TSyn
  /\ (forall e, sack = RErr e -> fb_err (perform MSack syn sack sock) = Some e).
Proof.
  split; [destruct sack; reflexivity|]. split; [destruct sack; cbn; [left; reflexivity|right; congruence]|].
  split; [destruct sack; cbn; congruence|]. intros e ->. reflexivity.
Qed.

Theorem policy_prefer syn sack sock :
  (* a SYN trace exactly when the SACK attempt's error tree contains NotSupported, at any depth *)
  (fb_syn_calls (perform MPrefer syn sack sock) = 1 <-> exists e, sack = RErr e /\ has_notsup e = true)
  (* SACK succeeded: the SACK trace *)
  /\ (sack = ROk -> fb_trace (perform MPrefer syn sack sock) = Some TSack)
  (* any other SACK failure is reported, wrapping its cause, and SYN is not attempted *)
  /\ (forall e, sack = RErr e -> has_notsup e = false ->
        fb_trace (perform MPrefer syn sack sock) = None /\ fb_syn_calls (perform MPrefer syn sack sock) = 0
        /\ exists e', fb_err (perform MPrefer syn sack sock) = Some e' /\ forall id, has_cause e id = true -> has_cause e' id = true).
Proof.
  repeat split.
  - destruct sack as [|e]; cbn; [discriminate|]. destruct (has_notsup e) eqn:N; [eauto|cbn; discriminate].
  - intros [e [-> N]]. cbn. rewrite N. destruct syn; reflexivity.
  - intros ->. reflexivity.
  - subst sack. cbn. rewrite H0. reflexivity.
  - subst sack. cbn. rewrite H0. reflexivity.
  - subst sack. cbn. rewrite H0. cbn. eexists. split; [reflexivity|]. intros id Hc. exact Hc.
Qed.

Theorem policy_syn_never_connects m syn sack sock : (m = MSyn \/ m = MDefault) -> fb_sack_calls (perform m syn sack sock) = 0.
Proof. intros [-> | ->]; destruct syn; reflexivity. Qed.

(** which SACK failures count as "SACK unavailable" *)
Theorem sack_unavailable_exact f :
  (match sack_run f with RErr e => has_notsup e | ROk => false end) = true
  <-> (exists c, f = FDial c) \/ f = FNoSackPermitted \/ f = FAckWithoutSack.
Proof.
  destruct f; cbn; split; intros H; try discriminate; try reflexivity; eauto;
    destruct H as [[c H]|[H|H]]; discriminate.
Qed.
