(** Tie kind A (C17, C15/C16): the post-processing pipeline of RunTraceroute and the shape of RemovePrivateHops, as
    extracted from the source on this run, are the model's. *)
From Coq Require Import List ZArith Bool.
From TR Require Import Lib.Shapes Res.Doc Generated.Structure.
Import ListNotations.

Definition guard_on (fl : flags) (g : pguard) : option bool :=
  match g with G_None => Some true | G_ReverseDns => Some (f_rdns fl) | G_SkipPrivate => Some (f_skip_private fl) | G_Other => None end.

Definition step_fn (rv : resolver) (s : pstep) : option (list rund -> list rund) :=
  match s with
  | PS_Enrich => Some (map (enrich_run rv))
  | PS_Normalize => Some (map norm_run)
  | PS_Redact => Some (map redact_run)
  | PS_Other => None
  end.

(** run the extracted steps in their source order; None: a step or a guard the model does not know *)
Fixpoint apply_steps (fl : flags) (rv : resolver) (steps : list (pguard * pstep)) (runs : list rund) : option (list rund) :=
  match steps with
  | [] => Some runs
  | (g, s) :: r =>
      match guard_on fl g, step_fn rv s with
      | Some on, Some f => apply_steps fl rv r (if on then f runs else runs)
      | _, _ => None
      end
  end.

Theorem pipeline_order_tied fl rv runs : apply_steps fl rv run_pipeline_order runs = Some (pipeline_runs fl rv runs).
Proof. unfold run_pipeline_order, pipeline_runs. cbn. destruct (f_rdns fl), (f_skip_private fl); reflexivity. Qed.

Theorem redaction_shape_tied :
  run_error_returns_no_result = true /\ redact_visits_every_hop = true /\ redact_condition_is_private_address = true /\ redact_keeps_only_ttl = true.
Proof. repeat split; reflexivity. Qed.

(** GetPublicIP asks the providers in order, moves on after ANY error of one, and returns the first success *)
Theorem provider_loop_shape_tied : publicip_first_success_loop = true.
Proof. reflexivity. Qed.
