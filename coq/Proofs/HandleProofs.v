(** C10, tie kind A: every execution of every entry point that opens a handle pair — as extracted from the source on
    this run — closes the pair exactly once. *)
From Coq Require Import List Bool Arith.
From TR Require Import Pol.HandleProg Generated.Lifecycles.
Import ListNotations.

(** the enumeration covers every choice sequence *)
Lemma exec_in_runs : forall p ch s, In (exec p ch s) (runs p s).
Proof.
  induction p as [|st r IH]; intros ch s; cbn [exec runs]; [left; reflexivity|].
  destruct st.
  - destruct (hd false ch); [left; reflexivity|right; apply IH].
  - destruct (run_simple onfail s) as [s' ret]. apply in_or_app.
    destruct (hd false ch); [left; destruct ret; [left; reflexivity|apply IH]|right; apply IH].
  - destruct (run_simple body s) as [s' ret]. apply in_or_app.
    destruct (hd false ch); [left; destruct ret; [left; reflexivity|apply IH]|right; apply IH].
  - apply IH.
  - apply IH.
  - left; reflexivity.
  - apply IH.
Qed.

Theorem all_paths_sound p : all_paths_ok p = true -> forall ch, okb (exec p ch init_hst) = true.
Proof.
  unfold all_paths_ok. intros H ch. rewrite forallb_forall in H. apply H. apply exec_in_runs.
Qed.

(** the programs extracted from /repo on this run: four entry points at least, all of them disciplined *)
Theorem extracted_lifecycles_ok : (4 <=? length all_lifecycles) = true /\ forallb all_paths_ok all_lifecycles = true.
Proof. split; vm_compute; reflexivity. Qed.

Theorem entry_points_close_handles_once : forall p ch, In p all_lifecycles -> okb (exec p ch init_hst) = true.
Proof.
  intros p ch Hin. apply all_paths_sound. destruct extracted_lifecycles_ok as [_ H]. rewrite forallb_forall in H. apply H, Hin.
Qed.

(** the checker is not vacuous: a deferred close on top of an explicit one in the error block (closes twice), a missing
    close, and a close before the open are all rejected *)
Example double_close_rejected : all_paths_ok [HOpen; HDefer SCloseBoth; HMayFail [SCloseSrc; SCloseSnk; SReturn]; HReturn] = false.
Proof. reflexivity. Qed.
Example leak_rejected : all_paths_ok [HOpen; HMayFail [SReturn]; HDefer SCloseBoth; HReturn] = false.
Proof. reflexivity. Qed.
Example early_close_rejected : all_paths_ok [HClose SCloseBoth; HOpen; HReturn] = false.
Proof. reflexivity. Qed.
Example unknown_rejected : all_paths_ok [HOpen; HUnknown; HDefer SCloseBoth; HReturn] = false.
Proof. reflexivity. Qed.
