From Coq Require Import List ZArith Bool Lia.
From TR Require Import Conc.Lockset.
Import ListNotations.
Open Scope Z_scope.

Lemma zmem_in x l : zmem x l = true <-> In x l.
Proof. unfold zmem. rewrite existsb_exists. split; [intros [y [H E]]; apply Z.eqb_eq in E; subst; exact H|intros H; exists x; split; [exact H|apply Z.eqb_refl]]. Qed.

(** Soundness of the discipline: if the table satisfies it, then in NO state of ANY execution (whatever the
    interleaving and whoever holds which lock) are two conflicting accesses of the table enabled at once. *)
Theorem discipline_excludes_races t :
  discipline_ok t = true ->
  forall h i j a b, In a t -> In b t -> ~ race_state h i j a b.
Proof.
  intros D h i j a b Ha Hb [Hij [Hc [[Ea1 [Ea2 Ea3]] [Eb1 [Eb2 Eb3]]]]].
  unfold discipline_ok in D. rewrite forallb_forall in D. specialize (D a Ha). rewrite forallb_forall in D. specialize (D b Hb).
  rewrite Hc in D. cbn in D. unfold protected in D. apply existsb_exists in D. destruct D as [l [Hla Hlb]]. apply zmem_in in Hlb.
  pose proof (Ea3 l Hla) as H1. pose proof (Eb3 l Hlb) as H2. rewrite H1 in H2. injection H2 as E.
  unfold inst_eqb in Hij. rewrite E, !Z.eqb_refl in Hij. discriminate.
Qed.
