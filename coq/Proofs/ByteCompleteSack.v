(** C02 on raw bytes, SACK variant: the duplicate ACK the target sends for an out-of-order probe — ACK flag only,
    options NOP NOP SACK(left, right) — is the destination hop of the probe whose sequence number is the left edge, for
    ALL field values (outer TOS / IP-ID / DF / TTL / checksums, sequence and acknowledgement numbers, window, right edge). *)
From Coq Require Import List ZArith Bool Lia.
From TR Require Import Lib.Bytes Wire.Decode Wire.Build Drv.Drivers Proofs.ByteComplete.
Import ListNotations.
Open Scope Z_scope.

Lemma tcp_opts_one_sack_block a b c0 d e f g h :
  tcp_opts 12 [1; 1; 5; 10; a; b; c0; d; e; f; g; h] = Some [(1, []); (1, []); (5, [a; b; c0; d; e; f; g; h])].
Proof. reflexivity. Qed.

Theorem sack_dup_ack_recognised c st now s t tos i1 i2 f1 ttl0 c1 c2 q1 q2 q3 q4 a1 a2 a3 a4 w1 w2 k1 k2 g1 g2 r1 r2 r3 r4 l1 l2 l3 l4 t1 t2 t3 t4 :
  c_variant c = VSack -> c_local c = [l1; l2; l3; l4] -> c_target c = [t1; t2; t3; t4] ->
  0 <= c_sport c < 65536 -> 0 <= c_dport c < 65536 -> (f1 = 0 \/ f1 = 64) ->
  0 <= c_init_seq c < 4294967296 -> in_ttl_range c t = true -> 0 <= c_first c -> c_last c <= 255 ->
  find_ttl st t = Some s ->
  let left := (c_init_seq c + t) mod 4294967296 in
  recv c st (hdr4 tos 0 52 i1 i2 f1 0 ttl0 6 c1 c2 t1 t2 t3 t4 l1 l2 l3 l4
                  ([(c_dport c / 256) mod 256; c_dport c mod 256; (c_sport c / 256) mod 256; c_sport c mod 256; q1; q2; q3; q4; a1; a2; a3; a4;
                    128; 16; w1; w2; k1; k2; g1; g2;
                    1; 1; 5; 10; (left / 16777216) mod 256; (left / 65536) mod 256; (left / 256) mod 256; left mod 256; r1; r2; r3; r4])) now
  = Hop t [t1; t2; t3; t4] (now - s_time s) true.
Proof.
  intros V EL ET Hsp Hdp Hff Hinit Hr Hf Hl Hs left.
  assert (Ht : 0 <= t <= 255).
  { unfold in_ttl_range in Hr. apply andb_true_iff in Hr. destruct Hr as [A B]. apply Z.leb_le in A, B. lia. }
  assert (Hleft : 0 <= left < 4294967296) by (unfold left; apply Z.mod_pos_bound; lia).
  unfold recv, frame_parse. unfold hdr4 at 1. replace (69 / 16 =? 4) with true by reflexivity.
  fold (hdr4 tos 0 52 i1 i2 f1 0 ttl0 6 c1 c2 t1 t2 t3 t4 l1 l2 l3 l4).
  rewrite decode_ip4_noopt by (unfold len; cbn [length Z.of_nat]; lia).
  match goal with |- context [if ?cond then takez _ ?r else ?r] => replace cond with false by reflexivity end.
  unfold parse_l4_v4. cbn [i4_flags i4_fragoff i4_proto i4_payload i4_src i4_dst].
  assert (Hfrag : more_frags ((256 * f1 + 0) / 8192) || negb ((256 * f1 + 0) mod 8192 =? 0) = false) by (destruct Hff as [-> | ->]; reflexivity).
  rewrite Hfrag. replace (6 =? 6) with true by reflexivity.
  (* keep the symbolic bytes of the left edge opaque while the decoders compute *)
  remember ((left / 16777216) mod 256) as b1 eqn:Eb1. remember ((left / 65536) mod 256) as b2 eqn:Eb2.
  remember ((left / 256) mod 256) as b3 eqn:Eb3. remember (left mod 256) as b4 eqn:Eb4.
  unfold decode_tcp. replace (128 / 16) with 8 by reflexivity. replace (8 <? 5) with false by reflexivity.
  match goal with |- context [len ?l <? 8 * 4] => replace (len l <? 8 * 4) with false by reflexivity end.
  match goal with |- context [tcp_opts ?n ?o] =>
    replace (tcp_opts n o) with (Some [(1, []); (1, []); (5, [b1; b2; b3; b4; r1; r2; r3; r4])]) by (symmetry; apply tcp_opts_one_sack_block) end.
  unfold recv_view. rewrite V. unfold recv_sack. cbn [v_l4 v_src v_dst t_syn t_fin t_rst t_ackf t_sport t_dport t_opts].
  unfold addr_eqb, be16. rewrite ET, EL, !bytes_eqb_refl, !u16_hi_lo, !Z.eqb_refl by lia. cbn [andb negb orb].
  unfold bit. replace (Z.land 16 2 =? 0) with true by reflexivity. replace (Z.land 16 1 =? 0) with true by reflexivity.
  replace (Z.land 16 4 =? 0) with true by reflexivity. cbn [negb orb].
  unfold min_sack. cbn [fold_left fst snd]. replace (1 =? 5) with false by reflexivity. replace (5 =? 5) with true by reflexivity.
  cbn [length sack_edges]. subst b1 b2 b3 b4.
  rewrite u32_bytes by exact Hleft.
  assert (Hrel : (left - c_init_seq c) mod 4294967296 = t).
  { unfold left. rewrite Zminus_mod, Z.mod_mod, <- Zminus_mod by lia. replace (c_init_seq c + t - c_init_seq c) with t by lia. apply Z.mod_small. lia. }
  rewrite Hrel. unfold hop_for, rtt_of. rewrite Hr, Hs. rewrite Z.mod_small by lia. reflexivity.
Qed.

(** the first 28 bytes of the SACK probe for TTL t: IPv4 header and the first 8 bytes of the TCP header *)
Lemma sack_probe_first28 l1 l2 l3 l4 t1 t2 t3 t4 sp dp init ack ts tv te t :
  exists ck1 ck2,
  takez 28 (sack_probe [l1; l2; l3; l4] [t1; t2; t3; t4] sp dp init ack ts tv te t) =
  hdr4 0 0 (if ts then 53 else 41) 163 93 0 0 t 6 ck1 ck2 l1 l2 l3 l4 t1 t2 t3 t4
       [(sp / 256) mod 256; sp mod 256; (dp / 256) mod 256; dp mod 256;
        (((init + t) mod 4294967296) / 16777216) mod 256; (((init + t) mod 4294967296) / 65536) mod 256;
        (((init + t) mod 4294967296) / 256) mod 256; ((init + t) mod 4294967296) mod 256].
Proof.
  unfold sack_probe, tcp_segment, ip4_header, put16, hdr4.
  destruct ts; unfold sack_ts_opts.
  - set (s0 := u16b sp ++ u16b dp ++ u32b ((init + t) mod 4294967296) ++ u32b ack ++ _).
    set (v := cksum s0 _).
    assert (L : len (takez 16 s0 ++ u16b v ++ dropz (16 + 2) s0) = 33) by (unfold s0, u16b, u32b; reflexivity).
    rewrite L. replace (20 + 33) with 53 by reflexivity.
    set (ck := cksum _ 0). exists ((ck / 256) mod 256), (ck mod 256).
    unfold s0, u16b, u32b, takez. reflexivity.
  - set (s0 := u16b sp ++ u16b dp ++ u32b ((init + t) mod 4294967296) ++ u32b ack ++ _).
    set (v := cksum s0 _).
    assert (L : len (takez 16 s0 ++ u16b v ++ dropz (16 + 2) s0) = 21) by (unfold s0, u16b, u32b; reflexivity).
    rewrite L. replace (20 + 21) with 41 by reflexivity.
    set (ck := cksum _ 0). exists ((ck / 256) mod 256), (ck mod 256).
    unfold s0, u16b, u32b, takez. reflexivity.
Qed.

(** SACK variant: a time-exceeded from ANY router quoting the first 28 bytes of the probe for TTL t is the hop for t
    (destination iff the router is the target itself, which the SACK variant allows) *)
Theorem sack_te28_recognised c st t now s tos i1 i2 f1 ttl0 c1 c2 k1 k2 u1 u2 u3 u4 r1 r2 r3 r4 l1 l2 l3 l4 t1 t2 t3 t4 :
  c_variant c = VSack -> c_local c = [l1; l2; l3; l4] -> c_target c = [t1; t2; t3; t4] ->
  0 <= c_sport c < 65536 -> 0 <= c_dport c < 65536 -> (f1 = 0 \/ f1 = 64) ->
  0 <= c_init_seq c < 4294967296 -> in_ttl_range c t = true -> 0 <= c_first c -> c_last c <= 255 ->
  find_ttl st t = Some s ->
  let probe := sack_probe (c_local c) (c_target c) (c_sport c) (c_dport c) (c_init_seq c) (c_init_ack c) (c_has_ts c) (c_tsval c) (c_tsecr c) t in
  recv c st (hdr4 tos 0 56 i1 i2 f1 0 ttl0 1 c1 c2 r1 r2 r3 r4 l1 l2 l3 l4 ([11; 0; k1; k2; u1; u2; u3; u4] ++ takez 28 probe)) now
  = Hop t [r1; r2; r3; r4] (now - s_time s) (bytes_eqb [r1; r2; r3; r4] [t1; t2; t3; t4]).
Proof.
  intros V EL ET Hsp Hdp Hff Hinit Hr Hf Hl Hs probe.
  assert (Ht : 0 <= t <= 255).
  { unfold in_ttl_range in Hr. apply andb_true_iff in Hr. destruct Hr as [A B]. apply Z.leb_le in A, B. lia. }
  unfold probe. rewrite EL, ET.
  destruct (sack_probe_first28 l1 l2 l3 l4 t1 t2 t3 t4 (c_sport c) (c_dport c) (c_init_seq c) (c_init_ack c) (c_has_ts c) (c_tsval c) (c_tsecr c) t) as [ck1 [ck2 EP]].
  rewrite EP. set (sq := (c_init_seq c + t) mod 4294967296).
  assert (Hsq : 0 <= sq < 4294967296) by (unfold sq; apply Z.mod_pos_bound; lia).
  set (tot := if c_has_ts c then 53 else 41).
  assert (Htot : 41 <= tot <= 53) by (unfold tot; destruct (c_has_ts c); lia).
  unfold hdr4 at 2. cbn [app].
  unfold recv, frame_parse. unfold hdr4 at 1. replace (69 / 16 =? 4) with true by reflexivity.
  fold (hdr4 tos 0 56 i1 i2 f1 0 ttl0 1 c1 c2 r1 r2 r3 r4 l1 l2 l3 l4).
  match goal with |- context [decode_ip4 (hdr4 _ _ _ _ _ _ _ _ _ _ _ _ _ _ _ _ _ _ _ ?rest)] =>
    rewrite (decode_ip4_noopt tos 0 56 i1 i2 f1 0 ttl0 1 c1 c2 r1 r2 r3 r4 l1 l2 l3 l4 rest) by (unfold len; cbn [length Z.of_nat]; lia) end.
  match goal with |- context [if ?cond then takez _ ?r else ?r] => replace cond with false by reflexivity end.
  unfold parse_l4_v4. cbn [i4_flags i4_fragoff i4_proto i4_payload i4_src i4_dst].
  assert (Hfrag : more_frags ((256 * f1 + 0) / 8192) || negb ((256 * f1 + 0) mod 8192 =? 0) = false) by (destruct Hff as [-> | ->]; reflexivity).
  rewrite Hfrag. replace (1 =? 6) with false by reflexivity. replace (1 =? 1) with true by reflexivity.
  unfold recv_view. rewrite V. unfold recv_sack. cbn [v_l4 v_src v_dst is_ttl_exceeded].
  replace ((11 =? 11) && (0 =? 0)) with true by reflexivity. cbn [negb].
  unfold icmp_info. cbn [v_l4].
  match goal with |- context [decode_ip4 ?q] =>
    change q with (hdr4 0 0 tot 163 93 0 0 t 6 ck1 ck2 l1 l2 l3 l4 t1 t2 t3 t4
                        [(c_sport c / 256) mod 256; c_sport c mod 256; (c_dport c / 256) mod 256; c_dport c mod 256;
                         (sq / 16777216) mod 256; (sq / 65536) mod 256; (sq / 256) mod 256; sq mod 256]) end.
  rewrite decode_ip4_noopt by (unfold len; cbn [length Z.of_nat]; lia).
  replace (256 * 0 + tot <? 20 + len [(c_sport c / 256) mod 256; c_sport c mod 256; (c_dport c / 256) mod 256; c_dport c mod 256;
                         (sq / 16777216) mod 256; (sq / 65536) mod 256; (sq / 256) mod 256; sq mod 256]) with false
    by (symmetry; apply Z.ltb_ge; unfold len; cbn [length Z.of_nat]; lia).
  cbn [ii_dst ii_src ii_payload ii_id i4_src i4_dst i4_payload i4_id first8].
  unfold addr_eqb, be16. rewrite ET, EL, !bytes_eqb_refl, !u16_hi_lo, !Z.eqb_refl by lia.
  cbn [andb negb]. rewrite andb_false_r.
  rewrite u32_bytes by exact Hsq.
  assert (Hrel : (sq - c_init_seq c) mod 4294967296 = t).
  { unfold sq. rewrite Zminus_mod, Z.mod_mod, <- Zminus_mod by lia. replace (c_init_seq c + t - c_init_seq c) with t by lia. apply Z.mod_small. lia. }
  rewrite Hrel. unfold hop_for, rtt_of. rewrite Hr, Hs. rewrite Z.mod_small by lia. reflexivity.
Qed.
