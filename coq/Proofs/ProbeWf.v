(** C06: the probes the driver model builds satisfy the wire-level well-formedness specification [probe_wf]
    (the predicate the correspondence check applies to the bytes the real drivers emit) — for every address,
    port, identifier and TTL, not only for the sampled ones. *)
From Coq Require Import List ZArith Bool Lia.
From TR Require Import Lib.Bytes Wire.Decode Wire.Build Drv.Drivers Spec.C06
  Proofs.BuildProofs Proofs.BuildProofs2 Proofs.ByteComplete Proofs.ByteComplete6.
Import ListNotations.
Open Scope Z_scope.

Lemma nth_hdr6 k v0 v1 v2 v3 l1 l2 nh hl src dst rest d :
  len src = 16 -> len dst = 16 -> nth (40 + k) (hdr6 v0 v1 v2 v3 l1 l2 nh hl src dst rest) d = nth k rest d.
Proof.
  intros Hs Hd. unfold hdr6.
  change (v0 :: v1 :: v2 :: v3 :: l1 :: l2 :: nh :: hl :: src ++ dst ++ rest)
    with ([v0; v1; v2; v3; l1; l2; nh; hl] ++ src ++ dst ++ rest).
  rewrite !app_assoc. rewrite app_nth2; unfold len in *; rewrite !app_length; cbn [length]; [|lia].
  f_equal. lia.
Qed.

Lemma len_hdr6 v0 v1 v2 v3 l1 l2 nh hl src dst rest :
  len src = 16 -> len dst = 16 -> len (hdr6 v0 v1 v2 v3 l1 l2 nh hl src dst rest) = 40 + len rest.
Proof. intros Hs Hd. unfold hdr6, len in *. cbn [length]. rewrite !app_length. lia. Qed.

Lemma ip6_header_hdr6 plen nh hl src dst rest :
  ip6_header plen nh hl src dst ++ rest = hdr6 96 0 0 0 ((plen / 256) mod 256) (plen mod 256) nh hl src dst rest.
Proof. unfold ip6_header, hdr6, u16b. cbn [app]. rewrite <- !app_assoc. reflexivity. Qed.

Lemma repeat_magic_ok n : forall cur, Forall byte_ok cur -> Forall byte_ok (repeat_magic n cur).
Proof.
  induction n as [|n IH]; intros cur Hc; cbn [repeat_magic]; [constructor|].
  destruct cur as [|x r].
  - unfold magic at 1. constructor; [unfold byte_ok; lia|]. apply IH. repeat constructor; unfold byte_ok; lia.
  - inversion Hc; subst. constructor; [assumption|]. apply IH. assumption.
Qed.

(** UDP over IPv6 *)
Theorem udp6_probe_wf c t :
  c_variant c = VUdp -> len (c_local c) = 16 -> len (c_target c) = 16 ->
  Forall byte_ok (c_local c) -> Forall byte_ok (c_target c) ->
  0 <= c_sport c < 65536 -> 0 <= c_dport c < 65536 -> 0 <= t <= 255 ->
  probe_wf c t (udp6_probe (c_local c) (c_target c) (c_sport c) (c_dport c) t) = true.
Proof.
  intros V LL LT BL BT Hsp Hdp Ht.
  unfold probe_wf, is_v6. rewrite LL. replace (16 =? 16) with true by reflexivity.
  unfold udp6_probe.
  set (pl := repeat_magic (Z.to_nat (5 + t)) magic).
  assert (Lpl : len pl = 5 + t) by (unfold pl, len; rewrite repeat_magic_length; lia).
  assert (Bpl : Forall byte_ok pl) by (apply repeat_magic_ok; unfold magic; repeat constructor; unfold byte_ok; lia).
  pose proof (udp_segment_checksum (c_local c) (c_target c) (c_sport c) (c_dport c) pl BL BT
                ltac:(unfold len in *; lia) ltac:(unfold len in *; lia) Bpl ltac:(unfold len in *; lia)) as CK.
  pose proof (udp_segment_checksum_nonzero (c_local c) (c_target c) (c_sport c) (c_dport c) pl BL BT
                ltac:(unfold len in *; lia) ltac:(unfold len in *; lia) Bpl ltac:(unfold len in *; lia)) as NZ.
  cbn zeta in NZ.
  destruct (udp_segment_bytes (c_local c) (c_target c) (c_sport c) (c_dport c) pl) as [v1 [v2 ES]].
  set (seg := udp_segment (c_local c) (c_target c) (c_sport c) (c_dport c) pl) in *.
  assert (Lseg : len seg = 13 + t) by (rewrite ES; unfold len in *; rewrite app_length; cbn [length]; lia).
  rewrite ip6_header_hdr6. rewrite Lseg.
  assert (E16 : 256 * (((13 + t) / 256) mod 256) + (13 + t) mod 256 = 13 + t) by (apply u16_hi_lo; lia).
  rewrite (decode_ip6_noext 96 0 0 0 _ _ 17 t (c_local c) (c_target c) seg LL LT ltac:(lia) ltac:(rewrite E16; lia)).
  rewrite E16. rewrite takez_all by lia.
  cbn [i6_hlim i6_len i6_nh_raw i6_payload i6_src i6_dst].
  rewrite len_hdr6 by assumption. rewrite Lseg.
  unfold l4_of. rewrite V. replace (17 =? 17) with true by reflexivity.
  change 47%nat with (40 + 7)%nat. change 46%nat with (40 + 6)%nat. change 45%nat with (40 + 5)%nat. change 44%nat with (40 + 4)%nat.
  rewrite !nth_hdr6 by assumption.
  rewrite Lseg in CK. rewrite CK.
  unfold hdr6. cbn [nth]. replace (96 / 16 =? 6) with true by reflexivity.
  rewrite Z.eqb_refl. replace (13 + t =? 40 + (13 + t) - 40) with true by (symmetry; apply Z.eqb_eq; lia).
  cbn [andb].
  assert (E45 : be16 (nth 4 seg 0) (nth 5 seg 0) = 13 + t).
  { rewrite ES. cbn [app nth]. unfold be16. rewrite Lpl. replace (8 + (5 + t)) with (13 + t) by lia. exact E16. }
  rewrite E45. replace (13 + t =? 40 + (13 + t) - 40) with true by (symmetry; apply Z.eqb_eq; lia).
  replace (be16 (nth 6 seg 0) (nth 7 seg 0) =? 0) with false by (symmetry; apply Z.eqb_neq; lia).
  reflexivity.
Qed.

(** ICMP echo over IPv6 *)
Theorem icmp6_probe_wf c t :
  c_variant c = VIcmp -> len (c_local c) = 16 -> len (c_target c) = 16 ->
  Forall byte_ok (c_local c) -> Forall byte_ok (c_target c) -> 0 <= t <= 255 ->
  probe_wf c t (icmp6_probe (c_local c) (c_target c) (c_echo_id c) t) = true.
Proof.
  intros V LL LT BL BT Ht.
  unfold probe_wf, is_v6. rewrite LL. replace (16 =? 16) with true by reflexivity.
  pose proof (icmp6_body_checksum (c_local c) (c_target c) (c_echo_id c) t BL BT
                ltac:(unfold len in *; lia) ltac:(unfold len in *; lia) ltac:(unfold byte_ok; lia)) as CK.
  cbn zeta in CK.
  unfold icmp6_probe.
  set (body0 := [128; 0; 0; 0] ++ u16b (c_echo_id c) ++ u16b t ++ [t]) in *.
  assert (L0 : len body0 = 9) by reflexivity. rewrite L0 in *.
  set (body := put16 2 (cksum body0 (pseudo (c_local c) (c_target c) 58 9)) body0) in *.
  assert (Lb : len body = 9) by reflexivity.
  rewrite ip6_header_hdr6. rewrite Lb.
  replace ((9 / 256) mod 256) with 0 by reflexivity. replace (9 mod 256) with 9 by reflexivity.
  rewrite (decode_ip6_noext 96 0 0 0 0 9 58 t (c_local c) (c_target c) body LL LT ltac:(lia) ltac:(lia)).
  replace (256 * 0 + 9) with 9 by reflexivity. rewrite takez_all by lia.
  cbn [i6_hlim i6_len i6_nh_raw i6_payload i6_src i6_dst].
  rewrite len_hdr6 by assumption. rewrite Lb.
  unfold l4_of, is_v6. rewrite V. rewrite LL. replace (16 =? 16) with true by reflexivity.
  rewrite CK. unfold hdr6. cbn [nth]. replace (96 / 16 =? 6) with true by reflexivity.
  rewrite Z.eqb_refl. reflexivity.
Qed.

(** ---- IPv4: the part of [probe_wf] that concerns the IP header, for every probe the builders assemble as
    [ip4_header (20 + len body) id ff t proto src dst ++ body] with no fragmentation bits other than DF *)
Lemma ip4_probe_decodes id ff t pr s1 s2 s3 s4 d1 d2 d3 d4 body :
  (ff = 0 \/ ff = 16384) -> 0 <= len body <= 1000 ->
  exists i1 i2 c1 c2,
  ip4_header (20 + len body) id ff t pr [s1; s2; s3; s4] [d1; d2; d3; d4] ++ body
  = hdr4 0 (((20 + len body) / 256) mod 256) ((20 + len body) mod 256) i1 i2 ((ff / 256) mod 256) (ff mod 256) t pr c1 c2 s1 s2 s3 s4 d1 d2 d3 d4 body.
Proof.
  intros Hff Hb. unfold ip4_header, hdr4.
  set (ck := cksum _ 0).
  exists ((id / 256) mod 256), (id mod 256), ((ck / 256) mod 256), (ck mod 256).
  unfold u16b. cbn [app]. reflexivity.
Qed.

Lemma ip4_common t id ff pr s1 s2 s3 s4 d1 d2 d3 d4 body :
  (ff = 0 \/ ff = 16384) -> 0 <= len body <= 1000 -> byte_ok t -> byte_ok pr ->
  Forall byte_ok [s1; s2; s3; s4] -> Forall byte_ok [d1; d2; d3; d4] ->
  let p := ip4_header (20 + len body) id ff t pr [s1; s2; s3; s4] [d1; d2; d3; d4] ++ body in
  exists h, decode_ip4 p = Some h /\ i4_ttl h = t /\ i4_len h = len p /\ i4_proto h = pr /\ i4_fragoff h = 0
            /\ more_frags (i4_flags h) = false /\ i4_payload h = body /\ i4_src h = [s1; s2; s3; s4] /\ i4_dst h = [d1; d2; d3; d4]
            /\ nth 0 p 0 = 69 /\ verifies (takez 20 p) 0 = true /\ len p = 20 + len body
            /\ (forall k d, nth (20 + k) p d = nth k body d).
Proof.
  intros Hff Hb Ht Hp Bs Bd p.
  pose proof (ip4_header_checksum (20 + len body) id ff t pr [s1; s2; s3; s4] [d1; d2; d3; d4] Ht Hp Bs Bd eq_refl eq_refl) as CK.
  assert (T20 : takez 20 p = ip4_header (20 + len body) id ff t pr [s1; s2; s3; s4] [d1; d2; d3; d4]).
  { unfold p. apply takez_app_exact. reflexivity. }
  destruct (ip4_probe_decodes id ff t pr s1 s2 s3 s4 d1 d2 d3 d4 body Hff Hb) as [i1 [i2 [c1 [c2 EP]]]].
  fold p in EP.
  assert (E16 : 256 * (((20 + len body) / 256) mod 256) + (20 + len body) mod 256 = 20 + len body) by (apply u16_hi_lo; lia).
  assert (Lp : len p = 20 + len body) by (rewrite EP; unfold hdr4, len; cbn [length]; lia).
  pose proof (decode_ip4_noopt 0 (((20 + len body) / 256) mod 256) ((20 + len body) mod 256) i1 i2 ((ff / 256) mod 256) (ff mod 256)
                t pr c1 c2 s1 s2 s3 s4 d1 d2 d3 d4 body) as D.
  cbn zeta in D. rewrite E16 in D. specialize (D ltac:(lia) ltac:(lia)).
  replace (20 + len body <? 20 + len body) with false in D by (symmetry; apply Z.ltb_irrefl).
  rewrite <- EP in D.
  eexists. split; [exact D|].
  cbn [i4_ttl i4_len i4_proto i4_fragoff i4_flags i4_payload i4_src i4_dst].
  rewrite T20, CK. rewrite Lp.
  repeat split; try reflexivity; try (destruct Hff as [-> | ->]; reflexivity).
Qed.

Ltac use_ip4_common H :=
  destruct H as [h [D [Httl [Hlen [Hpr [Hfo [Hmf [Hpay [Hsrc [Hdst [H0 [Hck [Lp Hnth]]]]]]]]]]]]].

(** UDP over IPv4 *)
Theorem udp4_probe_wf c t l1 l2 l3 l4 t1 t2 t3 t4 :
  c_variant c = VUdp -> c_local c = [l1; l2; l3; l4] -> c_target c = [t1; t2; t3; t4] ->
  Forall byte_ok (c_local c) -> Forall byte_ok (c_target c) ->
  0 <= c_sport c < 65536 -> 0 <= c_dport c < 65536 -> 0 <= t <= 255 ->
  probe_wf c t (udp4_probe (c_local c) (c_target c) (c_sport c) (c_dport c) t) = true.
Proof.
  intros V EL ET BL BT Hsp Hdp Ht.
  unfold probe_wf, is_v6. rewrite EL. replace (len [l1; l2; l3; l4] =? 16) with false by reflexivity.
  rewrite <- EL. unfold udp4_probe.
  set (pl := magic ++ [0] ++ u16b (udp4_id t)).
  assert (Bpl : Forall byte_ok pl) by (unfold pl, magic; repeat (apply Forall_app; split); auto using u16b_ok; repeat constructor; unfold byte_ok; lia).
  assert (Lpl : len pl = 8) by reflexivity.
  pose proof (udp_segment_checksum (c_local c) (c_target c) (c_sport c) (c_dport c) pl BL BT
                ltac:(rewrite EL; cbn; lia) ltac:(rewrite ET; cbn; lia) Bpl ltac:(unfold len in *; lia)) as CK.
  destruct (udp_segment_bytes (c_local c) (c_target c) (c_sport c) (c_dport c) pl) as [v1 [v2 ES]].
  set (seg := udp_segment (c_local c) (c_target c) (c_sport c) (c_dport c) pl) in *.
  assert (Lseg : len seg = 16) by (rewrite ES; unfold len in *; rewrite app_length; cbn [length]; lia).
  rewrite EL in BL. rewrite ET in BT. rewrite EL, ET.
  pose proof (ip4_common t (udp4_id t) 16384 17 l1 l2 l3 l4 t1 t2 t3 t4 seg ltac:(right; reflexivity) ltac:(lia)
                ltac:(unfold byte_ok; lia) ltac:(unfold byte_ok; lia) BL BT) as C4.
  cbn zeta in C4. use_ip4_common C4.
  rewrite D. rewrite Httl, Hlen, Hpr, Hfo, Hmf, Hpay, Hsrc, Hdst, H0, Hck.
  unfold l4_of. rewrite V.
  change 25%nat with (20 + 5)%nat. change 24%nat with (20 + 4)%nat. rewrite !Hnth.
  rewrite Lp, Lseg.
  rewrite <- EL, <- ET. rewrite Lseg in CK. rewrite CK.
  assert (E45 : be16 (nth 4 seg 0) (nth 5 seg 0) = 16) by (rewrite ES; reflexivity).
  rewrite E45. rewrite !Z.eqb_refl. reflexivity.
Qed.

(** ICMP echo over IPv4 *)
Theorem icmp4_probe_wf c t l1 l2 l3 l4 t1 t2 t3 t4 :
  c_variant c = VIcmp -> c_local c = [l1; l2; l3; l4] -> c_target c = [t1; t2; t3; t4] ->
  Forall byte_ok (c_local c) -> Forall byte_ok (c_target c) -> 0 <= t <= 255 ->
  probe_wf c t (icmp4_probe (c_local c) (c_target c) (c_echo_id c) t) = true.
Proof.
  intros V EL ET BL BT Ht.
  unfold probe_wf, is_v6. rewrite EL. replace (len [l1; l2; l3; l4] =? 16) with false by reflexivity.
  unfold icmp4_probe. rewrite ET.
  pose proof (icmp4_body_checksum (c_echo_id c) t ltac:(unfold byte_ok; lia)) as CK.
  set (body0 := [8; 0; 0; 0] ++ u16b (c_echo_id c) ++ u16b t ++ [t]) in *.
  set (body := put16 2 (cksum body0 0) body0) in *.
  assert (Lb : len body = 9) by reflexivity.
  rewrite EL in BL. rewrite ET in BT.
  pose proof (ip4_common t (c_echo_id c) 0 1 l1 l2 l3 l4 t1 t2 t3 t4 body ltac:(left; reflexivity) ltac:(lia)
                ltac:(unfold byte_ok; lia) ltac:(unfold byte_ok; lia) BL BT) as C4.
  cbn zeta in C4. use_ip4_common C4.
  rewrite D. rewrite Httl, Hlen, Hpr, Hfo, Hmf, Hpay, H0, Hck.
  unfold l4_of, is_v6. rewrite V, EL. replace (len [l1; l2; l3; l4] =? 16) with false by reflexivity.
  rewrite CK. rewrite !Z.eqb_refl. reflexivity.
Qed.

(** ---- TCP over IPv4 (SYN and SACK probes): length and data offset of every segment the builder emits *)
Lemma tcp_segment_shape src dst sport dport seq ack flags opts payload :
  len (tcp_segment src dst sport dport seq ack flags opts payload) = 20 + len opts + len payload
  /\ nth 12 (tcp_segment src dst sport dport seq ack flags opts payload) 0 = (20 + len opts) / 4 * 16.
Proof.
  unfold tcp_segment.
  set (doff := (20 + len opts) / 4).
  set (pre := u16b sport ++ u16b dport ++ u32b seq ++ u32b ack ++ [doff * 16; flags] ++ u16b 1024).
  set (post := [0; 0] ++ opts ++ payload).
  set (s0 := u16b sport ++ u16b dport ++ u32b seq ++ u32b ack ++ [doff * 16; flags] ++ u16b 1024 ++ [0; 0; 0; 0] ++ opts ++ payload).
  assert (E0 : s0 = pre ++ [0; 0] ++ post) by (unfold s0, pre, post, u16b, u32b; reflexivity).
  assert (Lpre : len pre = 16) by (unfold pre, u16b, u32b, len; reflexivity).
  rewrite (put16_split 16 _ s0 pre post E0 (eq_sym Lpre)).
  split.
  - unfold pre, post, u16b, u32b, len. rewrite !app_length. cbn [length]. lia.
  - unfold pre, u16b, u32b. reflexivity.
Qed.

Lemma tcp4_probe_wf c t id seq ack flags opts payload l1 l2 l3 l4 t1 t2 t3 t4 :
  (c_variant c = VTcp \/ c_variant c = VSack) -> c_local c = [l1; l2; l3; l4] -> c_target c = [t1; t2; t3; t4] ->
  Forall byte_ok (c_local c) -> Forall byte_ok (c_target c) -> 0 <= t <= 255 ->
  byte_ok flags -> Forall byte_ok opts -> Forall byte_ok payload -> len opts <= 40 -> len opts mod 4 = 0 -> len payload <= 100 ->
  let seg := tcp_segment (c_local c) (c_target c) (c_sport c) (c_dport c) seq ack flags opts payload in
  probe_wf c t (ip4_header (20 + len seg) id 0 t 6 (c_local c) (c_target c) ++ seg) = true.
Proof.
  intros V EL ET BL BT Ht Hf Bo Bp Lo Mo Lpay seg.
  unfold probe_wf, is_v6. rewrite EL. replace (len [l1; l2; l3; l4] =? 16) with false by reflexivity.
  pose proof (tcp_segment_checksum (c_local c) (c_target c) (c_sport c) (c_dport c) seq ack flags opts payload BL BT
                ltac:(rewrite EL; cbn; lia) ltac:(rewrite ET; cbn; lia) Hf Bo Bp Lo ltac:(unfold len in *; lia)) as CK.
  destruct (tcp_segment_shape (c_local c) (c_target c) (c_sport c) (c_dport c) seq ack flags opts payload) as [Lseg N12].
  fold seg in CK, Lseg, N12.
  pose proof (len_ge0 opts) as Ho0. pose proof (len_ge0 payload) as Hp0.
  rewrite ET. rewrite EL in BL. rewrite ET in BT.
  pose proof (ip4_common t id 0 6 l1 l2 l3 l4 t1 t2 t3 t4 seg ltac:(left; reflexivity) ltac:(lia)
                ltac:(unfold byte_ok; lia) ltac:(unfold byte_ok; lia) BL BT) as C4.
  cbn zeta in C4. use_ip4_common C4.
  rewrite D. rewrite Httl, Hlen, Hpr, Hfo, Hmf, Hpay, Hsrc, Hdst, H0, Hck.
  assert (L4 : l4_of c = 6) by (unfold l4_of; destruct V as [-> | ->]; reflexivity).
  rewrite L4.
  change 32%nat with (20 + 12)%nat. rewrite Hnth. rewrite Lp.
  rewrite <- EL, <- ET. rewrite CK. rewrite N12, Lseg.
  rewrite !Z.eqb_refl. replace (6 =? 1) with false by reflexivity. replace (6 =? 17) with false by reflexivity.
  cbn [andb negb].
  apply Z.leb_le. Z.div_mod_to_equations. lia.
Qed.

Theorem syn_probe_wf c t id seq l1 l2 l3 l4 t1 t2 t3 t4 :
  c_variant c = VTcp -> c_local c = [l1; l2; l3; l4] -> c_target c = [t1; t2; t3; t4] ->
  Forall byte_ok (c_local c) -> Forall byte_ok (c_target c) -> 0 <= t <= 255 ->
  probe_wf c t (syn_probe (c_local c) (c_target c) (c_sport c) (c_dport c) id seq t) = true.
Proof.
  intros V EL ET BL BT Ht. unfold syn_probe.
  apply (tcp4_probe_wf c t id seq 0 2 [] [] l1 l2 l3 l4 t1 t2 t3 t4); auto; try (unfold byte_ok; lia); try constructor; cbn; lia.
Qed.

Theorem sack_probe_wf c t l1 l2 l3 l4 t1 t2 t3 t4 :
  c_variant c = VSack -> c_local c = [l1; l2; l3; l4] -> c_target c = [t1; t2; t3; t4] ->
  Forall byte_ok (c_local c) -> Forall byte_ok (c_target c) -> 0 <= t <= 255 ->
  probe_wf c t (sack_probe (c_local c) (c_target c) (c_sport c) (c_dport c) (c_init_seq c) (c_init_ack c)
                           (c_has_ts c) (c_tsval c) (c_tsecr c) t) = true.
Proof.
  intros V EL ET BL BT Ht. unfold sack_probe.
  set (opts := sack_ts_opts (c_has_ts c) (c_tsval c) (c_tsecr c) t).
  assert (Bo : Forall byte_ok opts).
  { unfold opts, sack_ts_opts. destruct (c_has_ts c); [|constructor].
    repeat (apply Forall_app; split); auto using u32b_ok; repeat constructor; unfold byte_ok; lia. }
  assert (Lo : len opts <= 40) by (unfold opts, sack_ts_opts; destruct (c_has_ts c); cbn; lia).
  assert (Mo : len opts mod 4 = 0) by (unfold opts, sack_ts_opts; destruct (c_has_ts c); reflexivity).
  assert (Bp : Forall byte_ok [t]) by (repeat constructor; unfold byte_ok; lia).
  assert (Lp : len [t] <= 100) by (cbn; lia).
  exact (tcp4_probe_wf c t 41821 _ (c_init_ack c) 24 opts [t] l1 l2 l3 l4 t1 t2 t3 t4 (or_intror V) EL ET BL BT Ht
           ltac:(unfold byte_ok; lia) Bo Bp Lo Mo Lp).
Qed.

(** ---- every probe the driver model sends is well-formed on the wire: all variants, both families, all TTLs,
    all identifier bases, whatever was sent before *)
Definition cfg_wire_ok (c : cfg) : Prop :=
  Forall byte_ok (c_local c) /\ Forall byte_ok (c_target c) /\ 0 <= c_sport c < 65536 /\ 0 <= c_dport c < 65536
  /\ ((exists l1 l2 l3 l4 t1 t2 t3 t4, c_local c = [l1; l2; l3; l4] /\ c_target c = [t1; t2; t3; t4])
      \/ (len (c_local c) = 16 /\ len (c_target c) = 16 /\ (c_variant c = VIcmp \/ c_variant c = VUdp))).

Theorem sent_probe_wf c st t now rnd st' pkt :
  cfg_wire_ok c -> 0 <= t <= 255 -> send c st t now rnd = SendOk st' pkt -> probe_wf c t pkt = true.
Proof.
  intros [BL [BT [Hsp [Hdp Hfam]]]] Ht S. unfold send in S.
  destruct Hfam as [[l1 [l2 [l3 [l4 [t1 [t2 [t3 [t4 [EL ET]]]]]]]]] | [LL [LT V6]]].
  - assert (F : is_v6 c = false) by (unfold is_v6; rewrite EL; reflexivity).
    rewrite ?F in S.
    destruct (c_variant c) eqn:V.
    + destruct (negb (in_ttl_range c t)); [discriminate|]. destruct (find_ttl st t); [discriminate|].
      inversion S; subst. eapply icmp4_probe_wf; eauto.
    + destruct (existsb _ st); [discriminate|]. inversion S; subst. eapply udp4_probe_wf; eauto.
    + inversion S; subst. eapply syn_probe_wf; eauto.
    + destruct (negb (in_ttl_range c t)); [discriminate|]. destruct (find_ttl st t); [discriminate|].
      inversion S; subst. eapply sack_probe_wf; eauto.
  - assert (F : is_v6 c = true) by (unfold is_v6; rewrite LL; reflexivity).
    rewrite ?F in S.
    destruct V6 as [V | V]; rewrite V in S.
    + destruct (negb (in_ttl_range c t)); [discriminate|]. destruct (find_ttl st t); [discriminate|].
      inversion S; subst. apply icmp6_probe_wf; auto.
    + destruct (existsb _ st); [discriminate|]. inversion S; subst. apply udp6_probe_wf; auto.
Qed.

Example cfg_wire_ok_inhabited :
  cfg_wire_ok (mkCfg VUdp 1 30 [32; 1; 13; 184; 0; 0; 0; 0; 0; 0; 0; 0; 0; 0; 0; 2] [32; 1; 13; 184; 0; 1; 0; 0; 0; 0; 0; 0; 0; 0; 0; 7]
                     1121 33434 false 0 false 0 0 0 0 false 0 0).
Proof.
  unfold cfg_wire_ok. cbn [c_local c_target c_sport c_dport c_variant].
  split; [repeat constructor; unfold byte_ok; lia|]. split; [repeat constructor; unfold byte_ok; lia|].
  split; [lia|]. split; [lia|]. right. repeat split; auto.
Qed.
