(** C03: the engines' data path always yields a well-shaped path. *)
From Coq Require Import List ZArith Bool Lia Arith.
From TR Require Import Eng.Engine Proofs.EngMerge Spec.C03.
Import ListNotations.
Open Scope Z_scope.

Lemma find_dest_some l : forall d, find_dest l = Some d ->
  (d < length l)%nat /\ is_dest (nth d l None) = true /\ forall j, (j < d)%nat -> is_dest (nth j l None) = false.
Proof.
  induction l as [|o t IH]; intros d H; cbn in H; [discriminate|].
  destruct (is_dest o) eqn:E.
  - injection H as <-. cbn. repeat split; [lia|exact E|intros j Hj; lia].
  - destruct (find_dest t) as [d'|] eqn:F; [|discriminate]. injection H as <-.
    destruct (IH d' eq_refl) as [H1 [H2 H3]]. cbn [length nth]. repeat split; [lia|exact H2|].
    intros [|j] Hj; [exact E|]. apply H3. lia.
Qed.

Lemma find_dest_none l : find_dest l = None -> forall j, is_dest (nth j l None) = false.
Proof.
  induction l as [|o t IH]; intros H j; cbn in H.
  - destruct j; reflexivity.
  - destruct (is_dest o) eqn:E; [discriminate|]. destruct (find_dest t) eqn:F; [discriminate|].
    destruct j as [|j]; [exact E|]. cbn. apply IH. reflexivity.
Qed.

Definition hop_of (e : Z) (o : option probe) : hop :=
  match o with
  | None => mkHop e None 0 false
  | Some p => mkHop e (Some (p_ip p)) (p_rtt p) (p_dest p)
  end.

Fixpoint hops_of (e : Z) (c : slots) : list hop :=
  match c with [] => [] | o :: t => hop_of e o :: hops_of (e + 1) t end.

Lemma to_hops_ok c : forall e,
  (forall i p, nth i c None = Some p -> (i < length c)%nat -> p_ttl p = e + Z.of_nat i) ->
  to_hops e c = Some (hops_of e c).
Proof.
  induction c as [|o t IH]; intros e H; cbn [to_hops hops_of]; [reflexivity|].
  rewrite IH.
  - destruct o as [p|]; cbn [hop_of]; [|reflexivity].
    specialize (H O p eq_refl). cbn in H. rewrite H by lia. replace (e + 0) with e by lia. rewrite Z.eqb_refl. reflexivity.
  - intros i p Hn Hi. specialize (H (S i) p Hn). cbn [length] in H. rewrite H by lia. lia.
Qed.

Lemma hops_of_length c : forall e, length (hops_of e c) = length c.
Proof. induction c; intros; cbn; auto. Qed.

Lemma hops_of_nth c : forall e i h, nth_error (hops_of e c) i = Some h ->
  (i < length c)%nat /\ h = hop_of (e + Z.of_nat i) (nth i c None).
Proof.
  induction c as [|o t IH]; intros e i h H; cbn in H.
  - destruct i; discriminate.
  - destruct i as [|i]; cbn in H.
    + injection H as <-. cbn. split; [lia|]. replace (e + 0) with e by lia. reflexivity.
    + apply IH in H. destruct H as [H1 H2]. cbn [length nth]. split; [lia|]. rewrite H2. f_equal. lia.
Qed.

Lemma nth_skipn {A} (d : A) n : forall l i, nth i (skipn n l) d = nth (n + i) l d.
Proof. induction n as [|n IH]; intros [|x l] i; cbn; auto. destruct i; reflexivity. Qed.

Lemma nth_firstn {A} (d : A) n : forall l i, (i < n)%nat -> nth i (firstn n l) d = nth i l d.
Proof. induction n as [|n IH]; intros [|x l] i Hi; cbn; auto; try lia. destruct i; [reflexivity|]. apply IH. lia. Qed.

Section Shape.
  Variables first last : Z.
  Variable acc : list probe.
  Hypothesis Hfl : 1 <= first <= last.
  Hypothesis Hvalid : Forall (fun p => first <= p_ttl p <= last) acc.

  Let L := Z.to_nat last.
  Let F := Z.to_nat first.
  Let M := merge_all last acc.

  Lemma acc_nonneg : Forall (fun p => 0 <= p_ttl p) acc.
  Proof. eapply Forall_impl; [|exact Hvalid]. cbn. intros; lia. Qed.

  Lemma M_nth t : (t <= L)%nat -> nth t M None = pick acc (Z.of_nat t).
  Proof. intros. apply merge_all_nth; [apply acc_nonneg|assumption]. Qed.

  Lemma M_nth_out t : (L < t)%nat -> nth t M None = None.
  Proof. intros. apply nth_overflow. unfold M. rewrite merge_all_length. fold L. lia. Qed.

  Lemma M_length : length M = S L.
  Proof. unfold M. rewrite merge_all_length. fold L. lia. Qed.

  Lemma has_dest_range t : has_dest acc t -> first <= t <= last.
  Proof. intros [p [Hin [Ht _]]]. rewrite Forall_forall in Hvalid. specialize (Hvalid p Hin). cbn in Hvalid. lia. Qed.

  Lemma M_dest t : is_dest (nth t M None) = true <-> has_dest acc (Z.of_nat t).
  Proof.
    destruct (le_lt_dec t L) as [Ht|Ht].
    - rewrite M_nth by exact Ht. apply pick_dest.
    - rewrite M_nth_out by exact Ht. cbn. split; [discriminate|]. intros H. apply has_dest_range in H. unfold L in Ht. lia.
  Qed.

  (** the clipped table, entry by entry *)
  Definition end_idx : nat := match find_dest M with Some d => d | None => L end.

  Lemma end_idx_bounds : (F <= end_idx <= L)%nat.
  Proof.
    unfold end_idx. destruct (find_dest M) as [d|] eqn:E.
    - apply find_dest_some in E. destruct E as [H1 [H2 _]]. rewrite M_length in H1.
      apply M_dest in H2. apply has_dest_range in H2. unfold F. lia.
    - unfold F, L. lia.
  Qed.

  Lemma clip_eq : clip first M = Some (skipn F (firstn (S end_idx) M)).
  Proof.
    pose proof end_idx_bounds as B. unfold clip, end_idx in *. fold F.
    destruct (find_dest M) as [d|] eqn:E.
    - rewrite firstn_length, M_length. replace (Nat.min (S d) (S L)) with (S d) by lia.
      destruct (Nat.leb_spec F (S d)); [reflexivity|lia].
    - rewrite M_length. destruct (Nat.leb_spec F (S L)); [|lia].
      rewrite firstn_all2 by (rewrite M_length; lia). reflexivity.
  Qed.

  Let C := skipn F (firstn (S end_idx) M).

  Lemma C_length : length C = (S end_idx - F)%nat.
  Proof. pose proof end_idx_bounds. unfold C. rewrite skipn_length, firstn_length, M_length. lia. Qed.

  Lemma C_nth i : (i < length C)%nat -> nth i C None = pick acc (first + Z.of_nat i).
  Proof.
    intros Hi. rewrite C_length in Hi. pose proof end_idx_bounds. unfold C. rewrite nth_skipn, nth_firstn by lia.
    rewrite M_nth by lia. f_equal. unfold F. lia.
  Qed.

  Lemma run_hops_eq : run_hops first last acc = Done (hops_of first C).
  Proof.
    unfold run_hops, run_slots.
    assert (forallb (valid_probe first last) acc = true) as ->.
    { apply forallb_forall. intros p Hin. rewrite Forall_forall in Hvalid. specialize (Hvalid p Hin). cbn in Hvalid.
      unfold valid_probe. apply andb_true_iff. split; apply Z.leb_le; lia. }
    cbn [negb]. fold M. rewrite clip_eq. fold C.
    rewrite to_hops_ok; [reflexivity|].
    intros i p Hn Hi. rewrite C_nth in Hn by exact Hi. apply pick_ttl in Hn. tauto.
  Qed.

  Lemma end_idx_spec :
    (lowest_dest acc (Z.of_nat end_idx)) \/ ((forall t, ~ has_dest acc t) /\ end_idx = L).
  Proof.
    unfold end_idx. destruct (find_dest M) as [d|] eqn:E.
    - left. apply find_dest_some in E. destruct E as [H1 [H2 H3]]. split; [apply M_dest; exact H2|].
      intros t Ht Hd. pose proof (has_dest_range _ Hd) as R.
      specialize (H3 (Z.to_nat t)). rewrite <- (Z2Nat.id t) in Hd by lia. apply M_dest in Hd.
      rewrite H3 in Hd by lia. discriminate.
    - right. split; [|reflexivity]. intros t Hd. pose proof (has_dest_range _ Hd) as R.
      pose proof (find_dest_none _ E (Z.to_nat t)) as N. rewrite <- (Z2Nat.id t) in Hd by lia. apply M_dest in Hd. congruence.
  Qed.

  Theorem run_hops_shape : exists hs, run_hops first last acc = Done hs /\ shape first last acc hs.
  Proof.
    exists (hops_of first C). split; [apply run_hops_eq|].
    pose proof end_idx_bounds as B. pose proof C_length as CL.
    assert (HL : length (hops_of first C) = (S end_idx - F)%nat) by (rewrite hops_of_length; exact CL).
    constructor.
    - intros E. apply (f_equal (@length _)) in E. rewrite HL in E. cbn [length] in E. lia.
    - intros i h H. apply hops_of_nth in H. destruct H as [_ ->]. destruct (nth i C None); reflexivity.
    - rewrite HL. destruct end_idx_spec as [H|[H1 H2]].
      + left. exists (Z.of_nat end_idx). split; [exact H|]. unfold F in *. lia.
      + right. split; [exact H1|]. rewrite H2. unfold F, L in *. lia.
    - intros i h H. apply hops_of_nth in H. destruct H as [Hi ->]. rewrite C_nth by exact Hi.
      destruct (pick acc (first + Z.of_nat i)) as [p|] eqn:P; cbn.
      + split; [discriminate|]. intros N. exfalso. apply N. apply pick_ttl in P. exists p. tauto.
      + split; [|reflexivity]. intros _ [p [Hin Ht]]. rewrite pick_none in P. eapply P; eauto.
    - intros i h H E. apply hops_of_nth in H. destruct H as [Hi ->]. destruct (nth i C None); cbn in *; [discriminate|auto].
    - intros i h a H E. apply hops_of_nth in H. destruct H as [Hi ->]. rewrite C_nth in E |- * by exact Hi.
      destruct (pick acc (first + Z.of_nat i)) as [p|] eqn:P; cbn in *; [|discriminate].
      injection E as <-. apply pick_ttl in P. exists p. tauto.
    - intros i h H D. apply hops_of_nth in H. destruct H as [Hi ->]. rewrite HL.
      assert (is_dest (nth i C None) = true) as ID by (destruct (nth i C None); cbn in *; auto).
      rewrite C_nth in ID by exact Hi. apply pick_dest in ID.
      rewrite CL in Hi.
      destruct end_idx_spec as [[_ Hlow]|[Hno _]].
      + destruct (Z_lt_dec (first + Z.of_nat i) (Z.of_nat end_idx)) as [Hlt|Hge]; [exfalso; eapply Hlow; eauto|]. unfold F in *. lia.
      + exfalso. eapply Hno; eauto.
    - intros [d Hd]. rewrite HL.
      destruct end_idx_spec as [[Hhas _]|[Hno _]]; [|exfalso; eapply Hno; eauto].
      assert (Hi : (end_idx - F < length C)%nat) by lia.
      exists (hop_of (first + Z.of_nat (end_idx - F)) (nth (end_idx - F) C None)). split.
      + replace (S end_idx - F - 1)%nat with (end_idx - F)%nat by lia.
        clear -Hi. revert Hi. generalize (end_idx - F)%nat as i. generalize first as e. induction C as [|o t IH]; intros e i Hi; cbn in Hi; [lia|].
        destruct i as [|i]; cbn; [f_equal; f_equal; lia|]. rewrite IH by lia. f_equal. f_equal. lia.
      + rewrite C_nth by exact Hi. replace (first + Z.of_nat (end_idx - F)) with (Z.of_nat end_idx) by (unfold F in *; lia).
        apply pick_dest in Hhas. destruct (pick acc (Z.of_nat end_idx)); cbn in *; [exact Hhas|discriminate].
  Qed.
End Shape.
