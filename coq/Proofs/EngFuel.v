(** The timed parallel engine never runs out of the fuel it is given. *)
From Coq Require Import List ZArith Bool Lia Arith.
From TR Require Import Eng.Engine Eng.Timed.
Import ListNotations.
Open Scope Z_scope.

Lemma best_index st : forall pend i a j e, best st pend i = Some (a, j, e) -> (i <= j < i + length pend)%nat.
Proof.
  induction pend as [|x t IH]; intros i a j e H; cbn [best] in H; [discriminate|].
  destruct (ready st x) as [s|].
  - destruct (best st t (S i)) as [[[a' i'] e']|] eqn:B.
    + destruct (a' <? s).
      * injection H as -> -> ->. apply IH in B. cbn [length]. lia.
      * injection H as <- <- <-. cbn [length]. lia.
    + injection H as <- <- <-. cbn [length]. lia.
  - apply IH in H. cbn [length]. lia.
Qed.

Lemma remove_nth_length {A} : forall n (l : list A), (n < length l)%nat -> length (remove_nth n l) = (length l - 1)%nat.
Proof.
  induction n as [|n IH]; intros [|x l] H; cbn in *; try lia.
  rewrite IH by lia. lia.
Qed.

Definition steps_left (D T poll : Z) : Z := if T <=? D then (D - T) / poll + 2 else 1.

Lemma steps_left_mono D T T' poll : 0 < poll -> T <= T' -> steps_left D T' poll <= steps_left D T poll.
Proof.
  intros Hp Hle. unfold steps_left. destruct (Z.leb_spec T' D), (Z.leb_spec T D); try lia.
  - assert ((D - T') / poll <= (D - T) / poll) by (apply Z.div_le_mono; lia). lia.
  - assert (0 <= (D - T) / poll) by (apply Z.div_pos; lia). lia.
Qed.

Lemma steps_left_poll D T poll : 0 < poll -> T < D -> steps_left D (T + poll) poll + 1 <= steps_left D T poll.
Proof.
  intros Hp Hlt. unfold steps_left. destruct (Z.leb_spec (T + poll) D), (Z.leb_spec T D); try lia.
  - replace (D - T) with ((D - (T + poll)) + 1 * poll) by lia. rewrite Z.div_add by lia. lia.
  - assert (0 <= (D - T) / poll) by (apply Z.div_pos; lia). lia.
Qed.

Lemma steps_left_pos D T poll : 0 < poll -> 1 <= steps_left D T poll.
Proof.
  intros Hp. unfold steps_left. destruct (Z.leb_spec T D); [|lia].
  assert (0 <= (D - T) / poll) by (apply Z.div_pos; lia). lia.
Qed.

Theorem prun_fuel_sufficient : forall fuel p D T pend cancel rs acc,
  0 < tp_poll p ->
  Z.of_nat (length pend) + steps_left D T (tp_poll p) <= Z.of_nat fuel ->
  prun fuel p D T pend cancel rs acc <> TOutOfFuel.
Proof.
  induction fuel as [|fuel IH]; intros p D T pend cancel rs acc Hp Hf.
  - exfalso. pose proof (steps_left_pos D T (tp_poll p) Hp). cbn in Hf. lia.
  - cbn [prun].
    destruct (T =? D) eqn:E1; [discriminate|]. destruct (D <? T) eqn:E2; [discriminate|].
    apply Z.eqb_neq in E1. apply Z.ltb_ge in E2. assert (HT : T < D) by lia.
    pose proof (steps_left_poll D T (tp_poll p) Hp HT) as SP.
    destruct (best (psent p cancel) pend 0) as [[[a i] e]|] eqn:B.
    + pose proof (best_index _ _ _ _ _ _ B) as BI.
      destruct (a <=? T + tp_poll p) eqn:E3.
      * assert (HL : Z.of_nat (length (remove_nth i pend)) = Z.of_nat (length pend) - 1) by (rewrite remove_nth_length by lia; lia).
        pose proof (steps_left_mono D T (Z.max T a) (tp_poll p) Hp ltac:(lia)) as SM.
        destruct (e_kind e =? 1); [apply IH; [exact Hp|lia]|].
        destruct (negb (valid_probe (tp_first p) (tp_last p) _)); [discriminate|].
        destruct (match cancel with None => e_dest e && cancel_tie p (Z.max T a) | Some _ => false end); [discriminate|].
        apply IH; [exact Hp|lia].
      * apply IH; [exact Hp|lia].
    + apply IH; [exact Hp|lia].
Qed.

Theorem parallel_run_never_out_of_fuel p script : parallel_run p script <> TOutOfFuel.
Proof.
  unfold parallel_run. destruct (params_ok p) eqn:P; [|discriminate]. cbn [negb].
  assert (Hp : 0 < tp_poll p /\ 0 < pdeadline p).
  { unfold params_ok in P. rewrite !andb_true_iff in P. rewrite !Z.leb_le, !Z.ltb_lt in P. unfold pdeadline, count. split; [lia|nia]. }
  apply prun_fuel_sufficient; [tauto|].
  unfold pfuel, steps_left. destruct Hp as [Hp Hd]. replace (0 <=? pdeadline p) with true by (symmetry; apply Z.leb_le; lia).
  replace (pdeadline p - 0) with (pdeadline p) by lia.
  assert (0 <= pdeadline p / tp_poll p) by (apply Z.div_pos; lia). lia.
Qed.

(** ---- serial engine ---- *)
Theorem swindow_fuel_sufficient : forall fuel p sends W T pend,
  0 < tp_poll p ->
  Z.of_nat (length pend) + steps_left W T (tp_poll p) <= Z.of_nat fuel ->
  swindow fuel p sends W T pend <> WFuel.
Proof.
  induction fuel as [|fuel IH]; intros p sends W T pend Hp Hf.
  - exfalso. pose proof (steps_left_pos W T (tp_poll p) Hp). cbn in Hf. lia.
  - cbn [swindow].
    destruct (T =? W) eqn:E1; [discriminate|]. destruct (W <? T) eqn:E2; [discriminate|].
    apply Z.eqb_neq in E1. apply Z.ltb_ge in E2. assert (HT : T < W) by lia.
    pose proof (steps_left_poll W T (tp_poll p) Hp HT) as SP.
    destruct (best (lookup sends) pend 0) as [[[a i] e]|] eqn:B.
    + pose proof (best_index _ _ _ _ _ _ B) as BI.
      destruct (a <=? T + tp_poll p) eqn:E3.
      * assert (HL : Z.of_nat (length (remove_nth i pend)) = Z.of_nat (length pend) - 1) by (rewrite remove_nth_length by lia; lia).
        pose proof (steps_left_mono W T (Z.max T a) (tp_poll p) Hp ltac:(lia)) as SM.
        destruct (e_kind e =? 1); [apply IH; [exact Hp|lia]|discriminate].
      * apply IH; [exact Hp|lia].
    + apply IH; [exact Hp|lia].
Qed.

Lemma srun_never_out_of_fuel : forall n p i s pend sends rs acc,
  0 < tp_poll p -> 0 < tp_timeout p -> srun n p i s pend sends rs acc <> TOutOfFuel.
Proof.
  induction n as [|n IH]; intros p i s pend sends rs acc Hp Ht; cbn [srun]; [discriminate|].
  destruct (swindow (wfuel p pend) p ((i, s) :: sends) (s + tp_timeout p) s pend) as [T pr pend'|T pend'| |] eqn:W.
  - destruct (negb (valid_probe (tp_first p) (tp_last p) pr)); [discriminate|].
    destruct (p_dest pr); [discriminate|apply IH; assumption].
  - apply IH; assumption.
  - discriminate.
  - exfalso. revert W. apply swindow_fuel_sufficient; [exact Hp|].
    unfold wfuel, steps_left. replace (s <=? s + tp_timeout p) with true by (symmetry; apply Z.leb_le; lia).
    replace (s + tp_timeout p - s) with (tp_timeout p) by lia.
    assert (0 <= tp_timeout p / tp_poll p) by (apply Z.div_pos; lia). lia.
Qed.

Theorem serial_run_never_out_of_fuel p script : serial_run p script <> TOutOfFuel.
Proof.
  unfold serial_run. destruct (params_ok p) eqn:P; [|discriminate]. cbn [negb].
  unfold params_ok in P. rewrite !andb_true_iff in P. rewrite !Z.leb_le, !Z.ltb_lt in P.
  apply srun_never_out_of_fuel; lia.
Qed.
