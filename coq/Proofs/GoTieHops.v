(** Tie kind A (C03, C05): the body of the loop of common.ToHops, as translated from the source on this run and folded
    over the slots, is the model's [to_hops] (the unit conversion of the RTT is the identity on the model's integers). *)
From Coq Require Import ZArith Bool Lia List.
From TR Require Import Lib.GoLists Eng.Engine Generated.GoHops.
Import ListNotations.
Open Scope Z_scope.

Definition slot_elem (first i : Z) (o : option probe) : option (Z * option Z * Z * bool) :=
  match o with
  | None => go_ToHops_element i first true 0 0 (fun x => x) 0 false
  | Some p => go_ToHops_element i first false (p_ttl p) (p_ip p) (fun x => x) (p_rtt p) (p_dest p)
  end.

(** the loop: element i of the output from slot i; the first mismatch abandons the whole conversion *)
Fixpoint go_to_hops (first i : Z) (ps : slots) : option (list hop) :=
  match ps with
  | [] => Some []
  | o :: t =>
      match slot_elem first i o, go_to_hops first (i + 1) t with
      | Some (t', ipo, r, d), Some hs => Some (mkHop t' ipo r d :: hs)
      | _, _ => None
      end
  end.

Theorem go_ToHops_is_to_hops : forall ps first i, to_hops (first + i) ps = go_to_hops first i ps.
Proof.
  induction ps as [|o t IH]; intros first i; cbn [to_hops go_to_hops]; [reflexivity|].
  replace (first + i + 1) with (first + (i + 1)) by lia. rewrite IH.
  destruct o as [p|]; unfold slot_elem, go_ToHops_element; cbn [negb].
  - destruct (p_ttl p =? first + i) eqn:E; cbn [negb].
    + destruct (go_to_hops first (i + 1) t); reflexivity.
    + destruct (go_to_hops first (i + 1) t); reflexivity.
  - destruct (go_to_hops first (i + 1) t); reflexivity.
Qed.

Corollary go_ToHops_from_first ps first : to_hops first ps = go_to_hops first 0 ps.
Proof. rewrite <- go_ToHops_is_to_hops. f_equal. lia. Qed.
