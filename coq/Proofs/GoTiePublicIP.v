(** Tie kind A (C18): how publicip.handleRequest classifies one HTTP exchange, as translated from the source on this
    run, is what the provider model's [attempt_out] assumes: transport and body-read errors are retried, a 4xx answer and
    a body that is not an address are final, anything else with a valid address succeeds. *)
From Coq Require Import ZArith Bool Lia.
From TR Require Import Lib.GoLists Pol.PublicIp Generated.GoPublicIP.
Open Scope Z_scope.

Definition class_of (o : aout) : Z := match o with AOk => 0 | ARetry => 1 | APermanent => 2 | ADeadline => 3 | ATie => 4 end.

(** the outcome class of an attempt that completes before the deadline (no tie, no deadline) *)
Theorem go_handleRequest_is_attempt_out dl t a : 
  match a with Hang => False | Resp d _ _ | TransportErr d | BodyErr d => t + d < dl end ->
  class_of (fst (attempt_out dl t a)) =
  match a with
  | TransportErr _ => go_publicip_handleRequest_class false true 0 true
  | BodyErr _ => go_publicip_handleRequest_class true false 0 true
  | Resp _ st valid => go_publicip_handleRequest_class true true st (negb valid)
  | Hang => 3
  end.
Proof.
  destruct a as [d st valid|d|d|]; intros H; try contradiction; unfold attempt_out;
    replace (t + d =? dl) with false by (symmetry; apply Z.eqb_neq; lia);
    replace (dl <? t + d) with false by (symmetry; apply Z.ltb_ge; lia); cbn [fst class_of].
  - unfold go_publicip_handleRequest_class. cbn [negb]. destruct ((400 <=? st) && (st <? 500)); [reflexivity|]. destruct valid; reflexivity.
  - reflexivity.
  - reflexivity.
Qed.
