(** C13 / C20 composition for a firewalled destination port: the routers answer, the destination drops the probes.
    Whatever the engine is handed under those conditions, the run reports the routers and then silence up to the
    last TTL, with no destination. *)
From Coq Require Import List ZArith Bool Lia.
From TR Require Import Eng.Engine Spec.C03 Proofs.EngShape Net.Ideal.
Import ListNotations.
Open Scope Z_scope.

(** what the drivers hand to the engine: only genuine router replies (C01, C02), none from beyond the last router *)
Definition filtered_accepted (pa : path) (first last : Z) (acc : list probe) : Prop :=
  Forall (fun p => first <= p_ttl p <= last /\ p_ttl p <= pa_n pa /\ p_ttl p <> pa_silent pa
                   /\ p_ip p = p_ttl p /\ p_dest p = false /\ 0 <= p_rtt p) acc
  /\ (forall t, first <= t <= Z.min last (pa_n pa) -> t <> pa_silent pa -> exists p, In p acc /\ p_ttl p = t).

Definition filtered_hop (pa : path) (t : Z) (h : hop) : Prop :=
  h_ttl h = t
  /\ (t <= pa_n pa -> t <> pa_silent pa -> h_ip h = Some t)
  /\ (pa_n pa < t \/ t = pa_silent pa -> h_ip h = None)
  /\ h_dest h = false /\ 0 <= h_rtt h.

Theorem filtered_chain_path pa first last acc :
  1 <= first <= last -> 0 <= pa_n pa ->
  filtered_accepted pa first last acc ->
  exists hs, run_hops first last acc = Done hs
    /\ Z.of_nat (length hs) = last - first + 1
    /\ forall i h, nth_error hs i = Some h -> filtered_hop pa (first + Z.of_nat i) h.
Proof.
  intros Hfl Hn [Hall Hans].
  assert (Hv : Forall (fun p => first <= p_ttl p <= last) acc).
  { eapply Forall_impl; [|exact Hall]. cbn. tauto. }
  destruct (run_hops_shape first last acc Hfl Hv) as [hs [Hr Hs]].
  exists hs. split; [exact Hr|].
  assert (Hnod : forall t, ~ has_dest acc t).
  { intros t [p [Hin [_ Hd]]]. rewrite Forall_forall in Hall. destruct (Hall p Hin) as [_ [_ [_ [_ [Hd' _]]]]]. congruence. }
  assert (Hlen : Z.of_nat (length hs) = last - first + 1).
  { destruct (sh_len _ _ _ _ Hs) as [[d [[Hd _] _]]|[_ Hl]]; [exfalso; exact (Hnod d Hd)|exact Hl]. }
  split; [exact Hlen|].
  intros i h Hi. pose proof (sh_ttls _ _ _ _ Hs i h Hi) as Ht.
  assert (Hil : (i < length hs)%nat) by (apply nth_error_Some; congruence).
  set (t := first + Z.of_nat i) in *.
  assert (Htr : first <= t <= last) by lia.
  unfold filtered_hop. split; [exact Ht|].
  destruct (h_ip h) as [a|] eqn:Ea.
  - destruct (sh_backed _ _ _ _ Hs i h a Hi Ea) as [p [Hin [Hp1 [Hp2 [Hp3 Hp4]]]]].
    rewrite Forall_forall in Hall. destruct (Hall p Hin) as [_ [Hq1 [Hq2 [Hq3 [Hq4 Hq5]]]]]. rewrite Hp1, Ht in *.
    split; [intros _ _; congruence|]. split; [intros [H|H]; [lia|congruence]|].
    split; [congruence|lia].
  - pose proof (proj1 (sh_empty _ _ _ _ Hs i h Hi) Ea) as Hna.
    destruct (sh_empty_zero _ _ _ _ Hs i h Hi Ea) as [Hz Hd0].
    split.
    + intros Hle Hsl. exfalso. apply Hna. rewrite Ht. apply Hans; [lia|exact Hsl].
    + split; [reflexivity|]. split; [exact Hd0|lia].
Qed.

(** the executable prediction the kernel lab compares with is an instance *)
Example filtered_example : predicted_filtered (mkPath 2 0) 1 4 = [(1, Some 1, false); (2, Some 2, false); (3, None, false); (4, None, false)].
Proof. reflexivity. Qed.
