From Coq Require Import List ZArith Bool Lia Arith.
From TR Require Import Eng.Engine Eng.Parallel Eng.Timed Spec.C03 Spec.C07 Spec.C08 Proofs.EngMerge Proofs.EngShape Proofs.EngParallel Proofs.EngTimed.
Import ListNotations.
Open Scope Z_scope.

Lemma valid_forallb first last acc :
  Forall (fun p => first <= p_ttl p <= last) acc -> forallb (valid_probe first last) acc = true.
Proof.
  intros H. apply forallb_forall. intros p Hin. rewrite Forall_forall in H. specialize (H p Hin). cbn in H.
  unfold valid_probe. apply andb_true_iff. split; apply Z.leb_le; lia.
Qed.

Lemma valid_forallb_inv first last acc :
  Forall (fun p => valid_probe first last p = true) acc -> Forall (fun p => first <= p_ttl p <= last) acc.
Proof.
  apply Forall_impl. intros p H. unfold valid_probe in H. apply andb_true_iff in H. destruct H as [H1 H2]. apply Z.leb_le in H1, H2. lia.
Qed.

(** slots produced by clip-of-merge convert to a well-shaped hop list *)
Lemma slots_shape first last acc s :
  1 <= first <= last -> Forall (fun p => first <= p_ttl p <= last) acc ->
  clip first (merge_all last acc) = Some s ->
  exists hs, to_hops first s = Some hs /\ shape first last acc hs.
Proof.
  intros Hfl Hv Hc. destruct (run_hops_shape first last acc Hfl Hv) as [hs [Hr Hs]].
  unfold run_hops, run_slots in Hr. rewrite (valid_forallb _ _ _ Hv) in Hr. cbn [negb] in Hr.
  rewrite Hc in Hr. destruct (to_hops first s) as [hs'|]; [|discriminate]. injection Hr as ->. eauto.
Qed.

Lemma clip_never_panics first last acc :
  1 <= first <= last -> Forall (fun p => first <= p_ttl p <= last) acc ->
  exists s, clip first (merge_all last acc) = Some s.
Proof.
  intros Hfl Hv. destruct (run_hops_shape first last acc Hfl Hv) as [hs [Hr _]].
  unfold run_hops, run_slots in Hr. rewrite (valid_forallb _ _ _ Hv) in Hr. cbn [negb] in Hr.
  destruct (clip first (merge_all last acc)); [eauto|discriminate].
Qed.

Theorem timed_shape (serial : bool) p script r :
  (if serial then serial_run p script else parallel_run p script) = TDone r ->
  exists s hs, tr_slots r = Some s /\ to_hops (tp_first p) s = Some hs
               /\ shape (tp_first p) (tp_last p) (tr_accepted r) hs
               /\ merge_specb (tr_accepted r) hs = true.
Proof.
  intros H.
  assert (Hok : params_ok p = true).
  { destruct serial; [unfold serial_run in H|unfold parallel_run in H]; destruct (params_ok p); auto; discriminate. }
  apply params_ok_facts in Hok. destruct Hok as [P1 _].
  assert (HS : tr_slots r = clip (tp_first p) (merge_all (tp_last p) (tr_accepted r)) /\ Forall (in_range p) (tr_accepted r)).
  { destruct serial; [apply serial_run_spec in H|apply parallel_run_spec in H]; tauto. }
  destruct HS as [HS HR].
  destruct (clip_never_panics (tp_first p) (tp_last p) (tr_accepted r) P1 HR) as [s Hs].
  destruct (slots_shape _ _ _ _ P1 HR Hs) as [hs [Hh Hsh]].
  exists s, hs. rewrite HS. split; [exact Hs|]. split; [exact Hh|]. split; [exact Hsh|].
  (* merge rule: every hop is pick acc ttl *)
  unfold merge_specb. apply forallb_forall. intros h Hin.
  apply In_nth_error in Hin. destruct Hin as [i Hi].
  pose proof (sh_ttls _ _ _ _ Hsh i h Hi) as Ht.
  unfold hop_matches.
  destruct (h_ip h) as [a|] eqn:Ea.
  - destruct (sh_backed _ _ _ _ Hsh i h a Hi Ea) as [q [Hq1 [Hq2 [Hq3 [Hq4 Hq5]]]]].
    (* the backing reply is the picked one: shown through the model's own hop *)
    destruct (run_hops_shape (tp_first p) (tp_last p) (tr_accepted r) P1 HR) as [hs2 [Hr2 _]].
    rewrite (run_hops_eq _ _ _ P1 HR) in Hr2. injection Hr2 as <-.
    unfold run_hops, run_slots in *.
    pose proof (clip_eq (tp_first p) (tp_last p) (tr_accepted r) P1 HR) as CE. rewrite Hs in CE. injection CE as ->.
    rewrite to_hops_ok in Hh.
    2:{ intros j q' Hn Hj. rewrite (C_nth _ _ _ P1 HR) in Hn by exact Hj. apply pick_ttl in Hn. tauto. }
    injection Hh as <-. apply hops_of_nth in Hi. destruct Hi as [Hi ->].
    rewrite (C_nth _ _ _ P1 HR) in * by exact Hi. cbn [h_ttl hop_of] in *.
    destruct (pick (tr_accepted r) (tp_first p + Z.of_nat i)) as [pk|] eqn:PK; cbn in *.
    + replace (h_ttl (mkHop (tp_first p + Z.of_nat i) (Some (p_ip pk)) (p_rtt pk) (p_dest pk))) with (tp_first p + Z.of_nat i) by reflexivity.
      rewrite PK. injection Ea as <-. rewrite !Z.eqb_refl, Bool.eqb_reflx. reflexivity.
    + discriminate.
  - destruct (sh_empty_zero _ _ _ _ Hsh i h Hi Ea) as [Z0 D0].
    pose proof (proj1 (sh_empty _ _ _ _ Hsh i h Hi) Ea) as NA.
    destruct (pick (tr_accepted r) (h_ttl h)) as [pk|] eqn:PK.
    + exfalso. apply NA. apply pick_ttl in PK. exists pk. tauto.
    + rewrite Z0, D0. reflexivity.
Qed.

(** all interleavings of the parallel engine (C07/C03) *)
Theorem parallel_all_interleavings first last s :
  1 <= first <= last -> reachable first last s ->
  ps_results s = merge_all last (ps_accepted s)
  /\ ps_sent s = zseq first (Z.to_nat (ps_next s - first))
  /\ (ps_failed s = false ->
      exists sl hs, presult first s = Some sl /\ to_hops first sl = Some hs /\ shape first last (ps_accepted s) hs).
Proof.
  intros Hfl R. apply pinv_reachable in R. destruct R as [H1 [H2 [H3 [H4 _]]]].
  split; [exact H1|]. split; [exact H4|]. intros _.
  apply valid_forallb_inv in H2.
  destruct (clip_never_panics first last (ps_accepted s) Hfl H2) as [sl Hs].
  destruct (slots_shape _ _ _ _ Hfl H2 Hs) as [hs [Hh Hsh]].
  exists sl, hs. unfold presult. rewrite H1. split; [exact Hs|]. split; [exact Hh|exact Hsh].
Qed.

(** the merged table is a function of the accepted sequence only through [pick] *)
Theorem merge_rule first last acc t :
  Forall (fun p => first <= p_ttl p <= last) acc -> 1 <= first -> 0 <= t <= last ->
  nth (Z.to_nat t) (merge_all last acc) None = pick acc t.
Proof.
  intros Hv Hf Ht. rewrite merge_all_nth.
  - rewrite Z2Nat.id by lia. reflexivity.
  - eapply Forall_impl; [|exact Hv]. cbn. intros; lia.
  - lia.
Qed.

(** two accepted sequences with the same earliest / earliest-destination reply per TTL give the same table *)
Theorem merge_order_independent first last acc1 acc2 :
  Forall (fun p => first <= p_ttl p <= last) acc1 -> Forall (fun p => first <= p_ttl p <= last) acc2 ->
  1 <= first -> 0 <= last ->
  (forall t, pick acc1 t = pick acc2 t) -> merge_all last acc1 = merge_all last acc2.
Proof.
  intros H1 H2 Hf Hl Hp.
  apply nth_ext with (d := None) (d' := None).
  - rewrite !merge_all_length. reflexivity.
  - intros n Hn. rewrite merge_all_length in Hn.
    rewrite !merge_all_nth; try lia; try (eapply Forall_impl; [|eassumption]; cbn; intros; lia).
    apply Hp.
Qed.

Theorem invalid_reply_is_error first last acc :
  ~ Forall (fun p => first <= p_ttl p <= last) acc -> run_hops first last acc = EngineError.
Proof.
  intros H. unfold run_hops, run_slots.
  destruct (forallb (valid_probe first last) acc) eqn:E; [|reflexivity].
  exfalso. apply H. rewrite forallb_forall in E. apply Forall_forall. intros p Hin. specialize (E p Hin).
  unfold valid_probe in E. apply andb_true_iff in E. destruct E as [E1 E2]. apply Z.leb_le in E1, E2. cbn. lia.
Qed.
