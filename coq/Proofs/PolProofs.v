(** Theorems about the cache and provider-iteration models (C18, C08). *)
From Coq Require Import List ZArith Bool Lia.
From TR Require Import Pol.Cache Pol.PublicIp.
Import ListNotations.
Open Scope Z_scope.

(** ---------------- cache ---------------- *)
Theorem cache_hit dflt s now k cb expire v :
  cache_get s now k = Some v ->
  get_or_compute dflt s now k cb expire = mkCres (Some v) false s.
Proof. intros H. unfold get_or_compute. rewrite H. reflexivity. Qed.

Theorem cache_error_not_stored dflt s now k expire :
  cr_state (get_or_compute dflt s now k None expire) = s
  /\ (cache_get s now k = None -> cr_val (get_or_compute dflt s now k None expire) = None).
Proof.
  unfold get_or_compute. destruct (cache_get s now k); cbn; split; auto; discriminate.
Qed.

Lemma lookup_set dflt s now k v d : lookup_item (cache_set dflt s now k v d) k =
  Some (mkItem k v (if 0 <? (if d =? 0 then dflt else d) then now + (if d =? 0 then dflt else d) else 0)).
Proof. unfold lookup_item, cache_set. cbn [find it_key]. rewrite Z.eqb_refl. reflexivity. Qed.

(** a stored success is returned, without calling back, until its expiry; afterwards it is recomputed *)
Lemma compute_state dflt s now k v d : cache_get s now k = None ->
  cr_state (get_or_compute dflt s now k (Some v) d) = cache_set dflt s now k v d.
Proof. intros H. unfold get_or_compute. rewrite H. reflexivity. Qed.

Theorem cache_stored_until_expiry dflt s now k v d now' cb e :
  0 <= now -> 0 < d -> cache_get s now k = None -> now <= now' ->
  let s' := cr_state (get_or_compute dflt s now k (Some v) d) in
  (now' <= now + d -> get_or_compute dflt s' now' k cb e = mkCres (Some v) false s')
  /\ (now + d < now' -> cr_called (get_or_compute dflt s' now' k cb e) = true
                        /\ cr_val (get_or_compute dflt s' now' k cb e) = cb).
Proof.
  intros Hnow Hd Hmiss Hle. cbn zeta. rewrite (compute_state _ _ _ _ _ _ Hmiss).
  assert (Hd0 : (d =? 0) = false) by (apply Z.eqb_neq; lia).
  assert (Hdp : (0 <? d) = true) by (apply Z.ltb_lt; lia).
  assert (G : forall n', cache_get (cache_set dflt s now k v d) n' k = if now + d <? n' then (if 0 <? now + d then None else Some v) else Some v).
  { intros n'. unfold cache_get. rewrite lookup_set, Hd0, Hdp. cbn [it_exp it_val].
    destruct (0 <? now + d), (now + d <? n'); reflexivity. }
  split; intros H.
  - unfold get_or_compute. rewrite G. replace (now + d <? now') with false by (symmetry; apply Z.ltb_ge; lia). reflexivity.
  - unfold get_or_compute. rewrite G. replace (now + d <? now') with true by (symmetry; apply Z.ltb_lt; lia).
    destruct (0 <? now + d) eqn:E0.
    + destruct cb; cbn; auto.
    + exfalso. apply Z.ltb_ge in E0. lia.
Qed.

Theorem cache_no_expiry dflt s now k v now' cb e :
  cache_get s now k = None ->
  let s' := cr_state (get_or_compute dflt s now k (Some v) (-1)) in
  get_or_compute dflt s' now' k cb e = mkCres (Some v) false s'.
Proof.
  intros Hmiss. cbn zeta. rewrite (compute_state _ _ _ _ _ _ Hmiss).
  unfold get_or_compute, cache_get. rewrite lookup_set. reflexivity.
Qed.

(** over every operation sequence: a value served without a callback is one an earlier callback for the same key produced *)
Definition from_history (hist : list cop) (k v : Z) : Prop :=
  exists o, In o hist /\ op_key o = k /\ op_cb o = Some v.

Definition cinv (hist : list cop) (s : cstate) : Prop :=
  forall i, In i s -> from_history hist (it_key i) (it_val i).

Lemma cinv_step dflt hist s o :
  cinv hist s ->
  cinv (hist ++ [o]) (cr_state (get_or_compute dflt s (op_now o) (op_key o) (op_cb o) (op_expire o))).
Proof.
  intros H. assert (Hw : cinv (hist ++ [o]) s).
  { intros i Hi. destruct (H i Hi) as [o' [Ho' R]]. exists o'. split; [apply in_or_app; left; exact Ho'|exact R]. }
  unfold get_or_compute. destruct (cache_get s (op_now o) (op_key o)); [exact Hw|].
  destruct (op_cb o) as [v|] eqn:E; [|exact Hw]. cbn [cr_state].
  intros i Hi. unfold cache_set in Hi. destruct Hi as [<-|Hi].
  - exists o. cbn. split; [apply in_or_app; right; left; reflexivity|auto].
  - apply filter_In in Hi. apply Hw. tauto.
Qed.

Lemma cache_get_in s now k v : cache_get s now k = Some v -> exists i, In i s /\ it_key i = k /\ it_val i = v.
Proof.
  unfold cache_get, lookup_item. destruct (find (fun i => it_key i =? k) s) as [i|] eqn:F; [|discriminate].
  apply find_some in F. destruct F as [Hin Hk]. apply Z.eqb_eq in Hk.
  destruct ((0 <? it_exp i) && (it_exp i <? now)); [discriminate|]. intros H. injection H as <-. eauto.
Qed.

Theorem cache_sequences dflt : forall ops hist s, cinv hist s ->
  forall n o v, nth_error ops n = Some o -> nth_error (run_cache dflt s ops) n = Some (Some v, false) ->
  from_history (hist ++ firstn n ops) (op_key o) v.
Proof.
  induction ops as [|o0 r IH]; intros hist s Hinv n o v Hn Hr; [destruct n; discriminate|].
  destruct n as [|n]; cbn [nth_error run_cache firstn] in *.
  - injection Hn as ->. injection Hr as Hv Hc. rewrite app_nil_r.
    unfold get_or_compute in Hv, Hc. destruct (cache_get s (op_now o) (op_key o)) as [v0|] eqn:G.
    + cbn in Hv. injection Hv as ->. apply cache_get_in in G. destruct G as [i [Hi [Hk Hvv]]]. rewrite <- Hk, <- Hvv. apply Hinv. exact Hi.
    + destruct (op_cb o); discriminate.
  - replace (hist ++ o0 :: firstn n r) with ((hist ++ [o0]) ++ firstn n r) by (rewrite <- app_assoc; reflexivity).
    eapply IH; eauto. apply cinv_step. exact Hinv.
Qed.

(** ---------------- providers ---------------- *)
Lemma fin_bound dl t d (o0 o1 : aout) t1 :
  (if t + d =? dl then (ATie, dl) else if dl <? t + d then (ADeadline, dl) else (o0, t + d)) = (o1, t1) ->
  t <= dl -> t1 <= dl /\ (o1 <> ATie -> o1 <> ADeadline -> t1 < dl).
Proof.
  intros H Ht. destruct (t + d =? dl) eqn:E1.
  - injection H as <- <-. split; [lia|congruence].
  - destruct (dl <? t + d) eqn:E2; injection H as <- <-.
    + split; [lia|congruence].
    + apply Z.eqb_neq in E1. apply Z.ltb_ge in E2. split; intros; lia.
Qed.

Lemma attempt_out_bound dl t a o t' : t <= dl -> attempt_out dl t a = (o, t') ->
  t' <= dl /\ (o = AOk \/ o = APermanent \/ o = ARetry -> t' < dl).
Proof.
  intros Ht H. unfold attempt_out in H.
  destruct a as [d st v|d|d|].
  - eapply fin_bound in H; [|exact Ht]. destruct H as [H1 H2]. split; [exact H1|]. intros Ho. apply H2; destruct Ho as [->|[->| ->]]; congruence.
  - eapply fin_bound in H; [|exact Ht]. destruct H as [H1 H2]. split; [exact H1|]. intros Ho. apply H2; destruct Ho as [->|[->| ->]]; congruence.
  - eapply fin_bound in H; [|exact Ht]. destruct H as [H1 H2]. split; [exact H1|]. intros Ho. apply H2; destruct Ho as [->|[->| ->]]; congruence.
  - injection H as <- <-. split; [lia|]. intros [H|[H|H]]; discriminate.
Qed.

Lemma provider_run_bound : forall fuel dl maxi t cur script n,
  t <= dl -> pr_out (provider_run fuel dl maxi t cur script n) <> PFuel ->
  pr_end (provider_run fuel dl maxi t cur script n) <= dl /\ n < pr_requests (provider_run fuel dl maxi t cur script n).
Proof.
  induction fuel as [|fuel IH]; intros dl maxi t cur script n Ht Hf; cbn [provider_run] in *; [cbn in Hf; congruence|].
  destruct (attempt_out dl t (match script with a :: _ => a | [] => Hang end)) as [o t'] eqn:E.
  apply attempt_out_bound in E; [|exact Ht]. destruct E as [E1 E2].
  destruct o; cbn [pr_end pr_requests pr_out] in *; try (split; lia).
  destruct (t' + cur =? dl) eqn:C1; cbn [pr_end pr_requests]; [split; lia|].
  destruct (dl <? t' + cur) eqn:C2; cbn [pr_end pr_requests]; [split; lia|].
  apply Z.ltb_ge in C2. specialize (IH dl maxi (t' + cur) (next_interval maxi cur) (match script with _ :: r => r | [] => [] end) (n + 1) C2 Hf). lia.
Qed.

(** a client error or an invalid body is final for that provider: exactly one request *)
Theorem permanent_is_final fuel dl maxi cur d st valid rest :
  0 <= d < dl -> ((400 <= st < 500) \/ valid = false) ->
  provider_run (S fuel) dl maxi 0 cur (Resp d st valid :: rest) 0 = mkPres PFail 1 d.
Proof.
  intros Hd Hp. cbn [provider_run attempt_out].
  replace (0 + d =? dl) with false by (symmetry; apply Z.eqb_neq; lia).
  replace (dl <? 0 + d) with false by (symmetry; apply Z.ltb_ge; lia).
  destruct ((400 <=? st) && (st <? 500)) eqn:E.
  - reflexivity.
  - destruct Hp as [Hp|Hp].
    + exfalso. apply andb_false_iff in E. destruct E as [E|E]; [apply Z.leb_gt in E|apply Z.ltb_ge in E]; lia.
    + subst valid. reflexivity.
Qed.

(** provider iteration *)
Theorem get_public_ip_spec dl init maxi : forall scripts idx t0 g,
  0 <= dl -> get_public_ip dl init maxi idx t0 scripts = g -> g_tie g = false ->
  length (g_requests g) = length scripts
  /\ g_elapsed g <= t0 + Z.of_nat (length scripts) * dl                         (* C08: providers x per-checker timeout *)
  /\ match g_winner g with
     | Some w =>
         let k := Z.to_nat (w - idx) in
         idx <= w
         /\ (exists s, nth_error scripts k = Some s /\ provider_succeeds dl init maxi s = true)   (* a provider that reaches a valid address *)
         /\ (forall j s, (j < k)%nat -> nth_error scripts j = Some s -> provider_succeeds dl init maxi s = false)  (* ... the first such, in order *)
         /\ (forall j, (k < j)%nat -> nth j (g_requests g) 0 = 0)                          (* no later provider is queried *)
     | None => forall s, In s scripts -> provider_succeeds dl init maxi s = false
     end.
Proof.
  induction scripts as [|s rest IH]; intros idx t0 g Hdl Hg Htie; cbn [get_public_ip] in Hg.
  - subst g. cbn. repeat split; try lia.
  - pose proof (provider_run_bound 64 dl maxi 0 init s 0 Hdl) as B.
    unfold provider_succeeds in *.
    destruct (pr_out (provider_run 64 dl maxi 0 init s 0)) eqn:O.
    + (* POk *) subst g. cbn [g_requests g_elapsed g_winner length]. rewrite map_length.
      destruct B as [B1 B2]; [congruence|].
      split; [reflexivity|]. split; [nia|].
      replace (idx - idx) with 0 by lia. cbn [Z.to_nat]. split; [lia|]. split.
      * exists s. cbn [nth_error]. rewrite O. auto.
      * split; [intros j s0 Hj; lia|]. intros j Hj. destruct j as [|j]; [lia|]. cbn [nth].
        clear. revert j. induction rest as [|x r IH]; intros [|j]; cbn; auto.
    + (* PFail *)
      destruct B as [B1 B2]; [congruence|].
      remember (get_public_ip dl init maxi (idx + 1) (t0 + pr_end (provider_run 64 dl maxi 0 init s 0)) rest) as g'.
      symmetry in Heqg'. subst g. cbn [g_tie] in Htie.
      destruct (IH (idx + 1) _ g' Hdl Heqg' Htie) as [I1 [I2 I3]].
      cbn [g_requests g_elapsed g_winner length]. split; [rewrite I1; reflexivity|]. split; [nia|].
      destruct (g_winner g') as [w|].
      * cbn zeta in I3. destruct I3 as [J1 [[s' [J2 J2']] [J3 J4]]].
        replace (Z.to_nat (w - idx)) with (S (Z.to_nat (w - (idx + 1)))) by lia.
        split; [lia|]. split; [exists s'; cbn [nth_error]; auto|]. split.
        -- intros j s0 Hj Hn. destruct j as [|j]; cbn [nth_error] in Hn.
           ++ injection Hn as <-. rewrite O. reflexivity.
           ++ eapply J3; [|exact Hn]. lia.
        -- intros j Hj. destruct j as [|j]; [lia|]. cbn [nth]. apply J4. lia.
      * intros s0 [<-|Hin]; [rewrite O; reflexivity|apply I3; exact Hin].
    + subst g. cbn [g_tie] in Htie. discriminate.
    + subst g. cbn [g_tie] in Htie. discriminate.
Qed.
