From Coq Require Import List ZArith Bool Lia Arith.
From TR Require Import Eng.Engine Eng.Parallel Proofs.EngMerge.
Import ListNotations.
Open Scope Z_scope.

Fixpoint zseq (a : Z) (n : nat) : list Z := match n with O => [] | S n' => a :: zseq (a + 1) n' end.

Lemma zseq_snoc n : forall a, zseq a n ++ [a + Z.of_nat n] = zseq a (S n).
Proof.
  induction n as [|n IH]; intros a.
  - cbn. f_equal. lia.
  - cbn [zseq app]. f_equal. replace (a + Z.of_nat (S n)) with ((a + 1) + Z.of_nat n) by lia. rewrite IH. reflexivity.
Qed.

Definition pinv (first last : Z) (s : pstate) : Prop :=
  ps_results s = merge_all last (ps_accepted s)
  /\ Forall (fun p => valid_probe first last p = true) (ps_accepted s)
  /\ first <= ps_next s
  /\ ps_sent s = zseq first (Z.to_nat (ps_next s - first))
  /\ (ps_spc s = SChecked -> ps_next s <= last)
  /\ (ps_failed s = false \/ ps_rdone s = true).

Lemma merge_all_snoc last acc p : merge_all last (acc ++ [p]) = write (merge_all last acc) p.
Proof. unfold merge_all. rewrite fold_left_app. reflexivity. Qed.

Lemma pinv_init first last : pinv first last (pinit first last).
Proof.
  unfold pinv, pinit; cbn. repeat split; auto; try lia.
  - replace (first - first) with 0 by lia. reflexivity.
  - intros; discriminate.
Qed.

Lemma pinv_step first last s s' : pinv first last s -> pstep first last s s' -> pinv first last s'.
Proof.
  intros [H1 [H2 [H3 [H4 [H5 H6]]]]] St. unfold pinv.
  inversion St; subst; cbn [ps_results ps_accepted ps_next ps_sent ps_spc ps_failed ps_rdone]; repeat split; auto; try lia; try (intros; discriminate).
  - rewrite H4. replace (Z.to_nat (ps_next s + 1 - first)) with (S (Z.to_nat (ps_next s - first))) by lia.
    rewrite <- zseq_snoc. f_equal. f_equal. lia.
  - rewrite merge_all_snoc, H1. reflexivity.
  - apply Forall_app. split; [exact H2|]. constructor; [assumption|constructor].
  - destruct H6 as [H6|H6]; [left; exact H6|congruence].
Qed.

Lemma pinv_reachable first last s : reachable first last s -> pinv first last s.
Proof. induction 1; [apply pinv_init|eapply pinv_step; eauto]. Qed.
