(** Driver models: what each protocol driver keeps about the probes it sent, the bytes it
    emits (SendProbe) and how it turns a parsed inbound packet into an outcome
    (handleProbeLayers).  Time is ns on a virtual clock.  No proofs here. *)
From Coq Require Import List ZArith Bool.
From TR Require Import Lib.Bytes Wire.Decode Wire.Build.
Import ListNotations.
Open Scope Z_scope.

Inductive variant := VIcmp | VUdp | VTcp | VSack.

Record cfg := mkCfg {
  c_variant : variant;
  c_first : Z; c_last : Z;
  c_local : bytes; c_target : bytes;        (* 4 or 16 bytes *)
  c_sport : Z; c_dport : Z;                 (* UDP/TCP/SACK local and target ports *)
  c_loosen : bool;                          (* relaxed quoted-source checking *)
  c_echo_id : Z;                            (* ICMP *)
  c_paris : bool; c_base_id : Z; c_seq : Z; (* TCP SYN: default mode IP-ID base and fixed sequence number *)
  c_init_seq : Z; c_init_ack : Z; c_has_ts : bool; c_tsval : Z; c_tsecr : Z    (* SACK handshake state *)
}.

(** a sent probe as the driver remembers it *)
Record sent := mkSent { s_ttl : Z; s_time : Z; s_id : Z; s_seq : Z }.
Definition dstate := list sent.           (* in send order, oldest first *)

Inductive outcome :=
| Hop (ttl : Z) (ip : bytes) (rtt : Z) (dest : bool)
| Skip                                     (* any retryable outcome: ignored / did not match / bad packet *)
| NotSupported                             (* SACK: target stopped sending SACK blocks *)
| Fatal.                                   (* a plain error: aborts the run *)

Inductive sendres := SendOk (st : dstate) (pkt : bytes) | SendErr.

Definition is_v6 (c : cfg) : bool := len (c_local c) =? 16.
Definition in_ttl_range (c : cfg) (t : Z) : bool := (c_first c <=? t) && (t <=? c_last c).
Definition find_ttl (st : dstate) (t : Z) : option sent := find (fun s => s_ttl s =? t) st.

(** ---- SendProbe.  [rnd] is the per-probe random sequence number of Paris mode (an oracle input) *)
Definition send (c : cfg) (st : dstate) (ttl now rnd : Z) : sendres :=
  match c_variant c with
  | VIcmp =>
      if negb (in_ttl_range c ttl) then SendErr
      else match find_ttl st ttl with
           | Some _ => SendErr                                  (* already sent *)
           | None =>
               SendOk (st ++ [mkSent ttl now (c_echo_id c) ttl])
                      (if is_v6 c then icmp6_probe (c_local c) (c_target c) (c_echo_id c) ttl
                       else icmp4_probe (c_local c) (c_target c) (c_echo_id c) ttl)
           end
  | VUdp =>
      let id := if is_v6 c then udp6_id ttl else udp4_id ttl in
      if existsb (fun s => s_id s =? id) st then SendErr         (* same probe ID twice *)
      else SendOk (st ++ [mkSent ttl now id 0])
                  (if is_v6 c then udp6_probe (c_local c) (c_target c) (c_sport c) (c_dport c) ttl
                   else udp4_probe (c_local c) (c_target c) (c_sport c) (c_dport c) ttl)
  | VTcp =>
      let id := if c_paris c then 41821 else (c_base_id c + ttl) mod 65536 in
      let seq := if c_paris c then rnd else c_seq c in
      SendOk (st ++ [mkSent ttl now id seq]) (syn_probe (c_local c) (c_target c) (c_sport c) (c_dport c) id seq ttl)
  | VSack =>
      if negb (in_ttl_range c ttl) then SendErr
      else match find_ttl st ttl with
           | Some _ => SendErr
           | None =>
               SendOk (st ++ [mkSent ttl now 41821 ((c_init_seq c + ttl) mod 4294967296)])
                      (sack_probe (c_local c) (c_target c) (c_sport c) (c_dport c) (c_init_seq c) (c_init_ack c)
                                  (c_has_ts c) (c_tsval c) (c_tsecr c) ttl)
           end
  end.

(** ---- helpers shared by the matchers *)
Definition addr_eqb := bytes_eqb.

(** getRTTFromRelSeq: in range, sent *)
Definition rtt_of (c : cfg) (st : dstate) (now rel : Z) : option Z :=
  if in_ttl_range c rel then
    match find_ttl st rel with Some s => Some (now - s_time s) | None => None end
  else None.

Definition first8 (p : bytes) : option (Z * Z * Z) :=    (* (src port, dst port, next 32 bits) *)
  match p with
  | s1 :: s2 :: d1 :: d2 :: a :: b :: c :: d :: _ => Some (be16 s1 s2, be16 d1 d2, be32 a b c d)
  | _ => None
  end.

Definition is_ttl_exceeded (l : l4) : bool :=
  match l with
  | L4Icmp4 ty co _ _ _ => (ty =? 11) && (co =? 0)
  | L4Icmp6 ty co _ => (ty =? 3) && (co =? 0)
  | L4Tcp _ => false
  end.
Definition is_dest_unreachable (l : l4) : bool :=
  match l with
  | L4Icmp4 ty _ _ _ _ => ty =? 3
  | L4Icmp6 ty _ _ => ty =? 1
  | L4Tcp _ => false
  end.

(** x/net/icmp.ParseMessage on the quoted ICMPv4 message, as far as the driver uses it:
    only an Echo / Echo Reply body yields (id, seq) *)
Definition quoted_echo4 (p : bytes) : option (Z * Z) :=
  match p with
  | ty :: _ :: _ :: _ :: i1 :: i2 :: q1 :: q2 :: _ =>
      if (ty =? 8) || (ty =? 0) then Some (be16 i1 i2, be16 q1 q2) else None
  | _ => None
  end.

(** extractEchoRequest on the quoted ICMPv6 message (gopacket DecodingLayerParser over ICMPv6, ICMPv6Echo) *)
Definition quoted_echo6 (p : bytes) : option (Z * Z) :=
  match p with
  | ty :: _ :: _ :: _ :: rest =>
      match rest with
      | [] => Some (0, 0)                                         (* nothing after the header: the echo layer stays zero *)
      | _ =>
          if (ty =? 128) || (ty =? 129) then
            match rest with
            | i1 :: i2 :: q1 :: q2 :: _ => Some (be16 i1 i2, be16 q1 q2)
            | _ => None
            end
          else None                                               (* no decoder for the next layer *)
      end
  | _ => None
  end.

Definition hop_for (c : cfg) (st : dstate) (now rel : Z) (ip : bytes) (dest : bool) : outcome :=
  match rtt_of c st now rel with
  | Some r => Hop (rel mod 256) ip r dest
  | None => Skip
  end.

(** ---- ICMP driver *)
Definition recv_icmp (c : cfg) (st : dstate) (v : view) (now : Z) : outcome :=
  match v_l4 v with
  | L4Icmp4 ty _ id seq _ =>
      if ty =? 11 then
        match icmp_info v with
        | None => Skip
        | Some ii =>
            if negb (addr_eqb (ii_dst ii) (c_target c)) then Skip
            else if negb (addr_eqb (ii_src ii) (c_local c)) then Skip
            else match quoted_echo4 (ii_payload ii) with
                 | None => Skip
                 | Some (qid, qseq) => if negb (qid =? c_echo_id c) then Skip else hop_for c st now qseq (v_src v) false
                 end
        end
      else if ty =? 0 then
        if negb (addr_eqb (v_src v) (c_target c)) || negb (addr_eqb (v_dst v) (c_local c)) then Skip
        else if negb (id =? c_echo_id c) then Skip
        else hop_for c st now seq (v_src v) true
      else Skip
  | L4Icmp6 ty _ pay =>
      if ty =? 3 then
        match icmp_info v with
        | None => Skip
        | Some ii =>
            if negb (addr_eqb (ii_dst ii) (c_target c)) then Skip
            else if negb (addr_eqb (ii_src ii) (c_local c)) then Skip
            else match quoted_echo6 (ii_payload ii) with
                 | None => Skip
                 | Some (qid, qseq) => if negb (qid =? c_echo_id c) then Skip else hop_for c st now qseq (v_src v) false
                 end
        end
      else if ty =? 129 then
        if negb (addr_eqb (v_src v) (c_target c)) || negb (addr_eqb (v_dst v) (c_local c)) then Skip
        else match pay with
             | i1 :: i2 :: q1 :: q2 :: _ =>
                 if negb (be16 i1 i2 =? c_echo_id c) then Skip else hop_for c st now (be16 q1 q2) (v_src v) true
             | _ => Skip
             end
      else Skip
  | L4Tcp _ => Skip
  end.

(** ---- UDP driver *)
Definition recv_udp (c : cfg) (st : dstate) (v : view) (now : Z) : outcome :=
  match v_l4 v with
  | L4Tcp _ => Skip
  | l =>
      if negb (is_ttl_exceeded l) && negb (is_dest_unreachable l) then Skip
      else match icmp_info v with
           | None => Skip
           | Some ii =>
               match first8 (ii_payload ii) with
               | None => Skip
               | Some (sp, dp, _) =>
                   if negb (addr_eqb (ii_dst ii) (c_target c) && (dp =? c_dport c)) then Skip
                   else if negb (c_loosen c) && negb (addr_eqb (ii_src ii) (c_local c) && (sp =? c_sport c)) then Skip
                   else match find (fun s => s_id s =? ii_id ii) st with
                        | Some s => Hop (s_ttl s) (v_src v) (now - s_time s) (addr_eqb (v_src v) (c_target c))
                        | None => Skip
                        end
               end
           end
  end.

(** ---- TCP SYN driver *)
Definition recv_tcp (c : cfg) (st : dstate) (v : view) (now : Z) : outcome :=
  match v_l4 v with
  | L4Tcp t =>
      let synack := t_syn t && t_ackf t in
      let rstack := t_rst t && t_ackf t in
      if negb synack && negb (t_rst t) then Skip
      else if negb (addr_eqb (v_src v) (c_target c) && addr_eqb (v_dst v) (c_local c)) then Skip
      else if negb (t_sport t =? c_dport c) then Skip
      else if negb (t_dport t =? c_sport c) then Skip
      else match rev st with
           | [] => Fatal                                      (* getLastSentProbe before anything was sent *)
           | lastp :: _ =>
               if (synack || rstack) && negb (s_seq lastp =? (t_ack t - 1) mod 4294967296) then Skip
               else Hop (s_ttl lastp) (v_src v) (now - s_time lastp) true
           end
  | L4Icmp4 _ _ _ _ _ =>
      if negb (is_ttl_exceeded (v_l4 v)) then Skip
      else match icmp_info v with
           | None => Skip
           | Some ii =>
               match first8 (ii_payload ii) with
               | None => Skip
               | Some (sp, dp, sq) =>
                   if negb (addr_eqb (ii_dst ii) (c_target c) && (dp =? c_dport c)) then Skip
                   else if negb (c_loosen c) && negb (addr_eqb (ii_src ii) (c_local c) && (sp =? c_sport c)) then Skip
                   else match find (fun s => (s_id s =? ii_id ii) && (s_seq s =? sq)) st with
                        | Some s => Hop (s_ttl s) (v_src v) (now - s_time s) false
                        | None => Skip
                        end
               end
           end
  | L4Icmp6 _ _ _ => Skip
  end.

(** ---- SACK driver *)
Fixpoint sack_edges (init : Z) (data : bytes) (fuel : nat) (cur : option Z) : option Z :=
  match fuel with
  | O => cur
  | S f =>
      match data with
      | a :: b :: c0 :: d :: _ :: _ :: _ :: _ :: rest =>
          let rel := (be32 a b c0 d - init) mod 4294967296 in
          sack_edges init rest f (Some (match cur with Some m => Z.min m rel | None => rel end))
      | _ => cur
      end
  end.

(** getMinSack: the smallest relative left edge over all SACK options (kind 5), None if there is no block *)
Definition min_sack (init : Z) (opts : list (Z * bytes)) : option Z :=
  fold_left (fun cur o => if fst o =? 5 then sack_edges init (snd o) (length (snd o)) cur else cur) opts None.

Definition recv_sack (c : cfg) (st : dstate) (v : view) (now : Z) : outcome :=
  match v_l4 v with
  | L4Tcp t =>
      if negb (addr_eqb (v_src v) (c_target c) && addr_eqb (v_dst v) (c_local c)) then Skip
      else if negb (t_sport t =? c_dport c) || negb (t_dport t =? c_sport c) then Skip
      else if t_syn t || t_fin t || t_rst t then Skip
      else match min_sack (c_init_seq c) (t_opts t) with
           | None => NotSupported
           | Some rel => hop_for c st now rel (v_src v) true
           end
  | L4Icmp4 _ _ _ _ _ =>
      if negb (is_ttl_exceeded (v_l4 v)) then Skip
      else match icmp_info v with
           | None => Skip
           | Some ii =>
               match first8 (ii_payload ii) with
               | None => Skip
               | Some (sp, dp, sq) =>
                   if negb (addr_eqb (ii_dst ii) (c_target c) && (dp =? c_dport c)) then Skip
                   else if negb (c_loosen c) && negb (addr_eqb (ii_src ii) (c_local c) && (sp =? c_sport c)) then Skip
                   else hop_for c st now ((sq - c_init_seq c) mod 4294967296) (v_src v) (addr_eqb (v_src v) (c_target c))
               end
           end
  | L4Icmp6 _ _ _ => Skip
  end.

Definition recv_view (c : cfg) (st : dstate) (v : view) (now : Z) : outcome :=
  match c_variant c with
  | VIcmp => recv_icmp c st v now
  | VUdp => recv_udp c st v now
  | VTcp => recv_tcp c st v now
  | VSack => recv_sack c st v now
  end.

(** ReadAndParse + handleProbeLayers on raw bytes.  An empty read is a plain error. *)
Definition recv (c : cfg) (st : dstate) (b : bytes) (now : Z) : outcome :=
  match frame_parse b with
  | PView v => recv_view c st v now
  | PSkip => Skip
  | PEmpty => Fatal
  end.
