(** sackDriver.ReadHandshake / handleHandshake.  No proofs here. *)
From Coq Require Import List ZArith Bool.
From TR Require Import Lib.Bytes Wire.Decode Drv.Drivers.
Import ListNotations.
Open Scope Z_scope.

Record hstate := mkHS { hs_init_seq : Z; hs_init_ack : Z; hs_has_ts : bool; hs_tsval : Z; hs_tsecr : Z }.
Inductive hres := HEstablished (s : hstate) | HNotSupported | HTimeout | HError.
Inductive hstep := HIgnore | HDone (s : hstate) | HNoSack | HBadTs.

(** walk the SYN-ACK's options: SACK-permitted (4) seen?, timestamps (8) *)
Fixpoint hs_opts (opts : list (Z * bytes)) (perm : bool) (ts : option (Z * Z)) : option (bool * option (Z * Z)) :=
  match opts with
  | [] => Some (perm, ts)
  | (k, d) :: r =>
      if k =? 4 then hs_opts r true ts
      else if k =? 8 then
        match d with
        | a :: b :: c :: e :: f :: g :: h :: i :: _ => hs_opts r perm (Some (be32 a b c e, be32 f g h i))
        | _ => None                                  (* truncated timestamps option: a plain error *)
        end
      else hs_opts r perm ts
  end.

Definition handle_handshake (c : cfg) (v : view) : hstep :=
  match v_l4 v with
  | L4Tcp t =>
      if negb (addr_eqb (v_src v) (c_target c) && addr_eqb (v_dst v) (c_local c)) then HIgnore
      else if negb (t_sport t =? c_dport c) || negb (t_dport t =? c_sport c) then HIgnore
      else if negb (t_syn t) || negb (t_ackf t) then HIgnore
      else match hs_opts (t_opts t) false None with
           | None => HBadTs
           | Some (perm, ts) =>
               if negb perm then HNoSack
               else HDone (mkHS (t_ack t) ((t_seq t + 1) mod 4294967296)
                                (match ts with Some _ => true | None => false end)
                                (match ts with Some (_, ecr) => (ecr + 50) mod 4294967296 | None => 0 end)
                                (match ts with Some (val, _) => val | None => 0 end))
           end
  | _ => HIgnore
  end.

(** the frames queued on the capture handle are read in order until the state is set, an error
    occurs, or the handle runs dry (read deadline) *)
Fixpoint read_handshake (c : cfg) (frames : list bytes) : hres :=
  match frames with
  | [] => HTimeout
  | f :: r =>
      match frame_parse f with
      | PEmpty => HError
      | PSkip => read_handshake c r
      | PView v =>
          match handle_handshake c v with
          | HIgnore => read_handshake c r
          | HDone s => HEstablished s
          | HNoSack => HNotSupported
          | HBadTs => HError
          end
      end
  end.

(** ---- the same reader with time: frames carry their arrival offset (ns after the call, non-decreasing); the
    reader sets ONE absolute deadline D before its loop (500 ms in sack_driver.go) and never re-arms it *)
Fixpoint read_handshake_timed (c : cfg) (D : Z) (frames : list (Z * bytes)) : hres * Z :=
  match frames with
  | [] => (HTimeout, D)
  | (a, f) :: r =>
      if D <=? a then (HTimeout, D)
      else match frame_parse f with
           | PEmpty => (HError, a)
           | PSkip => read_handshake_timed c D r
           | PView v =>
               match handle_handshake c v with
               | HIgnore => read_handshake_timed c D r
               | HDone s => (HEstablished s, a)
               | HNoSack => (HNotSupported, a)
               | HBadTs => (HError, a)
               end
           end
  end.

Definition handshake_read_timeout : Z := 500000000.
