(** Byte-level decoders mirroring gopacket v1.1.19's DecodeFromBytes for the layers the
    FrameParser uses (IPv4 incl. option walk, IPv6 incl. hop-by-hop, TCP incl. option walk,
    ICMPv4, ICMPv6), and packets.FrameParser.Parse / GetICMPInfo on top of them.
    A decoder returns [None] exactly where gopacket returns an error.  No proofs here. *)
From Coq Require Import List ZArith Bool.
From TR Require Import Lib.Bytes.
Import ListNotations.
Open Scope Z_scope.

(** ---------------- IPv4 ---------------- *)
Record ip4 := mkIp4 {
  i4_ihl : Z; i4_tos : Z; i4_len : Z; i4_id : Z; i4_flags : Z; i4_fragoff : Z; i4_ttl : Z; i4_proto : Z;
  i4_src : bytes; i4_dst : bytes; i4_payload : bytes }.

(** the IPv4 option walk: true iff gopacket accepts the option bytes *)
Fixpoint ip4_opts_ok (fuel : nat) (d : bytes) : bool :=
  match fuel with
  | O => true
  | S f =>
      match d with
      | [] => true
      | 0 :: _ => true                       (* end of options *)
      | 1 :: r => ip4_opts_ok f r            (* padding *)
      | _ :: [] => false                     (* "length less than 2" *)
      | _ :: l :: _ =>
          if len d <? l then false           (* exceeds remaining header *)
          else if l <=? 2 then false         (* must be greater than 2 *)
          else ip4_opts_ok f (dropz l d)
      end
  end.

Definition decode_ip4 (d : bytes) : option ip4 :=
  match d with
  | vi :: tos :: l1 :: l2 :: i1 :: i2 :: f1 :: f2 :: ttl :: pr :: _ :: _ ::
    s1 :: s2 :: s3 :: s4 :: d1 :: d2 :: d3 :: d4 :: _ =>
      let ihl := vi mod 16 in
      let l0 := 256 * l1 + l2 in
      let l := if l0 =? 0 then (len d) mod 65536 else l0 in      (* TSO: zero length means "whole buffer" *)
      let ff := 256 * f1 + f2 in
      if l <? 20 then None
      else if ihl <? 5 then None
      else if l <? ihl * 4 then None
      else
        let d' := if l <? len d then takez l d else d in
        if (len d <? l) && (len d <? ihl * 4) then None         (* not all header bytes available *)
        else
          let opts := dropz 20 (takez (ihl * 4) d') in
          if negb (ip4_opts_ok (length opts) opts) then None
          else Some (mkIp4 ihl tos l (256 * i1 + i2) (ff / 8192) (ff mod 8192) ttl pr
                           [s1; s2; s3; s4] [d1; d2; d3; d4] (dropz (ihl * 4) d'))
  | _ => None
  end.

(** ---------------- IPv6 (with the hop-by-hop header folded in) ---------------- *)
Record ip6 := mkIp6 {
  i6_len : Z; i6_nh_raw : Z; i6_nh : Z; i6_hlim : Z; i6_src : bytes; i6_dst : bytes; i6_payload : bytes }.

(** hop-by-hop TLV walk over [data] from [off] while off < alen; collects (type, data) and fails as gopacket does.
    Note that options are read from the whole remaining buffer, not only from the extension header. *)
Fixpoint hbh_opts (fuel : nat) (data : bytes) (off alen : Z) : option (list (Z * bytes)) :=
  match fuel with
  | O => Some []
  | S f =>
      if alen <=? off then Some []
      else
        match dropz off data with
        | [] => None
        | _ :: [] => None                                  (* option too small *)
        | 0 :: _ :: _ => match hbh_opts f data (off + 1) alen with Some r => Some ((0, []) :: r) | None => None end
        | t :: l :: rest =>
            if len (t :: l :: rest) <? l + 2 then None
            else match hbh_opts f data (off + l + 2) alen with
                 | Some r => Some ((t, takez l rest) :: r)
                 | None => None
                 end
        end
  end.

Definition be32l (l : bytes) : Z := match l with [a; b; c; d] => be32 a b c d | _ => 0 end.

(** jumbo payload option (type 0xC2): Some (Some len) found, Some None absent, None error *)
Definition jumbo_len (opts : list (Z * bytes)) : option (option Z) :=
  match find (fun o => fst o =? 194) opts with
  | None => Some None
  | Some (_, dat) =>
      if negb (len dat =? 4) then None
      else if be32l dat <=? 65535 then None
      else Some (Some (be32l dat))
  end.

Definition decode_ip6 (d : bytes) : option ip6 :=
  if len d <? 40 then None else
  match d with
  | _ :: _ :: _ :: _ :: l1 :: l2 :: nh :: hl :: r =>
      let src := takez 16 r in
      let dst := takez 16 (dropz 16 r) in
      let pay := dropz 32 r in
      let length_ := 256 * l1 + l2 in
      if nh =? 0 then
        (* hop-by-hop extension header *)
        match pay with
        | nh2 :: hlen :: _ =>
            let alen := hlen * 8 + 8 in
            if len pay <? alen then None
            else match hbh_opts (length pay) pay 2 alen with
                 | None => None
                 | Some opts =>
                     match jumbo_len opts with
                     | None => None
                     | Some (Some j) =>
                         if length_ =? 0 then Some (mkIp6 length_ nh nh2 hl src dst (takez j pay))   (* sic: the extension header is not skipped *)
                         else None
                     | Some None =>
                         if length_ =? 0 then None
                         else Some (mkIp6 length_ nh nh2 hl src dst (takez length_ (dropz alen pay)))
                     end
                 end
        | _ => None
        end
      else if length_ =? 0 then None
      else Some (mkIp6 length_ nh nh hl src dst (takez length_ pay))
  | _ => None
  end.

(** ---------------- TCP ---------------- *)
Record tcp := mkTcp {
  t_sport : Z; t_dport : Z; t_seq : Z; t_ack : Z;
  t_fin : bool; t_syn : bool; t_rst : bool; t_ackf : bool;
  t_opts : list (Z * bytes) }.

(** option walk: None where gopacket errors *)
Fixpoint tcp_opts (fuel : nat) (d : bytes) : option (list (Z * bytes)) :=
  match fuel with
  | O => Some []
  | S f =>
      match d with
      | [] => Some []
      | 0 :: _ => Some [(0, [])]
      | 1 :: r => match tcp_opts f r with Some o => Some ((1, []) :: o) | None => None end
      | _ :: [] => None
      | k :: l :: rest =>
          if l <? 2 then None
          else if len d <? l then None
          else match tcp_opts f (dropz l d) with
               | Some o => Some ((k, takez (l - 2) rest) :: o)
               | None => None
               end
      end
  end.

Definition bit (x n : Z) : bool := negb (Z.land x n =? 0).

Definition decode_tcp (d : bytes) : option tcp :=
  match d with
  | s1 :: s2 :: d1 :: d2 :: q1 :: q2 :: q3 :: q4 :: a1 :: a2 :: a3 :: a4 :: off :: fl :: _ :: _ :: _ :: _ :: _ :: _ :: _ =>
      let doff := off / 16 in
      if doff <? 5 then None
      else if len d <? doff * 4 then None
      else
        let ob := dropz 20 (takez (doff * 4) d) in
        match tcp_opts (length ob) ob with
        | None => None
        | Some opts =>
            Some (mkTcp (be16 s1 s2) (be16 d1 d2) (be32 q1 q2 q3 q4) (be32 a1 a2 a3 a4)
                        (bit fl 1) (bit fl 2) (bit fl 4) (bit fl 16) opts)
        end
  | _ => None
  end.

(** ---------------- the parsed view the drivers see ---------------- *)
Inductive l4 :=
| L4Tcp (t : tcp)
| L4Icmp4 (typ code id seq : Z) (payload : bytes)
| L4Icmp6 (typ code : Z) (payload : bytes).

Record view := mkView { v_v6 : bool; v_src : bytes; v_dst : bytes; v_l4 : l4 }.

Definition more_frags (flags : Z) : bool := bit flags 1.

(** FrameParser.Parse: [None] = any retryable outcome (ignored layer, bad packet); the only
    non-retryable outcome is the empty buffer *)
Inductive presult := PView (v : view) | PSkip | PEmpty.

Definition parse_l4_v4 (h : ip4) : option l4 :=
  if more_frags (i4_flags h) || negb (i4_fragoff h =? 0) then None        (* fragment: no decoder *)
  else match i4_payload h with
       | [] => None                                                     (* nothing after the IP layer *)
       | p =>
           if i4_proto h =? 6 then match decode_tcp p with Some t => Some (L4Tcp t) | None => None end
           else if i4_proto h =? 1 then
             match p with
             | ty :: co :: _ :: _ :: i1 :: i2 :: q1 :: q2 :: rest => Some (L4Icmp4 ty co (be16 i1 i2) (be16 q1 q2) rest)
             | _ => None
             end
           else None
       end.

Definition parse_l4_v6 (h : ip6) : option l4 :=
  match i6_payload h with
  | [] => None
  | p =>
      if i6_nh h =? 6 then match decode_tcp p with Some t => Some (L4Tcp t) | None => None end
      else if i6_nh h =? 58 then
        match p with
        | ty :: co :: _ :: _ :: rest => Some (L4Icmp6 ty co rest)
        | _ => None
        end
      else None
  end.

Definition frame_parse (b : bytes) : presult :=
  match b with
  | [] => PEmpty
  | v :: _ =>
      if v / 16 =? 4 then
        match decode_ip4 b with
        | Some h => match parse_l4_v4 h with Some l => PView (mkView false (i4_src h) (i4_dst h) l) | None => PSkip end
        | None => PSkip
        end
      else if v / 16 =? 6 then
        match decode_ip6 b with
        | Some h => match parse_l4_v6 h with Some l => PView (mkView true (i6_src h) (i6_dst h) l) | None => PSkip end
        | None => PSkip
        end
      else PSkip
  end.

(** ---------------- GetICMPInfo ---------------- *)
Record icmpinfo := mkInfo { ii_id : Z; ii_src : bytes; ii_dst : bytes; ii_payload : bytes }.

Definition icmp_info (v : view) : option icmpinfo :=
  match v_l4 v with
  | L4Icmp4 _ _ _ _ pay =>
      match decode_ip4 pay with
      | Some h => Some (mkInfo (i4_id h) (i4_src h) (i4_dst h) (i4_payload h))
      | None => None
      end
  | L4Icmp6 _ _ pay =>
      match pay with
      | _ :: _ :: _ :: _ :: v0 :: _ =>
          if v0 / 16 =? 6 then
            match decode_ip6 (dropz 4 pay) with
            | Some h => Some (mkInfo (if i6_nh_raw h =? 17 then i6_len h else 0) (i6_src h) (i6_dst h) (i6_payload h))
            | None => None
            end
          else None
      | _ => None
      end
  | L4Tcp _ => None
  end.
