(** Probe builders: the bytes each driver hands to the sink, mirroring the gopacket
    serialisers with FixLengths + ComputeChecksums.  No proofs here. *)
From Coq Require Import List ZArith Bool.
From TR Require Import Lib.Bytes.
Import ListNotations.
Open Scope Z_scope.

(** one's-complement sum of big-endian 16-bit words; an odd trailing byte is the high byte *)
Fixpoint sum16 (b : bytes) (acc : Z) : Z :=
  match b with
  | x :: y :: r => sum16 r (acc + 256 * x + y)
  | [x] => acc + 256 * x
  | [] => acc
  end.

Definition fold1 (x : Z) : Z := x / 65536 + x mod 65536.
(** "for csum > 0xffff { fold }": three folds reach the fixed point for any sum below 2^48 *)
Definition fold16 (x : Z) : Z := fold1 (fold1 (fold1 x)).
Definition cksum (b : bytes) (init : Z) : Z := 65535 - fold16 (sum16 b init).

Definition u16b (x : Z) : bytes := [(x / 256) mod 256; x mod 256].
Definition u32b (x : Z) : bytes := [(x / 16777216) mod 256; (x / 65536) mod 256; (x / 256) mod 256; x mod 256].

(** IPv4 header, IHL 5, TOS 0 *)
Definition ip4_header (total id flagsfrags ttl proto : Z) (src dst : bytes) : bytes :=
  let h0 := [69; 0] ++ u16b total ++ u16b id ++ u16b flagsfrags ++ [ttl; proto; 0; 0] ++ src ++ dst in
  let ck := cksum h0 0 in
  [69; 0] ++ u16b total ++ u16b id ++ u16b flagsfrags ++ [ttl; proto] ++ u16b ck ++ src ++ dst.

Definition ip6_header (plen nh hlim : Z) (src dst : bytes) : bytes :=
  [96; 0; 0; 0] ++ u16b plen ++ [nh; hlim] ++ src ++ dst.

Definition pseudo (src dst : bytes) (proto l : Z) : Z := sum16 src 0 + sum16 dst 0 + proto + l mod 65536 + l / 65536.

(** put a 16-bit checksum at byte offset [off] of [b] *)
Definition put16 (off : Z) (v : Z) (b : bytes) : bytes := takez off b ++ u16b v ++ dropz (off + 2) b.

(** ---- ICMP echo probes *)
Definition icmp4_probe (src dst : bytes) (echo_id ttl : Z) : bytes :=
  let body0 := [8; 0; 0; 0] ++ u16b echo_id ++ u16b ttl ++ [ttl] in
  let body := put16 2 (cksum body0 0) body0 in
  ip4_header (20 + len body) echo_id 0 ttl 1 src dst ++ body.

Definition icmp6_probe (src dst : bytes) (echo_id ttl : Z) : bytes :=
  let body0 := [128; 0; 0; 0] ++ u16b echo_id ++ u16b ttl ++ [ttl] in
  let body := put16 2 (cksum body0 (pseudo src dst 58 (len body0))) body0 in
  ip6_header (len body) 58 ttl src dst ++ body.

(** ---- UDP probes *)
Definition magic : bytes := [78; 83; 77; 78; 67].   (* "NSMNC" *)
Fixpoint repeat_magic (n : nat) (cur : bytes) : bytes :=
  match n with
  | O => []
  | S n' => match cur with
            | [] => match magic with c :: r => c :: repeat_magic n' r | [] => [] end
            | c :: r => c :: repeat_magic n' r
            end
  end.

(** RFC 768 / RFC 8200 section 8.1: a UDP checksum that computes to zero is transmitted as all ones (a zero
    field means "no checksum", which IPv6 receivers must discard) *)
Definition udp_ck (c : Z) : Z := if c =? 0 then 65535 else c.
Definition udp_segment (src dst : bytes) (sport dport : Z) (payload : bytes) : bytes :=
  let l := 8 + len payload in
  let s0 := u16b sport ++ u16b dport ++ u16b l ++ [0; 0] ++ payload in
  put16 6 (udp_ck (cksum s0 (pseudo src dst 17 l))) s0.

Definition udp4_id (ttl : Z) : Z := (41821 + ttl) mod 65536.
Definition udp4_probe (src dst : bytes) (sport dport ttl : Z) : bytes :=
  let id := udp4_id ttl in
  let seg := udp_segment src dst sport dport (magic ++ [0] ++ u16b id) in
  ip4_header (20 + len seg) id 16384 ttl 17 src dst ++ seg.      (* 16384 = don't-fragment *)

Definition udp6_id (ttl : Z) : Z := (5 + ttl + 8) mod 65536.
Definition udp6_probe (src dst : bytes) (sport dport ttl : Z) : bytes :=
  let seg := udp_segment src dst sport dport (repeat_magic (Z.to_nat (5 + ttl)) magic) in
  ip6_header (len seg) 17 ttl src dst ++ seg.

(** ---- TCP probes *)
Definition tcp_segment (src dst : bytes) (sport dport seq ack flags : Z) (opts payload : bytes) : bytes :=
  let doff := (20 + len opts) / 4 in
  let s0 := u16b sport ++ u16b dport ++ u32b seq ++ u32b ack ++ [doff * 16; flags] ++ u16b 1024 ++ [0; 0; 0; 0] ++ opts ++ payload in
  put16 16 (cksum s0 (pseudo src dst 6 (len s0))) s0.

Definition syn_probe (src dst : bytes) (sport dport id seq ttl : Z) : bytes :=
  let seg := tcp_segment src dst sport dport seq 0 2 [] [] in
  ip4_header (20 + len seg) id 0 ttl 6 src dst ++ seg.

Definition sack_ts_opts (has_ts : bool) (tsval tsecr ttl : Z) : bytes :=
  if has_ts then [8; 10] ++ u32b ((tsval + ttl) mod 4294967296) ++ u32b tsecr ++ [1; 1] else [].

Definition sack_probe (src dst : bytes) (sport dport init_seq init_ack : Z) (has_ts : bool) (tsval tsecr ttl : Z) : bytes :=
  let seg := tcp_segment src dst sport dport ((init_seq + ttl) mod 4294967296) init_ack 24
                         (sack_ts_opts has_ts tsval tsecr ttl) [ttl] in
  ip4_header (20 + len seg) 41821 0 ttl 6 src dst ++ seg.
