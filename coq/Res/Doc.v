(** Result document model: multi-query aggregation (traceroute/traceroute.go),
    reverse-DNS enrichment, Normalize, RemovePrivateHops (result/result.go).
    RTT values are integers in a fixed unit (1/unit ms); statistics are exact
    rationals.  No proofs in this file. *)
From Coq Require Import List ZArith Bool QArith.
Import ListNotations.
Open Scope Z_scope.

Definition ipaddr := list Z.      (* net.IP: 0, 4 or 16 bytes *)
Definition str := list Z.         (* a string as bytes *)

(** net.IP.To4 *)
Definition to4 (ip : ipaddr) : option ipaddr :=
  match ip with
  | [a; b; c; d] => Some [a; b; c; d]
  | [z0; z1; z2; z3; z4; z5; z6; z7; z8; z9; f0; f1; a; b; c; d] =>
      if forallb (Z.eqb 0) [z0; z1; z2; z3; z4; z5; z6; z7; z8; z9] && (f0 =? 255) && (f1 =? 255)
      then Some [a; b; c; d] else None
  | _ => None
  end.

(** what survives the text codec: a mapped address prints as dotted IPv4 *)
Definition canon (ip : ipaddr) : ipaddr := match to4 ip with Some v => v | None => ip end.

(** net.IP.IsPrivate *)
Definition is_private (ip : ipaddr) : bool :=
  match to4 ip with
  | Some [a; b; c; d] =>
      (a =? 10) || ((a =? 172) && (Z.land b 240 =? 16)) || ((a =? 192) && (b =? 168))
  | _ => (Z.of_nat (length ip) =? 16) && (Z.land (hd 0 ip) 254 =? 252)
  end.

Record hopd := mkHopd {
  hd_ttl : Z; hd_ip : ipaddr; hd_rtt : Z; hd_reach : bool; hd_rdns : list str; hd_dest : bool }.

Record rund := mkRund {
  rd_src_ip : ipaddr; rd_src_port : Z; rd_dst_ip : ipaddr; rd_dst_port : Z;
  rd_dst_rdns : list str; rd_hops : list hopd }.

(** ---------------- multi-query aggregation ---------------- *)
(** one query goroutine's scripted outcome: completion instant, and either a run or an error id *)
Record qout := mkQ { q_done : Z; q_res : option rund; q_err : Z }.

(** GetDestinationHop().RTT, 0 when there is none *)
Definition dest_rtt (r : rund) : Z :=
  match find hd_dest (rd_hops r) with Some h => hd_rtt h | None => 0 end.

Fixpoint insert_by (q : qout) (l : list qout) : list qout :=
  match l with
  | [] => [q]
  | x :: t => if q_done q <? q_done x then q :: l else x :: insert_by q t
  end.
Definition sort_done (l : list qout) : list qout := fold_right insert_by [] l.

Record multi := mkMulti { m_runs : list rund; m_rtts : list Z; m_errs : list Z }.

(** the accumulator under resultsAndErrorsMu, fed in completion order *)
Definition multi_acc (runs e2es : list qout) : multi :=
  let rs := sort_done runs in
  let es := sort_done e2es in
  mkMulti (flat_map (fun q => match q_res q with Some r => [r] | None => [] end) rs)
          (map (fun q => match q_res q with Some r => dest_rtt r | None => 0 end) es)
          (flat_map (fun q => match q_res q with Some _ => [] | None => [q_err q] end) (rs ++ es)).

(** ---------------- enrichment ---------------- *)
(** the resolver: canonical address -> names, or None for a failed lookup *)
Definition resolver := list (ipaddr * option (list str)).

Fixpoint ip_eqb (a b : ipaddr) : bool :=
  match a, b with
  | [], [] => true
  | x :: a', y :: b' => (x =? y) && ip_eqb a' b'
  | _, _ => false
  end.

Definition resolve (rv : resolver) (ip : ipaddr) : list str :=
  match ip with
  | [] => []                        (* GetReverseDnsForIP: "invalid nil IP address" *)
  | _ => match find (fun e => ip_eqb (fst e) (canon ip)) rv with
         | Some (_, Some names) => names
         | _ => []
         end
  end.

Definition enrich_hop (rv : resolver) (h : hopd) : hopd :=
  mkHopd (hd_ttl h) (hd_ip h) (hd_rtt h) (hd_reach h) (resolve rv (hd_ip h)) (hd_dest h).
Definition enrich_run (rv : resolver) (r : rund) : rund :=
  mkRund (rd_src_ip r) (rd_src_port r) (rd_dst_ip r) (rd_dst_port r) (resolve rv (rd_dst_ip r))
         (map (enrich_hop rv) (rd_hops r)).

(** ---------------- normalisation ---------------- *)
Definition has_addr (ip : ipaddr) : bool := match ip with [] => false | _ => true end.

(** normalizeTracerouteHops only ever sets Reachable *)
Definition norm_hop (h : hopd) : hopd :=
  mkHopd (hd_ttl h) (hd_ip h) (hd_rtt h) (hd_reach h || has_addr (hd_ip h)) (hd_rdns h) (hd_dest h).
Definition norm_run (r : rund) : rund :=
  mkRund (rd_src_ip r) (rd_src_port r) (rd_dst_ip r) (rd_dst_port r) (rd_dst_rdns r) (map norm_hop (rd_hops r)).

(** index+1 of the last hop with an address, else the number of hops *)
Fixpoint last_addr (hs : list hopd) (i : Z) (cur : option Z) : option Z :=
  match hs with
  | [] => cur
  | h :: t => last_addr t (i + 1) (if has_addr (hd_ip h) then Some (i + 1) else cur)
  end.
Definition hop_count (r : rund) : Z :=
  match last_addr (rd_hops r) 0 None with Some c => c | None => Z.of_nat (length (rd_hops r)) end.

(** the min loop with its "0 means unset" sentinel, as written *)
Definition min_step (m c : Z) : Z := if (c <? m) || (m =? 0) then c else m.
Definition max_step (m c : Z) : Z := if m <? c then c else m.

Record hopstats := mkHS { hs_total : Z; hs_n : Z; hs_min : Z; hs_max : Z }.
Definition hop_stats (runs : list rund) : hopstats :=
  let cs := map hop_count runs in
  mkHS (fold_left Z.add cs 0) (Z.of_nat (length cs)) (fold_left min_step cs 0) (fold_left max_step cs 0).

(** e2e statistics over integer samples *)
Definition positives (l : list Z) : list Z := filter (fun x => 0 <? x) l.

Fixpoint abs_diffs (prev : Z) (l : list Z) : Z :=
  match l with [] => 0 | x :: t => Z.abs (x - prev) + abs_diffs x t end.

Record e2estats := mkE2E {
  e_sent : Z; e_recv : Z;
  e_sum : Z; e_min : Z; e_max : Z;         (* over positive samples; avg = e_sum / e_recv *)
  e_jit_num : Z; e_jit_den : Z             (* jitter = e_jit_num / e_jit_den, 0 when fewer than 2 positives *)
}.

Definition e2e_stats (rtts : list Z) : e2estats :=
  let v := positives rtts in
  match v with
  | [] => mkE2E (Z.of_nat (length rtts)) 0 0 0 0 0 1
  | x :: t =>
      mkE2E (Z.of_nat (length rtts)) (Z.of_nat (length v))
            (fold_left Z.add v 0)
            (fold_left Z.min t x) (fold_left Z.max t x)
            (match t with [] => 0 | _ => abs_diffs x t end)
            (match t with [] => 1 | _ => Z.of_nat (length t) end)
  end.

(** ---------------- redaction ---------------- *)
Definition redact_hop (h : hopd) : hopd :=
  if is_private (hd_ip h) then mkHopd (hd_ttl h) [] 0 false [] false else h.
Definition redact_run (r : rund) : rund :=
  mkRund (rd_src_ip r) (rd_src_port r) (rd_dst_ip r) (rd_dst_port r) (rd_dst_rdns r) (map redact_hop (rd_hops r)).

(** ---------------- the pipeline of RunTraceroute ---------------- *)
Record flags := mkFlags { f_rdns : bool; f_skip_private : bool; f_pubip : bool }.

Record docd := mkDoc {
  d_runs : list rund; d_hopstats : hopstats; d_rtts : list Z; d_e2e : e2estats; d_pubip : str }.

Definition pipeline_runs (fl : flags) (rv : resolver) (runs : list rund) : list rund :=
  let r1 := if f_rdns fl then map (enrich_run rv) runs else runs in
  let r2 := map norm_run r1 in
  if f_skip_private fl then map redact_run r2 else r2.

Definition pipeline (fl : flags) (rv : resolver) (pub : option str) (m : multi) : option docd :=
  match m_errs m with
  | _ :: _ => None                                   (* all-or-error *)
  | [] =>
      let r1 := if f_rdns fl then map (enrich_run rv) (m_runs m) else m_runs m in
      let r2 := map norm_run r1 in
      Some (mkDoc (if f_skip_private fl then map redact_run r2 else r2)
                  (hop_stats r2)                      (* statistics are computed before redaction *)
                  (m_rtts m) (e2e_stats (m_rtts m))
                  (match pub with Some s => if f_pubip fl then s else [] | None => [] end))
  end.
