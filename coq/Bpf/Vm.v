(** Classic-BPF interpreter for the instruction subset the repository's
    capture filters use.  Programs are lists of raw instructions
    (op, jt, jf, k) exactly as [bpf.RawInstruction]; any opcode outside the
    subset makes [decode] fail, which the generated file excludes by a
    computed check.  An out-of-range load rejects the frame (kernel and
    x/net/bpf semantics: return 0). *)
From Coq Require Import List ZArith Bool Lia.
From TR Require Import Lib.Bytes.
Import ListNotations.
Open Scope Z_scope.

Definition raw : Type := (Z * Z * Z * Z)%type.   (* op, jt, jf, k *)

Inductive instr :=
| LdAbsB (k : Z) | LdAbsH (k : Z) | LdAbsW (k : Z)
| LdIndB (k : Z) | LdIndH (k : Z)
| LdxMsh (k : Z)
| Jeq (k : Z) (jt jf : nat)
| Jset (k : Z) (jt jf : nat)
| Ret (k : Z).

Definition decode (r : raw) : option instr :=
  let '(op, jt, jf, k) := r in
  let jt := Z.to_nat jt in let jf := Z.to_nat jf in
  if op =? 0x30 then Some (LdAbsB k)
  else if op =? 0x28 then Some (LdAbsH k)
  else if op =? 0x20 then Some (LdAbsW k)
  else if op =? 0x50 then Some (LdIndB k)
  else if op =? 0x48 then Some (LdIndH k)
  else if op =? 0xb1 then Some (LdxMsh k)
  else if op =? 0x15 then Some (Jeq k jt jf)
  else if op =? 0x45 then Some (Jset k jt jf)
  else if op =? 0x06 then Some (Ret k)
  else None.

Fixpoint decode_all (p : list raw) : option (list instr) :=
  match p with
  | [] => Some []
  | r :: p' => match decode r, decode_all p' with
               | Some i, Some is => Some (i :: is)
               | _, _ => None
               end
  end.

(** Frame loads.  Offsets are [Z]; a negative or out-of-range offset fails. *)
Definition ldb (f : bytes) (k : Z) : option Z :=
  if k <? 0 then None else nth_error f (Z.to_nat k).
Definition ldh (f : bytes) (k : Z) : option Z :=
  match ldb f k, ldb f (k + 1) with
  | Some a, Some b => Some (be16 a b)
  | _, _ => None
  end.
Definition ldw (f : bytes) (k : Z) : option Z :=
  match ldb f k, ldb f (k + 1), ldb f (k + 2), ldb f (k + 3) with
  | Some a, Some b, Some c, Some d => Some (be32 a b c d)
  | _, _, _, _ => None
  end.

(** [run fuel prog f pc a x]: the value returned by the program (0 = reject).
    Conditional jumps branch as [if c then run … else run …] so that the
    whole decision tree is obtained by computation. *)
Fixpoint run (fuel : nat) (prog : list instr) (f : bytes) (pc : nat) (a x : Z) : option Z :=
  match fuel with
  | O => None
  | S fuel' =>
    match nth_error prog pc with
    | None => None
    | Some i =>
      match i with
      | LdAbsB k => match ldb f k with Some v => run fuel' prog f (S pc) v x | None => Some 0 end
      | LdAbsH k => match ldh f k with Some v => run fuel' prog f (S pc) v x | None => Some 0 end
      | LdAbsW k => match ldw f k with Some v => run fuel' prog f (S pc) v x | None => Some 0 end
      | LdIndB k => match ldb f (x + k) with Some v => run fuel' prog f (S pc) v x | None => Some 0 end
      | LdIndH k => match ldh f (x + k) with Some v => run fuel' prog f (S pc) v x | None => Some 0 end
      | LdxMsh k => match ldb f k with Some v => run fuel' prog f (S pc) a (4 * (Z.land v 15)) | None => Some 0 end
      | Jeq k jt jf => if a =? k then run fuel' prog f (S pc + jt) a x else run fuel' prog f (S pc + jf) a x
      | Jset k jt jf => if negb (Z.land a k =? 0) then run fuel' prog f (S pc + jt) a x else run fuel' prog f (S pc + jf) a x
      | Ret k => Some k
      end
    end
  end.

(** Jumps only go forward, so [length prog] steps suffice. *)
Definition exec (prog : list instr) (f : bytes) : option Z :=
  run (S (length prog)) prog f 0%nat 0 0.

Definition accepts (prog : list instr) (f : bytes) : bool :=
  match exec prog f with
  | Some v => negb (v =? 0)
  | None => false
  end.

(** Well-formedness computed on a program: every instruction decodes and every
    path returns (checked by running out of fuel never). *)
Definition exec_raw (p : list raw) (f : bytes) : option Z :=
  match decode_all p with
  | Some prog => exec prog f
  | None => None
  end.
