(** Lock discipline ⇒ no data race.  An access table (regenerated from the Go source on every run) lists, for every
    shared location, which thread touches it, whether it writes, which locks it holds and in which phase of the
    run (before the goroutines are started, while they run, after they were joined).  No proofs in this file. *)
From Coq Require Import List ZArith Bool.
Import ListNotations.
Open Scope Z_scope.

Record acc := mkAcc {
  a_sys : Z;            (* which concurrent system (a driver type, the parallel engine, the multi-query aggregator, ...) *)
  a_thread : Z;         (* static thread of that system *)
  a_multi : bool;       (* the thread is started several times (a `go` statement in a loop): concurrent with itself *)
  a_loc : Z;            (* shared location *)
  a_write : bool;
  a_locks : list Z;     (* locks held at the access (static, syntactic lock regions) *)
  a_phase : Z           (* 0 before fork, 1 concurrent, 2 after join *)
}.

Definition zmem (x : Z) (l : list Z) : bool := existsb (Z.eqb x) l.

(** two accesses that could race: same system and location, at least one write, both in the concurrent phase,
    by different threads or by a thread that runs concurrently with itself *)
Definition conflict (a b : acc) : bool :=
  (a_sys a =? a_sys b) && (a_loc a =? a_loc b) && (a_write a || a_write b)
  && (a_phase a =? 1) && (a_phase b =? 1)
  && (negb (a_thread a =? a_thread b) || a_multi a).

Definition protected (a b : acc) : bool := existsb (fun l => zmem l (a_locks b)) (a_locks a).

(** the discipline, decidable on a finite table *)
Definition discipline_ok (t : list acc) : bool :=
  forallb (fun a => forallb (fun b => implb (conflict a b) (protected a b)) t) t.

(** ---- dynamic semantics: thread instances, a lock is held by at most one instance *)
Definition instance := (Z * Z)%type.     (* (static thread, instance number) *)
Definition inst_eqb (i j : instance) : bool := (fst i =? fst j) && (snd i =? snd j).
Definition holder := Z -> option instance.

(** instance [i] may perform access [a] in a state where the locks are held as [h] *)
Definition enabled (h : holder) (i : instance) (a : acc) : Prop :=
  fst i = a_thread a /\ (a_multi a = false -> snd i = 0)
  /\ forall l, In l (a_locks a) -> h l = Some i.

(** a data race: two conflicting accesses by different instances both enabled in one state *)
Definition race_state (h : holder) (i j : instance) (a b : acc) : Prop :=
  inst_eqb i j = false /\ conflict a b = true /\ enabled h i a /\ enabled h j b.
