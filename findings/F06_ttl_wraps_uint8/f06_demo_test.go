//go:build verif

package traceroute

// Demonstration for finding F06 (property C19): TTL bounds outside 1..255 must
// be rejected, not wrapped through uint8(int).  Run with -tags verif (uses the
// verification source/sink seam so that no packet reaches a real network).
// Before the fix MaxTTL=300 ran as 44, MinTTL=257 as 1, MaxTTL=-1 as 255.

import (
	"context"
	"fmt"
	"net/netip"
	"os"
	"sync"
	"testing"
	"time"

	"github.com/DataDog/datadog-traceroute/packets"
)

type f06Source struct{ dl time.Time }

func (s *f06Source) SetReadDeadline(t time.Time) error { s.dl = t; return nil }
func (s *f06Source) Read([]byte) (int, error) {
	time.Sleep(time.Until(s.dl))
	return 0, fmt.Errorf("read: %w", os.ErrDeadlineExceeded)
}
func (s *f06Source) Close() error                                  { return nil }
func (s *f06Source) SetPacketFilter(packets.PacketFilterSpec) error { return nil }

type f06Sink struct {
	mu   sync.Mutex
	ttls []int
}

func (s *f06Sink) WriteTo(b []byte, _ netip.AddrPort) error {
	s.mu.Lock()
	defer s.mu.Unlock()
	s.ttls = append(s.ttls, int(b[8])) // IPv4 TTL byte
	return nil
}
func (s *f06Sink) Close() error { return nil }

func TestVerifF06TTLBoundsNotWrapped(t *testing.T) {
	for _, c := range []struct{ min, max int }{{1, 300}, {257, 258}, {1, -1}, {0, 3}, {1, 256}} {
		sink := &f06Sink{}
		packets.VerifSetSourceSinkFactory(func(netip.Addr, bool) (packets.SourceSinkHandle, error) {
			return packets.SourceSinkHandle{Source: &f06Source{}, Sink: sink}, nil
		})
		_, err := runTracerouteOnce(context.Background(), TracerouteParams{
			Hostname: "127.0.0.1", Protocol: "icmp", MinTTL: c.min, MaxTTL: c.max, Delay: 0, Timeout: 20 * time.Millisecond,
		}, 33434)
		packets.VerifSetSourceSinkFactory(nil)
		if err == nil || len(sink.ttls) > 0 {
			t.Errorf("TTL range [%d,%d]: expected rejection, got err=%v and %d probes with TTLs %v...", c.min, c.max, err, len(sink.ttls), head(sink.ttls))
		}
	}
}

func head(a []int) []int {
	if len(a) > 5 {
		return a[:5]
	}
	return a
}
