package common

// Demonstration for finding F09 (property C05): in the serial engine a later
// duplicate of TTL 1's reply, arriving while TTL 2 is being probed, must not
// replace the first accepted reply (its RTT would be measured against the
// duplicate's arrival).  Before the fix the RTT of hop 1 changed 1ms -> 50ms.

import (
	"context"
	"errors"
	"net/netip"
	"testing"
	"time"
)

type f09Driver struct {
	script [][]*ProbeResponse // per TTL window: replies handed out in order, then silence
	cur    int
}

func (d *f09Driver) GetDriverInfo() TracerouteDriverInfo { return TracerouteDriverInfo{} }
func (d *f09Driver) SendProbe(ttl uint8) error          { d.cur = int(ttl); return nil }
func (d *f09Driver) ReceiveProbe(time.Duration) (*ProbeResponse, error) {
	q := d.script[d.cur]
	if len(q) == 0 {
		time.Sleep(time.Millisecond)
		return nil, &ReceiveProbeNoPktError{Err: errors.New("nothing")}
	}
	d.script[d.cur] = q[1:]
	return q[0], nil
}

func TestVerifF09SerialKeepsFirstReply(t *testing.T) {
	r1 := netip.MustParseAddr("10.0.0.1")
	dst := netip.MustParseAddr("10.0.0.9")
	d := &f09Driver{script: [][]*ProbeResponse{
		0: nil,
		1: {{TTL: 1, IP: r1, RTT: 1 * time.Millisecond}},
		2: {{TTL: 1, IP: r1, RTT: 50 * time.Millisecond}}, // duplicate of hop 1 arriving late
		3: {{TTL: 3, IP: dst, RTT: 3 * time.Millisecond, IsDest: true}},
	}}
	res, err := TracerouteSerial(context.Background(), d, TracerouteSerialParams{TracerouteParams{
		MinTTL: 1, MaxTTL: 3, TracerouteTimeout: 20 * time.Millisecond, PollFrequency: time.Millisecond}})
	if err != nil {
		t.Fatal(err)
	}
	if res[0] == nil || res[0].RTT != time.Millisecond {
		t.Fatalf("hop 1 RTT was replaced by the later duplicate: %+v", res[0])
	}
}
