package icmp

// Demonstration for finding F02 (properties C01, C04): an echo reply carrying
// the run's identifier and a sent sequence number, but sent by another host
// (or addressed to another host), must not become a destination hop.
// Needs f01_demo_test.go (helpers) in the same directory.
// Fails before the fix, passes after.

import (
	"net/netip"
	"testing"
	"time"

	"github.com/DataDog/datadog-traceroute/common"
)

func TestVerifF02EchoReplyFromOtherHost(t *testing.T) {
	target := netip.MustParseAddr("1.2.3.4")
	local := netip.MustParseAddr("5.6.7.8")
	other := netip.MustParseAddr("9.9.9.9")
	src := &f01Source{}
	params := Params{Target: target, ParallelParams: common.TracerouteParallelParams{TracerouteParams: common.TracerouteParams{
		MinTTL: 1, MaxTTL: 30, TracerouteTimeout: time.Second, PollFrequency: time.Millisecond}}}
	d := newICMPDriver(params, local, f01Sink{}, src)
	if err := d.SendProbe(3); err != nil {
		t.Fatal(err)
	}
	src.pkts = append(src.pkts, f01IP(other, local, 1, f01ICMP(0, d.echoID, 3, []byte{3})))  // wrong source
	src.pkts = append(src.pkts, f01IP(target, other, 1, f01ICMP(0, d.echoID, 3, []byte{3}))) // wrong destination
	for i := 0; i < 2; i++ {
		probe, err := d.ReceiveProbe(time.Millisecond)
		if probe != nil {
			t.Fatalf("packet %d: foreign echo reply became hop ttl=%d ip=%s dest=%v", i, probe.TTL, probe.IP, probe.IsDest)
		}
		if !common.CheckProbeRetryable("x", err) {
			t.Fatalf("packet %d: expected a retryable rejection, got %v", i, err)
		}
	}
	// the genuine reply is still accepted
	src.pkts = append(src.pkts, f01IP(target, local, 1, f01ICMP(0, d.echoID, 3, []byte{3})))
	probe, err := d.ReceiveProbe(time.Millisecond)
	if err != nil || probe == nil || !probe.IsDest || probe.TTL != 3 {
		t.Fatalf("genuine echo reply rejected: %v %v", probe, err)
	}
}
