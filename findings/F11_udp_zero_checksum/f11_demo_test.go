package udp

import (
	"net"
	"testing"
)

// F11: UDP checksum that computes to zero must go out as 0xffff (RFC 768, RFC 8200 section 8.1).
func onesFold(b []byte, s uint32) uint16 {
	for i := 0; i+1 < len(b); i += 2 {
		s += uint32(b[i])<<8 | uint32(b[i+1])
	}
	if len(b)%2 == 1 {
		s += uint32(b[len(b)-1]) << 8
	}
	for s > 0xffff {
		s = (s >> 16) + (s & 0xffff)
	}
	return uint16(s)
}

func TestDemoUDPZeroChecksum(t *testing.T) {
	// IPv6: target 2001:db8:1::7, local 2001:db8::2, dport 33434, sport 1121, ttl 29
	u := NewUDPv4(net.ParseIP("2001:db8:1::7"), 33434, 1, 30, 0, 0, false)
	_, pkt, ck, err := u.createRawUDPBuffer(net.ParseIP("2001:db8::2"), 1121, net.ParseIP("2001:db8:1::7"), 33434, 29)
	if err != nil {
		t.Fatal(err)
	}
	field := uint16(pkt[46])<<8 | uint16(pkt[47])
	t.Logf("v6 checksum field = %#04x returned %#04x", field, ck)
	if field == 0 {
		t.Errorf("UDP/IPv6 probe sent with checksum field 0x0000 (receivers must discard it)")
	}
	// receiver-side verification over pseudo-header + segment
	seg := pkt[40:]
	var ps uint32
	for i := 8; i < 40; i += 2 {
		ps += uint32(pkt[i])<<8 | uint32(pkt[i+1])
	}
	ps += uint32(len(seg)) + 17
	if got := onesFold(seg, ps); got != 0xffff {
		t.Errorf("v6 checksum does not verify: folded sum %#04x", got)
	}
	if ck != field {
		t.Errorf("returned checksum %#04x differs from the wire %#04x", ck, field)
	}
}
