package sack

// Demonstration for finding F03 (property C02, also C01): with strict quoted-
// source checking a genuine time-exceeded (quoted source = the probe's own
// source) must be recognised.  Before the fix the strict branch compared the
// OUTER source (the router) with the local address, so nothing ever matched.

import (
	"encoding/binary"
	"net/netip"
	"testing"
	"time"

	"github.com/DataDog/datadog-traceroute/common"
	"github.com/DataDog/datadog-traceroute/packets"
)

type f03Source struct{ pkts [][]byte }

func (s *f03Source) SetReadDeadline(time.Time) error { return nil }
func (s *f03Source) Read(buf []byte) (int, error) {
	p := s.pkts[0]
	s.pkts = s.pkts[1:]
	return copy(buf, p), nil
}
func (s *f03Source) Close() error                                  { return nil }
func (s *f03Source) SetPacketFilter(packets.PacketFilterSpec) error { return nil }

type f03Sink struct{}

func (f03Sink) WriteTo([]byte, netip.AddrPort) error { return nil }
func (f03Sink) Close() error                         { return nil }

func f03Cksum(b []byte) uint16 {
	var s uint32
	for i := 0; i+1 < len(b); i += 2 {
		s += uint32(b[i])<<8 | uint32(b[i+1])
	}
	for s > 0xffff {
		s = s>>16 + s&0xffff
	}
	return ^uint16(s)
}

func f03IP(src, dst netip.Addr, proto byte, payload []byte) []byte {
	h := make([]byte, 20)
	h[0] = 0x45
	binary.BigEndian.PutUint16(h[2:], uint16(20+len(payload)))
	h[8], h[9] = 64, proto
	copy(h[12:], src.AsSlice())
	copy(h[16:], dst.AsSlice())
	binary.BigEndian.PutUint16(h[10:], f03Cksum(h))
	return append(h, payload...)
}

func TestVerifF03StrictSourceGenuineTimeExceeded(t *testing.T) {
	target := netip.MustParseAddrPort("1.2.3.4:443")
	local := netip.MustParseAddr("5.6.7.8")
	router := netip.MustParseAddr("9.9.9.9")
	src := &f03Source{}
	params := Params{Target: target, LoosenICMPSrc: false, ParallelParams: common.TracerouteParallelParams{TracerouteParams: common.TracerouteParams{
		MinTTL: 1, MaxTTL: 30, TracerouteTimeout: time.Second, PollFrequency: time.Millisecond}}}
	d, err := newSackDriver(params, local, f03Sink{}, src)
	if err != nil {
		t.Fatal(err)
	}
	d.FakeHandshake() // local port 1234, initial sequence 5678
	if err := d.SendProbe(2); err != nil {
		t.Fatal(err)
	}
	tcp8 := make([]byte, 8)
	binary.BigEndian.PutUint16(tcp8[0:], 1234)
	binary.BigEndian.PutUint16(tcp8[2:], 443)
	binary.BigEndian.PutUint32(tcp8[4:], 5678+2)
	quoted := f03IP(local, target.Addr(), 6, tcp8)
	te := append([]byte{11, 0, 0, 0, 0, 0, 0, 0}, quoted...)
	binary.BigEndian.PutUint16(te[2:], f03Cksum(te))
	src.pkts = append(src.pkts, f03IP(router, local, 1, te))
	probe, err := d.ReceiveProbe(time.Millisecond)
	if err != nil || probe == nil {
		t.Fatalf("genuine time-exceeded not recognised in strict mode: %v", err)
	}
	if probe.TTL != 2 || probe.IP != router || probe.IsDest {
		t.Fatalf("wrong hop: %+v", probe)
	}
}
