package publicip

// F10 (C14): PublicIPFetcher.GetIP handed its single *backoff.ExponentialBackOff to backoff.Retry, which mutates it
// (Reset, NextBackOff).  Two requests running at once on one Traceroute object (the HTTP server's situation) whose
// public-IP lookups overlap therefore raced on the policy's current interval.
// Replay: copy into publicip/ of a worktree at the commit before the fix (83953ea) and run
//   go test -race -vet=off -count=1 -run TestVerifF10 ./publicip/
// Fails with "WARNING: DATA RACE" (backoff Reset vs incrementCurrentInterval) before the fix, passes after it (d182650).

import (
	"context"
	"errors"
	"net/http"
	"sync"
	"testing"

	"github.com/DataDog/datadog-traceroute/cache"
)

type f10RT struct{}

func (f10RT) RoundTrip(*http.Request) (*http.Response, error) { return nil, errors.New("connection reset") }

func TestVerifF10ConcurrentGetIP(t *testing.T) {
	f := NewPublicIPFetcher()
	f.client = &http.Client{Transport: f10RT{}}
	cache.Cache.Flush()
	var wg sync.WaitGroup
	for i := 0; i < 2; i++ {
		wg.Add(1)
		go func() { defer wg.Done(); _, _ = f.GetIP(context.Background()) }()
	}
	wg.Wait()
}
