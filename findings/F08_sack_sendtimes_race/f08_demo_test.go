package sack

// Demonstration for finding F08 (property C14): SendProbe (sender goroutine)
// and handleProbeLayers/getRTTFromRelSeq (receiver goroutine) accessed
// sendTimes without synchronisation.  Run with: go test -race -run TestVerifF08 ./sack/
// The race detector reports a data race before the fix and nothing after.
// Needs f03_demo_test.go (helpers) in the same directory.

import (
	"encoding/binary"
	"net/netip"
	"sync"
	"testing"
	"time"

	"github.com/DataDog/datadog-traceroute/common"
)

func TestVerifF08SendTimesRace(t *testing.T) {
	target := netip.MustParseAddrPort("1.2.3.4:443")
	local := netip.MustParseAddr("5.6.7.8")
	router := netip.MustParseAddr("9.9.9.9")
	src := &f03Source{}
	params := Params{Target: target, LoosenICMPSrc: true, ParallelParams: common.TracerouteParallelParams{TracerouteParams: common.TracerouteParams{
		MinTTL: 1, MaxTTL: 30, TracerouteTimeout: time.Second, PollFrequency: time.Millisecond}}}
	d, err := newSackDriver(params, local, f03Sink{}, src)
	if err != nil {
		t.Fatal(err)
	}
	d.FakeHandshake()
	// a (stale or spoofed) time-exceeded for TTL 7 is already queued while probes are being sent
	for i := 0; i < 200; i++ {
		tcp8 := make([]byte, 8)
		binary.BigEndian.PutUint16(tcp8[0:], 1234)
		binary.BigEndian.PutUint16(tcp8[2:], 443)
		binary.BigEndian.PutUint32(tcp8[4:], 5678+7)
		quoted := f03IP(local, target.Addr(), 6, tcp8)
		te := append([]byte{11, 0, 0, 0, 0, 0, 0, 0}, quoted...)
		binary.BigEndian.PutUint16(te[2:], f03Cksum(te))
		src.pkts = append(src.pkts, f03IP(router, local, 1, te))
	}
	var wg sync.WaitGroup
	wg.Add(2)
	go func() {
		defer wg.Done()
		for ttl := uint8(1); ttl <= 30; ttl++ {
			_ = d.SendProbe(ttl)
			time.Sleep(50 * time.Microsecond)
		}
	}()
	go func() {
		defer wg.Done()
		for i := 0; i < 200; i++ {
			_, _ = d.ReceiveProbe(time.Millisecond)
		}
	}()
	wg.Wait()
}
