package publicip

// Demonstration for finding F05 (property C08): a public-IP provider that
// accepts the connection and never answers must not block GetPublicIP past
// providers x per-checker timeout.  Before the fix the HTTP request was not
// bound to the 2 s context, so the call hung until the server gave up.

import (
	"context"
	"net"
	"net/http"
	"testing"
	"time"

	"github.com/cenkalti/backoff/v5"
)

func TestVerifF05StalledProviderIsBounded(t *testing.T) {
	ln, err := net.Listen("tcp", "127.0.0.1:0")
	if err != nil {
		t.Fatal(err)
	}
	defer ln.Close()
	var conns []net.Conn
	go func() {
		for {
			c, err := ln.Accept()
			if err != nil {
				return
			}
			conns = append(conns, c) // accept and never answer
		}
	}()
	old := ipCheckers
	ipCheckers = []string{"http://" + ln.Addr().String() + "/a", "http://" + ln.Addr().String() + "/b"}
	defer func() { ipCheckers = old }()
	done := make(chan error, 1)
	start := time.Now()
	go func() {
		_, err := GetPublicIP(context.Background(), &http.Client{}, backoff.NewExponentialBackOff())
		done <- err
	}()
	bound := 2*ipCheckerCallTimeout + 1500*time.Millisecond
	select {
	case err := <-done:
		if err == nil {
			t.Fatal("expected an error from stalled providers")
		}
		t.Logf("returned after %v: %v", time.Since(start), err)
	case <-time.After(bound):
		t.Fatalf("GetPublicIP still blocked after %v (bound: 2 providers x %v)", bound, ipCheckerCallTimeout)
	}
}
