package icmp

// Demonstration for finding F01 (property C01): an echo sequence number that
// agrees with a sent TTL only modulo 256 must not be credited to that TTL.
// Copy into /repo/icmp and run: go test -run TestVerifF01 ./icmp/
// Fails before the fix (hop for TTL 5 reported), passes after.

import (
	"encoding/binary"
	"net/netip"
	"testing"
	"time"

	"github.com/DataDog/datadog-traceroute/common"
	"github.com/DataDog/datadog-traceroute/packets"
)

type f01Source struct{ pkts [][]byte }

func (s *f01Source) SetReadDeadline(time.Time) error { return nil }
func (s *f01Source) Read(buf []byte) (int, error) {
	p := s.pkts[0]
	s.pkts = s.pkts[1:]
	return copy(buf, p), nil
}
func (s *f01Source) Close() error                                    { return nil }
func (s *f01Source) SetPacketFilter(packets.PacketFilterSpec) error { return nil }

type f01Sink struct{}

func (f01Sink) WriteTo([]byte, netip.AddrPort) error { return nil }
func (f01Sink) Close() error                         { return nil }

func f01Cksum(b []byte) uint16 {
	var s uint32
	for i := 0; i+1 < len(b); i += 2 {
		s += uint32(b[i])<<8 | uint32(b[i+1])
	}
	if len(b)%2 == 1 {
		s += uint32(b[len(b)-1]) << 8
	}
	for s > 0xffff {
		s = s>>16 + s&0xffff
	}
	return ^uint16(s)
}

func f01IP(src, dst netip.Addr, proto byte, payload []byte) []byte {
	h := make([]byte, 20)
	h[0] = 0x45
	binary.BigEndian.PutUint16(h[2:], uint16(20+len(payload)))
	h[8], h[9] = 64, proto
	copy(h[12:], src.AsSlice())
	copy(h[16:], dst.AsSlice())
	binary.BigEndian.PutUint16(h[10:], f01Cksum(h))
	return append(h, payload...)
}

func f01ICMP(typ byte, id, seq uint16, body []byte) []byte {
	b := make([]byte, 8)
	b[0] = typ
	binary.BigEndian.PutUint16(b[4:], id)
	binary.BigEndian.PutUint16(b[6:], seq)
	b = append(b, body...)
	binary.BigEndian.PutUint16(b[2:], f01Cksum(b))
	return b
}

func TestVerifF01EchoSeqModulo256(t *testing.T) {
	target := netip.MustParseAddr("1.2.3.4")
	local := netip.MustParseAddr("5.6.7.8")
	router := netip.MustParseAddr("9.9.9.9")
	src := &f01Source{}
	params := Params{Target: target, ParallelParams: common.TracerouteParallelParams{TracerouteParams: common.TracerouteParams{
		MinTTL: 1, MaxTTL: 30, TracerouteTimeout: time.Second, PollFrequency: time.Millisecond}}}
	d := newICMPDriver(params, local, f01Sink{}, src)
	if err := d.SendProbe(5); err != nil {
		t.Fatal(err)
	}
	// time-exceeded quoting an echo request with the run's id but sequence 256+5
	quoted := f01IP(local, target, 1, f01ICMP(8, d.echoID, 256+5, []byte{5}))
	te := f01ICMP(11, 0, 0, quoted)
	src.pkts = append(src.pkts, f01IP(router, local, 1, te))
	// echo reply from the target with sequence 256+5
	src.pkts = append(src.pkts, f01IP(target, local, 1, f01ICMP(0, d.echoID, 256+5, []byte{5})))
	for i := 0; i < 2; i++ {
		probe, err := d.ReceiveProbe(time.Millisecond)
		if probe != nil {
			t.Fatalf("packet %d: sequence 261 was credited to TTL %d (address %s)", i, probe.TTL, probe.IP)
		}
		if !common.CheckProbeRetryable("x", err) {
			t.Fatalf("packet %d: expected a retryable rejection, got %v", i, err)
		}
	}
}
