package packets

// Demonstration for finding F04 (property C09): bytes that gopacket cannot
// decode (truncated ICMP header, IHL < 5, bad option length ...) must be
// skipped, not abort the run.  Before the fix Parse returned a plain error,
// which the engines treat as fatal.

import (
	"testing"

	"github.com/DataDog/datadog-traceroute/common"
)

func TestVerifF04DecodeErrorsAreRetryable(t *testing.T) {
	cases := map[string][]byte{
		// IPv4, proto ICMP, total length 24: only 4 bytes of ICMP header
		"short-icmp": {0x45, 0, 0, 24, 0, 1, 0, 0, 64, 1, 0, 0, 9, 9, 9, 9, 5, 6, 7, 8, 11, 0, 0, 0},
		// IHL = 4
		"ihl4": {0x44, 0, 0, 28, 0, 1, 0, 0, 64, 1, 0, 0, 9, 9, 9, 9, 5, 6, 7, 8, 11, 0, 0, 0, 0, 0, 0, 0},
		// TCP data offset 0
		"tcp-doff0": {0x45, 0, 0, 40, 0, 1, 0, 0, 64, 6, 0, 0, 9, 9, 9, 9, 5, 6, 7, 8,
			0, 80, 0, 81, 0, 0, 0, 0, 0, 0, 0, 0, 0x00, 0x12, 0, 0, 0, 0, 0, 0},
		// IPv6 with payload length 0 and no hop-by-hop header
		"v6-len0": append([]byte{0x60, 0, 0, 0, 0, 0, 58, 64}, make([]byte, 40)...),
	}
	for name, pkt := range cases {
		p := NewFrameParser()
		err := p.Parse(pkt)
		if err == nil {
			t.Errorf("%s: expected a parse error", name)
			continue
		}
		if !common.CheckProbeRetryable("Parse", err) {
			t.Errorf("%s: undecodable packet is fatal to the run: %v", name, err)
		}
	}
}
