package sack

// Demonstration for finding F07 (property C19): the accepted extreme MaxTTL=255
// must not crash.  Before the fix the send-time table was sized with uint8
// arithmetic (255+1 == 0), so the first SendProbe indexed an empty slice.
// Needs f03_demo_test.go (helpers) in the same directory.

import (
	"net/netip"
	"testing"
	"time"

	"github.com/DataDog/datadog-traceroute/common"
)

func TestVerifF07MaxTTL255DoesNotPanic(t *testing.T) {
	params := Params{Target: netip.MustParseAddrPort("1.2.3.4:443"), ParallelParams: common.TracerouteParallelParams{TracerouteParams: common.TracerouteParams{
		MinTTL: 1, MaxTTL: 255, TracerouteTimeout: time.Second, PollFrequency: time.Millisecond}}}
	d, err := newSackDriver(params, netip.MustParseAddr("5.6.7.8"), f03Sink{}, &f03Source{})
	if err != nil {
		t.Fatal(err)
	}
	d.FakeHandshake()
	defer func() {
		if r := recover(); r != nil {
			t.Fatalf("SendProbe panicked with MaxTTL=255: %v", r)
		}
	}()
	for _, ttl := range []uint8{1, 128, 255} {
		if err := d.SendProbe(ttl); err != nil {
			t.Fatalf("SendProbe(%d): %v", ttl, err)
		}
	}
}
