// Expression translator (tie kind A): small straight-line Go functions and conditions that the models restate
// (validation, merge rule, identifier arithmetic, deadlines) are translated into Gallina on every run
// (Generated/GoExprs.v); Proofs/GoTie*.v prove each equal to the model's definition for ALL inputs.
//
// Supported: parameters / receiver fields / free variables (flattened into arguments), integer literals,
// + - * with wrap-around at the width of the unsigned type of the operands, conversions, comparisons, && || !,
// nil tests, `x := e`, `x = e`, `if c { x = e }`, `if c { return … }`, `return …`, atomic.Uint32.Add, calls of other
// translated methods.  Signed integers (int, int64, time.Duration) are unbounded (no overflow assumed).
// Anything else makes the translation of that target fail: the definition is not emitted and the proof that needs it
// no longer compiles.
package main

import (
	"fmt"
	"go/ast"
	"go/parser"
	"go/token"
	"os"
	"path/filepath"
	"strings"
)

type gxPkg struct {
	name    string
	files   []*ast.File
	structs map[string]*ast.StructType
	funcs   map[string]*ast.FuncDecl // "Recv.Name" or "Name"
	vars    map[string]ast.Expr      // package-level var name -> type expr
	consts  map[string]string        // package-level integer constants given by a literal
}

var gxPkgs = map[string]*gxPkg{}

func gxLoad(repo string) error {
	for _, d := range []string{"common", "packets", "icmp", "tcp", "udp", "sack", "traceroute", "publicip"} {
		fset := token.NewFileSet()
		ents, err := os.ReadDir(filepath.Join(repo, d))
		if err != nil {
			return err
		}
		p := &gxPkg{name: d, structs: map[string]*ast.StructType{}, funcs: map[string]*ast.FuncDecl{}, vars: map[string]ast.Expr{}, consts: map[string]string{}}
		for _, e := range ents {
			n := e.Name()
			if !strings.HasSuffix(n, ".go") || strings.HasSuffix(n, "_test.go") || strings.Contains(n, "verif") ||
				strings.HasSuffix(n, "_windows.go") || strings.HasSuffix(n, "_darwin.go") || strings.HasSuffix(n, "_unsupported.go") {
				continue
			}
			f, err := parser.ParseFile(fset, filepath.Join(repo, d, n), nil, 0)
			if err != nil {
				return err
			}
			p.files = append(p.files, f)
			for _, decl := range f.Decls {
				switch x := decl.(type) {
				case *ast.GenDecl:
					for _, s := range x.Specs {
						switch sp := s.(type) {
						case *ast.TypeSpec:
							if st, ok := sp.Type.(*ast.StructType); ok {
								p.structs[sp.Name.Name] = st
							}
						case *ast.ValueSpec:
							if x.Tok == token.CONST {
								for i, nm := range sp.Names {
									if i < len(sp.Values) {
										if bl, ok := sp.Values[i].(*ast.BasicLit); ok && bl.Kind == token.INT {
											p.consts[nm.Name] = bl.Value
										}
									}
								}
							}
							if x.Tok == token.VAR && sp.Type != nil {
								for _, nm := range sp.Names {
									p.vars[nm.Name] = sp.Type
								}
							}
						}
					}
				case *ast.FuncDecl:
					key := x.Name.Name
					if x.Recv != nil && len(x.Recv.List) == 1 {
						key = strings.TrimPrefix(exprString(x.Recv.List[0].Type), "*") + "." + key
					}
					p.funcs[key] = x
				}
			}
		}
		gxPkgs[d] = p
	}
	return nil
}

// ---- types: "u8","u16","u32","u64","int","bool","dur","atomic32","struct:pkg.T","nil","untyped","?"
func typeFromExpr(pkg string, e ast.Expr) string {
	switch x := e.(type) {
	case *ast.Ident:
		switch x.Name {
		case "uint8", "byte":
			return "u8"
		case "uint16":
			return "u16"
		case "uint32":
			return "u32"
		case "uint64", "uint":
			return "u64"
		case "int", "int64", "int32", "int16", "int8":
			return "int"
		case "bool":
			return "bool"
		case "error":
			return "err" // in functions that return only an error: a boolean "no error"
		}
		if _, ok := gxPkgs[pkg].structs[x.Name]; ok {
			return "struct:" + pkg + "." + x.Name
		}
		return "?"
	case *ast.StarExpr:
		return typeFromExpr(pkg, x.X)
	case *ast.ArrayType:
		return "list"
	case *ast.SelectorExpr:
		s := exprString(x)
		switch s {
		case "time.Duration":
			return "dur"
		case "atomic.Uint32":
			return "atomic32"
		}
		if id, ok := x.X.(*ast.Ident); ok {
			if p, ok := gxPkgs[id.Name]; ok {
				if _, ok := p.structs[x.Sel.Name]; ok {
					return "struct:" + id.Name + "." + x.Sel.Name
				}
			}
		}
		return "?"
	}
	return "?"
}

func fieldType(st string, field string) string {
	if !strings.HasPrefix(st, "struct:") {
		return "?"
	}
	key := strings.TrimPrefix(st, "struct:")
	i := strings.Index(key, ".")
	pkg, tn := key[:i], key[i+1:]
	s, ok := gxPkgs[pkg].structs[tn]
	if !ok {
		return "?"
	}
	for _, f := range s.Fields.List {
		for _, n := range f.Names {
			if n.Name == field {
				return typeFromExpr(pkg, f.Type)
			}
		}
	}
	for _, f := range s.Fields.List { // embedded
		if len(f.Names) == 0 {
			t := typeFromExpr(pkg, f.Type)
			base := exprString(f.Type)
			if j := strings.LastIndex(base, "."); j >= 0 {
				base = base[j+1:]
			}
			base = strings.TrimPrefix(base, "*")
			if base == field {
				return t
			}
			if r := fieldType(t, field); r != "?" {
				return r
			}
		}
	}
	return "?"
}

var widths = map[string]string{"u8": "256", "u16": "65536", "u32": "4294967296", "u64": "18446744073709551616"}

type gxFn struct {
	pkg       string
	env       map[string]string // local / param name -> type
	params    []string          // coq argument names in order of first use
	ptypes    map[string]string
	errAsBool bool
	recvName  string
	fail      string
	locals    map[string]bool
	classMode bool     // functions returning (value, error): the result is a class — 0 ok, 1 plain error, 2 backoff.Permanent error
	elemMode  bool     // translating the body of a range loop that fills one output element per iteration
	elemKeys  []string // the fields of the output element, in the order they are emitted
}

func (g *gxFn) param(name, typ string) string {
	if _, ok := g.ptypes[name]; !ok {
		g.params = append(g.params, name)
		g.ptypes[name] = typ
	}
	return name
}

func flat(e ast.Expr) (string, bool) {
	switch x := e.(type) {
	case *ast.Ident:
		return x.Name, true
	case *ast.SelectorExpr:
		if s, ok := flat(x.X); ok {
			return s + "_" + x.Sel.Name, true
		}
	case *ast.ParenExpr:
		return flat(x.X)
	}
	return "", false
}

func (g *gxFn) typeOf(e ast.Expr) string {
	switch x := e.(type) {
	case *ast.ParenExpr:
		return g.typeOf(x.X)
	case *ast.Ident:
		if t, ok := g.env[x.Name]; ok {
			return t
		}
		if x.Name == "true" || x.Name == "false" {
			return "bool"
		}
		if x.Name == "nil" {
			return "nil"
		}
		if t, ok := gxPkgs[g.pkg].vars[x.Name]; ok {
			return typeFromExpr(g.pkg, t)
		}
		return "?"
	case *ast.BasicLit:
		return "untyped"
	case *ast.SelectorExpr:
		if id, ok := x.X.(*ast.Ident); ok && id.Name == "time" {
			return "dur"
		}
		return fieldType(g.typeOf(x.X), x.Sel.Name)
	case *ast.UnaryExpr:
		if x.Op == token.NOT {
			return "bool"
		}
		return g.typeOf(x.X)
	case *ast.BinaryExpr:
		switch x.Op {
		case token.LAND, token.LOR, token.EQL, token.NEQ, token.LSS, token.LEQ, token.GTR, token.GEQ:
			return "bool"
		}
		l := g.typeOf(x.X)
		if l != "untyped" && l != "?" {
			return l
		}
		return g.typeOf(x.Y)
	case *ast.SliceExpr:
		return "list"
	case *ast.CallExpr:
		if len(x.Args) == 1 {
			if t := typeFromExpr(g.pkg, x.Fun); t != "?" && !strings.HasPrefix(t, "struct:") {
				return t
			}
		}
		s := exprString(x.Fun)
		if s == "rand.Uint32" {
			return "u32"
		}
		if s == "slices.IndexFunc" {
			return "int"
		}
		if s == "slices.Clip" {
			return "list"
		}
		if sel, ok := x.Fun.(*ast.SelectorExpr); ok {
			rt := g.typeOf(sel.X)
			if rt == "atomic32" && sel.Sel.Name == "Add" {
				return "u32"
			}
			if cp, fd := findMethod(rt, sel.Sel.Name); fd != nil && fd.Type.Results != nil && len(fd.Type.Results.List) == 1 {
				return typeFromExpr(cp, fd.Type.Results.List[0].Type)
			}
		}
	}
	return "?"
}

// trBool translates an operand of a boolean connective: a bare variable or field of unknown type there is a bool
func (g *gxFn) trBool(e ast.Expr) string {
	r := g.tr(e)
	if name, ok := flat(e); ok {
		if t, ok := g.ptypes[name]; ok && t == "?" {
			g.ptypes[name] = "bool"
		}
	}
	return r
}

func wrap(s, t string) string {
	if w, ok := widths[t]; ok {
		return "((" + s + ") mod " + w + ")"
	}
	return s
}

func (g *gxFn) tr(e ast.Expr) string {
	switch x := e.(type) {
	case *ast.ParenExpr:
		return "(" + g.tr(x.X) + ")"
	case *ast.BasicLit:
		if x.Kind == token.INT {
			return x.Value
		}
	case *ast.Ident:
		switch x.Name {
		case "true", "false":
			return x.Name
		}
		if g.locals[x.Name] {
			return x.Name
		}
		t := g.typeOf(x)
		return g.param(x.Name, t)
	case *ast.SelectorExpr:
		if _, ok := durUnits[exprString(x)]; ok {
			return fmt.Sprint(durUnits[exprString(x)])
		}
		if id, ok := x.X.(*ast.Ident); ok {
			if pk, ok := gxPkgs[id.Name]; ok {
				if v, ok := pk.consts[x.Sel.Name]; ok {
					return v // an integer constant of another package of the repository
				}
			}
		}
		if s, ok := flat(x); ok {
			return g.param(s, g.typeOf(x))
		}
	case *ast.UnaryExpr:
		switch x.Op {
		case token.NOT:
			return "(negb " + g.trBool(x.X) + ")"
		case token.SUB:
			return "(- " + g.tr(x.X) + ")"
		}
	case *ast.BinaryExpr:
		// nil tests
		if x.Op == token.EQL || x.Op == token.NEQ {
			var other ast.Expr
			if id, ok := x.Y.(*ast.Ident); ok && id.Name == "nil" {
				other = x.X
			} else if id, ok := x.X.(*ast.Ident); ok && id.Name == "nil" {
				other = x.Y
			}
			if other != nil {
				if s, ok := flat(other); ok {
					p := s + "_isnil"
					if !g.locals[p] {
						p = g.param(p, "bool")
					}
					if x.Op == token.EQL {
						return p
					}
					return "(negb " + p + ")"
				}
				g.fail = "nil test on a complex expression"
				return "?"
			}
		}
		var a, b string
		if x.Op == token.LAND || x.Op == token.LOR {
			a, b = g.trBool(x.X), g.trBool(x.Y)
		} else {
			a, b = g.tr(x.X), g.tr(x.Y)
		}
		t := g.typeOf(x)
		ot := g.typeOf(x.X)
		if ot == "untyped" || ot == "?" {
			ot = g.typeOf(x.Y)
		}
		switch x.Op {
		case token.ADD:
			return wrap(a+" + "+b, t)
		case token.SUB:
			return wrap(a+" - "+b, t)
		case token.MUL:
			return wrap(a+" * "+b, t)
		case token.QUO:
			return "(" + a + " / " + b + ")" // operands are non-negative where this is used: Go's truncation = floor
		case token.LAND:
			return "(" + a + " && " + b + ")"
		case token.LOR:
			return "(" + a + " || " + b + ")"
		case token.LSS:
			return "(" + a + " <? " + b + ")"
		case token.LEQ:
			return "(" + a + " <=? " + b + ")"
		case token.GTR:
			return "(" + b + " <? " + a + ")"
		case token.GEQ:
			return "(" + b + " <=? " + a + ")"
		case token.EQL:
			if ot == "bool" {
				return "(Bool.eqb " + a + " " + b + ")"
			}
			return "(" + a + " =? " + b + ")"
		case token.NEQ:
			if ot == "bool" {
				return "(negb (Bool.eqb " + a + " " + b + "))"
			}
			return "(negb (" + a + " =? " + b + "))"
		}
	case *ast.SliceExpr:
		if x.Slice3 || (x.Low != nil && x.High != nil) {
			break
		}
		base := g.tr(x.X)
		if x.High != nil {
			return "(firstn (Z.to_nat (" + g.tr(x.High) + ")) " + base + ")"
		}
		if x.Low != nil {
			return "(skipn (Z.to_nat (" + g.tr(x.Low) + ")) " + base + ")"
		}
		return base
	case *ast.CallExpr:
		if len(x.Args) == 1 {
			if t := typeFromExpr(g.pkg, x.Fun); t != "?" && !strings.HasPrefix(t, "struct:") {
				return wrap(g.tr(x.Args[0]), t) // conversion
			}
		}
		s := exprString(x.Fun)
		if strings.HasSuffix(s, ".AsSlice") && len(x.Args) == 0 {
			if sel, ok := x.Fun.(*ast.SelectorExpr); ok {
				return g.tr(sel.X) // netip.Addr -> bytes: the same address
			}
		}
		if s == "ConvertDurationToMs" && len(x.Args) == 1 {
			return "(" + g.param("go_ms", "fn") + " " + g.tr(x.Args[0]) + ")" // the unit conversion is an argument of the translation
		}
		if s == "slices.Clip" && len(x.Args) == 1 {
			return g.tr(x.Args[0]) // capacity only
		}
		if s == "slices.IndexFunc" && len(x.Args) == 2 {
			if fl, ok := x.Args[1].(*ast.FuncLit); ok && len(fl.Type.Params.List) == 1 && len(fl.Type.Params.List[0].Names) == 1 {
				el := fl.Type.Params.List[0].Names[0].Name
				h := newGxFn(g.pkg, false)
				body := h.stmts(fl.Body.List, 1)
				okp := h.fail == ""
				for _, pn := range h.params {
					if pn != el+"_isnil" && pn != el+"_IsDest" {
						okp = false
					}
				}
				if okp {
					return "(gx_index_func (fun " + el + " : bool * bool => let " + el + "_isnil := fst " + el + " in let " + el + "_IsDest := snd " + el + " in " + body + ") " + g.tr(x.Args[0]) + ")"
				}
			}
		}
		if s == "rand.Uint32" && len(x.Args) == 0 {
			return g.param("rand_Uint32", "u32")
		}
		if g.errAsBool && (s == "fmt.Errorf" || s == "errors.New") {
			return "false"
		}
		if sel, ok := x.Fun.(*ast.SelectorExpr); ok {
			rt := g.typeOf(sel.X)
			if rt == "atomic32" && sel.Sel.Name == "Add" && len(x.Args) == 1 {
				if v, ok := flat(sel.X); ok {
					return wrap(g.param(v, "u32")+" + "+g.tr(x.Args[0]), "u32")
				}
			}
			if strings.HasPrefix(rt, "struct:") && len(x.Args) == 0 {
				if cp, fd := findMethod(rt, sel.Sel.Name); fd != nil {
					callee, err := translateFuncDecl(cp, fd, false)
					if err == nil {
						prefix, ok := flat(sel.X)
						if ok {
							var args []string
							for _, pn := range callee.params {
								// callee parameter "<recv>_<path>" becomes "<prefix>_<path>" here
								rest := strings.TrimPrefix(pn, callee.recvName+"_")
								if rest == pn {
									g.fail = "callee uses a non-receiver free variable"
									return "?"
								}
								args = append(args, g.param(prefix+"_"+rest, callee.ptypes[pn]))
							}
							return "(" + callee.coqName + " " + strings.Join(args, " ") + ")"
						}
					}
				}
			}
		}
	}
	g.fail = "unsupported expression: " + exprString(e)
	return "?"
}

// findMethod looks a method up on a struct type and, failing that, on the types it embeds
func findMethod(st, name string) (string, *ast.FuncDecl) {
	if !strings.HasPrefix(st, "struct:") {
		return "", nil
	}
	key := strings.TrimPrefix(st, "struct:")
	i := strings.Index(key, ".")
	pkg, tn := key[:i], key[i+1:]
	if fd, ok := gxPkgs[pkg].funcs[tn+"."+name]; ok {
		return pkg, fd
	}
	if s, ok := gxPkgs[pkg].structs[tn]; ok {
		for _, f := range s.Fields.List {
			if len(f.Names) == 0 {
				if p, fd := findMethod(typeFromExpr(pkg, f.Type), name); fd != nil {
					return p, fd
				}
			}
		}
	}
	return "", nil
}

type gxOut struct {
	group    string
	coqName  string
	params   []string
	ptypes   map[string]string
	body     string
	recvName string
	src      string
}

var gxDone = map[string]*gxOut{}
var gxOrder []string
var gxGroup string // group (output file) of the targets being translated

func coqType(t string) string {
	if t == "bool" || t == "err" {
		return "bool"
	}
	if t == "list" {
		return "list (bool * bool)" // a slice of *ProbeResponse as far as the translated code looks at it: (is nil, IsDest)
	}
	if t == "fn" {
		return "Z -> Z"
	}
	return "Z"
}

func (g *gxFn) stmts(list []ast.Stmt, results int) string {
	if len(list) == 0 {
		g.fail = "function falls off its end"
		return "?"
	}
	s, rest := list[0], list[1:]
	if g.elemMode {
		switch x := s.(type) {
		case *ast.ReturnStmt:
			return "None" // the loop is abandoned with an error
		case *ast.AssignStmt:
			if len(x.Lhs) == 1 && len(x.Rhs) == 1 {
				if _, ok := x.Lhs[0].(*ast.IndexExpr); ok {
					var lit *ast.CompositeLit
					if u, ok := x.Rhs[0].(*ast.UnaryExpr); ok && u.Op == token.AND {
						lit, _ = u.X.(*ast.CompositeLit)
					}
					if lit == nil || len(rest) != 0 {
						g.fail = "element assignment of an unsupported shape"
						return "?"
					}
					vals := map[string]string{}
					for _, el := range lit.Elts {
						kv, ok := el.(*ast.KeyValueExpr)
						if !ok {
							g.fail = "positional composite literal"
							return "?"
						}
						vals[exprString(kv.Key)] = g.tr(kv.Value)
					}
					var out []string
					for _, k := range g.elemKeys {
						name := strings.TrimPrefix(strings.TrimPrefix(k, "?"), "b:")
						v, ok := vals[name]
						delete(vals, name)
						switch {
						case strings.HasPrefix(k, "?"): // optional field: Some v / None
							if ok {
								out = append(out, "(Some "+v+")")
							} else {
								out = append(out, "None")
							}
						case ok:
							out = append(out, v)
						case strings.HasPrefix(k, "b:"):
							out = append(out, "false")
						default:
							out = append(out, "0")
						}
					}
					if len(vals) != 0 {
						g.fail = "element field not in the expected set"
						return "?"
					}
					return "Some (" + strings.Join(out, ", ") + ")"
				}
			}
		}
	}
	if g.classMode {
		switch x := s.(type) {
		case *ast.ReturnStmt:
			if len(x.Results) == 2 {
				if exprString(x.Results[1]) == "nil" {
					return "0"
				}
				if c, ok := x.Results[1].(*ast.CallExpr); ok && exprString(c.Fun) == "backoff.Permanent" {
					return "2"
				}
				return "1"
			}
		case *ast.AssignStmt:
			if len(x.Lhs) == 2 && len(x.Rhs) == 1 && exprString(x.Lhs[1]) == "err" {
				if c, ok := x.Rhs[0].(*ast.CallExpr); ok {
					name := strings.NewReplacer(".", "_", "(", "", ")", "").Replace(exprString(c.Fun))
					g.locals["err_isnil"] = true
					return "let err_isnil := " + g.param("err_"+name+"_isnil", "bool") + " in\n  " + g.stmts(rest, results)
				}
			}
			if len(x.Lhs) == 1 && len(x.Rhs) == 1 && x.Tok == token.DEFINE {
				// a value the classification only looks at through nil tests / fields: leave it opaque
				if _, isCall := x.Rhs[0].(*ast.CallExpr); isCall {
					save := g.fail
					probe := *g
					probe.params = append([]string{}, g.params...)
					probe.ptypes = map[string]string{}
					for k, v := range g.ptypes {
						probe.ptypes[k] = v
					}
					probe.fail = ""
					probe.tr(x.Rhs[0])
					if probe.fail != "" {
						g.fail = save
						return g.stmts(rest, results)
					}
				}
			}
		case *ast.DeferStmt:
			return g.stmts(rest, results)
		}
	}
	switch x := s.(type) {
	case *ast.ReturnStmt:
		var rs []string
		for _, r := range x.Results {
			if id, ok := r.(*ast.Ident); ok && id.Name == "nil" && g.errAsBool {
				rs = append(rs, "true")
				continue
			}
			rs = append(rs, g.tr(r))
		}
		if len(rs) == 1 {
			return rs[0]
		}
		return "(" + strings.Join(rs, ", ") + ")"
	case *ast.AssignStmt:
		if len(x.Lhs) == 1 && len(x.Rhs) == 1 && (x.Tok == token.ADD_ASSIGN || x.Tok == token.SUB_ASSIGN || x.Tok == token.MUL_ASSIGN) {
			if id, ok := x.Lhs[0].(*ast.Ident); ok {
				op := map[token.Token]string{token.ADD_ASSIGN: " + ", token.SUB_ASSIGN: " - ", token.MUL_ASSIGN: " * "}[x.Tok]
				return "let " + id.Name + " := " + wrap(g.tr(id)+op+g.tr(x.Rhs[0]), g.typeOf(id)) + " in\n  " + g.stmts(rest, results)
			}
		}
		if len(x.Lhs) == 1 && len(x.Rhs) == 1 && (x.Tok == token.DEFINE || x.Tok == token.ASSIGN) {
			if id, ok := x.Lhs[0].(*ast.Ident); ok {
				v := g.tr(x.Rhs[0])
				t := g.typeOf(x.Rhs[0])
				if x.Tok == token.DEFINE {
					g.env[id.Name] = t
					g.locals[id.Name] = true
				}
				return "let " + id.Name + " := " + v + " in\n  " + g.stmts(rest, results)
			}
		}
	case *ast.IfStmt:
		// general scheme: the continuation is translated inside each branch, so assignments in a branch are plain
		// shadowing lets and an early return simply ends that branch
		if x.Init == nil {
			c := g.tr(x.Cond)
			var elseList []ast.Stmt
			switch e := x.Else.(type) {
			case nil:
			case *ast.BlockStmt:
				elseList = e.List
			case *ast.IfStmt:
				elseList = []ast.Stmt{e}
			default:
				g.fail = "unsupported else"
				return "?"
			}
			save := func() (map[string]string, map[string]bool) {
				e2, l2 := map[string]string{}, map[string]bool{}
				for k, v := range g.env {
					e2[k] = v
				}
				for k, v := range g.locals {
					l2[k] = v
				}
				return e2, l2
			}
			e0, l0 := save()
			thenS := g.stmts(append(append([]ast.Stmt{}, x.Body.List...), rest...), results)
			g.env, g.locals = e0, l0
			e1, l1 := save()
			elseS := g.stmts(append(append([]ast.Stmt{}, elseList...), rest...), results)
			g.env, g.locals = e1, l1
			return "if " + c + " then " + thenS + "\n  else " + elseS
		}
	case *ast.DeclStmt:
		if gd, ok := x.Decl.(*ast.GenDecl); ok && gd.Tok == token.VAR && len(gd.Specs) == 1 {
			vs := gd.Specs[0].(*ast.ValueSpec)
			if len(vs.Names) == 1 && len(vs.Values) <= 1 {
				name := vs.Names[0].Name
				t := "?"
				if vs.Type != nil {
					t = typeFromExpr(g.pkg, vs.Type)
				}
				v := "0"
				if t == "bool" {
					v = "false"
				}
				if t == "err" && g.errAsBool {
					v = "true" // nil
				}
				if len(vs.Values) == 1 {
					v = g.tr(vs.Values[0])
					if t == "?" {
						t = g.typeOf(vs.Values[0])
					} else {
						v = wrap(v, t)
					}
				} else if t == "?" || strings.HasPrefix(t, "struct:") || t == "list" {
					g.fail = "variable of a type without a scalar zero value"
					return "?"
				}
				g.env[name] = t
				g.locals[name] = true
				return "let " + name + " := " + v + " in\n  " + g.stmts(rest, results)
			}
		}
	case *ast.IncDecStmt:
		if id, ok := x.X.(*ast.Ident); ok {
			if _, isParam := g.ptypes[id.Name]; g.locals[id.Name] || isParam {
				op := " + 1"
				if x.Tok == token.DEC {
					op = " - 1"
				}
				return "let " + id.Name + " := " + wrap(id.Name+op, g.typeOf(id)) + " in\n  " + g.stmts(rest, results)
			}
		}
	case *ast.ExprStmt:
		// logging and the like: no effect on the result
		if call, ok := x.X.(*ast.CallExpr); ok && strings.HasPrefix(exprString(call.Fun), "log.") {
			return g.stmts(rest, results)
		}
	case *ast.DeferStmt:
		if strings.HasSuffix(exprString(x.Call.Fun), ".Unlock") {
			return g.stmts(rest, results)
		}
	}
	g.fail = fmt.Sprintf("unsupported statement %T", s)
	return "?"
}

func newGxFn(pkg string, errAsBool bool) *gxFn {
	return &gxFn{pkg: pkg, env: map[string]string{}, ptypes: map[string]string{}, errAsBool: errAsBool, locals: map[string]bool{}}
}

func (g *gxFn) bindParams(fd *ast.FuncType, recv *ast.FieldList) {
	if recv != nil && len(recv.List) == 1 && len(recv.List[0].Names) == 1 {
		g.recvName = recv.List[0].Names[0].Name
		// receiver: a struct whose fields become arguments on use
		g.env[g.recvName] = typeFromExpr(g.pkg, recv.List[0].Type)
	}
	for _, f := range fd.Params.List {
		t := typeFromExpr(g.pkg, f.Type)
		for _, n := range f.Names {
			g.env[n.Name] = t
		}
	}
}

func translateFuncDecl(pkg string, fd *ast.FuncDecl, errAsBool bool) (*gxOut, error) {
	key := pkg + "." + fd.Name.Name
	if fd.Recv != nil && len(fd.Recv.List) == 1 {
		key = pkg + "." + strings.TrimPrefix(exprString(fd.Recv.List[0].Type), "*") + "." + fd.Name.Name
	}
	if o, ok := gxDone[key]; ok {
		return o, nil
	}
	g := newGxFn(pkg, errAsBool)
	g.bindParams(fd.Type, fd.Recv)
	// plain parameters (not the receiver) are arguments in declaration order
	for _, f := range fd.Type.Params.List {
		for _, n := range f.Names {
			t := g.env[n.Name]
			if !strings.HasPrefix(t, "struct:") {
				g.param(n.Name, t)
			}
		}
	}
	nres := 0
	if fd.Type.Results != nil {
		nres = len(fd.Type.Results.List)
	}
	body := g.stmts(fd.Body.List, nres)
	if g.fail != "" {
		return nil, fmt.Errorf("%s: %s", key, g.fail)
	}
	o := &gxOut{group: gxGroup, coqName: "go_" + strings.ReplaceAll(key, ".", "_"), params: g.params, ptypes: g.ptypes, body: body, recvName: g.recvName, src: key}
	gxDone[key] = o
	gxOrder = append(gxOrder, key)
	return o, nil
}

// a boolean condition / expression found inside a function, with that function's parameters in scope
func translateExprIn(pkg string, fd *ast.FuncDecl, name string, pre []ast.Stmt, e ast.Expr, resultVar string) error {
	g := newGxFn(pkg, false)
	g.bindParams(fd.Type, fd.Recv)
	var body string
	if e != nil {
		body = g.tr(e)
	} else {
		// statements, then the value of resultVar
		body = g.stmts(append(append([]ast.Stmt{}, pre...), &ast.ReturnStmt{Results: []ast.Expr{ast.NewIdent(resultVar)}}), 1)
	}
	if g.fail != "" {
		return fmt.Errorf("%s: %s", name, g.fail)
	}
	gxDone[name] = &gxOut{group: gxGroup, coqName: name, params: g.params, ptypes: g.ptypes, body: body, src: pkg + "." + fd.Name.Name}
	gxOrder = append(gxOrder, name)
	return nil
}

// translateRangeBody translates the body of the single range loop of fd as a function of the index and the element
func translateRangeBody(pkg string, fd *ast.FuncDecl, name string, keys []string) error {
	var rs *ast.RangeStmt
	for _, s := range fd.Body.List {
		if r, ok := s.(*ast.RangeStmt); ok {
			if rs != nil {
				return fmt.Errorf("%s: more than one range loop", name)
			}
			rs = r
		}
	}
	if rs == nil || rs.Key == nil || rs.Value == nil {
		return fmt.Errorf("%s: no `for i, x := range xs` loop", name)
	}
	g := newGxFn(pkg, false)
	g.bindParams(fd.Type, fd.Recv)
	g.elemMode, g.elemKeys = true, keys
	// the ranged slice must be a parameter; its element type types the loop variable
	for _, f := range fd.Type.Params.List {
		for _, n := range f.Names {
			if n.Name == exprString(rs.X) {
				if at, ok := f.Type.(*ast.ArrayType); ok {
					g.env[exprString(rs.Value)] = typeFromExpr(pkg, at.Elt)
				}
			}
		}
	}
	g.env[exprString(rs.Key)] = "int"
	g.param(exprString(rs.Key), "int")
	body := g.stmts(rs.Body.List, 1)
	if g.fail != "" {
		return fmt.Errorf("%s: %s", name, g.fail)
	}
	gxDone[name] = &gxOut{group: gxGroup, coqName: name, params: g.params, ptypes: g.ptypes, body: body, src: pkg + "." + fd.Name.Name + " (loop body)"}
	gxOrder = append(gxOrder, name)
	return nil
}

func goExprs(repo string) (map[string]string, error) {
	if err := gxLoad(repo); err != nil {
		return nil, err
	}
	problems := map[string][]string{}
	note := func(err error) {
		if err != nil {
			problems[gxGroup] = append(problems[gxGroup], err.Error())
		}
	}
	fn := func(pkg, key string, errAsBool bool) {
		fd, ok := gxPkgs[pkg].funcs[key]
		if !ok {
			problems[gxGroup] = append(problems[gxGroup], pkg+"."+key+": not found")
			return
		}
		_, err := translateFuncDecl(pkg, fd, errAsBool)
		note(err)
	}
	gxGroup = "GoTimeout"
	fn("common", "TracerouteParams.ProbeCount", false)
	fn("common", "TracerouteParallelParams.MaxTimeout", false)
	fn("sack", "Params.MaxTimeout", false)
	gxGroup = "GoValidate"
	fn("common", "TracerouteParams.validateProbe", true)
	gxGroup = "GoClip"
	fn("common", "clipResults", false)
	gxGroup = "GoHops"
	if fd, ok := gxPkgs["common"].funcs["ToHops"]; ok {
		note(translateRangeBody("common", fd, "go_ToHops_element", []string{"TTL", "?IPAddress", "RTT", "b:IsDest"}))
	} else {
		problems[gxGroup] = append(problems[gxGroup], "common.ToHops not found")
	}
	gxGroup = "GoPublicIP"
	if fd, ok := gxPkgs["publicip"].funcs["handleRequest"]; ok {
		g := newGxFn("publicip", false)
		g.classMode = true
		g.bindParams(fd.Type, fd.Recv)
		body := g.stmts(fd.Body.List, 2)
		if g.fail != "" {
			problems[gxGroup] = append(problems[gxGroup], "publicip.handleRequest: "+g.fail)
		} else {
			gxDone["go_publicip_handleRequest_class"] = &gxOut{group: gxGroup, coqName: "go_publicip_handleRequest_class", params: g.params, ptypes: g.ptypes, body: body, src: "publicip.handleRequest (0 ok, 1 retryable error, 2 permanent error)"}
			gxOrder = append(gxOrder, "go_publicip_handleRequest_class")
		}
	} else {
		problems[gxGroup] = append(problems[gxGroup], "publicip.handleRequest not found")
	}
	gxGroup = "GoAlloc"
	fn("packets", "AllocPacketID", false)
	fn("icmp", "nextEchoID", false)
	gxGroup = "GoIds"
	fn("tcp", "tcpDriver.getNextPacketIDAndSeqNum", false)
	gxGroup = "GoMerge"

	// the merge rule of the parallel engine: the closure writeProbe up to `if shouldUpdate {`
	if fd, ok := gxPkgs["common"].funcs["TracerouteParallel"]; ok {
		done := false
		ast.Inspect(fd.Body, func(n ast.Node) bool {
			as, ok := n.(*ast.AssignStmt)
			if !ok || len(as.Lhs) != 1 || exprString(as.Lhs[0]) != "writeProbe" {
				return true
			}
			fl, ok := as.Rhs[0].(*ast.FuncLit)
			if !ok {
				return true
			}
			var pre []ast.Stmt
			for _, s := range fl.Body.List {
				if ifs, ok := s.(*ast.IfStmt); ok && exprString(ifs.Cond) == "shouldUpdate" {
					break
				}
				if as2, ok := s.(*ast.AssignStmt); ok && len(as2.Lhs) == 1 && exprString(as2.Lhs[0]) == "previous" {
					continue // previous := results[probe.TTL]: the slot's content is an argument
				}
				if es, ok := s.(*ast.ExprStmt); ok {
					if c, ok := es.X.(*ast.CallExpr); ok && strings.HasSuffix(exprString(c.Fun), ".Lock") {
						continue
					}
				}
				pre = append(pre, s)
			}
			note(translateExprIn("common", &ast.FuncDecl{Name: ast.NewIdent("writeProbe"), Type: fl.Type}, "go_parallel_shouldUpdate", pre, nil, "shouldUpdate"))
			done = true
			return false
		})
		if !done {
			problems[gxGroup] = append(problems[gxGroup], "writeProbe closure not found")
		}
	}
	// the same rule in the serial engine: the condition guarding `results[probe.TTL] = probe`
	if fd, ok := gxPkgs["common"].funcs["TracerouteSerial"]; ok {
		done := false
		ast.Inspect(fd.Body, func(n ast.Node) bool {
			ifs, ok := n.(*ast.IfStmt)
			if !ok || len(ifs.Body.List) != 1 {
				return true
			}
			if as, ok := ifs.Body.List[0].(*ast.AssignStmt); ok && len(as.Lhs) == 1 && strings.HasPrefix(exprString(as.Lhs[0]), "<*ast.IndexExpr>") {
				note(translateExprIn("common", fd, "go_serial_shouldUpdate", nil, ifs.Cond, ""))
				done = true
				return false
			}
			return true
		})
		if !done {
			problems[gxGroup] = append(problems[gxGroup], "serial merge condition not found")
		}
	}
	// runTracerouteMulti: the pacing delay between end-to-end probes (definition + the clamp that follows it)
	gxGroup = "GoTimeout"
	if fd, ok := gxPkgs["traceroute"].funcs["Traceroute.runTracerouteMulti"]; ok {
		done := false
		ast.Inspect(fd.Body, func(n ast.Node) bool {
			blk, ok := n.(*ast.BlockStmt)
			if !ok || done {
				return !done
			}
			for i, st := range blk.List {
				as, ok := st.(*ast.AssignStmt)
				if !ok || len(as.Lhs) != 1 || exprString(as.Lhs[0]) != "e2eQueriesDelay" || as.Tok != token.DEFINE {
					continue
				}
				pre := []ast.Stmt{st}
				if i+1 < len(blk.List) {
					if ifs, ok := blk.List[i+1].(*ast.IfStmt); ok && strings.Contains(exprString(ifs.Cond), "e2eQueriesDelay") {
						pre = append(pre, ifs)
					}
				}
				note(translateExprIn("traceroute", fd, "go_e2e_queries_delay", pre, nil, "e2eQueriesDelay"))
				done = true
				return false
			}
			return true
		})
		if !done {
			problems[gxGroup] = append(problems[gxGroup], "e2eQueriesDelay not found in runTracerouteMulti")
		}
	} else {
		problems[gxGroup] = append(problems[gxGroup], "Traceroute.runTracerouteMulti not found")
	}
	// RunTraceroute: the destination port (the default when 0)
	gxGroup = "GoRange"
	if fd, ok := gxPkgs["traceroute"].funcs["Traceroute.RunTraceroute"]; ok {
		var pre []ast.Stmt
		for i, st := range fd.Body.List {
			if as, ok := st.(*ast.AssignStmt); ok && len(as.Lhs) == 1 && exprString(as.Lhs[0]) == "destinationPort" && as.Tok == token.DEFINE {
				pre = append(pre, st)
				if i+1 < len(fd.Body.List) {
					if ifs, ok := fd.Body.List[i+1].(*ast.IfStmt); ok && strings.Contains(exprString(ifs.Cond), "destinationPort") {
						pre = append(pre, ifs)
					}
				}
				break
			}
		}
		if pre != nil {
			note(translateExprIn("traceroute", fd, "go_destination_port", pre, nil, "destinationPort"))
		} else {
			problems[gxGroup] = append(problems[gxGroup], "destinationPort not found in RunTraceroute")
		}
	} else {
		problems[gxGroup] = append(problems[gxGroup], "Traceroute.RunTraceroute not found")
	}
	// runTracerouteOnce: the TTL range rejection
	if fd, ok := gxPkgs["traceroute"].funcs["runTracerouteOnce"]; ok {
		if ifs, ok := fd.Body.List[0].(*ast.IfStmt); ok {
			note(translateExprIn("traceroute", fd, "go_runOnce_ttl_range_rejected", nil, ifs.Cond, ""))
		} else {
			problems[gxGroup] = append(problems[gxGroup], "runTracerouteOnce does not start with its range check")
		}
	}
	// UDP over IPv4: the IP identification of the probe for a TTL
	gxGroup = "GoIds"
	for key, fd := range gxPkgs["udp"].funcs {
		if !strings.HasSuffix(key, "createRawUDPBuffer") {
			continue
		}
		ast.Inspect(fd.Body, func(n ast.Node) bool {
			kv, ok := n.(*ast.KeyValueExpr)
			if ok && exprString(kv.Key) == "Id" {
				if _, done := gxDone["go_udp4_ip_id"]; !done {
					note(translateExprIn("udp", fd, "go_udp4_ip_id", nil, kv.Value, ""))
				}
			}
			return true
		})
	}
	out := map[string]string{}
	for _, grp := range []string{"GoTimeout", "GoValidate", "GoClip", "GoHops", "GoPublicIP", "GoAlloc", "GoIds", "GoMerge", "GoRange"} {
		var b strings.Builder
		b.WriteString("(** GENERATED on every run by tools/goextract (exprs.go) from /repo.  Do not edit.\n")
		for _, p := range problems[grp] {
			b.WriteString("    NOT TRANSLATED: " + p + "\n")
		}
		b.WriteString("*)\nFrom Coq Require Import ZArith Bool List.\nFrom TR Require Import Lib.GoLists.\nOpen Scope Z_scope.\nOpen Scope bool_scope.\n\n")
		for _, k := range gxOrder {
			o := gxDone[k]
			if o.group != grp {
				continue
			}
			fmt.Fprintf(&b, "(* %s *)\nDefinition %s", o.src, o.coqName)
			for _, p := range o.params {
				fmt.Fprintf(&b, " (%s : %s)", p, coqType(o.ptypes[p]))
			}
			fmt.Fprintf(&b, " :=\n  %s.\n\n", o.body)
		}
		out[grp+".v"] = b.String()
	}
	return out, nil
}
