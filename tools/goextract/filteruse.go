// Which capture filter each entry point installs (tie kind A for C12 / C02): every SetPacketFilter call of every
// function that opens a handle pair, in source order, with its FilterType and whether Src / Dst are the target / the
// local endpoint.
package main

import (
	"fmt"
	"go/ast"
	"go/parser"
	"go/token"
	"os"
	"path/filepath"
	"sort"
	"strings"
)

func filterUse(repo string) (string, error) {
	type use struct{ name string; specs []string }
	var uses []use
	for _, d := range []string{"udp", "tcp", "icmp", "sack"} {
		fset := token.NewFileSet()
		ents, err := os.ReadDir(filepath.Join(repo, d))
		if err != nil {
			continue
		}
		for _, e := range ents {
			n := e.Name()
			if !strings.HasSuffix(n, ".go") || strings.HasSuffix(n, "_test.go") || strings.Contains(n, "verif") ||
				strings.HasSuffix(n, "_windows.go") || strings.HasSuffix(n, "_darwin.go") || strings.HasSuffix(n, "_unsupported.go") {
				continue
			}
			f, err := parser.ParseFile(fset, filepath.Join(repo, d, n), nil, 0)
			if err != nil {
				return "", err
			}
			for _, decl := range f.Decls {
				fd, ok := decl.(*ast.FuncDecl)
				if !ok || fd.Body == nil {
					continue
				}
				opens := false
				var specs []string
				ast.Inspect(fd.Body, func(m ast.Node) bool {
					c, ok := m.(*ast.CallExpr)
					if !ok {
						return true
					}
					fn := exprString(c.Fun)
					if fn == "packets.NewSourceSink" {
						opens = true
					}
					if strings.HasSuffix(fn, ".SetPacketFilter") && len(c.Args) == 1 {
						ft, src, dst := "FT_Other", false, false
						if cl, ok := c.Args[0].(*ast.CompositeLit); ok {
							for _, el := range cl.Elts {
								kv, ok := el.(*ast.KeyValueExpr)
								if !ok {
									continue
								}
								switch exprString(kv.Key) {
								case "FilterType":
									switch exprString(kv.Value) {
									case "packets.FilterTypeICMP":
										ft = "FT_ICMP"
									case "packets.FilterTypeUDP":
										ft = "FT_UDP"
									case "packets.FilterTypeTCP":
										ft = "FT_TCP"
									case "packets.FilterTypeSYNACK":
										ft = "FT_SYNACK"
									case "packets.FilterTypeNone":
										ft = "FT_None"
									}
								case "FilterConfig":
									if c2, ok := kv.Value.(*ast.CompositeLit); ok {
										for _, e2 := range c2.Elts {
											kv2, ok := e2.(*ast.KeyValueExpr)
											if !ok {
												continue
											}
											txt := strings.ToLower(nodeText(kv2.Value))
											switch exprString(kv2.Key) {
											case "Src":
												src = strings.Contains(txt, "target")
											case "Dst":
												dst = strings.Contains(txt, "local") || strings.Contains(txt, "tcpaddr")
											}
										}
									}
								}
							}
						}
						specs = append(specs, fmt.Sprintf("(%s, %v, %v)", ft, src, dst))
					}
					return true
				})
				if !opens {
					continue
				}
				name := fd.Name.Name
				if fd.Recv != nil && len(fd.Recv.List) == 1 {
					name = strings.TrimPrefix(exprString(fd.Recv.List[0].Type), "*") + "_" + name
				}
				uses = append(uses, use{d + "_" + name, specs})
			}
		}
	}
	sort.Slice(uses, func(i, j int) bool { return uses[i].name < uses[j].name })
	var b strings.Builder
	b.WriteString("(** GENERATED on every run by tools/goextract (filteruse.go): the SetPacketFilter calls of every entry point, in\n    source order: (filter type, Src is the target endpoint, Dst is the local endpoint).  Do not edit. *)\n")
	b.WriteString("From Coq Require Import List.\nFrom TR Require Import Spec.C12.\nImport ListNotations.\n\n")
	for _, u := range uses {
		fmt.Fprintf(&b, "Definition fu_%s : list (ftype * bool * bool) := [%s].\n", u.name, strings.Join(u.specs, "; "))
	}
	return b.String(), nil
}

// nodeText renders an expression approximately (identifiers and selectors), enough to see which endpoint it names
func nodeText(e ast.Expr) string {
	var parts []string
	ast.Inspect(e, func(n ast.Node) bool {
		if id, ok := n.(*ast.Ident); ok {
			parts = append(parts, id.Name)
		}
		return true
	})
	return strings.Join(parts, " ")
}
