// Access-table extraction (tie kind A for C14): for every concurrent system of the repository — the four
// protocol drivers (sender thread = SendProbe, receiver thread = ReceiveProbe), the parallel engine, the
// multi-query aggregator, the reverse-DNS fan-out — list every access to a shared location with the locks
// held at that point.  The analysis is syntactic (go/ast only):
//   * lock regions: x.Lock()/RLock() ... x.Unlock()/RUnlock(), `defer x.Unlock()` holds to the end of the function;
//     a lock taken inside a branch or an inlined callee is considered released at its end;
//   * methods and functions of the same package are inlined (receiver and pointer arguments are renamed);
//   * a location is root.field (root.field.sub when field points to a struct of the same package);
//     calling a method of a foreign type on a location counts as a write to that object ("loc()"), except for
//     value types with pure methods and for synchronisation types;
//   * goroutines are the func literals of `go` statements and errgroup `g.Go(...)`; one started inside a loop runs
//     concurrently with itself; the enclosing function is thread 0 with phases 0 (before the first start),
//     1 (concurrent) and 2 (after the WaitGroup/errgroup Wait).
// Blind spots (stated in DESIGN.md): no alias analysis beyond receiver fields, captured variables and pointer
// arguments of inlined calls; foreign objects are single locations; the Go memory model is abstracted to locks.
package main

import (
	"fmt"
	"go/ast"
	"go/parser"
	"go/token"
	"go/types"
	"os"
	"path/filepath"
	"sort"
	"strings"
)

type accRec struct {
	sys, thread int
	multi       bool
	loc         string
	write       bool
	locks       []string
	phase       int
	pos         string
}

type pkgInfo struct {
	fset    *token.FileSet
	files   []*ast.File
	structs map[string]map[string]string     // type -> field -> type expr
	methods map[string]map[string]*ast.FuncDecl // receiver type -> method -> decl
	funcs   map[string]*ast.FuncDecl
}

func loadPkg(dir string) (*pkgInfo, error) {
	fset := token.NewFileSet()
	pkgs, err := parser.ParseDir(fset, dir, func(fi os.FileInfo) bool {
		n := fi.Name()
		return !strings.HasSuffix(n, "_test.go") && !strings.Contains(n, "verif") && !strings.Contains(n, "mockgen") &&
			!strings.HasSuffix(n, "_windows.go") && !strings.HasSuffix(n, "_darwin.go")
	}, 0)
	if err != nil {
		return nil, err
	}
	pi := &pkgInfo{fset: fset, structs: map[string]map[string]string{}, methods: map[string]map[string]*ast.FuncDecl{}, funcs: map[string]*ast.FuncDecl{}}
	for _, p := range pkgs {
		for _, f := range p.Files {
			pi.files = append(pi.files, f)
			for _, d := range f.Decls {
				switch x := d.(type) {
				case *ast.GenDecl:
					for _, s := range x.Specs {
						ts, ok := s.(*ast.TypeSpec)
						if !ok {
							continue
						}
						st, ok := ts.Type.(*ast.StructType)
						if !ok {
							continue
						}
						m := map[string]string{}
						for _, fl := range st.Fields.List {
							for _, n := range fl.Names {
								m[n.Name] = types.ExprString(fl.Type)
							}
						}
						pi.structs[ts.Name.Name] = m
					}
				case *ast.FuncDecl:
					if x.Recv == nil {
						pi.funcs[x.Name.Name] = x
						continue
					}
					rt := strings.TrimPrefix(types.ExprString(x.Recv.List[0].Type), "*")
					if pi.methods[rt] == nil {
						pi.methods[rt] = map[string]*ast.FuncDecl{}
					}
					pi.methods[rt][x.Name.Name] = x
				}
			}
		}
	}
	return pi, nil
}

var syncTypes = []string{"sync.Mutex", "sync.RWMutex", "*sync.Mutex", "sync.Once", "sync.WaitGroup", "context.", "atomic.", "errgroup.", "chan "}
var pureTypes = []string{"netip.Addr", "netip.AddrPort", "time.Time", "time.Duration", "net.IP", "uint", "int", "bool", "string", "float", "TracerouteMethod"}

func hasAny(s string, l []string) bool {
	for _, x := range l {
		if strings.Contains(s, x) {
			return true
		}
	}
	return false
}

// binding of a name in the function being walked
type binding struct {
	path string // shared location path, "" = purely local
	typ  string // declared type expression if known
	lit  *ast.FuncLit
}

type walker struct {
	pi      *pkgInfo
	sys     int
	out     *[]accRec
	thread  int
	multi   bool
	phase   *int
	held    map[string]bool
	depth   int
	nextThr *int
	loops   int
	isFunc  bool // function system: goroutine literals become threads
}

func (w *walker) clone() *walker { c := *w; c.held = map[string]bool{}; for k := range w.held { c.held[k] = true }; return &c }

func (w *walker) rec(loc string, write bool, pos token.Pos) {
	if loc == "" {
		return
	}
	var ls []string
	for l := range w.held {
		ls = append(ls, l)
	}
	sort.Strings(ls)
	ph := 1
	if w.phase != nil && w.thread == 0 {
		ph = *w.phase
	}
	*w.out = append(*w.out, accRec{w.sys, w.thread, w.multi, loc, write, ls, ph, w.pi.fset.Position(pos).String()})
}

type env map[string]binding

func (e env) copy() env { c := env{}; for k, v := range e { c[k] = v }; return c }

// fieldType returns the declared type of path's last component when the parent is a known struct.
func (w *walker) typeOfSel(baseTyp, field string) string {
	t := strings.TrimPrefix(baseTyp, "*")
	if i := strings.LastIndex(t, "."); i >= 0 {
		t = t[i+1:]
	}
	if m, ok := w.pi.structs[t]; ok {
		return m[field]
	}
	return ""
}

func localStruct(pi *pkgInfo, typ string) bool {
	t := strings.TrimPrefix(typ, "*")
	_, ok := pi.structs[t]
	return ok && strings.HasPrefix(typ, "*")
}

// resolve maps an expression to (location, type) when it denotes a shared location.
func (w *walker) resolve(e env, x ast.Expr) (string, string) {
	switch v := x.(type) {
	case *ast.Ident:
		if b, ok := e[v.Name]; ok && b.path != "" {
			return b.path, b.typ
		}
	case *ast.ParenExpr:
		return w.resolve(e, v.X)
	case *ast.StarExpr:
		return w.resolve(e, v.X)
	case *ast.UnaryExpr:
		if v.Op == token.AND {
			return w.resolve(e, v.X)
		}
	case *ast.IndexExpr:
		return w.resolve(e, v.X)
	case *ast.SliceExpr:
		return w.resolve(e, v.X)
	case *ast.SelectorExpr:
		bp, bt := w.resolve(e, v.X)
		if bp == "" {
			return "", ""
		}
		ft := w.typeOfSel(bt, v.Sel.Name)
		// depth: root.field, one more level only through pointers to structs of this package
		parts := strings.Count(bp, ".")
		if parts == 0 || (parts == 1 && localStruct(w.pi, bt)) {
			return bp + "." + v.Sel.Name, ft
		}
		return bp, ft
	}
	return "", ""
}

func (w *walker) exprs(e env, xs []ast.Expr) {
	for _, x := range xs {
		w.expr(e, x, false)
	}
}

func (w *walker) expr(e env, x ast.Expr, write bool) {
	if x == nil {
		return
	}
	switch v := x.(type) {
	case *ast.Ident, *ast.SelectorExpr:
		if loc, typ := w.resolve(e, v); loc != "" {
			if !hasAny(typ, syncTypes) {
				w.rec(loc, write, v.Pos())
			}
			return
		}
		if s, ok := v.(*ast.SelectorExpr); ok {
			w.expr(e, s.X, false)
		}
	case *ast.IndexExpr:
		w.expr(e, v.X, write)
		w.expr(e, v.Index, false)
	case *ast.SliceExpr:
		w.expr(e, v.X, write)
		w.expr(e, v.Low, false)
		w.expr(e, v.High, false)
	case *ast.StarExpr:
		w.expr(e, v.X, write)
	case *ast.ParenExpr:
		w.expr(e, v.X, write)
	case *ast.UnaryExpr:
		w.expr(e, v.X, false)
	case *ast.BinaryExpr:
		w.expr(e, v.X, false)
		w.expr(e, v.Y, false)
	case *ast.KeyValueExpr:
		w.expr(e, v.Value, false)
	case *ast.CompositeLit:
		w.exprs(e, v.Elts)
	case *ast.TypeAssertExpr:
		w.expr(e, v.X, false)
	case *ast.FuncLit:
		// a literal that is not started as a goroutine here: analysed when it is called
	case *ast.CallExpr:
		w.call(e, v)
	}
}

func (w *walker) inline(fd *ast.FuncDecl, lit *ast.FuncLit, e env, recvPath, recvTyp string, args []ast.Expr) {
	if w.depth > 6 {
		return
	}
	ne := env{}
	if lit != nil {
		ne = e.copy() // closures see the enclosing bindings
	}
	var params *ast.FieldList
	var body *ast.BlockStmt
	if fd != nil {
		params, body = fd.Type.Params, fd.Body
		if fd.Recv != nil && len(fd.Recv.List[0].Names) > 0 && recvPath != "" {
			ne[fd.Recv.List[0].Names[0].Name] = binding{path: recvPath, typ: recvTyp}
		}
	} else {
		params, body = lit.Type.Params, lit.Body
	}
	i := 0
	if params != nil {
		for _, f := range params.List {
			for _, n := range f.Names {
				if i < len(args) {
					if loc, typ := w.resolve(e, args[i]); loc != "" && (strings.HasPrefix(types.ExprString(f.Type), "*") || strings.HasPrefix(types.ExprString(f.Type), "[]") || strings.HasPrefix(types.ExprString(f.Type), "map")) {
						ne[n.Name] = binding{path: loc, typ: typ}
					} else {
						delete(ne, n.Name)
					}
				}
				i++
			}
		}
	}
	c := w.clone()
	c.depth++
	c.held = w.held // locks taken by the callee and released by its defer do not outlive it
	saved := map[string]bool{}
	for k := range w.held {
		saved[k] = true
	}
	c.held = map[string]bool{}
	for k := range saved {
		c.held[k] = true
	}
	c.block(ne, body)
}

func (w *walker) call(e env, c *ast.CallExpr) {
	// arguments are evaluated first
	if sel, ok := c.Fun.(*ast.SelectorExpr); ok {
		name := sel.Sel.Name
		loc, typ := w.resolve(e, sel.X)
		if loc != "" {
			switch name {
			case "Lock", "RLock":
				if hasAny(typ, syncTypes) || typ == "" {
					w.held[loc] = true
					return
				}
			case "Unlock", "RUnlock":
				if hasAny(typ, syncTypes) || typ == "" {
					delete(w.held, loc)
					return
				}
			}
			if hasAny(typ, syncTypes) {
				if name == "Wait" && w.phase != nil && w.thread == 0 {
					*w.phase = 2
				}
				if name == "Go" && w.isFunc && len(c.Args) == 1 {
					if lit, ok := c.Args[0].(*ast.FuncLit); ok {
						w.spawn(e, lit, nil)
						return
					}
				}
				w.exprs(e, c.Args)
				return
			}
			// method of a package-local type: inline
			t := strings.TrimPrefix(typ, "*")
			if m, ok := w.pi.methods[t][name]; ok {
				w.exprs(e, c.Args)
				w.inline(m, nil, e, loc, typ, c.Args)
				return
			}
			w.exprs(e, c.Args)
			if hasAny(typ, pureTypes) {
				w.rec(loc, false, c.Pos())
			} else if typ == "" || strings.Contains(typ, "Driver") {
				// unknown type (interface parameter such as the TracerouteDriver): its own synchronisation is
				// analysed as a system of its own
			} else {
				w.rec(loc+"()", true, c.Pos())
			}
			return
		}
		// e.g. pkg.Func(args) or method on an untracked value
		w.expr(e, sel.X, false)
		for _, a := range c.Args {
			if l, t := w.resolve(e, a); l != "" && !hasAny(t, syncTypes) && !hasAny(t, pureTypes) && (strings.HasPrefix(t, "*") || strings.HasPrefix(t, "[]") || t == "" || strings.Contains(t, ".")) {
				if _, isIdent := a.(*ast.Ident); !isIdent || t != "" {
					// a shared object handed to foreign code: assume it is modified
					if strings.HasPrefix(t, "*") || strings.HasPrefix(t, "[]") {
						w.rec(l+"()", true, a.Pos())
						continue
					}
				}
			}
			w.expr(e, a, false)
		}
		return
	}
	if id, ok := c.Fun.(*ast.Ident); ok {
		switch id.Name {
		case "append", "len", "cap", "make", "new", "copy", "delete", "panic", "print", "println", "min", "max":
			if id.Name == "delete" && len(c.Args) > 0 {
				w.expr(e, c.Args[0], true)
				w.exprs(e, c.Args[1:])
				return
			}
			w.exprs(e, c.Args)
			return
		}
		if b, ok := e[id.Name]; ok && b.lit != nil {
			w.exprs(e, c.Args)
			w.inline(nil, b.lit, e, "", "", c.Args)
			return
		}
		if fd, ok := w.pi.funcs[id.Name]; ok {
			w.exprs(e, c.Args)
			w.inline(fd, nil, e, "", "", c.Args)
			return
		}
	}
	if lit, ok := c.Fun.(*ast.FuncLit); ok {
		w.exprs(e, c.Args)
		w.inline(nil, lit, e, "", "", c.Args)
		return
	}
	w.exprs(e, c.Args)
}

func (w *walker) spawn(e env, lit *ast.FuncLit, args []ast.Expr) {
	*w.nextThr++
	c := w.clone()
	c.thread = *w.nextThr
	c.multi = w.loops > 0
	c.held = map[string]bool{}
	c.loops = 0
	ne := e.copy()
	if lit.Type.Params != nil {
		for _, f := range lit.Type.Params.List {
			for _, n := range f.Names {
				delete(ne, n.Name) // parameters of the goroutine are its own copies
			}
		}
	}
	if w.phase != nil && *w.phase == 0 {
		*w.phase = 1
	}
	c.block(ne, lit.Body)
}

func (w *walker) declare(e env, name string, typ string, rhs ast.Expr) {
	if name == "_" {
		return
	}
	b := binding{typ: typ}
	if lit, ok := rhs.(*ast.FuncLit); ok {
		b.lit = lit
	}
	if call, ok := rhs.(*ast.CallExpr); ok && typ == "" {
		if id, ok := call.Fun.(*ast.Ident); ok && id.Name == "make" && len(call.Args) > 0 {
			b.typ = types.ExprString(call.Args[0])
		}
		if s, ok := call.Fun.(*ast.SelectorExpr); ok {
			b.typ = types.ExprString(s) // e.g. context.WithCancel, errgroup.WithContext
		}
	}
	if u, ok := rhs.(*ast.UnaryExpr); ok && typ == "" {
		b.typ = "*" + types.ExprString(u.X)
	}
	if cl, ok := rhs.(*ast.CompositeLit); ok && typ == "" {
		b.typ = types.ExprString(cl.Type)
	}
	if w.isFunc && w.thread == 0 {
		b.path = name // a variable of the enclosing function: shared with the goroutines it starts
	}
	e[name] = b
}

func (w *walker) block(e env, b *ast.BlockStmt) {
	if b == nil {
		return
	}
	for _, s := range b.List {
		w.stmt(e, s)
	}
}

func (w *walker) branch(e env, f func(c *walker, ne env)) {
	c := w.clone()
	f(c, e.copy())
}

func (w *walker) stmt(e env, s ast.Stmt) {
	switch v := s.(type) {
	case *ast.ExprStmt:
		w.expr(e, v.X, false)
	case *ast.AssignStmt:
		w.exprs(e, v.Rhs)
		for i, l := range v.Lhs {
			if v.Tok == token.DEFINE {
				if id, ok := l.(*ast.Ident); ok {
					var rhs ast.Expr
					if i < len(v.Rhs) {
						rhs = v.Rhs[i]
					}
					w.declare(e, id.Name, "", rhs)
					continue
				}
			}
			w.expr(e, l, true)
		}
	case *ast.IncDecStmt:
		w.expr(e, v.X, true)
	case *ast.DeclStmt:
		if gd, ok := v.Decl.(*ast.GenDecl); ok {
			for _, sp := range gd.Specs {
				if vs, ok := sp.(*ast.ValueSpec); ok {
					w.exprs(e, vs.Values)
					for i, n := range vs.Names {
						t := ""
						if vs.Type != nil {
							t = types.ExprString(vs.Type)
						}
						var rhs ast.Expr
						if i < len(vs.Values) {
							rhs = vs.Values[i]
						}
						w.declare(e, n.Name, t, rhs)
					}
				}
			}
		}
	case *ast.DeferStmt:
		if sel, ok := v.Call.Fun.(*ast.SelectorExpr); ok && (sel.Sel.Name == "Unlock" || sel.Sel.Name == "RUnlock") {
			return // held to the end of the function
		}
		w.call(e, v.Call)
	case *ast.GoStmt:
		if lit, ok := v.Call.Fun.(*ast.FuncLit); ok && w.isFunc {
			w.exprs(e, v.Call.Args)
			w.spawn(e, lit, v.Call.Args)
			return
		}
		w.call(e, v.Call)
	case *ast.ReturnStmt:
		w.exprs(e, v.Results)
	case *ast.BlockStmt:
		w.branch(e, func(c *walker, ne env) { c.block(ne, v) })
	case *ast.IfStmt:
		ne := e.copy()
		if v.Init != nil {
			w.stmt(ne, v.Init)
		}
		w.expr(ne, v.Cond, false)
		w.branch(ne, func(c *walker, n2 env) { c.block(n2, v.Body) })
		if v.Else != nil {
			w.branch(ne, func(c *walker, n2 env) { c.stmt(n2, v.Else) })
		}
	case *ast.ForStmt:
		ne := e.copy()
		if v.Init != nil {
			w.stmt(ne, v.Init)
		}
		w.expr(ne, v.Cond, false)
		c := w.clone()
		c.loops++
		c.block(ne.copy(), v.Body)
		if v.Post != nil {
			c.stmt(ne, v.Post)
		}
	case *ast.RangeStmt:
		w.expr(e, v.X, false)
		ne := e.copy()
		for _, k := range []ast.Expr{v.Key, v.Value} {
			if id, ok := k.(*ast.Ident); ok && v.Tok == token.DEFINE {
				delete(ne, id.Name)
			}
		}
		c := w.clone()
		c.loops++
		c.block(ne, v.Body)
	case *ast.SwitchStmt:
		ne := e.copy()
		if v.Init != nil {
			w.stmt(ne, v.Init)
		}
		w.expr(ne, v.Tag, false)
		for _, cc := range v.Body.List {
			cl := cc.(*ast.CaseClause)
			w.exprs(ne, cl.List)
			w.branch(ne, func(c *walker, n2 env) {
				for _, st := range cl.Body {
					c.stmt(n2, st)
				}
			})
		}
	case *ast.TypeSwitchStmt:
		for _, cc := range v.Body.List {
			cl := cc.(*ast.CaseClause)
			w.branch(e, func(c *walker, n2 env) {
				for _, st := range cl.Body {
					c.stmt(n2, st)
				}
			})
		}
	case *ast.SelectStmt:
		for _, cc := range v.Body.List {
			cl := cc.(*ast.CommClause)
			w.branch(e, func(c *walker, n2 env) {
				if cl.Comm != nil {
					c.stmt(n2, cl.Comm)
				}
				for _, st := range cl.Body {
					c.stmt(n2, st)
				}
			})
		}
	case *ast.LabeledStmt:
		w.stmt(e, v.Stmt)
	case *ast.SendStmt:
		w.expr(e, v.Value, false)
	}
}

type sysSpec struct {
	name, dir, typ, fn string
	roots              []string // driver systems: methods run by thread 1, 2, ...
}

var systems = []sysSpec{
	{name: "icmpDriver", dir: "icmp", typ: "icmpDriver", roots: []string{"SendProbe", "ReceiveProbe"}},
	{name: "udpDriver", dir: "udp", typ: "udpDriver", roots: []string{"SendProbe", "ReceiveProbe"}},
	{name: "tcpDriver", dir: "tcp", typ: "tcpDriver", roots: []string{"SendProbe", "ReceiveProbe"}},
	{name: "sackDriver", dir: "sack", typ: "sackDriver", roots: []string{"SendProbe", "ReceiveProbe"}},
	{name: "TracerouteParallel", dir: "common", fn: "TracerouteParallel"},
	{name: "runTracerouteMulti", dir: "traceroute", typ: "Traceroute", fn: "runTracerouteMulti"},
	{name: "GetReverseDnsForIPs", dir: "reversedns", fn: "GetReverseDnsForIPs"},
}

func accesses(repo string) (string, error) {
	var recs []accRec
	for si, sp := range systems {
		pi, err := loadPkg(filepath.Join(repo, sp.dir))
		if err != nil {
			return "", err
		}
		if sp.fn == "" {
			for ti, root := range sp.roots {
				m, ok := pi.methods[sp.typ][root]
				if !ok {
					return "", fmt.Errorf("%s.%s not found", sp.typ, root)
				}
				w := &walker{pi: pi, sys: si, out: &recs, thread: ti + 1, held: map[string]bool{}}
				e := env{}
				if len(m.Recv.List[0].Names) > 0 {
					e[m.Recv.List[0].Names[0].Name] = binding{path: "d", typ: "*" + sp.typ}
				}
				w.block(e, m.Body)
			}
			continue
		}
		var fd *ast.FuncDecl
		if sp.typ != "" {
			fd = pi.methods[sp.typ][sp.fn]
		} else {
			fd = pi.funcs[sp.fn]
		}
		if fd == nil {
			return "", fmt.Errorf("%s not found in %s", sp.fn, sp.dir)
		}
		phase, next := 0, 0
		w := &walker{pi: pi, sys: si, out: &recs, thread: 0, held: map[string]bool{}, phase: &phase, nextThr: &next, isFunc: true}
		e := env{}
		if fd.Recv != nil && len(fd.Recv.List[0].Names) > 0 {
			e[fd.Recv.List[0].Names[0].Name] = binding{path: fd.Recv.List[0].Names[0].Name, typ: types.ExprString(fd.Recv.List[0].Type)}
		}
		for _, f := range fd.Type.Params.List {
			for _, n := range f.Names {
				e[n.Name] = binding{path: n.Name, typ: types.ExprString(f.Type)}
			}
		}
		w.block(e, fd.Body)
	}
	// intern locations and locks
	ids := map[string]int{}
	var names []string
	id := func(s string) int {
		if v, ok := ids[s]; ok {
			return v
		}
		ids[s] = len(names)
		names = append(names, s)
		return ids[s]
	}
	var b strings.Builder
	b.WriteString("(** GENERATED on every run by tools/goextract (accesses.go) from /repo.  Do not edit. *)\n")
	b.WriteString("From Coq Require Import List ZArith Bool.\nFrom TR Require Import Conc.Lockset.\nImport ListNotations.\nOpen Scope Z_scope.\n\n")
	b.WriteString("Definition accesses : list acc :=\n  [")
	seen := map[string]bool{}
	first := true
	for _, r := range recs {
		var ls []string
		for _, l := range r.locks {
			ls = append(ls, fmt.Sprint(id(fmt.Sprintf("%d:%s", r.sys, l))))
		}
		key := fmt.Sprintf("%d|%d|%v|%s|%v|%v|%d", r.sys, r.thread, r.multi, r.loc, r.write, ls, r.phase)
		if seen[key] {
			continue
		}
		seen[key] = true
		if !first {
			b.WriteString(";\n   ")
		}
		first = false
		fmt.Fprintf(&b, "mkAcc %d %d %v %d %v [%s] %d (* %s thread %d %s%s  %s *)", r.sys, r.thread, r.multi, id(fmt.Sprintf("%d:%s", r.sys, r.loc)), r.write,
			strings.Join(ls, "; "), r.phase, systems[r.sys].name, r.thread, map[bool]string{true: "W ", false: "R "}[r.write], r.loc, strings.TrimPrefix(r.pos, repo+"/"))
	}
	b.WriteString("].\n\n(** location / lock names *)\nDefinition access_names : list (Z * list Z) :=\n  [")
	for i, n := range names {
		if i > 0 {
			b.WriteString(";\n   ")
		}
		fmt.Fprintf(&b, "(%d, %s) (* %s *)", i, coqStr(n), n)
	}
	b.WriteString("].\n")
	return b.String(), nil
}
