// Structural facts about timing code that the C08 model relies on (tie kind A): the SACK handshake reader arms ONE
// read deadline before its loop and never inside it, and the value of that deadline.
package main

import (
	"fmt"
	"go/ast"
	"go/parser"
	"go/token"
	"path/filepath"
	"strconv"
	"strings"
)

var durUnits = map[string]int64{"time.Nanosecond": 1, "time.Microsecond": 1000, "time.Millisecond": 1000000, "time.Second": 1000000000, "time.Minute": 60000000000}

// evalDur evaluates INT * time.Unit, time.Unit * INT, time.Unit, or a package-level constant defined that way.
func evalDur(e ast.Expr, consts map[string]ast.Expr, depth int) (int64, bool) {
	if depth > 4 {
		return 0, false
	}
	switch x := e.(type) {
	case *ast.ParenExpr:
		return evalDur(x.X, consts, depth+1)
	case *ast.BasicLit:
		if x.Kind == token.INT {
			v, err := strconv.ParseInt(x.Value, 0, 64)
			return v, err == nil
		}
	case *ast.SelectorExpr:
		if u, ok := durUnits[exprString(x)]; ok {
			return u, true
		}
	case *ast.Ident:
		if d, ok := consts[x.Name]; ok {
			return evalDur(d, consts, depth+1)
		}
	case *ast.BinaryExpr:
		if x.Op == token.MUL {
			a, ok1 := evalDur(x.X, consts, depth+1)
			b, ok2 := evalDur(x.Y, consts, depth+1)
			return a * b, ok1 && ok2
		}
	}
	return 0, false
}

func structure(repo string) (string, error) {
	fset := token.NewFileSet()
	f, err := parser.ParseFile(fset, filepath.Join(repo, "sack/sack_driver.go"), nil, 0)
	if err != nil {
		return "", err
	}
	consts := map[string]ast.Expr{}
	methods := map[string]*ast.FuncDecl{}
	for _, d := range f.Decls {
		switch x := d.(type) {
		case *ast.GenDecl:
			if x.Tok == token.CONST {
				for _, s := range x.Specs {
					vs := s.(*ast.ValueSpec)
					for i, n := range vs.Names {
						if i < len(vs.Values) {
							consts[n.Name] = vs.Values[i]
						}
					}
				}
			}
		case *ast.FuncDecl:
			methods[x.Name.Name] = x
		}
	}
	setsDeadline := func(n ast.Node) (int, []ast.Expr) {
		cnt := 0
		var args []ast.Expr
		ast.Inspect(n, func(m ast.Node) bool {
			if c, ok := m.(*ast.CallExpr); ok && strings.HasSuffix(exprString(c.Fun), ".SetReadDeadline") {
				cnt++
				if len(c.Args) == 1 {
					args = append(args, c.Args[0])
				}
			}
			return true
		})
		return cnt, args
	}
	// does the node set a read deadline itself or through a function of this file it calls (two levels)?
	var reaches func(n ast.Node, depth int) bool
	reaches = func(n ast.Node, depth int) bool {
		if c, _ := setsDeadline(n); c > 0 {
			return true
		}
		if depth >= 2 {
			return false
		}
		found := false
		ast.Inspect(n, func(m ast.Node) bool {
			if c, ok := m.(*ast.CallExpr); ok {
				name := exprString(c.Fun)
				if i := strings.LastIndex(name, "."); i >= 0 {
					name = name[i+1:]
				}
				if fd, ok := methods[name]; ok && fd.Body != nil && reaches(fd.Body, depth+1) {
					found = true
				}
			}
			return !found
		})
		return found
	}
	rh := methods["ReadHandshake"]
	inLoop, before, timeout := true, 0, int64(-1)
	if rh != nil && rh.Body != nil {
		inLoop = false
		for _, s := range rh.Body.List {
			switch x := s.(type) {
			case *ast.ForStmt, *ast.RangeStmt:
				if reaches(x, 0) {
					inLoop = true
				}
			default:
				c, args := setsDeadline(s)
				before += c
				for _, a := range args {
					// time.Now().Add(D)
					if call, ok := a.(*ast.CallExpr); ok && strings.HasSuffix(exprString(call.Fun), ".Add") && len(call.Args) == 1 {
						if v, ok := evalDur(call.Args[0], consts, 0); ok {
							timeout = v
						}
					}
				}
				if c == 0 && reaches(s, 0) {
					// a helper that arms the deadline outside the loop: count it, value unknown
					before++
				}
			}
		}
	}
	var b strings.Builder
	b.WriteString("(** GENERATED on every run by tools/goextract (structure.go) from /repo/sack/sack_driver.go.  Do not edit. *)\n")
	b.WriteString("From Coq Require Import ZArith.\nOpen Scope Z_scope.\n\n")
	fmt.Fprintf(&b, "(** ReadHandshake: read deadlines armed before the read loop, whether the loop (or anything it calls) re-arms one, and the timeout *)\n")
	fmt.Fprintf(&b, "Definition sack_handshake_deadlines_before_loop : Z := %d.\n", before)
	fmt.Fprintf(&b, "Definition sack_handshake_deadline_in_loop : bool := %v.\n", inLoop)
	fmt.Fprintf(&b, "Definition sack_handshake_timeout_ns : Z := %d.\n", timeout)
	return b.String(), nil
}
