// Structural facts about timing code that the C08 model relies on (tie kind A): the SACK handshake reader arms ONE
// read deadline before its loop and never inside it, and the value of that deadline.
package main

import (
	"fmt"
	"go/ast"
	"go/parser"
	"go/token"
	"path/filepath"
	"strconv"
	"strings"
)

var durUnits = map[string]int64{"time.Nanosecond": 1, "time.Microsecond": 1000, "time.Millisecond": 1000000, "time.Second": 1000000000, "time.Minute": 60000000000}

// evalDur evaluates INT * time.Unit, time.Unit * INT, time.Unit, or a package-level constant defined that way.
func evalDur(e ast.Expr, consts map[string]ast.Expr, depth int) (int64, bool) {
	if depth > 4 {
		return 0, false
	}
	switch x := e.(type) {
	case *ast.ParenExpr:
		return evalDur(x.X, consts, depth+1)
	case *ast.BasicLit:
		if x.Kind == token.INT {
			v, err := strconv.ParseInt(x.Value, 0, 64)
			return v, err == nil
		}
	case *ast.SelectorExpr:
		if u, ok := durUnits[exprString(x)]; ok {
			return u, true
		}
	case *ast.Ident:
		if d, ok := consts[x.Name]; ok {
			return evalDur(d, consts, depth+1)
		}
	case *ast.BinaryExpr:
		if x.Op == token.MUL {
			a, ok1 := evalDur(x.X, consts, depth+1)
			b, ok2 := evalDur(x.Y, consts, depth+1)
			return a * b, ok1 && ok2
		}
	}
	return 0, false
}

func structure(repo string) (string, error) {
	fset := token.NewFileSet()
	f, err := parser.ParseFile(fset, filepath.Join(repo, "sack/sack_driver.go"), nil, 0)
	if err != nil {
		return "", err
	}
	consts := map[string]ast.Expr{}
	methods := map[string]*ast.FuncDecl{}
	for _, d := range f.Decls {
		switch x := d.(type) {
		case *ast.GenDecl:
			if x.Tok == token.CONST {
				for _, s := range x.Specs {
					vs := s.(*ast.ValueSpec)
					for i, n := range vs.Names {
						if i < len(vs.Values) {
							consts[n.Name] = vs.Values[i]
						}
					}
				}
			}
		case *ast.FuncDecl:
			methods[x.Name.Name] = x
		}
	}
	setsDeadline := func(n ast.Node) (int, []ast.Expr) {
		cnt := 0
		var args []ast.Expr
		ast.Inspect(n, func(m ast.Node) bool {
			if c, ok := m.(*ast.CallExpr); ok && strings.HasSuffix(exprString(c.Fun), ".SetReadDeadline") {
				cnt++
				if len(c.Args) == 1 {
					args = append(args, c.Args[0])
				}
			}
			return true
		})
		return cnt, args
	}
	// does the node set a read deadline itself or through a function of this file it calls (two levels)?
	var reaches func(n ast.Node, depth int) bool
	reaches = func(n ast.Node, depth int) bool {
		if c, _ := setsDeadline(n); c > 0 {
			return true
		}
		if depth >= 2 {
			return false
		}
		found := false
		ast.Inspect(n, func(m ast.Node) bool {
			if c, ok := m.(*ast.CallExpr); ok {
				name := exprString(c.Fun)
				if i := strings.LastIndex(name, "."); i >= 0 {
					name = name[i+1:]
				}
				if fd, ok := methods[name]; ok && fd.Body != nil && reaches(fd.Body, depth+1) {
					found = true
				}
			}
			return !found
		})
		return found
	}
	rh := methods["ReadHandshake"]
	inLoop, before, timeout := true, 0, int64(-1)
	if rh != nil && rh.Body != nil {
		inLoop = false
		for _, s := range rh.Body.List {
			switch x := s.(type) {
			case *ast.ForStmt, *ast.RangeStmt:
				if reaches(x, 0) {
					inLoop = true
				}
			default:
				c, args := setsDeadline(s)
				before += c
				for _, a := range args {
					// time.Now().Add(D)
					if call, ok := a.(*ast.CallExpr); ok && strings.HasSuffix(exprString(call.Fun), ".Add") && len(call.Args) == 1 {
						if v, ok := evalDur(call.Args[0], consts, 0); ok {
							timeout = v
						}
					}
				}
				if c == 0 && reaches(s, 0) {
					// a helper that arms the deadline outside the loop: count it, value unknown
					before++
				}
			}
		}
	}
	// ---- result.RemovePrivateHops: two nested range loops over all runs and all hops, whose body is exactly
	// `if hop.IPAddress.IsPrivate() { r.Traceroute.Runs[i].Hops[j] = &TracerouteHop{TTL: …} }`
	redactShape, redactCond, redactKept := false, "?", []string{}
	{
		fset2 := token.NewFileSet()
		f2, err := parser.ParseFile(fset2, filepath.Join(repo, "result/result.go"), nil, 0)
		if err != nil {
			return "", err
		}
		for _, d := range f2.Decls {
			fd, ok := d.(*ast.FuncDecl)
			if !ok || fd.Name.Name != "RemovePrivateHops" || fd.Body == nil || len(fd.Body.List) != 1 {
				continue
			}
			outer, ok := fd.Body.List[0].(*ast.RangeStmt)
			if !ok || !strings.HasSuffix(exprString(outer.X), ".Traceroute.Runs") || len(outer.Body.List) != 1 {
				continue
			}
			inner, ok := outer.Body.List[0].(*ast.RangeStmt)
			if !ok || !strings.HasSuffix(exprString(inner.X), ".Hops") || len(inner.Body.List) != 1 {
				continue
			}
			ifs, ok := inner.Body.List[0].(*ast.IfStmt)
			if !ok || ifs.Else != nil || ifs.Init != nil || len(ifs.Body.List) == 0 {
				continue
			}
			hopVar := exprString(inner.Value)
			redactCond = strings.Replace(exprString(ifs.Cond), hopVar+".", "hop.", 1)
			// the fields of TracerouteHop (declaration order)
			var allFields []string
			ast.Inspect(f2, func(n ast.Node) bool {
				ts, ok := n.(*ast.TypeSpec)
				if ok && ts.Name.Name == "TracerouteHop" {
					if st, ok := ts.Type.(*ast.StructType); ok {
						for _, fl := range st.Fields.List {
							for _, nm := range fl.Names {
								allFields = append(allFields, nm.Name)
							}
						}
					}
				}
				return true
			})
			kept := map[string]bool{}
			understood := true
			if as, ok := ifs.Body.List[0].(*ast.AssignStmt); ok && len(ifs.Body.List) == 1 && len(as.Rhs) == 1 {
				// form 1: the slot is replaced by a fresh hop literal: every field not listed is cleared
				var lit *ast.CompositeLit
				if u, ok := as.Rhs[0].(*ast.UnaryExpr); ok {
					lit, _ = u.X.(*ast.CompositeLit)
				}
				if lit != nil && exprString(lit.Type) == "TracerouteHop" {
					for _, el := range lit.Elts {
						if kv, ok := el.(*ast.KeyValueExpr); ok {
							kept[exprString(kv.Key)] = true
						}
					}
				} else {
					understood = false
				}
			} else {
				understood = false
			}
			if !understood {
				// form 2: fields of the hop cleared one by one (hop.F = zero value): everything else is kept
				understood = true
				for _, f := range allFields {
					kept[f] = true
				}
				for _, st := range ifs.Body.List {
					as, ok := st.(*ast.AssignStmt)
					if !ok || len(as.Lhs) != 1 || len(as.Rhs) != 1 {
						understood = false
						break
					}
					lhs := exprString(as.Lhs[0])
					rhs := exprString(as.Rhs[0])
					zero := rhs == "nil" || rhs == "0" || rhs == "false" || rhs == "0.0" || strings.HasSuffix(rhs, "{}")
					if bl, ok := as.Rhs[0].(*ast.BasicLit); ok && (bl.Value == "0" || bl.Value == "0.0" || bl.Value == `""`) {
						zero = true
					}
					i := strings.LastIndex(lhs, ".")
					if i < 0 || !zero {
						understood = false
						break
					}
					delete(kept, lhs[i+1:])
				}
			}
			if !understood {
				continue
			}
			for _, f := range allFields {
				if kept[f] {
					redactKept = append(redactKept, f)
				}
			}
			redactShape = true
		}
	}
	// ---- RunTraceroute: the post-processing calls on the result, in source order, each with its guard
	var pipe []string
	errNil := false
	{
		fset3 := token.NewFileSet()
		f3, err := parser.ParseFile(fset3, filepath.Join(repo, "traceroute/traceroute.go"), nil, 0)
		if err != nil {
			return "", err
		}
		step := func(call *ast.CallExpr, guard string) {
			name := exprString(call.Fun)
			if !strings.HasPrefix(name, "results.") {
				return
			}
			ps := "PS_Other"
			switch strings.TrimPrefix(name, "results.") {
			case "EnrichWithReverseDns":
				ps = "PS_Enrich"
			case "Normalize":
				ps = "PS_Normalize"
			case "RemovePrivateHops":
				ps = "PS_Redact"
			}
			pipe = append(pipe, "("+guard+", "+ps+")")
		}
		for _, d := range f3.Decls {
			fd, ok := d.(*ast.FuncDecl)
			if !ok || fd.Name.Name != "RunTraceroute" || fd.Body == nil {
				continue
			}
			for _, st := range fd.Body.List {
				switch x := st.(type) {
				case *ast.ExprStmt:
					if c, ok := x.X.(*ast.CallExpr); ok {
						step(c, "G_None")
					}
				case *ast.IfStmt:
					if isErrNotNil(x.Cond) && len(x.Body.List) == 1 {
						if r, ok := x.Body.List[0].(*ast.ReturnStmt); ok && len(r.Results) == 2 && exprString(r.Results[0]) == "nil" && exprString(r.Results[1]) == "err" {
							errNil = true
						}
						continue
					}
					g := "G_Other"
					switch exprString(x.Cond) {
					case "params.ReverseDns":
						g = "G_ReverseDns"
					case "params.SkipPrivateHops":
						g = "G_SkipPrivate"
					}
					if x.Else != nil {
						g = "G_Other"
					}
					for _, s2 := range x.Body.List {
						if es, ok := s2.(*ast.ExprStmt); ok {
							if c, ok := es.X.(*ast.CallExpr); ok {
								step(c, g)
							}
						}
					}
				}
			}
		}
	}
	// ---- publicip.GetPublicIP: providers asked in order; an error of one provider (whatever it is) moves on to the next,
	// the first success is returned, and only when all failed an error is returned
	firstSuccess := false
	{
		fset4 := token.NewFileSet()
		f4, err := parser.ParseFile(fset4, filepath.Join(repo, "publicip/fetcher.go"), nil, 0)
		if err != nil {
			return "", err
		}
		for _, d := range f4.Decls {
			fd, ok := d.(*ast.FuncDecl)
			if !ok || fd.Name.Name != "GetPublicIP" || fd.Body == nil || len(fd.Body.List) != 2 {
				continue
			}
			rs, ok := fd.Body.List[0].(*ast.RangeStmt)
			last, ok2 := fd.Body.List[1].(*ast.ReturnStmt)
			if !ok || !ok2 || len(last.Results) != 2 || exprString(last.Results[0]) != "nil" || exprString(last.Results[1]) == "nil" {
				continue
			}
			if exprString(rs.X) != "ipCheckers" || len(rs.Body.List) != 3 {
				continue
			}
			as, ok := rs.Body.List[0].(*ast.AssignStmt)
			ifs, ok2 := rs.Body.List[1].(*ast.IfStmt)
			ret, ok3 := rs.Body.List[2].(*ast.ReturnStmt)
			if !ok || !ok2 || !ok3 || len(as.Lhs) != 2 || exprString(as.Lhs[1]) != "err" {
				continue
			}
			if !isErrNotNil(ifs.Cond) || ifs.Else != nil || ifs.Init != nil || len(ifs.Body.List) == 0 {
				continue
			}
			// the error block may log, and must end in `continue` without returning or breaking
			okBlock := true
			for i, st := range ifs.Body.List {
				if i == len(ifs.Body.List)-1 {
					br, ok := st.(*ast.BranchStmt)
					okBlock = okBlock && ok && br.Tok == token.CONTINUE
				} else if es, ok := st.(*ast.ExprStmt); !ok || !strings.HasPrefix(exprString(es.X), "log.") {
					okBlock = false
				}
			}
			if okBlock && len(ret.Results) == 2 && exprString(ret.Results[0]) == exprString(as.Lhs[0]) && exprString(ret.Results[1]) == "nil" {
				firstSuccess = true
			}
		}
	}
	var b strings.Builder
	b.WriteString("(** GENERATED on every run by tools/goextract (structure.go) from /repo/sack/sack_driver.go, result/result.go and\n    traceroute/traceroute.go.  Do not edit. *)\n")
	b.WriteString("From Coq Require Import ZArith List.\nFrom TR Require Import Lib.Shapes.\nImport ListNotations.\nOpen Scope Z_scope.\n\n")
	fmt.Fprintf(&b, "(** ReadHandshake: read deadlines armed before the read loop, whether the loop (or anything it calls) re-arms one, and the timeout *)\n")
	fmt.Fprintf(&b, "Definition sack_handshake_deadlines_before_loop : Z := %d.\n", before)
	fmt.Fprintf(&b, "Definition sack_handshake_deadline_in_loop : bool := %v.\n", inLoop)
	fmt.Fprintf(&b, "Definition sack_handshake_timeout_ns : Z := %d.\n", timeout)
	fmt.Fprintf(&b, "\n(** RemovePrivateHops: both loops visit every run and every hop and the body is the single conditional replacement;\n    the condition is hop.IPAddress.IsPrivate(); the replacement keeps exactly the TTL *)\n")
	fmt.Fprintf(&b, "Definition redact_visits_every_hop : bool := %v.\n", redactShape)
	fmt.Fprintf(&b, "Definition redact_condition_is_private_address : bool := %v.\n", redactCond == "hop.IPAddress.IsPrivate()")
	keptBad := false
	for _, f := range redactKept {
		if f != "TTL" {
			keptBad = true // anything but the TTL survives redaction: address, RTT, reachability, names, destination flag ...
		}
	}
	fmt.Fprintf(&b, "Definition redact_keeps_only_ttl : bool := %v. (* fields of a redacted hop that keep their value: %s *)\n", redactShape && !keptBad && len(redactKept) == 1, strings.Join(redactKept, " "))
	fmt.Fprintf(&b, "\n(** RunTraceroute: a failed multi-query run returns (nil, err); then, in this order, the post-processing steps with their guards *)\n")
	fmt.Fprintf(&b, "Definition run_error_returns_no_result : bool := %v.\n", errNil)
	fmt.Fprintf(&b, "\n(** GetPublicIP: the providers are asked in order, any error of one moves on to the next, the first success is returned *)\n")
	fmt.Fprintf(&b, "Definition publicip_first_success_loop : bool := %v.\n", firstSuccess)
	fmt.Fprintf(&b, "Definition run_pipeline_order : list (pguard * pstep) := [%s].\n", strings.Join(pipe, "; "))
	return b.String(), nil
}
