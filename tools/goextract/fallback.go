// performTCPFallback (tie kind A for C20): the switch over the TCP method is translated, case by case, into a small
// program over the three implementations (Pol/FallbackProg.v); Proofs/FallbackProofs.v proves its evaluation equal to
// the model's [perform] for every method and every outcome of the implementations.
package main

import (
	"fmt"
	"go/ast"
	"go/token"
	"strconv"
	"strings"
)

func fallback(repo string) (string, error) {
	if len(gxPkgs) == 0 {
		if err := gxLoad(repo); err != nil {
			return "", err
		}
	}
	fd, ok := gxPkgs["traceroute"].funcs["performTCPFallback"]
	var notes []string
	emptyIs := "MOther"
	cases := map[string]string{}
	def := "[FSUnknown]"
	impl := func(name string) string {
		switch name {
		case "doSyn":
			return "ISyn"
		case "doSack":
			return "ISack"
		case "doSynSocket":
			return "ISynSocket"
		}
		return ""
	}
	methodOf := func(e ast.Expr) string {
		switch exprString(e) {
		case "TCPConfigSYN":
			return "MSyn"
		case "TCPConfigSACK":
			return "MSack"
		case "TCPConfigSYNSocket":
			return "MSynSocket"
		case "TCPConfigPreferSACK":
			return "MPrefer"
		}
		if bl, ok := e.(*ast.BasicLit); ok && bl.Kind == token.STRING {
			s, _ := strconv.Unquote(bl.Value)
			switch s {
			case "syn":
				return "MSyn"
			case "sack":
				return "MSack"
			case "prefer_sack":
				return "MPrefer"
			case "syn_socket":
				return "MSynSocket"
			}
		}
		return ""
	}
	// the declared type of the variable errors.As fills in
	var notSupVars = map[string]bool{}
	trBlock := func(list []ast.Stmt) string {
		var out []string
		for _, s := range list {
			switch x := s.(type) {
			case *ast.ReturnStmt:
				if len(x.Results) == 1 {
					if c, ok := x.Results[0].(*ast.CallExpr); ok && len(c.Args) == 0 && impl(exprString(c.Fun)) != "" {
						out = append(out, "FSReturnCall "+impl(exprString(c.Fun)))
						continue
					}
				}
				if len(x.Results) == 2 {
					if exprString(x.Results[1]) == "nil" && exprString(x.Results[0]) != "nil" {
						out = append(out, "FSReturnResults")
						continue
					}
					if exprString(x.Results[0]) == "nil" {
						if c, ok := x.Results[1].(*ast.CallExpr); ok && exprString(c.Fun) == "fmt.Errorf" {
							out = append(out, "FSReturnError")
							continue
						}
					}
				}
				out = append(out, "FSUnknown")
			case *ast.AssignStmt:
				if len(x.Rhs) == 1 && len(x.Lhs) == 2 && exprString(x.Lhs[1]) == "err" {
					if c, ok := x.Rhs[0].(*ast.CallExpr); ok && len(c.Args) == 0 && impl(exprString(c.Fun)) != "" {
						out = append(out, "FSBind "+impl(exprString(c.Fun)))
						continue
					}
				}
				out = append(out, "FSUnknown")
			case *ast.DeclStmt:
				if gd, ok := x.Decl.(*ast.GenDecl); ok && gd.Tok == token.VAR {
					for _, sp := range gd.Specs {
						vs := sp.(*ast.ValueSpec)
						if vs.Type != nil && exprString(vs.Type) == "*sack.NotSupportedError" {
							for _, n := range vs.Names {
								notSupVars[n.Name] = true
							}
						}
					}
					continue
				}
				out = append(out, "FSUnknown")
			case *ast.IfStmt:
				if x.Init != nil || x.Else != nil || len(x.Body.List) != 1 {
					out = append(out, "FSUnknown")
					continue
				}
				ret, ok := x.Body.List[0].(*ast.ReturnStmt)
				if !ok {
					out = append(out, "FSUnknown")
					continue
				}
				// if errors.As(err, &v) { return doX() }
				if c, ok := x.Cond.(*ast.CallExpr); ok && exprString(c.Fun) == "errors.As" && len(c.Args) == 2 && exprString(c.Args[0]) == "err" {
					if u, ok := c.Args[1].(*ast.UnaryExpr); ok && u.Op == token.AND && notSupVars[exprString(u.X)] && len(ret.Results) == 1 {
						if rc, ok := ret.Results[0].(*ast.CallExpr); ok && len(rc.Args) == 0 && impl(exprString(rc.Fun)) != "" {
							out = append(out, "FSIfNotSupReturnCall "+impl(exprString(rc.Fun)))
							continue
						}
					}
				}
				// if err != nil { return nil, fmt.Errorf("... %w", err) }
				if isErrNotNil(x.Cond) && len(ret.Results) == 2 && exprString(ret.Results[0]) == "nil" {
					if c, ok := ret.Results[1].(*ast.CallExpr); ok && exprString(c.Fun) == "fmt.Errorf" && len(c.Args) >= 2 {
						keeps := false
						if bl, ok := c.Args[0].(*ast.BasicLit); ok && strings.Contains(bl.Value, "%w") && exprString(c.Args[len(c.Args)-1]) == "err" {
							keeps = true
						}
						out = append(out, fmt.Sprintf("FSIfErrReturnWrapped %v", keeps))
						continue
					}
					if exprString(ret.Results[1]) == "err" {
						out = append(out, "FSIfErrReturnPlain")
						continue
					}
				}
				out = append(out, "FSUnknown")
			default:
				out = append(out, "FSUnknown")
			}
		}
		return coqList(out)
	}
	if !ok {
		notes = append(notes, "performTCPFallback not found")
	} else {
		for _, s := range fd.Body.List {
			switch x := s.(type) {
			case *ast.IfStmt:
				// if tcpMethod == "" { tcpMethod = "syn" }
				if b, ok := x.Cond.(*ast.BinaryExpr); ok && b.Op == token.EQL && exprString(b.X) == "tcpMethod" && len(x.Body.List) == 1 {
					if bl, ok := b.Y.(*ast.BasicLit); ok && bl.Value == `""` {
						if as, ok := x.Body.List[0].(*ast.AssignStmt); ok && exprString(as.Lhs[0]) == "tcpMethod" {
							if m := methodOf(as.Rhs[0]); m != "" {
								emptyIs = m
								continue
							}
						}
					}
				}
				notes = append(notes, "unrecognised if before the switch")
				def = "[FSUnknown]"
			case *ast.SwitchStmt:
				if exprString(x.Tag) != "tcpMethod" {
					notes = append(notes, "switch over something else")
					continue
				}
				for _, c := range x.Body.List {
					cc := c.(*ast.CaseClause)
					body := trBlock(cc.Body)
					if cc.List == nil {
						def = body
						continue
					}
					for _, e := range cc.List {
						m := methodOf(e)
						if m == "" {
							notes = append(notes, "unknown case label "+exprString(e))
							continue
						}
						cases[m] = body
					}
				}
			default:
				notes = append(notes, fmt.Sprintf("statement %T", s))
			}
		}
	}
	var b strings.Builder
	b.WriteString("(** GENERATED on every run by tools/goextract (fallback.go) from traceroute/runner.go performTCPFallback.  Do not edit.\n")
	for _, n := range notes {
		b.WriteString("    NOTE: " + n + "\n")
	}
	b.WriteString("*)\nFrom Coq Require Import List.\nFrom TR Require Import Pol.Params Pol.FallbackProg.\nImport ListNotations.\n\n")
	fmt.Fprintf(&b, "Definition go_fallback_empty_method_is : tmethod := %s.\n", emptyIs)
	for _, m := range []string{"MSyn", "MSack", "MSynSocket", "MPrefer"} {
		body, ok := cases[m]
		if !ok {
			body = "[FSUnknown]"
		}
		fmt.Fprintf(&b, "Definition go_fallback_case_%s : list fstep := %s.\n", m, body)
	}
	fmt.Fprintf(&b, "Definition go_fallback_default : list fstep := %s.\n", def)
	return b.String(), nil
}
