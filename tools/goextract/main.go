// goextract: tie kind A translator.  Reads /repo's Go sources with go/ast and
// writes Coq files under -out: JSON struct tags of result/result.go, constants.
package main

import (
	"flag"
	"fmt"
	"go/ast"
	"go/constant"
	"go/parser"
	"go/token"
	"go/types"
	"os"
	"path/filepath"
	"reflect"
	"sort"
	"strconv"
	"strings"
)

func coqStr(s string) string {
	bs := make([]string, len(s))
	for i := 0; i < len(s); i++ {
		bs[i] = strconv.Itoa(int(s[i]))
	}
	return "[" + strings.Join(bs, "; ") + "]"
}

func jsonTags(repo string) (string, error) {
	fset := token.NewFileSet()
	f, err := parser.ParseFile(fset, filepath.Join(repo, "result/result.go"), nil, 0)
	if err != nil {
		return "", err
	}
	type ent struct{ st, field, typ, tag string }
	var ents []ent
	ast.Inspect(f, func(n ast.Node) bool {
		ts, ok := n.(*ast.TypeSpec)
		if !ok {
			return true
		}
		st, ok := ts.Type.(*ast.StructType)
		if !ok {
			return true
		}
		for _, fl := range st.Fields.List {
			tag := ""
			if fl.Tag != nil {
				raw, _ := strconv.Unquote(fl.Tag.Value)
				tag = reflect.StructTag(raw).Get("json")
			}
			typ := types.ExprString(fl.Type)
			for _, nm := range fl.Names {
				ents = append(ents, ent{ts.Name.Name, nm.Name, typ, tag})
			}
		}
		return true
	})
	sort.SliceStable(ents, func(i, j int) bool {
		if ents[i].st != ents[j].st {
			return ents[i].st < ents[j].st
		}
		return false
	})
	var b strings.Builder
	b.WriteString("(** GENERATED on every run by tools/goextract from /repo/result/result.go.  Do not edit. *)\n")
	b.WriteString("From Coq Require Import List ZArith.\nImport ListNotations.\nOpen Scope Z_scope.\n\n")
	b.WriteString("(** (struct, field, Go type, json tag) as byte strings, struct-sorted, fields in declaration order *)\n")
	b.WriteString("Definition json_tags : list (list Z * list Z * list Z * list Z) :=\n  [")
	for i, e := range ents {
		if i > 0 {
			b.WriteString(";\n   ")
		}
		fmt.Fprintf(&b, "(%s, %s, %s, %s) (* %s.%s %s `%s` *)", coqStr(e.st), coqStr(e.field), coqStr(e.typ), coqStr(e.tag), e.st, e.field, e.typ, e.tag)
	}
	b.WriteString("].\n")
	return b.String(), nil
}

// constants: named constants evaluated with go/types
func consts(repo string) (string, error) {
	want := map[string][]string{
		"common":     {"DefaultPort", "DefaultMinTTL", "DefaultMaxTTL", "DefaultDelay", "DefaultNetworkPathTimeout", "DefaultTracerouteQueries", "DefaultNumE2eProbes"},
		"publicip":   {"ipCheckerCallTimeout", "defaultPublicIPCacheExpiration"},
		"reversedns": {"reverseDnsDefaultTimeout", "reverseDnsCacheTLL"},
		"cache":      {"defaultExpire", "defaultPurge"},
	}
	var b strings.Builder
	b.WriteString("(** GENERATED on every run by tools/goextract from /repo.  Do not edit. *)\nFrom Coq Require Import ZArith.\nOpen Scope Z_scope.\n\n")
	pkgs := make([]string, 0, len(want))
	for p := range want {
		pkgs = append(pkgs, p)
	}
	sort.Strings(pkgs)
	for _, pkg := range pkgs {
		fset := token.NewFileSet()
		ps, err := parser.ParseDir(fset, filepath.Join(repo, pkg), func(fi os.FileInfo) bool {
			return !strings.HasSuffix(fi.Name(), "_test.go") && !strings.Contains(fi.Name(), "verif")
		}, 0)
		if err != nil {
			return "", err
		}
		for _, p := range ps {
			var files []*ast.File
			for _, f := range p.Files {
				files = append(files, f)
			}
			conf := types.Config{Importer: nil, Error: func(error) {}, FakeImportC: true}
			info := &types.Info{Defs: map[*ast.Ident]types.Object{}}
			conf.Importer = fakeImporter{}
			conf.Check(pkg, fset, files, info)
			found := map[string]string{}
			for id, ob := range info.Defs {
				if c, ok := ob.(*types.Const); ok && c.Val() != nil {
					if v, ok := constant.Int64Val(constant.ToInt(c.Val())); ok {
						found[id.Name] = strconv.FormatInt(v, 10)
					}
				}
			}
			for _, nm := range want[pkg] {
				v, ok := found[nm]
				if !ok {
					// fall back: syntactic evaluation of simple "N * time.Unit" expressions
					v = syntactic(files, nm)
				}
				if v == "" {
					return "", fmt.Errorf("constant %s.%s not found", pkg, nm)
				}
				fmt.Fprintf(&b, "Definition %s_%s : Z := %s.\n", pkg, nm, v)
			}
		}
	}
	return b.String(), nil
}

var units = map[string]int64{"Nanosecond": 1, "Microsecond": 1e3, "Millisecond": 1e6, "Second": 1e9, "Minute": 60e9, "Hour": 3600e9}

func evalExpr(e ast.Expr) (int64, bool) {
	switch x := e.(type) {
	case *ast.BasicLit:
		v, err := strconv.ParseInt(x.Value, 0, 64)
		return v, err == nil
	case *ast.SelectorExpr:
		if id, ok := x.X.(*ast.Ident); ok && id.Name == "time" {
			u, ok := units[x.Sel.Name]
			return u, ok
		}
	case *ast.BinaryExpr:
		a, ok1 := evalExpr(x.X)
		c, ok2 := evalExpr(x.Y)
		if ok1 && ok2 {
			switch x.Op {
			case token.MUL:
				return a * c, true
			case token.ADD:
				return a + c, true
			}
		}
	case *ast.ParenExpr:
		return evalExpr(x.X)
	}
	return 0, false
}

func syntactic(files []*ast.File, name string) string {
	for _, f := range files {
		for _, d := range f.Decls {
			gd, ok := d.(*ast.GenDecl)
			if !ok || gd.Tok != token.CONST {
				continue
			}
			for _, s := range gd.Specs {
				vs := s.(*ast.ValueSpec)
				for i, n := range vs.Names {
					if n.Name == name && i < len(vs.Values) {
						if v, ok := evalExpr(vs.Values[i]); ok {
							return strconv.FormatInt(v, 10)
						}
					}
				}
			}
		}
	}
	return ""
}

type fakeImporter struct{}

func (fakeImporter) Import(path string) (*types.Package, error) {
	return nil, fmt.Errorf("imports not resolved (syntactic fallback used)")
}

func main() {
	repo := flag.String("repo", "/repo", "")
	out := flag.String("out", "", "")
	flag.Parse()
	s, err := jsonTags(*repo)
	if err != nil {
		fmt.Fprintln(os.Stderr, err)
		os.Exit(1)
	}
	if err := os.WriteFile(filepath.Join(*out, "JsonTags.v"), []byte(s), 0o644); err != nil {
		fmt.Fprintln(os.Stderr, err)
		os.Exit(1)
	}
	c, err := consts(*repo)
	if err != nil {
		fmt.Fprintln(os.Stderr, err)
		os.Exit(1)
	}
	if err := os.WriteFile(filepath.Join(*out, "Consts.v"), []byte(c), 0o644); err != nil {
		fmt.Fprintln(os.Stderr, err)
		os.Exit(1)
	}
	a, err := accesses(*repo)
	if err != nil {
		fmt.Fprintln(os.Stderr, err)
		os.Exit(1)
	}
	if err := os.WriteFile(filepath.Join(*out, "Accesses.v"), []byte(a), 0o644); err != nil {
		fmt.Fprintln(os.Stderr, err)
		os.Exit(1)
	}
	st, err := structure(*repo)
	if err != nil {
		fmt.Fprintln(os.Stderr, err)
		os.Exit(1)
	}
	if err := os.WriteFile(filepath.Join(*out, "Structure.v"), []byte(st), 0o644); err != nil {
		fmt.Fprintln(os.Stderr, err)
		os.Exit(1)
	}
	gx, err := goExprs(*repo)
	if err != nil {
		fmt.Fprintln(os.Stderr, err)
		os.Exit(1)
	}
	for name, content := range gx {
		if err := os.WriteFile(filepath.Join(*out, name), []byte(content), 0o644); err != nil {
			fmt.Fprintln(os.Stderr, err)
			os.Exit(1)
		}
	}
	fb, err := fallback(*repo)
	if err != nil {
		fmt.Fprintln(os.Stderr, err)
		os.Exit(1)
	}
	if err := os.WriteFile(filepath.Join(*out, "Fallback.v"), []byte(fb), 0o644); err != nil {
		fmt.Fprintln(os.Stderr, err)
		os.Exit(1)
	}
	fu, err := filterUse(*repo)
	if err != nil {
		fmt.Fprintln(os.Stderr, err)
		os.Exit(1)
	}
	if err := os.WriteFile(filepath.Join(*out, "FilterUse.v"), []byte(fu), 0o644); err != nil {
		fmt.Fprintln(os.Stderr, err)
		os.Exit(1)
	}
	l, err := lifecycles(*repo)
	if err != nil {
		fmt.Fprintln(os.Stderr, err)
		os.Exit(1)
	}
	if err := os.WriteFile(filepath.Join(*out, "Lifecycles.v"), []byte(l), 0o644); err != nil {
		fmt.Fprintln(os.Stderr, err)
		os.Exit(1)
	}
}
