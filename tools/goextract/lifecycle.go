// Handle-lifecycle translator (C10, tie kind A): every function of the repository that opens a capture/send handle
// pair with packets.NewSourceSink is translated into a small program over handle operations (Pol/HandleProg.v):
// open, fallible step with its error block, branch, explicit closes, deferred closes, return.  Anything that touches
// the handles in a way the translator does not understand becomes HUnknown, which no proof accepts.
package main

import (
	"fmt"
	"go/ast"
	"go/parser"
	"go/token"
	"os"
	"path/filepath"
	"sort"
	"strings"
)

type lcProg struct {
	name  string
	stmts []string
	notes []string
}

// driverClosesBoth: the package declares a Close method whose body closes X.sink and X.source exactly once each.
func driverClosesBoth(files []*ast.File) map[string]bool {
	out := map[string]bool{}
	for _, f := range files {
		for _, d := range f.Decls {
			fd, ok := d.(*ast.FuncDecl)
			if !ok || fd.Name.Name != "Close" || fd.Recv == nil || fd.Body == nil || len(fd.Recv.List) != 1 {
				continue
			}
			recvType := exprString(fd.Recv.List[0].Type)
			recvType = strings.TrimPrefix(recvType, "*")
			sink, source := 0, 0
			ast.Inspect(fd.Body, func(n ast.Node) bool {
				c, ok := n.(*ast.CallExpr)
				if !ok {
					return true
				}
				s := exprString(c.Fun)
				if strings.HasSuffix(s, ".sink.Close") {
					sink++
				}
				if strings.HasSuffix(s, ".source.Close") {
					source++
				}
				return true
			})
			if sink == 1 && source == 1 {
				out[recvType] = true
			}
		}
	}
	return out
}

func exprString(e ast.Expr) string {
	switch x := e.(type) {
	case *ast.Ident:
		return x.Name
	case *ast.SelectorExpr:
		return exprString(x.X) + "." + x.Sel.Name
	case *ast.StarExpr:
		return "*" + exprString(x.X)
	case *ast.CallExpr:
		return exprString(x.Fun) + "()"
	case *ast.UnaryExpr:
		return x.Op.String() + exprString(x.X)
	case *ast.BinaryExpr:
		return exprString(x.X) + " " + x.Op.String() + " " + exprString(x.Y)
	case *ast.ParenExpr:
		return "(" + exprString(x.X) + ")"
	}
	return fmt.Sprintf("<%T>", e)
}

type lcCtx struct {
	handle     string          // name of the variable holding the SourceSinkHandle
	drivers    map[string]bool // variables built from handle.Sink and handle.Source whose Close closes both
	closesBoth map[string]bool // driver types (by constructor result) — approximated per package
	pkgHasBoth bool
	notes      []string
}

// closeKind classifies a call: "" not a handle close, "src", "snk", "both".
func (c *lcCtx) closeKind(call *ast.CallExpr) string {
	s := exprString(call.Fun)
	switch {
	case s == c.handle+".Source.Close":
		return "src"
	case s == c.handle+".Sink.Close":
		return "snk"
	}
	if strings.HasSuffix(s, ".Close") {
		v := strings.TrimSuffix(s, ".Close")
		if c.drivers[v] {
			return "both"
		}
	}
	return ""
}

func (c *lcCtx) mentionsHandle(n ast.Node) bool {
	found := false
	ast.Inspect(n, func(m ast.Node) bool {
		if id, ok := m.(*ast.Ident); ok && (id.Name == c.handle || c.drivers[id.Name]) {
			found = true
		}
		return !found
	})
	return found
}

func containsReturnOrClose(c *lcCtx, n ast.Node) bool {
	found := false
	ast.Inspect(n, func(m ast.Node) bool {
		switch x := m.(type) {
		case *ast.ReturnStmt:
			found = true
		case *ast.CallExpr:
			if c.closeKind(x) != "" {
				found = true
			}
		case *ast.FuncLit:
			return false
		}
		return !found
	})
	return found
}

// simple block: only closes, returns and statements that do not close / return
func (c *lcCtx) simpleBlock(b *ast.BlockStmt) ([]string, bool) {
	var out []string
	for _, s := range b.List {
		switch x := s.(type) {
		case *ast.ExprStmt:
			if call, ok := x.X.(*ast.CallExpr); ok {
				switch c.closeKind(call) {
				case "src":
					out = append(out, "SCloseSrc")
					continue
				case "snk":
					out = append(out, "SCloseSnk")
					continue
				case "both":
					out = append(out, "SCloseBoth")
					continue
				}
			}
			if containsReturnOrClose(c, s) {
				return nil, false
			}
		case *ast.ReturnStmt:
			out = append(out, "SReturn")
			return out, true
		case *ast.DeferStmt:
			return nil, false
		default:
			if containsReturnOrClose(c, s) {
				return nil, false
			}
		}
	}
	return out, true
}

func isErrNotNil(e ast.Expr) bool {
	b, ok := e.(*ast.BinaryExpr)
	if !ok || b.Op != token.NEQ {
		return false
	}
	return exprString(b.X) == "err" && exprString(b.Y) == "nil"
}

func coqList(xs []string) string { return "[" + strings.Join(xs, "; ") + "]" }

func translateFunc(fd *ast.FuncDecl, closesBoth bool) (*lcProg, bool) {
	// find the NewSourceSink assignment among the top-level statements
	idx := -1
	ctx := &lcCtx{drivers: map[string]bool{}, pkgHasBoth: closesBoth}
	for i, s := range fd.Body.List {
		as, ok := s.(*ast.AssignStmt)
		if !ok || len(as.Rhs) != 1 {
			continue
		}
		call, ok := as.Rhs[0].(*ast.CallExpr)
		if !ok {
			continue
		}
		fn := exprString(call.Fun)
		if fn == "packets.NewSourceSink" || fn == "NewSourceSink" {
			if id, ok := as.Lhs[0].(*ast.Ident); ok {
				ctx.handle = id.Name
				idx = i
				break
			}
		}
	}
	if idx < 0 {
		return nil, false
	}
	name := fd.Name.Name
	if fd.Recv != nil && len(fd.Recv.List) == 1 {
		name = strings.TrimPrefix(exprString(fd.Recv.List[0].Type), "*") + "_" + name
	}
	p := &lcProg{name: name}
	emit := func(s string) { p.stmts = append(p.stmts, s) }
	list := fd.Body.List
	// the open itself: must be followed by `if err != nil { ... return }` with nothing to close
	emit("HOpen")
	i := idx + 1
	if i < len(list) {
		if ifs, ok := list[i].(*ast.IfStmt); ok && ifs.Init == nil && isErrNotNil(ifs.Cond) && ifs.Else == nil {
			blk, ok := ctx.simpleBlock(ifs.Body)
			if !ok || len(blk) != 1 || blk[0] != "SReturn" {
				emit("HUnknown")
				p.notes = append(p.notes, "error block of NewSourceSink is not a plain return")
			}
			i++
		} else {
			emit("HUnknown")
			p.notes = append(p.notes, "NewSourceSink not followed by an error check")
		}
	}
	pendingFallible := false
	flush := func() {
		// a fallible call whose error is not checked right away: nothing to model
		pendingFallible = false
	}
	for ; i < len(list); i++ {
		s := list[i]
		switch x := s.(type) {
		case *ast.AssignStmt:
			flush()
			// driver := newXDriver(..., handle.Sink, handle.Source)
			if len(x.Rhs) == 1 {
				if call, ok := x.Rhs[0].(*ast.CallExpr); ok {
					sink, source := false, false
					for _, a := range call.Args {
						switch exprString(a) {
						case ctx.handle + ".Sink":
							sink = true
						case ctx.handle + ".Source":
							source = true
						}
					}
					if sink && source {
						if id, ok := x.Lhs[0].(*ast.Ident); ok {
							if ctx.pkgHasBoth {
								ctx.drivers[id.Name] = true
							} else {
								emit("HUnknown")
								p.notes = append(p.notes, "driver built from the handles but no Close method closing sink and source once each was found")
							}
						}
					}
					for _, l := range x.Lhs {
						if exprString(l) == "err" {
							pendingFallible = true
						}
					}
					if containsReturnOrClose(ctx, call) && ctx.closeKind(call) != "" {
						emit("HUnknown")
					}
				}
			}
		case *ast.IfStmt:
			if x.Else != nil {
				if containsReturnOrClose(ctx, x) {
					emit("HUnknown")
					p.notes = append(p.notes, "if/else touching handles or returning")
				}
				pendingFallible = false
				continue
			}
			blk, ok := ctx.simpleBlock(x.Body)
			if !ok {
				emit("HUnknown")
				p.notes = append(p.notes, "block too complex: "+exprString(x.Cond))
				pendingFallible = false
				continue
			}
			errCheck := isErrNotNil(x.Cond)
			if errCheck && (pendingFallible || x.Init != nil) {
				emit("HMayFail " + coqList(blk))
			} else if len(blk) > 0 {
				emit("HBranch " + coqList(blk))
			}
			pendingFallible = false
		case *ast.ExprStmt:
			flush()
			if call, ok := x.X.(*ast.CallExpr); ok {
				switch ctx.closeKind(call) {
				case "src":
					emit("HClose SCloseSrc")
				case "snk":
					emit("HClose SCloseSnk")
				case "both":
					emit("HClose SCloseBoth")
				default:
					if containsReturnOrClose(ctx, call) {
						emit("HUnknown")
					}
				}
			}
		case *ast.DeferStmt:
			flush()
			switch ctx.closeKind(x.Call) {
			case "src":
				emit("HDefer SCloseSrc")
			case "snk":
				emit("HDefer SCloseSnk")
			case "both":
				emit("HDefer SCloseBoth")
			default:
				if containsReturnOrClose(ctx, x.Call) {
					emit("HUnknown")
					p.notes = append(p.notes, "deferred closure touching handles")
				}
			}
		case *ast.ReturnStmt:
			flush()
			emit("HReturn")
		case *ast.DeclStmt, *ast.IncDecStmt, *ast.EmptyStmt:
			flush()
		default:
			flush()
			if containsReturnOrClose(ctx, s) {
				emit("HUnknown")
				p.notes = append(p.notes, fmt.Sprintf("statement %T touching handles or returning", s))
			}
		}
	}
	return p, true
}

func lifecycles(repo string) (string, error) {
	var progs []*lcProg
	dirs := []string{"udp", "tcp", "icmp", "sack", "traceroute", "common", "packets"}
	for _, d := range dirs {
		fset := token.NewFileSet()
		ents, err := os.ReadDir(filepath.Join(repo, d))
		if err != nil {
			continue
		}
		var files []*ast.File
		var names []string
		for _, e := range ents {
			n := e.Name()
			if !strings.HasSuffix(n, ".go") || strings.HasSuffix(n, "_test.go") || strings.Contains(n, "verif") ||
				strings.HasSuffix(n, "_windows.go") || strings.HasSuffix(n, "_darwin.go") || strings.HasSuffix(n, "_unsupported.go") {
				continue
			}
			f, err := parser.ParseFile(fset, filepath.Join(repo, d, n), nil, 0)
			if err != nil {
				return "", err
			}
			files = append(files, f)
			names = append(names, n)
		}
		both := driverClosesBoth(files)
		for fi, f := range files {
			for _, decl := range f.Decls {
				fd, ok := decl.(*ast.FuncDecl)
				if !ok || fd.Body == nil {
					continue
				}
				if d == "packets" && fd.Name.Name == "NewSourceSink" {
					continue // the constructor itself: modelled by HOpen
				}
				p, ok := translateFunc(fd, len(both) > 0)
				if !ok {
					continue
				}
				p.name = d + "_" + p.name
				p.notes = append([]string{d + "/" + names[fi]}, p.notes...)
				progs = append(progs, p)
			}
		}
	}
	sort.Slice(progs, func(i, j int) bool { return progs[i].name < progs[j].name })
	var b strings.Builder
	b.WriteString("(** GENERATED on every run by tools/goextract (lifecycle.go) from the functions of /repo that call\n    packets.NewSourceSink.  Do not edit. *)\n")
	b.WriteString("From Coq Require Import List.\nFrom TR Require Import Pol.HandleProg.\nImport ListNotations.\n\n")
	var ns []string
	for _, p := range progs {
		fmt.Fprintf(&b, "(* %s *)\nDefinition lc_%s : list hstmt :=\n  %s.\n\n", strings.Join(p.notes, "; "), p.name, coqList(p.stmts))
		ns = append(ns, "lc_"+p.name)
	}
	fmt.Fprintf(&b, "Definition all_lifecycles : list (list hstmt) := %s.\n", coqList(ns))
	return b.String(), nil
}
