#!/bin/bash
# usage: confirm_mutant.sh <Cxx> <A|B>  — confirms a seeded change in its scratch worktree /tmp/mut/<Cxx>:
# suite passes with the change, demo fails with it, demo passes without it.  Writes /tmp/mut/<Cxx>-out/<X>/confirm.json
id=$1; x=$2
wt=/tmp/mut/$id; out=/tmp/mut/$id-out/$x
export GOFLAGS=-mod=mod GOPROXY=off
cd $wt || exit 2
git checkout -q -- . && git clean -fdq
demo=$(ls $out/*_test.go 2>/dev/null | head -1)
[ -z "$demo" ] && { echo "{\"id\":\"$id\",\"x\":\"$x\",\"error\":\"no demo test\"}" > $out/confirm.json; exit 1; }
pkg=$(grep -m1 '^package ' $demo | awk '{print $2}' | sed 's/_test$//')
dir=$pkg; [ -d "$wt/$dir" ] || dir=$(grep -rl "^package $pkg\$" --include=*.go . | head -1 | xargs dirname)
tags=""; grep -q 'go:build.*verif' $demo && tags="-tags verif"
race=""; [ "$id" = "C14" ] && race="-race"
git apply $out/patch.diff || { echo "{\"id\":\"$id\",\"x\":\"$x\",\"error\":\"patch does not apply\"}" > $out/confirm.json; exit 1; }
go test -vet=off -count=1 ./... > $out/suite_with.log 2>&1; suite=$?
cp $demo $dir/zz_demo_test.go
timeout 600 go test $tags $race -vet=off -count=1 -run 'Demo|demo|C[0-9][0-9]' ./$dir/ > $out/demo_with.log 2>&1; with=$?
git checkout -q -- . ; 
timeout 600 go test $tags $race -vet=off -count=1 -run 'Demo|demo|C[0-9][0-9]' ./$dir/ > $out/demo_without.log 2>&1; without=$?
rm -f $dir/zz_demo_test.go; git checkout -q -- . && git clean -fdq
echo "{\"id\":\"$id\",\"x\":\"$x\",\"dir\":\"$dir\",\"suite_with_change_exit\":$suite,\"demo_with_change_exit\":$with,\"demo_without_change_exit\":$without,\"cmd_suite\":\"go test -vet=off -count=1 ./...\",\"cmd_demo\":\"go test $tags $race -vet=off -count=1 -run 'Demo|demo|C[0-9][0-9]' ./$dir/\"}" > $out/confirm.json
cat $out/confirm.json
