#!/usr/bin/env python3
"""store_c.py <Cxx> [variant] — copies a confirmed seeded change from /tmp/seed-out/<Cxx>-<V>/ into /verif/seeded/."""
import json, sys, shutil, os, subprocess
HEAD = subprocess.run(['git', '-C', '/repo', 'rev-parse', '--short', 'HEAD'], capture_output=True, text=True).stdout.strip()
pid = sys.argv[1]; x = sys.argv[2] if len(sys.argv) > 2 else 'C'
src = f'/tmp/seed-out/{pid}-{x}'; dst = f'/verif/seeded/{pid}-{x}'
c = json.load(open(src + '/confirm.json'))
assert c['suite_with_change_exit'] == 0 and c['demo_with_change_exit'] != 0 and c['demo_without_change_exit'] == 0, c
os.makedirs(dst, exist_ok=True)
for f in ('patch.diff', 'demo_test.go', 'notes.md'):
    shutil.copy(f'{src}/{f}', f'{dst}/{f}')
title = [json.loads(l) for l in open('/verif/properties.jsonl') if json.loads(l)['id'] == pid][0]['title']
notes = open(f'{dst}/notes.md').read().strip().splitlines()[0]
meta = {"property": pid, "variant": x, "breaks": title,
        "needs_to_manifest": "see notes.md (written by the sub-agent that produced the change): " + notes,
        "confirmed_by_me": {"worktree": f"/tmp/mutc/{pid} (scratch git worktree of /repo at {HEAD}, since removed)",
                            "suite_with_change": c['cmd_suite'] + " -> all packages ok (exit 0)",
                            "demo_with_change": c['cmd_demo'] + f" -> FAIL (exit {c['demo_with_change_exit']})",
                            "demo_without_change": c['cmd_demo'] + " -> PASS (exit 0)", "demo_dir": c['dir']},
        "produced_by": "fresh sub-agent given only the property text and its own scratch worktree"}
json.dump(meta, open(f'{dst}/meta.json', 'w'), indent=1)
print("stored", dst)
