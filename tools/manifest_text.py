HOOK_COMMITS = ["f51bb6a", "89c3e20"]

NOT_BUILT = "claimed in DESIGN.md; its check is not built yet in this round (work in progress, not a judgement that proof cannot apply)"
NOT_APPLICABLE = {("C%02d" % i): NOT_BUILT for i in range(1, 21)}

TEXT = {}
TEXT["C12"] = dict(
    text="Machine-checked theorems (Coq, all frames of any length, all configurations) that each capture program regenerated from the source on "
         "this run accepts exactly the frames of its field-level specification; plus a correspondence run of the same programs in x/net/bpf's VM "
         "against the Coq interpreter and the spec over the equivalence classes the property lists.",
    note="Tie kind A: programs are dumped from /repo via a verif-tagged accessor and the TCP generator is templated with marker configurations "
         "then re-validated. Trusted: Coq kernel, the dump/template translator, x/net/bpf VM = kernel cBPF semantics. Linking theorem (matcher hop => filter accepts) "
         "see level text once built.",
    technique="Coq proof over a cBPF interpreter on programs regenerated from source + differential run against bpf.VM",
)

TEXT["C03"] = dict(
    text="Coq theorems: for every first/last pair and EVERY sequence of accepted replies, the engines' data path (validate, merge, clip, ToHops) "
         "returns a non-empty list with consecutive TTLs that ends at the lowest destination-answered TTL (else the last TTL), empty entries for unanswered TTLs, "
         "destination only last; lifted to the timed models of both engines (any network script) and to every reachable state of every interleaving of the "
         "parallel engine's threads. Correspondence: the real engines under a virtual clock vs the timed model (hops, accepted sequence, send log, elapsed) and the "
         "shape predicate evaluated on the implementation's own output.",
    note="Hand-written model tied by correspondence (tie kind B). Trusted: Coq kernel, harness scripted driver + synctest, extraction (cross-checked with vm_compute). "
         "The real protocol drivers are covered by C01/C02, not here.",
    technique="Coq proof (list induction over accepted replies, invariant over a 2-thread transition system) + differential run of the real engines under synctest",
)
TEXT["C07"] = dict(
    text="Coq theorems: the merged table after ANY accepted sequence has, per TTL, the earliest destination reply else the earliest reply (so it depends on the "
         "accepted replies only through those two rules); invariant over all interleavings of sender/receiver/deadline steps of a transition system of the parallel "
         "engine: shared table = merge of accepted so far, sent TTLs = first, first+1, ... Correspondence as for C03, with the merge rule evaluated on the implementation's output; "
         "enumerated exhaustively for <= 3 TTLs x <= 4 replies x all arrival orders, random beyond.",
    note="Atomicity of writeProbe under resultsMu is assumed by the transition system (C14 supports it). Go scheduler not modelled.",
    technique="Coq proof (invariant over all interleavings of a transition system + fold characterisation) + differential run of the real parallel engine under synctest",
)
