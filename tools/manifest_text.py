HOOK_COMMITS = ["f51bb6a", "89c3e20", "f163a3b"]

NOT_BUILT = "claimed in DESIGN.md; its check is not built yet in this round (work in progress, not a judgement that proof cannot apply)"
NOT_APPLICABLE = {("C%02d" % i): NOT_BUILT for i in range(1, 21)}

TEXT = {}
TEXT["C12"] = dict(
    text="Machine-checked theorems (Coq, all frames of any length, all configurations) that each capture program regenerated from the source on "
         "this run accepts exactly the frames of its field-level specification; plus a correspondence run of the same programs in x/net/bpf's VM "
         "against the Coq interpreter and the spec over the equivalence classes the property lists.",
    note="Tie kind A: programs are dumped from /repo via a verif-tagged accessor and the TCP generator is templated with marker configurations "
         "then re-validated. Trusted: Coq kernel, the dump/template translator, x/net/bpf VM = kernel cBPF semantics. Linking property (matcher hop => installed filter accepts): the unrestricted statement is refuted by a machine-checked witness (IPv6 hop-by-hop before ICMPv6 = the recorded known finding); "
         "the restricted statement is PROVED: for every variant, every driver state and every frame that is not IPv6-with-hop-by-hop-first, a frame the matcher turns into a hop is accepted by the installed program (C12_filter_accepts_every_hop), and every segment the SACK handshake reader reacts to passes the SYN-ACK program. Which filter each entry point installs (type, Src = target, Dst = local) is extracted from the source on every run (tools/goextract/filteruse.go) and equated with the model's installed_filter. The proof goes through the decoder MODEL (gopacket modelled, validated by the correspondence); the lab re-checks the linking on the real programs and drivers.",
    technique="Coq proof over a cBPF interpreter on programs regenerated from source + differential run against bpf.VM",
)

TEXT["C03"] = dict(
    text="Coq theorems: for every first/last pair and EVERY sequence of accepted replies, the engines' data path (validate, merge, clip, ToHops) "
         "returns a non-empty list with consecutive TTLs that ends at the lowest destination-answered TTL (else the last TTL), empty entries for unanswered TTLs, "
         "destination only last; lifted to the timed models of both engines (any network script) and to every reachable state of every interleaving of the "
         "parallel engine's threads. Correspondence: the real engines under a virtual clock vs the timed model (hops, accepted sequence, send log, elapsed) and the "
         "shape predicate evaluated on the implementation's own output.",
    note="Hand-written model tied by correspondence (tie kind B). Trusted: Coq kernel, harness scripted driver + synctest, extraction (cross-checked with vm_compute). "
         "The real protocol drivers are covered by C01/C02, not here. Tie kind A as well: validateProbe and clipResults (slices.IndexFunc, the re-slicings) are translated from the source on every run (tools/goextract/exprs.go) and proved equal to the model's valid_probe / clip for all inputs.",
    technique="Coq proof (list induction over accepted replies, invariant over a 2-thread transition system) + differential run of the real engines under synctest",
)
TEXT["C07"] = dict(
    text="Coq theorems: the merged table after ANY accepted sequence has, per TTL, the earliest destination reply else the earliest reply (so it depends on the "
         "accepted replies only through those two rules); invariant over all interleavings of sender/receiver/deadline steps of a transition system of the parallel "
         "engine: shared table = merge of accepted so far, sent TTLs = first, first+1, ... Correspondence as for C03, with the merge rule evaluated on the implementation's output; "
         "enumerated exhaustively for <= 3 TTLs x <= 4 replies x all arrival orders, random beyond.",
    note="Atomicity of writeProbe under resultsMu is assumed by the transition system (C14 supports it). Go scheduler not modelled. Tie kind A as well: the body of writeProbe and the serial engine's merge condition are translated from the source on every run and proved equal to the model's should_update.",
    technique="Coq proof (invariant over all interleavings of a transition system + fold characterisation) + differential run of the real parallel engine under synctest",
)

TEXT["C15"] = dict(
    text="Coq theorems over ALL outcome vectors and ALL completion instants (every completion order): the accumulator keeps a permutation of the successful runs, exactly one RTT sample per probe, "
         "a permutation of all failures; a result exists iff everything succeeded and then has exactly q runs and e samples; the public-IP outcome never changes the verdict or the rest of the result. "
         "Correspondence: real RunTraceroute under synctest with scripted outcomes vs the model, plus the all-or-error predicate (incl. errors.Is exposure of every injected failure) on the implementation's output.",
    note="Model of runTracerouteMulti is hand-written (tie B). Completion order is the sort of virtual completion instants; mutex atomicity assumed (C14).",
    technique="Coq proof (Permutation invariance of the accumulator over all completion orders) + differential run of the real RunTraceroute under synctest")
TEXT["C16"] = dict(
    text="Coq theorems over exact values: reachable iff address; 1 <= min <= avg <= max <= longest run for hop counts and each count within its run; sent/received/loss; min <= avg <= max with min,max members; "
         "0 <= jitter <= max-min; permutation invariance of the order-insensitive statistics; distinctness of fresh identifiers; struct tags regenerated from source = published contract (reflexivity). "
         "Correspondence: Normalize()+JSON of the real code vs the model on generated documents; the self-consistency predicate, key sets and a decode/re-encode round trip evaluated on the implementation's output.",
    note="binary64 rounding: statements are over exact rationals; the correspondence accepts 1e-9 relative error (DESIGN 7, C16). encoding/json, IP text codec, uuid modelled only.",
    technique="Coq proof over exact arithmetic + struct tags regenerated from source (translator) + differential run through the real Normalize/JSON")
TEXT["C17"] = dict(
    text="Coq theorems: the private test equals membership of 10/8, 172.16/12, 192.168/16 (incl. IPv4-mapped) and fc00::/7 for all byte values; redaction keeps count, order and TTLs, leaves no private address, "
         "blanks every derived field of a private hop, leaves other hops untouched, and runs after enrichment and normalisation. Correspondence: the real RunTraceroute with skip-private on block-boundary addresses, "
         "with and without reverse DNS, observed in the JSON; the redaction predicate evaluated against the scripted network truth.",
    note="net.IP.IsPrivate / To4 are modelled (validated by the correspondence on every block boundary). HTTP handler query parsing is covered by C19's lab.",
    technique="Coq proof (finite sweep over byte values lifted to all addresses + list induction) + differential run of the real pipeline")

TEXT["C18"] = dict(
    text="Coq theorems: enrichment attaches exactly the resolver's answer for the same canonical address and changes nothing else; failed lookups leave names empty; cache: hit returns the stored value with zero callbacks, "
         "failures are never stored, a success is served until expiry then recomputed, and over EVERY operation sequence a value served without callback came from an earlier successful callback for that key; providers: the result "
         "is the first provider in order whose behaviour reaches a valid address before its deadline, no later provider is queried, a 4xx/invalid body is final after exactly one request. Correspondence: real RunTraceroute enrichment, "
         "real cache.GetWithExpiration on op sequences, real GetPublicIP over a scripted RoundTripper, all under synctest.",
    note="go-cache, backoff.Retry, net/http are modelled only. Completion orders of concurrent lookups are exercised by synctest scheduling, not enumerated.",
    technique="Coq proof (invariant over cache operation sequences; induction over provider list) + differential runs of the real cache / GetPublicIP / enrichment under synctest")
TEXT["C08"] = dict(
    text="Coq theorems on the timed models: for ANY network script the parallel engine returns before timeout + delay*count + poll and the serial engine within count*max(timeout+poll, delay); with the caller's context cancelled at any "
         "instant the receiver leaves within one poll interval and the sender within one send delay; GetPublicIP ends within providers x per-checker timeout for ANY provider behaviour; constants regenerated from source. "
         "Correspondence: real engines (incl. cancellation at arbitrary instants), real GetPublicIP over a stalling RoundTripper and real reverse-DNS fan-out over a stalled resolver, elapsed virtual time compared exactly.",
    note="PARTIAL: oracles — Source.Read returns by its deadline; HTTP client / resolver return by the deadline of the context they are given. The SACK handshake reader is modelled with time and bounded by its single 500 ms deadline for every packet stream (real reader compared under the virtual clock); the whole SACK run is bounded by composition (dial under the run context is an oracle); the shape of the reader in the source (one deadline armed before the loop, none inside, 500 ms) is regenerated on every run (tools/goextract/structure.go) and equated with the model. The whole request is modelled too (runs in parallel, paced end-to-end probes, public-IP lookup, reverse-DNS enrichment): exact elapsed time compared with the real RunTraceroute under the virtual clock, bound proved (C08_request_bounded); serial-engine cancellation is checked on the implementation only. Tie kind A as well: ProbeCount, TracerouteParallelParams.MaxTimeout and sack.Params.MaxTimeout are translated from the source on every run and proved equal to the model's count / deadline.",
    technique="Coq proof (fuel-indexed induction on timed engine models, bound invariant) + differential timing of the real code under synctest's virtual clock")

_DRVNOTE = ("Tie kind B. The byte-level decoders/builders model third-party gopacket code and are validated, not verified; the theorems are about the matchers' logic on the parsed view plus the decoders' totality. "
            "Probe table = what the real driver stored (replayed from observed sends).")
TEXT["C01"] = dict(text="Coq theorems, all variants / tables / packets / clocks: a hop (t, a) implies the packet is a genuine reply to this run's probe with TTL t (quoted flow + full-width identifier, or a direct reply on the probe's flow), sent by a; lifted to raw bytes and through both engines (every non-empty hop is an accepted reply for that TTL). "
    "Correspondence: ~120k operations of the real drivers (catalogue x perturbation lattice x variants x wrap-around bases) vs the model, with `genuine` evaluated on every hop the implementation reports.", note=_DRVNOTE,
    technique="Coq proof (case analysis of the matchers against an independent genuineness predicate) + differential run of the real drivers over the full perturbation lattice")
TEXT["C02"] = dict(text="Coq theorem: every packet whose parsed view is a genuine reply to the probe with TTL t yields the hop (t, responder, right destination flag) — with soundness, the matcher decides exactly `genuine`. "
    "Correspondence: every catalogue form built by independent builders from the emitted probe bytes must be recognised with the expected TTL and responder, for every variant incl. strict/relaxed and ISN/base wrap-around.",
    note=_DRVNOTE + " Byte-level completeness is proved for all field values for the main IPv4 forms (ICMP error quoting 28 bytes of the probe the model builder emits, echo reply, direct TCP reply) and IPv6 forms (ICMPv6 time-exceeded quoting the whole probe, echo reply, UDP errors) through the whole receive path, and the engine lift (every reply readable by the deadline for a sent TTL is accepted, any script) is proved for the parallel engine. PARTIAL: IP options / extension headers, RFC 4884 forms, truncated IPv6 quotes, TCP over IPv6, SACK forms are correspondence-only; the serial engine lift is proved for the histories C02 names (one reply per TTL, each within its window, no rogue driver).",
    technique="Coq proof (matcher = genuineness predicate, both directions) + differential run of the real drivers on an independently built device catalogue")
TEXT["C04"] = dict(text="Coq theorems: destination flag = the protocol's proof-of-arrival predicate on the packet used; a reply from any non-target address is never proof of arrival; a time-exceeded never marks the destination for ICMP/TCP SYN; e2e RTT = destination hop's RTT or 0. "
    "Correspondence: each destination-form reply from the target, from a router and (lattice) from other addresses with identical identifiers, through the real drivers; e2e value through the real RunTraceroute.", note=_DRVNOTE,
    technique="Coq proof (case analysis) + differential run of the real drivers with target / foreign / router responders")
TEXT["C05"] = dict(text="Coq theorems: a hop's RTT = processing instant - send instant of a probe of this run with that TTL (never another probe's), >= 0 on a monotone clock; engines keep the first accepted reply per TTL (destination override excepted) with the driver's RTT; e2e RTT = destination hop's RTT or 0. "
    "Correspondence under a virtual clock: exact ns RTTs of the real drivers and engines (non-monotone delays, duplicates, overtaking, stale replies).",
    note=_DRVNOTE + " PARTIAL: wake-up latency of a blocked read (<= one poll interval) is runtime behaviour, measured under synctest, not proved.",
    technique="Coq proof (matcher soundness carries the send time; merge rule) + exact virtual-clock timing of the real drivers and engines")
TEXT["C06"] = dict(text="Coq theorems: TTL/hop-limit byte = probed TTL for every builder; identifiers unique per run at every base incl. wrap-around; IPv4 header, ICMPv4 and all TCP segment checksums verify for all field values; emitted TTLs = first, first+1, ... in every interleaving; pacing / stop-after-destination on the timed models via C08's models. "
    "Correspondence: byte-for-byte equality of the real builders' output with the model over all 255 TTLs x variants x wrap-around bases, an independent well-formedness + receiver-side checksum check on the emitted bytes, and the send log of full engine runs.",
    note=_DRVNOTE + " Checksum validity is proved for every builder (IPv4 header, ICMPv4/ICMPv6 echo, UDP, TCP SYN/SACK). Observation (not a finding): gopacket emits a computed UDP checksum of 0 as 0, which IPv6 forbids (1 in 65535 probes). Tie kind A as well: getNextPacketIDAndSeqNum and the UDP/IPv4 IP-ID expression are translated from the source on every run and proved equal to the identifiers the driver model emits.",
    technique="Coq proof (one's-complement arithmetic, modular injectivity, transition-system invariant) + byte-exact differential run of the real packet builders")
TEXT["C09"] = dict(text="Coq theorems, every non-empty byte string / variant / state: the outcome is hop, skip or SACK's not-supported, never a run-aborting error; not-supported iff the packet is a non-SYN/FIN/RST segment from the target on the probed connection without SACK blocks; results depend on accepted replies only. "
    "Correspondence: every truncation length and byte flip of every genuine reply, random bytes, own probes, pre-send traffic through the real drivers: never a panic or fatal error, outcome = model.",
    note=_DRVNOTE + " PARTIAL: freedom from panics inside gopacket / x/net/icmp is exercised (recover around every call), not proved; the zero-length read is fatal by design and unreachable behind the installed filters (DESIGN).",
    technique="Coq proof (totality of decoders + case analysis of matchers) + differential run of the real drivers on the malformed stream")

TEXT["C19"] = dict(text="Coq theorems over ALL integers: an accepted request is executed with exactly the stated TTL range, port (default when 0), protocol and method, all within wire range; TTL bounds outside 1..255, ports outside 1..65535, unknown protocol or method are rejected. "
    "Correspondence: the real RunTraceroute over the simulated wire on the boundary grid (error vs TTLs/address/port/protocol actually emitted), the HTTP handler's query parsing, target literal forms; every driver incl. SACK sending TTL 255 (C06/C09 lab) and the engines at 250..255.",
    note="PARTIAL: target literal parsing (net.SplitHostPort, netip.ParseAddr, DNS) is correspondence-only. Tie kind A as well: the TTL range check of runTracerouteOnce is translated from the source on every run and proved equal to the model's.", technique="Coq proof (arithmetic over all integers) + differential run of the real entry points over a simulated wire on the boundary grid")
TEXT["C20"] = dict(text="Coq theorems over ALL outcomes and ALL error trees (any wrapping depth, errors.Join): sack => SACK trace or the SACK error, SYN never attempted; prefer_sack => SYN attempted iff the SACK error tree contains NotSupported, any other failure returned with every cause, SACK success kept; syn/default => SACK never invoked; "
    "SACK-unavailable = {dial failure, no SACK-permitted, ACK without SACK blocks}; e2e probes use SYN. Correspondence: real performTCPFallback on random error trees; real runTracerouteOnce against a loopback listener with synthesised handshakes and injected faults (probe kinds on the wire, connections opened).",
    note="The classification of real SACK failures (sack_run) is validated by the real runs (kind 12), not proved from the SACK code. Tie kind A as well: performTCPFallback is translated from the source on every run (tools/goextract/fallback.go) into a program over the three implementations and proved to evaluate to the model's perform for every method and every outcome.", technique="Coq proof (induction-free case analysis over outcome/error-tree predicates) + differential run of the real selector and the real TCP entry point")

TEXT["C11"] = dict(text="Coq theorems: IP-ID blocks from ANY allocation sequence and ANY 32-bit counter value share no identifier while <= 65536 are live (incl. both wrap-arounds); n <= 65536 consecutive echo ids are distinct; a packet can be a genuine reply for two ICMP runs only if their echo ids are equal, "
    "for two UDP/TCP/SACK runs only if they probe the same target endpoint and (direct replies / strict checking) use the same local endpoint. With C01 (hop => genuine) replies to one run's probes cannot become another run's hops unless identifiers collide: on raw bytes a reply that is genuine for run B is never a hop for run A (foreign_*_reply_is_noise), and on the engine level, for ANY interleaving of own and foreign packets, nothing foreign enters the result and every own reply readable by the deadline is accepted (shared_wire_isolation). "
    "Correspondence: real allocators (sequential + concurrent goroutines) vs the model; real driver pairs alive together, each fed the other's genuine replies; 2..6 real runs / whole requests at once over one simulated wire where every handle sees every packet, each of which must report the ideal path of its own flow.",
    note="PARTIAL: bit-for-bit equality with the solo result is not provable (nor true) for replies that become readable within one poll interval after the deadline; the engine lift is proved for the parallel engine only; cross-protocol pairs are correspondence-only (shared-wire lab mixes protocols). Residues named in DESIGN (relaxed SACK to one target, Paris mode, UDP fixed IP-ID block). Tie kind A as well: AllocPacketID and nextEchoID are translated from the source on every run (uint32 counter arithmetic, uint16 truncation) and proved equal to the allocator model.",
    technique="Coq proof (modular arithmetic over all counter values; identifier-collision lemma on the genuineness predicate) + differential run of real allocators, of real driver pairs and of concurrent real runs on a shared simulated wire")

TEXT["C10"] = dict(text="Tie kind A: every function of /repo that calls packets.NewSourceSink is translated on every run (tools/goextract/lifecycle.go) into a program over handle operations (open, fallible step + error block, branch, close, defer, return); Coq proves that EVERY execution of every extracted program closes an opened handle pair exactly once each and never before opening it (enumeration of all paths + soundness theorem; statements the translator does not understand are rejected). "
    "Coq theorems over EVERY plan of engine operations and EVERY injected fault (operation, k, class) of the lifecycle program: handles opened are closed exactly once and never used afterwards, the outcome is a success or an error that keeps the cause (zero-length read excepted), an unreached fault changes nothing; never a partial path (C03). "
    "Correspondence + fault enumeration: the real entry points (udp/icmp v4+v6, tcp syn; SACK via the policy lab) over the simulated wire with one fault at every reachable (operation, k) x class.",
    note="PARTIAL: the fault/cause model ([run_entry]) abstracts the entry points' control flow by hand; the translator is syntactic (top-level statements, simple error blocks, driver.Close resolved by finding a Close method that closes sink and source once each); goroutine termination is observed, not proved; faults below the Source/Sink seam are out of reach.",
    technique="Coq proof over handle programs regenerated from the source on every run (all paths) and over an abstract lifecycle program (all plans, all faults) + exhaustive fault injection into the real entry points over a simulated wire")

TEXT["C14"] = dict(text="Coq theorem for ANY access table: if every pair of conflicting accesses (same location, one a write, different thread instances, while the goroutines run) shares a lock, then under every interleaving and lock state no two conflicting accesses are ever enabled together; "
    "the table regenerated from the Go source on this run satisfies the discipline (vm_compute over the finite table), hence no data race in the drivers, the parallel engine, the multi-query aggregator and the reverse-DNS fan-out. "
    "Search for a failing schedule: the real code under Go's race detector over an unsynchronised pre-seeded wire.",
    note="PARTIAL: syntactic lock regions; no alias analysis beyond receiver fields / captured variables / pointer arguments of inlined calls; foreign objects are single locations; the memory model is abstracted to lock mutual exclusion; the translator is trusted (its table is printed with source positions in Generated/Accesses.v).",
    technique="Coq proof (lockset soundness over all interleavings) instantiated on an access table regenerated from the source by a translator; race detector only to exhibit schedules")

TEXT["C13"] = dict(text="Coq composition theorem: against ANY RFC-conformant path (n routers, optionally one silent, then the destination) with the drivers handing the engine exactly the genuine replies (C01/C02), the run reports exactly the router chain followed by the destination — one entry per TTL, silent router empty, "
    "destination the only destination-marked hop, RTTs >= 0; a target without SACK makes method sack fail and prefer_sack fall back (C20). Correspondence against the REAL kernel: the tool over real sockets in network-namespace chains for every protocol variant, compared with the ideal-path prediction.",
    note="PARTIAL by nature: the kernel's conformance is sampled; the theorem makes a disagreement attributable to the socket layer or the kernel. Needs CAP_NET_ADMIN; if namespaces cannot be created the evidence says so and the kernel part covers nothing.",
    technique="Coq proof (composition of matcher/engine theorems over an ideal-network model) + differential run of the real tool over Linux-kernel routers in network namespaces")
