HOOK_COMMITS = ["f51bb6a", "89c3e20"]

NOT_BUILT = "claimed in DESIGN.md; its check is not built yet in this round (work in progress, not a judgement that proof cannot apply)"
NOT_APPLICABLE = {("C%02d" % i): NOT_BUILT for i in range(1, 21)}

TEXT = {}
TEXT["C12"] = dict(
    text="Machine-checked theorems (Coq, all frames of any length, all configurations) that each capture program regenerated from the source on "
         "this run accepts exactly the frames of its field-level specification; plus a correspondence run of the same programs in x/net/bpf's VM "
         "against the Coq interpreter and the spec over the equivalence classes the property lists.",
    note="Tie kind A: programs are dumped from /repo via a verif-tagged accessor and the TCP generator is templated with marker configurations "
         "then re-validated. Trusted: Coq kernel, the dump/template translator, x/net/bpf VM = kernel cBPF semantics. Linking theorem (matcher hop => filter accepts) "
         "see level text once built.",
    technique="Coq proof over a cBPF interpreter on programs regenerated from source + differential run against bpf.VM",
)
