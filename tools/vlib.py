#!/usr/bin/env python3
"""Shared glue for /verif/bin/check: build steps, running labs, the model on
both paths (extracted / kernel), decision logic, evidence and replay files."""
import fcntl, hashlib, json, os, random, re, shutil, subprocess, sys, time

ROOT = "/verif"
REPO = "/repo"
COQ = os.path.join(ROOT, "coq")
BUILD = os.path.join(ROOT, "build")
EVID = os.path.join(ROOT, "evidence")
REPLAY = os.path.join(ROOT, "replay")
GOENV = dict(os.environ, GOFLAGS="-mod=mod", GOPROXY="off", GOTOOLCHAIN="auto")
for k in ("GOSUMDB",):
    GOENV.pop(k, None)

COQ_TIMEOUT = 1500


def sh(cmd, cwd=None, env=None, timeout=None, stdin=None):
    p = subprocess.run(cmd, cwd=cwd, env=env, timeout=timeout, stdout=subprocess.PIPE,
                       stderr=subprocess.STDOUT, text=True, input=stdin)
    return p.returncode, p.stdout


class Lock:
    def __init__(self, name="build"):
        os.makedirs(BUILD, exist_ok=True)
        self.path = os.path.join(BUILD, name + ".lock")

    def __enter__(self):
        self.f = open(self.path, "w")
        fcntl.flock(self.f, fcntl.LOCK_EX)
        return self

    def __exit__(self, *a):
        fcntl.flock(self.f, fcntl.LOCK_UN)
        self.f.close()


def write_if_changed(path, content):
    try:
        if open(path).read() == content:
            return False
    except OSError:
        pass
    os.makedirs(os.path.dirname(path), exist_ok=True)
    open(path, "w").write(content)
    return True


# --------------------------------------------------------------------------- build

def build_harness(log):
    """Rebuild the Go harness against /repo's current working tree (tag verif)."""
    h = os.path.join(ROOT, "harness")
    shutil.copyfile(os.path.join(REPO, "go.sum"), os.path.join(h, "go.sum"))
    rc, out = sh(["go", "test", "-c", "-tags", "verif", "-o", os.path.join(BUILD, "harness.test"), "."],
                 cwd=h, env=GOENV, timeout=900)
    log.append("== go test -c -tags verif (harness)\n" + out)
    return rc == 0, out


def run_lab(name, outdir, seed, tier, log, extra_env=None, timeout=1800):
    if name == "kern":
        return run_kern_lab(outdir, seed, tier, log)
    env = dict(GOENV, VERIF_LAB=name, VERIF_OUT=outdir, VERIF_SEED=str(seed), VERIF_TIER=tier)
    if extra_env:
        env.update(extra_env)
    os.makedirs(outdir, exist_ok=True)
    t0 = time.time()
    try:
        rc, out = sh([os.path.join(BUILD, "harness.test"), "-test.run", "^TestLab$", "-test.timeout", "0"],
                     cwd=os.path.join(ROOT, "harness"), env=env, timeout=timeout)
    except subprocess.TimeoutExpired as e:
        rc, out = 124, "lab timed out\n" + (e.stdout or "")
    log.append("== lab %s rc=%d %.1fs\n%s" % (name, rc, time.time() - t0, out[-4000:]))
    return rc == 0, out


def regenerate(log, seed=1, tier="quick"):
    """Tie kind A: rewrite coq/Generated/*.v from /repo's working tree."""
    gen_out = os.path.join(BUILD, "gen")
    os.makedirs(gen_out, exist_ok=True)
    problems = []
    ok, out = run_lab("bpfdump", gen_out, seed, tier, log)
    if not ok:
        problems.append("lab bpfdump failed: " + out[-600:])
    else:
        tmp = os.path.join(gen_out, "BpfProgs.v")
        rc, o = sh([sys.executable, os.path.join(ROOT, "tools/gen_bpf.py"),
                    os.path.join(gen_out, "bpf_programs.json"), tmp])
        if rc != 0:
            problems.append("gen_bpf: " + o)
        else:
            write_if_changed(os.path.join(COQ, "Generated/BpfProgs.v"), open(tmp).read())
    # Go-source extraction (constants, JSON tags, access table, filter use)
    gx = os.path.join(ROOT, "tools/goextract")
    if os.path.isdir(gx):
        rc, o = sh(["go", "run", ".", "-repo", REPO, "-out", gen_out], cwd=gx, env=GOENV, timeout=600)
        log.append("== goextract rc=%d\n%s" % (rc, o[-3000:]))
        if rc != 0:
            problems.append("goextract failed: " + o[-600:])
        else:
            for fn in sorted(os.listdir(gen_out)):
                if fn.endswith(".v") and fn != "BpfProgs.v":
                    write_if_changed(os.path.join(COQ, "Generated", fn), open(os.path.join(gen_out, fn)).read())
    return problems


def coq_make(log, targets=None):
    """Full .vo build (never -vos) with keep-going, under a shell timeout."""
    mk = os.path.join(COQ, "Makefile")
    cp = os.path.join(COQ, "_CoqProject")
    if not os.path.exists(mk) or os.path.getmtime(mk) < os.path.getmtime(cp):
        sh(["coq_makefile", "-f", "_CoqProject", "-o", "Makefile"], cwd=COQ)
    cmd = ["timeout", str(COQ_TIMEOUT), "make", "-k", "-j16", "COQC=" + os.path.join(ROOT, "bin/coqc-limited")]
    if targets:
        cmd += targets
    rc, out = sh(cmd, cwd=COQ, timeout=COQ_TIMEOUT + 60)
    log.append("== make (coq) rc=%d\n%s" % (rc, out[-6000:]))
    failed = sorted(set(re.findall(r'File "\./([^"]+\.v)", line (\d+)', out)))
    return rc == 0, out, failed


def build_extraction(log):
    """Extract Run/All.v (models + specs, no proofs) and build the OCaml driver."""
    ml = os.path.join(COQ, "Extract/ml")
    os.makedirs(ml, exist_ok=True)
    allvo = os.path.join(COQ, "Run/All.vo")
    exe = os.path.join(BUILD, "tr_model")
    if not os.path.exists(allvo):
        return False, "Run/All.vo missing"
    drv = os.path.join(COQ, "Extract/driver.ml")
    newest = max(os.path.getmtime(allvo), os.path.getmtime(drv), os.path.getmtime(os.path.join(COQ, "Extract/Extract.v")))
    if os.path.exists(exe) and os.path.getmtime(exe) >= newest:
        return True, "up to date"
    rc, out = sh(["timeout", "600", "coqc", "-Q", COQ, "TR", "../Extract.v"], cwd=ml)
    log.append("== extraction rc=%d\n%s" % (rc, out[-2000:]))
    if rc != 0:
        return False, out
    shutil.copyfile(drv, os.path.join(ml, "driver.ml"))
    rc, out = sh(["ocamlfind", "ocamlopt", "-w", "-a", "-O2", "model.mli", "model.ml", "driver.ml", "-o", exe], cwd=ml, timeout=600)
    log.append("== ocamlopt rc=%d\n%s" % (rc, out[-2000:]))
    return rc == 0, out


FORBIDDEN = re.compile(r'\b(Admitted|admit|Axiom|Parameter|Conjecture|Admit Obligations)\b|Unset Guard|bypass_check|type-in-type|impredicative-set|Unset Positivity|Unset Universe')


def grep_forbidden():
    hits = []
    for d, _, fs in os.walk(COQ):
        for f in fs:
            if f.endswith(".v"):
                p = os.path.join(d, f)
                for i, line in enumerate(open(p, errors="replace"), 1):
                    s = re.sub(r'\(\*.*?\*\)', '', line)
                    if FORBIDDEN.search(s):
                        hits.append("%s:%d: %s" % (os.path.relpath(p, COQ), i, line.strip()))
    return hits


def theorem_at(vfile, line):
    """Name of the lemma/theorem enclosing a line of a .v file."""
    name = None
    try:
        for i, l in enumerate(open(os.path.join(COQ, vfile), errors="replace"), 1):
            m = re.match(r'\s*(?:Local\s+|Global\s+)?(Lemma|Theorem|Corollary|Example|Definition|Fixpoint|Fact|Remark|Proposition)\s+([A-Za-z0-9_\']+)', l)
            if m:
                cand = m.group(2)
                if i <= line:
                    name = cand
                else:
                    break
    except OSError:
        pass
    return name


def check_props_file(pid, log):
    """Compile Props/<pid>.v directly and collect theorem names and their
    Print Assumptions output."""
    vf = "Props/%s.v" % pid
    path = os.path.join(COQ, vf)
    src = open(path).read()
    theorems = re.findall(r'^\s*Theorem\s+([A-Za-z0-9_\']+)', src, re.M)
    os.makedirs(os.path.join(BUILD, "props"), exist_ok=True)
    rc, out = sh([os.path.join(ROOT, "bin/coqc-limited"), "-Q", ".", "TR", "-w", "-notation-overridden", "-o", os.path.join(BUILD, "props", "%s.vo" % pid), vf], cwd=COQ)
    log.append("== coqc %s rc=%d\n%s" % (vf, rc, out[-4000:]))
    assumptions = {}
    # Print Assumptions output: either "Closed under the global context" or "Axioms:\n name : type ..."
    blocks = re.split(r'\n(?=Closed under the global context|Axioms:)', "\n" + out)
    pa = [b.strip() for b in blocks if b.strip().startswith(("Closed under", "Axioms:"))]
    printed = re.findall(r'^\s*Print Assumptions\s+([A-Za-z0-9_\']+)', src, re.M)
    for name, b in zip(printed, pa):
        assumptions[name] = "closed" if b.startswith("Closed") else b
    return rc == 0, theorems, assumptions, out


# --------------------------------------------------------------------------- sx

def parse_sx(s, pos=0):
    n = len(s)
    while pos < n and s[pos] in " \t":
        pos += 1
    if pos >= n:
        raise ValueError("unexpected end")
    c = s[pos]
    if c == '(':
        pos += 1
        items = []
        while True:
            while pos < n and s[pos] in " \t":
                pos += 1
            if pos >= n:
                raise ValueError("unterminated")
            if s[pos] == ')':
                return items, pos + 1
            v, pos = parse_sx(s, pos)
            items.append(v)
    if c == '#':
        j = pos + 1
        while j < n and s[j] in "0123456789abcdefABCDEF":
            j += 1
        return ("#", s[pos + 1:j]), j
    j = pos
    while j < n and (s[j].isalnum() or s[j] == '-'):
        j += 1
    return int(s[pos:j], 0), j


def split_case(line):
    a, p = parse_sx(line, 0)
    b, _ = parse_sx(line, p)
    return a, b


def sx_to_gallina(v):
    if isinstance(v, int):
        return "A (%d)" % v
    if isinstance(v, tuple):
        h = v[1]
        bs = [str(int(h[i:i + 2], 16)) for i in range(0, len(h), 2)]
        return "of_bytes [%s]" % "; ".join(bs)
    return "L [%s]" % "; ".join(sx_to_gallina(x) for x in v)


def kernel_eval(propnum, lines, log, timeout=1200):
    """Kernel path: evaluate the verdict codes of the given case lines with
    vm_compute inside coqc.  Returns a list of codes (ints) or None on failure."""
    if not lines:
        return []
    d = os.path.join(BUILD, "kernel")
    os.makedirs(d, exist_ok=True)
    tag = hashlib.sha1(("%d|" % propnum + "\n".join(lines)).encode()).hexdigest()[:12]
    vf = os.path.join(d, "cases_%s.v" % tag)
    with open(vf, "w") as f:
        f.write("From Coq Require Import List ZArith.\nFrom TR Require Import Lib.Sx Run.All.\nImport ListNotations.\nOpen Scope Z_scope.\n")
        f.write("Definition code_of (v : sx) : Z := match v with L (A c :: _) => c | _ => 99 end.\n")
        for i, line in enumerate(lines):
            a, b = split_case(line)
            f.write("Definition i%d : sx := %s.\nDefinition o%d : sx := %s.\n" % (i, sx_to_gallina(a), i, sx_to_gallina(b)))
        f.write("Definition codes : list Z := [%s].\n" % "; ".join("code_of (check %d i%d o%d)" % (propnum, i, i) for i in range(len(lines))))
        f.write("Definition result := Eval vm_compute in codes.\nPrint result.\n")
    rc, out = sh(["timeout", str(timeout), "coqc", "-Q", COQ, "TR", vf], cwd=d)
    for ext in (".vo", ".glob", ".vok", ".vos"):
        try:
            os.remove(vf[:-2] + ext)
        except OSError:
            pass
    try:
        os.remove(os.path.join(d, ".cases_%s.aux" % tag))
    except OSError:
        pass
    if rc != 0:
        log.append("== kernel path failed rc=%d\n%s" % (rc, out[-2000:]))
        return None
    m = re.search(r'result\s*=\s*\[(.*?)\]\s*:\s*list Z', out, re.S)
    if not m:
        if re.search(r'result\s*=\s*\[\s*\]', out):
            return []
        log.append("== kernel path: cannot parse output\n" + out[-2000:])
        return None
    body = m.group(1).replace("\n", " ")
    codes = [int(x.strip().replace("%Z", "").replace("(", "").replace(")", "")) for x in body.split(";") if x.strip()]
    os.remove(vf)
    return codes


def run_model(propnum, cases_path, verdict_path, shards=16):
    """Volume path: the extracted model over a case file, sharded over cores."""
    exe = os.path.join(BUILD, "tr_model")
    size = os.path.getsize(cases_path)
    if size < 4_000_000 or shards <= 1:
        with open(verdict_path, "w") as out:
            p = subprocess.run([exe, str(propnum), cases_path], stdout=out, stderr=subprocess.PIPE, text=True)
        return p.returncode == 0, p.stderr
    lines = open(cases_path).read().split("\n")
    if lines and lines[-1] == "":
        lines.pop()
    n = len(lines)
    per = (n + shards - 1) // shards
    procs = []
    for i in range(shards):
        part = lines[i * per:(i + 1) * per]
        if not part:
            continue
        pp = "%s.part%d" % (cases_path, i)
        open(pp, "w").write("\n".join(part) + "\n")
        vo = open("%s.part%d" % (verdict_path, i), "w")
        procs.append((subprocess.Popen([exe, str(propnum), pp], stdout=vo, stderr=subprocess.PIPE, text=True), pp, vo))
    ok = True
    err = ""
    with open(verdict_path, "w") as out:
        for p, pp, vo in procs:
            _, e = p.communicate()
            vo.close()
            ok = ok and p.returncode == 0
            err += e or ""
            out.write(open(vo.name).read())
            os.remove(vo.name)
            os.remove(pp)
    return ok, err


# --------------------------------------------------------------------------- findings

def load_known_findings():
    p = os.path.join(ROOT, "known_findings.json")
    try:
        d = json.load(open(p))
    except OSError:
        return [], []
    return d.get("findings", []), d.get("fixed", [])


def now():
    return time.time()


# --------------------------------------------------------------------------- C14: race detector + offending pairs

def race_lab(ctx):
    """Build the harness with -race against /repo's working tree and run the 'race' lab: the concurrent parts of the
    repository over an unsynchronised wire.  A report of the race detector is a concrete racy schedule."""
    log = ctx["log"]
    h = os.path.join(ROOT, "harness")
    exe = os.path.join(BUILD, "harness.race.test")
    rc, out = sh(["go", "test", "-race", "-c", "-tags", "verif", "-o", exe, "."], cwd=h, env=GOENV, timeout=900)
    log.append("== go test -race -c (harness)\n" + out[-3000:])
    if rc != 0:
        return dict(broken=[("race-harness-build", out[-1500:])])
    outdir = ctx["outdir"]
    env = dict(GOENV, VERIF_LAB="race", VERIF_OUT=outdir, VERIF_SEED=str(ctx["seed"]), VERIF_TIER=ctx["tier"], GORACE="halt_on_error=0")
    reps = 1 if ctx["tier"] == "quick" else 5
    reports, runs = [], 0
    for _ in range(reps):
        try:
            p = subprocess.run([exe, "-test.run", "^TestLab$", "-test.timeout", "0"], cwd=h, env=env, timeout=600,
                               stdout=subprocess.PIPE, stderr=subprocess.STDOUT, text=True)
            o = p.stdout
        except subprocess.TimeoutExpired as e:
            return dict(broken=[("lab:race", "timed out")])
        runs += 1
        log.append("== lab race rc=%d\n%s" % (p.returncode, o[-3000:]))
        for m in re.finditer(r"WARNING: DATA RACE\n(.*?)\n==================", o, re.S):
            reports.append(m.group(1))
        if p.returncode != 0 and not reports:
            return dict(broken=[("lab:race", o[-2000:])])
    dist = {}
    try:
        dist = json.load(open(os.path.join(outdir, "race.dist.json")))
    except OSError:
        pass
    res = dict(evaluations=sum(dist.values()) * runs if dist else runs, info={"race_detector_runs": runs, "scenarios": dist, "reports": len(reports)},
               samples=[{"lab": "race", "case": "concurrent scenario families run under -race", "scenarios": dist}],
               distinct=[hashlib.blake2b(k.encode(), digest_size=8).digest() for k in dist])
    if reports:
        first = reports[0]
        locs = re.findall(r"(/repo/[^\s:]+:\d+)", first)
        sig = [14, 1]
        res["specfails"] = [("race", "!race-detector", sig, {"report": first[:4000], "locations": locs[:8]})]
    return res


def lockset_pairs(ctx):
    """When the regenerated access table no longer satisfies the discipline, name the offending pairs."""
    vf = os.path.join(BUILD, "kernel", "c14_pairs.v")
    os.makedirs(os.path.dirname(vf), exist_ok=True)
    open(vf, "w").write("From Coq Require Import List ZArith Bool.\nFrom TR Require Import Conc.Lockset Generated.Accesses.\nImport ListNotations.\nOpen Scope Z_scope.\n"
                        "Definition up (t : list acc) := flat_map (fun a => flat_map (fun b => if conflict a b && negb (protected a b) then [(a_sys a, a_thread a, a_loc a, a_thread b)] else []) t) t.\n"
                        "Definition r := Eval vm_compute in up accesses.\nPrint r.\n")
    rc, out = sh(["timeout", "300", "coqc", "-Q", COQ, "TR", vf], cwd=os.path.dirname(vf))
    for ext in (".vo", ".glob", ".vok", ".vos"):
        try:
            os.remove(vf[:-2] + ext)
        except OSError:
            pass
    if rc != 0:
        return dict(info={"pairs": "unavailable: " + out[-300:]})
    pairs = re.findall(r"\((\d+), (\d+), (\d+), (\d+)\)", out)
    names = {}
    try:
        for m in re.finditer(r"mkAcc (\d+) (\d+) \w+ (\d+) (\w+) \[[^\]]*\] \d+ \(\* (.*?) \*\)", open(os.path.join(COQ, "Generated/Accesses.v")).read()):
            names.setdefault((m.group(1), m.group(2), m.group(3)), []).append(m.group(5))
    except OSError:
        pass
    desc = []
    for s, t1, loc, t2 in pairs[:20]:
        desc.append({"system": s, "location_id": loc, "thread_a": t1, "thread_b": t2, "accesses_a": names.get((s, t1, loc), [])[:4], "accesses_b": names.get((s, t2, loc), [])[:4]})
    return dict(info={"unprotected_pairs": desc})



# --------------------------------------------------------------------------- C13: kernel routers in network namespaces

def run_kern_lab(outdir, seed, tier, log):
    """Builds private namespace chains (tools/netlab.py) and runs the harness' kern lab inside the client
    namespace of each: real raw sockets, replies from the kernel's own stack."""
    sys.path.insert(0, os.path.join(ROOT, "tools"))
    import netlab
    os.makedirs(outdir, exist_ok=True)
    exe = os.path.join(BUILD, "harness.test")
    lengths = [1, 2, 3] if tier == "quick" else [1, 2, 3, 4, 5]
    parts, dist, t0 = [], {}, time.time()
    try:
        probe = netlab.Chain(0, "p")
        probe.up()
        probe.down()
    except Exception as e:
        log.append("== kern lab: cannot create network namespaces: %r" % (e,))
        open(os.path.join(outdir, "kern.cases"), "w").write("")
        json.dump({"namespaces_unavailable": 1}, open(os.path.join(outdir, "kern.dist.json"), "w"))
        return True, "namespaces unavailable"
    idx = 0
    for n in lengths:
        variants = [("plain", {}), ("silent", {"silent": max(1, n // 2 + (0 if n < 3 else 0))}), ("nosack", {"nosack": True})] if n >= 2 else [("plain", {})]
        if tier == "quick" and n == 3:
            variants = [("plain", {}), ("silent", {"silent": 2})]
        for vname, opt in variants:
            c = netlab.Chain(n, "k%d%s" % (n, vname[0]))
            try:
                c.up()
                c.listen(8080)
                if opt.get("silent"):
                    c.silence(opt["silent"])
                if opt.get("nosack"):
                    c.no_sack()
                tgt = c.addr(n + 1)
                sil = opt.get("silent", 0)
                ps_open = 2 if opt.get("nosack") else 0
                base = dict(n=n, target=tgt, first=1, last=n + 4, silent=sil, parallel=1)
                scs = [dict(base, proto="icmp", method="", port=0, port_state=0),
                       dict(base, proto="udp", method="", port=33434, port_state=0),
                       dict(base, proto="tcp", method="syn", port=8080, port_state=ps_open),
                       dict(base, proto="tcp", method="syn", port=8081, port_state=1),
                       dict(base, proto="tcp", method="sack", port=8080, port_state=ps_open),
                       dict(base, proto="tcp", method="prefer_sack", port=8080, port_state=ps_open),
                       dict(base, proto="tcp", method="prefer_sack", port=8081, port_state=1),
                       dict(base, proto="tcp", method="sack", port=8081, port_state=1)]
                if c.v6 and vname in ("plain", "silent"):
                    # the same path over IPv6 (ICMPv6 errors from the kernel routers, echo reply / port unreachable from the destination)
                    b6 = dict(base, target=c.addr6(n + 1), v6=1)
                    scs += [dict(b6, proto="icmp", method="", port=0, port_state=0),
                            dict(b6, proto="udp", method="", port=33434, port_state=0)]
                    if vname == "plain":
                        scs += [dict(b6, proto="udp", method="", port=33434, port_state=0, parallel=2),
                                dict(b6, proto="icmp", method="", port=0, port_state=0, first=min(2, n + 1))]
                if vname == "plain" and n >= 2:
                    # a firewalled port: SYNs are dropped, connect() times out -> SACK unavailable; SYN probes die at the target too
                    c.filter_port(8082)
                    scs += [dict(base, proto="tcp", method="prefer_sack", port=8082, port_state=3, last=n + 2),
                            dict(base, proto="tcp", method="sack", port=8082, port_state=3, last=n + 2)]
                if vname == "plain":
                    scs += [dict(base, proto="udp", method="", port=33434, port_state=0, first=min(2, n + 1)),
                            dict(base, proto="icmp", method="", port=0, port_state=0, last=max(1, n)),        # stops before the destination
                            dict(base, proto="udp", method="", port=33434, port_state=0, parallel=3),
                            dict(base, proto="icmp", method="", port=0, port_state=0, parallel=3),
                            dict(base, proto="tcp", method="syn", port=8080, port_state=0, parallel=4)]
                fn = "kern_%d.cases" % idx
                idx += 1
                env = dict(GOENV, VERIF_LAB="kern", VERIF_OUT=outdir, VERIF_KERN=json.dumps(scs), VERIF_KERN_FILE=fn, VERIF_SEED=str(seed), VERIF_TIER=tier)
                p = subprocess.run(["ip", "netns", "exec", c.ns[0], exe, "-test.run", "^TestLab$", "-test.timeout", "0"], env=env,
                                   cwd=os.path.join(ROOT, "harness"), stdout=subprocess.PIPE, stderr=subprocess.STDOUT, text=True, timeout=600)
                log.append("== kern lab n=%d %s rc=%d\n%s" % (n, vname, p.returncode, p.stdout[-1500:]))
                if p.returncode != 0:
                    return False, p.stdout[-2000:]
                parts.append(os.path.join(outdir, fn))
                dist["chain_%d_%s" % (n, vname)] = len(scs)
            finally:
                c.down()
    with open(os.path.join(outdir, "kern.cases"), "w") as out:
        for pth in parts:
            out.write(open(pth).read())
            os.remove(pth)
    json.dump(dist, open(os.path.join(outdir, "kern.dist.json"), "w"))
    log.append("== kern lab done in %.1fs" % (time.time() - t0))
    return True, "ok"
