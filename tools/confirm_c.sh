#!/bin/bash
# usage: confirm_c.sh <Cxx> [variant=C] — confirms a seeded change delivered in /tmp/seed-out/<Cxx>-<V>/ (patch.diff, demo_test.go)
# in a scratch worktree /tmp/mutc/<Cxx>: suite passes with the change, demo fails with it, passes without.
id=$1; x=${2:-C}
out=/tmp/seed-out/$id-$x; wt=/tmp/mutc/$id
export GOFLAGS=-mod=mod GOPROXY=off
mkdir -p /tmp/mutc; git -C /repo worktree add -q $wt HEAD || exit 2
cd $wt || exit 2
demo=$out/demo_test.go
pkg=$(grep -m1 '^package ' $demo | awk '{print $2}' | sed 's/_test$//')
dir=$pkg; [ -d "$wt/$dir" ] || dir=$(grep -rl "^package $pkg\$" --include=*.go . | head -1 | xargs dirname)
tags=""; grep -q 'go:build.*verif' $demo && tags="-tags verif"
race=""; [ "$id" = "C14" ] && race="-race"
git apply $out/patch.diff || { echo "patch does not apply"; cd /; git -C /repo worktree remove --force $wt; exit 1; }
go test -vet=off -count=1 ./... > $out/suite_with.log 2>&1; suite=$?
cp $demo $dir/zz_demo_test.go
timeout 900 go test $tags $race -vet=off -count=1 -run 'TestDemo' ./$dir/ > $out/demo_with.log 2>&1; with=$?
git checkout -q -- .
timeout 900 go test $tags $race -vet=off -count=1 -run 'TestDemo' ./$dir/ > $out/demo_without.log 2>&1; without=$?
cd /; git -C /repo worktree remove --force $wt
echo "{\"id\":\"$id\",\"x\":\"$x\",\"dir\":\"$dir\",\"suite_with_change_exit\":$suite,\"demo_with_change_exit\":$with,\"demo_without_change_exit\":$without,\"cmd_suite\":\"go test -vet=off -count=1 ./...\",\"cmd_demo\":\"go test $tags $race -vet=off -count=1 -run TestDemo ./$dir/\"}" | tee $out/confirm.json
