#!/usr/bin/env python3
"""Apply each seeded change to /repo in turn, run the quick check of the property it targets
(plus any extra ids given as id:P1,P2), revert, and record which checks raise a violation."""
import json, os, subprocess, sys
REG = set(json.load(open('/verif/MANIFEST.json'))['checks'][i]['property_id'] for i in range(len(json.load(open('/verif/MANIFEST.json'))['checks'])))
base = '/verif/seeded'
out = {}
ids = sys.argv[1:] or sorted(set(d[:3] for d in os.listdir(base) if os.path.isdir(base + '/' + d)))
for spec in ids:
    pid, _, extra = spec.partition(':')
    props = [pid] + [e for e in extra.split(',') if e]
    for x in os.environ.get('MUT_VARIANTS', 'ABCDEF'):
        patch = f'{base}/{pid}-{x}/patch.diff'
        if not os.path.exists(patch):
            continue
        assert subprocess.run(['git', '-C', '/repo', 'diff', '--quiet']).returncode == 0, '/repo dirty'
        if subprocess.run(['git', '-C', '/repo', 'apply', patch]).returncode != 0:
            out[f'{pid}/{x}'] = {'error': 'patch does not apply'}
            continue
        res = {}
        try:
            for p in props:
                if p not in REG:
                    res[p] = 'not-registered'
                    continue
                r = subprocess.run(['bin/check', p, '--tier', 'quick'], cwd='/verif', capture_output=True, text=True)
                v = [l for l in r.stdout.splitlines() if l.startswith('VIOLATION')]
                res[p] = {'exit': r.returncode, 'violations': v}
        finally:
            subprocess.run(['git', '-C', '/repo', 'checkout', '--', '.'])
            subprocess.run(['git', '-C', '/repo', 'clean', '-fdq'])
        out[f'{pid}/{x}'] = res
        print(pid, x, json.dumps(res), flush=True)
mp = '/verif/seeded/MATRIX.json'
old = json.load(open(mp)) if os.path.exists(mp) else {}
old.update(out)
json.dump(old, open(mp, 'w'), indent=1, sort_keys=True)
