#!/usr/bin/env python3
"""Tie kind A: write coq/Generated/BpfProgs.v from the programs the repository
installs, as dumped by the harness (lab bpfdump) from /repo's working tree."""
import json, sys

def raw(r, holes=False):
    op, jt, jf, k = r
    if isinstance(k, str):
        kk = k
    else:
        kk = str(int(k))
    return "(%d, %d, %d, %s)" % (op, jt, jf, kk)

def prog(name, rows, params=""):
    body = ";\n   ".join(raw(r) for r in rows)
    return "Definition %s %s: list raw :=\n  [%s].\n" % (name, params, body)

def main(src, dst):
    d = json.load(open(src))
    if d.get("template_mismatch") is not None:
        sys.stderr.write("tcp template re-validation failed: %r\n" % (d["template_mismatch"],))
        return 3
    if not d.get("v6_config_refused"):
        sys.stderr.write("tcp filter generator accepted an IPv6 configuration\n")
        return 3
    out = []
    out.append("(** GENERATED on every run by tools/gen_bpf.py from /repo (lab bpfdump).  Do not edit. *)")
    out.append("From Coq Require Import List ZArith.\nFrom TR Require Import Bpf.Vm.\nImport ListNotations.\nOpen Scope Z_scope.\n")
    out.append(prog("raw_icmp", d["icmp"]))
    out.append(prog("raw_udp", d["udp"]))
    out.append(prog("raw_synack", d["synack"]))
    out.append(prog("raw_dropall", d["dropall"]))
    out.append(prog("raw_tcp4", d["tcp_template"], "(src dst sport dport : Z) "))
    out.append("Definition template_validated : Z := %d." % d["template_validated"])
    open(dst, "w").write("\n".join(out) + "\n")
    return 0

if __name__ == "__main__":
    sys.exit(main(sys.argv[1], sys.argv[2]))
