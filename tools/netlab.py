#!/usr/bin/env python3
"""Private network-namespace chains for C13: client - r1 - ... - rn - dst, built from kernel routers.
link i joins node i-1 (left, 198.18.i.1) and node i (right, 198.18.i.2); node 0 = client, node n+1 = destination."""
import json, os, subprocess, sys, time, signal

P = "vt%d" % (os.getpid() % 10000)

def sh(cmd, check=True):
    r = subprocess.run(cmd, shell=True, stdout=subprocess.PIPE, stderr=subprocess.STDOUT, text=True)
    if check and r.returncode != 0:
        raise RuntimeError("%s\n%s" % (cmd, r.stdout))
    return r.stdout

class Chain:
    def __init__(self, n, tag):
        self.n, self.tag = n, tag
        self.ns = ["%s%s%d" % (P, tag, i) for i in range(n + 2)]
        self.procs = []
        self.v6 = True              # dual stack when the kernel allows it

    def addr(self, node):           # the address of `node` facing the client
        return "198.18.%d.2" % node

    def addr6(self, node):
        return "fd00:18:%x::2" % node

    def up(self):
        for ns in self.ns:
            sh("ip netns add %s" % ns)
            sh("ip netns exec %s ip link set lo up" % ns)
            sh("ip netns exec %s sysctl -qw net.ipv4.ip_forward=1 net.ipv4.icmp_ratelimit=0 net.ipv4.conf.all.rp_filter=0 net.ipv4.conf.default.rp_filter=0" % ns)
            self.v6 = self.v6 and (subprocess.run("ip netns exec %s sysctl -qw net.ipv6.conf.all.disable_ipv6=0 net.ipv6.conf.default.disable_ipv6=0 net.ipv6.conf.all.forwarding=1 net.ipv6.conf.default.forwarding=1 net.ipv6.icmp.ratelimit=0 net.ipv6.conf.all.accept_dad=0 net.ipv6.conf.default.accept_dad=0" % ns,
                                                 shell=True, stdout=subprocess.DEVNULL, stderr=subprocess.DEVNULL).returncode == 0)
            if self.v6:
                sh("ip netns exec %s ip -6 addr add ::1/128 dev lo" % ns, check=False)
        for i in range(1, self.n + 2):
            a, b = "%s%sl%d" % (P, self.tag, i), "%s%sr%d" % (P, self.tag, i)
            sh("ip link add %s type veth peer name %s" % (a, b))
            sh("ip link set %s netns %s" % (a, self.ns[i - 1]))
            sh("ip link set %s netns %s" % (b, self.ns[i]))
            sh("ip netns exec %s ip addr add 198.18.%d.1/24 dev %s" % (self.ns[i - 1], i, a))
            sh("ip netns exec %s ip addr add 198.18.%d.2/24 dev %s" % (self.ns[i], i, b))
            sh("ip netns exec %s ip link set %s up" % (self.ns[i - 1], a))
            sh("ip netns exec %s ip link set %s up" % (self.ns[i], b))
            if self.v6:
                sh("ip netns exec %s ip -6 addr add fd00:18:%x::1/64 dev %s nodad" % (self.ns[i - 1], i, a))
                sh("ip netns exec %s ip -6 addr add fd00:18:%x::2/64 dev %s nodad" % (self.ns[i], i, b))
        for k in range(0, self.n + 2):
            # towards the destination side
            for j in range(k + 2, self.n + 2):
                sh("ip netns exec %s ip route add 198.18.%d.0/24 via 198.18.%d.2" % (self.ns[k], j, k + 1))
            # towards the client side
            for j in range(1, k):
                sh("ip netns exec %s ip route add 198.18.%d.0/24 via 198.18.%d.1" % (self.ns[k], j, k))
            if self.v6:
                for j in range(k + 2, self.n + 2):
                    sh("ip netns exec %s ip -6 route add fd00:18:%x::/64 via fd00:18:%x::2" % (self.ns[k], j, k + 1))
                for j in range(1, k):
                    sh("ip netns exec %s ip -6 route add fd00:18:%x::/64 via fd00:18:%x::1" % (self.ns[k], j, k))

    def listen(self, port):
        code = ("import socket,time\ns=socket.socket();s.setsockopt(socket.SOL_SOCKET,socket.SO_REUSEADDR,1);s.bind(('0.0.0.0',%d));s.listen(64)\n"
                "cs=[]\nwhile True:\n c,_=s.accept();cs.append(c)\n" % port)
        p = subprocess.Popen(["ip", "netns", "exec", self.ns[-1], sys.executable, "-c", code], stdout=subprocess.DEVNULL, stderr=subprocess.DEVNULL)
        self.procs.append(p)
        time.sleep(0.3)

    def silence(self, k):
        ns = self.ns[k]
        sh("ip netns exec %s nft add table ip vt" % ns)
        sh("ip netns exec %s nft 'add chain ip vt out { type filter hook output priority 0 ; }'" % ns)
        sh("ip netns exec %s nft add rule ip vt out icmp type time-exceeded drop" % ns)
        if self.v6:
            sh("ip netns exec %s nft add table ip6 vt" % ns)
            sh("ip netns exec %s nft 'add chain ip6 vt out { type filter hook output priority 0 ; }'" % ns)
            sh("ip netns exec %s nft add rule ip6 vt out icmpv6 type time-exceeded drop" % ns)

    def filter_port(self, port):
        """the destination silently drops TCP segments to this port (a firewalled port: connect() times out)"""
        ns = self.ns[-1]
        sh("ip netns exec %s nft add table ip vf" % ns)
        sh("ip netns exec %s nft 'add chain ip vf inp { type filter hook input priority 0 ; }'" % ns)
        sh("ip netns exec %s nft add rule ip vf inp tcp dport %d drop" % (ns, port))

    def no_sack(self):
        sh("ip netns exec %s sysctl -qw net.ipv4.tcp_sack=0" % self.ns[-1])

    def down(self):
        for p in self.procs:
            try:
                p.kill()
            except Exception:
                pass
        for ns in self.ns:
            sh("ip netns del %s" % ns, check=False)

if __name__ == "__main__":
    c = Chain(int(sys.argv[1]), "x")
    try:
        c.up()
        print(sh("ip netns exec %s ip route" % c.ns[0]))
        print(sh("ip netns exec %s ping -c1 -W1 %s" % (c.ns[0], c.addr(c.n + 1)), check=False))
        print("v6:", c.v6)
        if c.v6:
            print(sh("ip netns exec %s ip -6 route" % c.ns[0]))
            print(sh("ip netns exec %s ping -6 -c1 -W1 %s" % (c.ns[0], c.addr6(c.n + 1)), check=False))
    finally:
        c.down()
