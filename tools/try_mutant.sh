#!/bin/bash
# usage: try_mutant.sh <patch.diff> <PID> [<PID>...]   — applies to /repo, runs quick checks, reverts
p=$1; shift
cd /repo || exit 2
git diff --quiet || { echo "/repo is dirty"; exit 2; }
git apply "$p" || { echo "patch does not apply"; exit 2; }
for pid in "$@"; do
  (cd /verif && VERIF_EVID_SKIP=1 bin/check $pid --tier quick 2>&1 | tail -4)
  echo "exit=$? ($pid)"
done
git -C /repo checkout -- . && git -C /repo clean -fdq
