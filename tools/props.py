"""Per-property configuration of bin/check."""

PROPS = {}

PROPS["C12"] = dict(
    num=12,
    labs=["c12"],
    rule="Frames over the equivalence classes the programs inspect (ethertype, protocol, IHL 0..15 x all 256 TCP flag bytes, "
         "fragment bits x protocols, every single-byte/bit perturbation of header bytes 12..73 of 13 base frames, every truncation "
         "length, random/mutated frames) x TCP 4-tuple configurations at sign/endianness boundaries; each frame is run through the "
         "repository's real programs in x/net/bpf's VM, through the Coq interpreter on the regenerated programs, and through the field-level spec.",
    nontrivial="frame of >= 14 bytes (class bit 8) or accepted by some program",
    trivial_classes=[0],
    signatures={"1": "icmp program differs from its spec", "2": "udp program differs from its spec", "3": "synack program differs from its spec",
                "4": "drop-all program accepts a frame", "5": "tcp 4-tuple program differs from its spec",
                "6.0": "matcher yields a hop/handshake for a frame the installed filter rejects: IPv6 hop-by-hop before ICMPv6"},
    trusted_base=["x/net/bpf assembler and VM (the Coq interpreter is compared with bpf.VM on every case)",
                  "kernel cBPF semantics = x/net/bpf VM semantics (not verified)"],
    assumptions=["programs are the ones getClassicBPFFilter returns on this tree (regenerated each run)"],
)
