"""Per-property configuration of bin/check."""

PROPS = {}

PROPS["C12"] = dict(
    num=12,
    labs=["c12", "drv", "par"],
    rule="Frames over the equivalence classes the programs inspect (ethertype, protocol, IHL 0..15 x all 256 TCP flag bytes, "
         "fragment bits x protocols, every single-byte/bit perturbation of header bytes 12..73 of 13 base frames, every truncation "
         "length, random/mutated frames) x TCP 4-tuple configurations at sign/endianness boundaries; each frame is run through the "
         "repository's real programs in x/net/bpf's VM, through the Coq interpreter on the regenerated programs, and through the field-level spec.",
    nontrivial="frame of >= 14 bytes (class bit 8) or accepted by some program",
    trivial_classes=[0],
    signatures={"1": "icmp program differs from its spec", "2": "udp program differs from its spec", "3": "synack program differs from its spec",
                "4": "drop-all program accepts a frame", "5": "tcp 4-tuple program differs from its spec",
                "7.1": "real AF_PACKET source (on a datagram socketpair): a frame that arrived under an EARLIER filter and was still in the socket came out of Read after a new program had been installed (the drain of SetBPFAndDrain did not happen)",
                "7": "real AF_PACKET source (on a datagram socketpair): after a history of filter installations the frames Read hands out are not those the LAST requested filter selects",
                "6.0": "matcher yields a hop for a frame the installed filter rejects: IPv6 hop-by-hop header before ICMPv6", "6.1": "matcher yields a hop for a frame the installed capture filter rejects", "6.4": "the installation of a capture filter (which drains the socket first) discarded a reply of the target that had already been captured, e.g. the SYN-ACK of the SACK handshake (real run, parameter lab kind 12)", "6.3": "the 4-tuple capture filter a TCP run installed on a handle is not for the flow of the probes it writes through that handle (real run, parameter lab kind 12)", "6.2": "the SYN-ACK that establishes the SACK handshake is rejected by the SYN-ACK capture filter"},
    trusted_base=["x/net/bpf assembler and VM (the Coq interpreter is compared with bpf.VM on every case)",
                  "kernel cBPF semantics = x/net/bpf VM semantics (not verified)",
                  "kind 30 (filter-install histories): the repository's afPacketSource runs on one end of an AF_UNIX datagram socketpair (verif-tagged constructor packets.VerifNewAFPacketSourceOn, /repo 7933637); the kernel's sk_filter runs an attached classic-BPF program over each datagram from its first byte whatever the socket family, so SetPacketFilter (drop-all, drain, attach), RemoveBPF and Read are the real code on a real kernel filter - the AF_PACKET socket's creation and binding are not exercised there"],
    assumptions=["programs are the ones getClassicBPFFilter returns on this tree (regenerated each run)"],
)

ENG_RULE = ("Real TracerouteParallel/TracerouteSerial run under testing/synctest's virtual clock against a scripted network "
            "(script entry = TTL, delay after that TTL's send, responder, destination flag, reply|noise). Enumerated: every reply multiset "
            "(none / plain / dest / plain+dest / plain+plain per TTL, <= 4 replies) x every arrival order x both engines for 1..3 TTLs; "
            "random: first/last incl. 250..255 and single-TTL ranges, 0..3 replies per TTL incl. stale/late/after-deadline, several destination TTLs, "
            "noise, shuffled script order. Compared: hop list, accepted sequence, (ttl, send instant) log, elapsed virtual ns.")
ENG_TRUSTED = ["scripted driver + synctest virtual clock in /verif/harness (the engine code under test is the repository's own)",
               "goroutine scheduling inside one virtual instant is not modelled: cases where two events coincide are reported by the model as ties and skipped (counted in class_histogram, classes >= 64)"]

PROPS["C03"] = dict(
    num=3, labs=["eng"], rule=ENG_RULE,
    nontrivial="at least one reply accepted by the engine (class bits 1..3 != 0)",
    trivial_classes=[0, 1, 64, 65],
    signatures={"3": "reported hop list violates the path-shape predicate (Spec/C03.v shapeb)", "9": "a valid scripted run returned an error"},
    trusted_base=ENG_TRUSTED,
    assumptions=["accepted replies are what the driver handed to the engine (recorded by the scripted driver)"],
)
PROPS["C07"] = dict(
    num=7, labs=["eng"], rule=ENG_RULE,
    nontrivial="at least one reply accepted by the engine",
    trivial_classes=[0, 1, 64, 65],
    signatures={"7": "a reported hop is not (earliest destination reply for its TTL, else earliest reply)", "7.2": "a reply readable one poll interval before the deadline was not accepted by the receiver", "9": "a valid scripted run returned an error", "10": "engine panicked", "3.1": "out-of-range reply produced a path"},
    trusted_base=ENG_TRUSTED + ["atomicity of writeProbe (runs under resultsMu) is an assumption of the transition system, supported by C14"],
    assumptions=["Go scheduler not modelled; the transition system's steps are the atomic actions of the Go code"],
)

DOC_RULE = ("Real traceroute.RunTraceroute under testing/synctest with the per-query function, the reverse-DNS resolver and the public-IP fetcher scripted: "
            "0..3 runs x 0..8 end-to-end probes with distinct virtual completion instants (so every completion order occurs), failing subsets with error wrapping depth 0..3, "
            "hops drawn from every private-block boundary (10/8, 172.16/12, 192.168/16, fc00::/7: first/last address and both neighbours), IPv4-mapped forms, empty hops, "
            "dyadic RTT samples (exact in binary64), resolver answers names/empty/failure per canonical address, flags reverse-dns / skip-private / public-ip. "
            "Observed through the JSON the call returns (decoded generically), the error's errors.Is exposure, and a decode/re-encode round trip.")
DOC_TRUSTED = ["scripted per-query function / resolver / fetcher and synctest clock in /verif/harness; encoding/json, net.IP text codec, uuid, go-cache are modelled only (exercised, not verified)",
               "float fields compared with relative tolerance 1e-9 (binary64) / 1e-6 (binary32 loss); identities over exact rationals are what the theorems state"]
DOC_TRIVIAL = []
for _pid, _sig in (("C03", {"3.2": "final document: a run's hop list is not the one entry per TTL of the run it came from (entries lost, added or renumbered after the engines)"}),
                   ("C07", {"7.3": "request level: the result does not contain exactly the outcomes of the request's runs and probes (something other than the per-run outcomes - a cancellation instant, the completion order - changed it)"})):
    PROPS[_pid]["labs"] = PROPS[_pid]["labs"] + ["doc"]
    PROPS[_pid]["rule"] = PROPS[_pid]["rule"] + " " + DOC_RULE
    PROPS[_pid]["signatures"] = dict(PROPS[_pid]["signatures"], **_sig)
    PROPS[_pid]["trusted_base"] = PROPS[_pid]["trusted_base"] + DOC_TRUSTED
PROPS["C15"] = dict(num=15, labs=["doc"], rule=DOC_RULE, nontrivial="at least one query (run or probe) in the request", trivial_classes=[0, 32, 64, 96],
    signatures={"15": "result/err violates all-or-error, exact counts, no run lost or duplicated, or an individual failure is not exposed by errors.Is", "99": "document could not be decoded"},
    trusted_base=DOC_TRUSTED, assumptions=["the accumulator's mutex makes each append atomic (C14)"])
PROPS["C16"] = dict(num=16, labs=["doc"], rule=DOC_RULE, nontrivial="at least one query in the request", trivial_classes=[0, 32, 64, 96],
    signatures={"16.1": "reachable <> (address present)", "16.2": "hop-count min/avg/max inconsistent or outside run lengths", "16.3": "e2e sent/received/loss/min/avg/max/jitter inconsistent",
                "16.8": "documents finished concurrently (overlapping requests of one process): an identifier was handed out twice, or is not a 16-byte UUID in base64", "16.4": "identifiers not fresh / not pairwise distinct / wrong length", "16.5": "JSON does not decode back and re-encode to the same document", "16.6": "JSON keys differ from the published contract", "16.7": "the finished document does not serialise to JSON (e.g. a NaN statistic)"},
    trusted_base=DOC_TRUSTED, assumptions=["uuid.New returns a value not returned before (oracle)"])
PROPS["C17"] = dict(num=17, labs=["doc"], rule=DOC_RULE, nontrivial="at least one run in the request", trivial_classes=[0, 4, 8, 12, 32, 36, 40, 44, 64, 68, 72, 76, 96, 100, 104, 108],
    signatures={"17.1": "a private address (or data derived from it) is still in the output", "17.2": "hop count/order/TTL changed, or a public hop was altered"},
    trusted_base=DOC_TRUSTED, assumptions=[])

POL_RULE = ("Policy lab under synctest: (3) cache.GetWithExpiration operation sequences over 3 keys with callback success/failure, expirations -1/0/1s/90s/1h and "
            "clock advances landing exactly on / 1 ns after pending expiries; (4) the real publicip.GetPublicIP over a scripted http.RoundTripper (1..5 providers, per-attempt "
            "scripts: status classes 2xx/3xx/4xx/5xx x valid/invalid body, transport error, body-read error, hang, answers slower than the per-provider deadline; backoff randomisation off); "
            "(5) reversedns.GetReverseDnsForIPs against a resolver that answers after a delay or never; "
            "(19) the real sackDriver.ReadHandshake with frames arriving over time: silence, a trickle of packets it must skip (other connections' SYN-ACKs, ICMP, plain ACKs, garbage) at intervals below the read timeout for up to 4 s, the genuine SYN-ACK early / after the deadline / never, no-SACK-permitted, bursts: outcome and elapsed virtual time; "
            "(21) the real RunTraceroute with scripted per-query durations (0..3 runs, 0..12 end-to-end probes, one run failing), a resolver that answers after a delay / after the 5 s deadline / never and a public-IP fetcher with a scripted duration: elapsed virtual time of the whole request.")
PROPS["C18"] = dict(num=18, labs=["doc", "pol"], rule=DOC_RULE + " " + POL_RULE,
    nontrivial="a request with at least one run (doc lab) / any policy-lab case", trivial_classes=[0, 4, 8, 12, 32, 36, 40, 44, 64, 68, 72, 76, 96, 100, 104, 108],
    signatures={"18": "names attached to a hop/destination differ from the resolver's answer for that address", "18.2": "cache served a value no earlier successful callback produced, cached a failure, or mis-reported the callback",
                "18.3": "provider iteration: a provider after the winner was queried / one before it was skipped / the winner's script does not succeed", "18.4": "reverse-DNS fan-out lost or invented an answer", "18.6": "a value was served from the cache although the lifetime it was stored with, counted from the instant it was stored, had run out (e.g. the lifetime restarts on every read)", "18.5": "a cached lookup was re-queried although a stored success for the same key was still within its lifetime (for DNS names: within the lookup's own timeout)"},
    trusted_base=DOC_TRUSTED + ["go-cache Get/Set and cenkalti/backoff Retry are modelled (validated by the correspondence); the process-wide cache is re-created without its real-clock janitor inside the lab"],
    assumptions=["backoff randomisation is switched off in the lab (RandomizationFactor 0) so that retry instants are deterministic"])
PROPS["C08"] = dict(num=8, labs=["eng", "pol", "kern"], rule=ENG_RULE + " One case in five cancels the caller's context at an arbitrary virtual instant. " + POL_RULE + " Kernel lab (as C13; real clock, bound + 2 s of slack): every scenario's elapsed real time, in particular sack / prefer_sack against a firewalled port whose SYNs are dropped, where the bound on the dial is the kernel's connect timeout unless the run sets its own.",
    nontrivial="any case other than an empty script without cancellation", trivial_classes=[0, 1],
    signatures={"8.7": "real kernel target (network namespaces, real clock): a run had not returned 2 s after the bound computed from its parameters (e.g. the TCP dial of the SACK attempt to a port that drops every SYN is not limited by the handshake timeout)", "8": "engine run exceeded its computable bound", "8.1": "cancelled run did not return the cancellation error within poll + delay", "8.2": "public-IP lookup exceeded providers x per-checker timeout",
                "8.3": "reverse-DNS lookup exceeded its timeout / SACK handshake read outlived its 500 ms deadline", "8.4": "a whole request took longer than the bound computed from its parameters and the longest run / probe / lookup", "9": "a valid scripted run returned an error", "10": "engine panicked", "3.1": "out-of-range reply produced a path"},
    trusted_base=ENG_TRUSTED + ["scripted http.RoundTripper honours the request's context exactly like net/http's transport would (oracle: HTTP client and resolver return by the deadline of the context they are given)",
                                "clause 8.7 (kernel lab) is the one place where elapsed time is REAL time: the bound computed from the parameters plus 2 s of slack; a run that has not returned after 20 s is reported as not returned and left behind; tools/netlab.py topology builder (nft rule that drops every segment to the firewalled port)"],
    assumptions=["net.Dialer returns by the deadline of the context it is given (oracle for the SACK dial); the request-level model takes the durations of the runs, probes and public-IP lookup as inputs (each is bounded by its own theorem)"])

DRV_RULE = ("Driver lab: the real ICMP (v4, v6), UDP (v4, v6; strict, relaxed), TCP SYN (default, Paris; strict, relaxed) and SACK (strict, relaxed) drivers over the simulated wire under synctest, "
            "one case per SendProbe / ReceiveProbe / ReadHandshake. Echo-id, IP-ID base, sequence number and ISN at and around wrap-around; TTL ranges incl. 1..1, 250..255, 255..255 and a sweep of all 255 TTLs per variant. "
            "Replies are built by independent (gopacket-free) builders from the bytes the driver actually emitted: the device catalogue (time-exceeded with 28-byte / full / RFC 4884 quotes, outer NOP and record-route options, rewritten quoted TOS/TTL/checksum, "
            "from a router and from the target; echo reply; port/host unreachable; SYN-ACK, RST, RST-ACK, SYN-ACK with ECE / options; duplicate ACK with 1..3 SACK blocks, ACK without SACK; IPv6 time-exceeded full/48-byte/behind hop-by-hop) "
            "x the perturbation lattice (every byte xor 01/80/ff, every 16-bit field +-256 and +1, every truncation length) + own outgoing probes fed back, replies to unsent TTLs, traffic before the first send, random bytes with plausible first byte.")
DRV_TRUSTED = ["gopacket v1.1.19 decoders/serialisers, x/net/icmp.ParseMessage, net/netip equality are MODELLED (Wire/Decode.v, Wire/Build.v) and validated byte-for-byte / outcome-for-outcome by this correspondence, not verified",
               "simulated Source/Sink and synctest clock in /verif/harness; verif-tagged constructors in /repo (export_verif.go)"]
for _pid, _num, _labs, _sig in [
    ("C01", 1, ["drv", "eng"], {"1": "a hop was reported for a packet that is not a genuine reply to this run's probe with that TTL from that address", "1.9": "a hop from bytes the model cannot even parse"}),
    ("C02", 2, ["drv", "eng"], {"6.1": "a catalogue reply form is recognised by the matcher but rejected by the capture filter the entry point installs", "2": "a catalogue reply form was not recognised", "2.1": "a catalogue reply form was credited to the wrong TTL or responder", "2.2": "ACK without SACK blocks did not end the SACK run as not-supported", "2.3": "parallel engine: a reply readable one poll interval before the deadline was not accepted"}),
    ("C04", 4, ["drv", "doc", "eng"], {"4.2": "final document: an end-to-end sample is a round trip although no reply of that probe proved arrival (no hop flagged as destination), or 0 although one did", "4": "destination flag differs from the protocol's proof of arrival from the target", "7": "engine: reported hop (address, RTT, destination flag) is not the reply kept by the merge rule"}),
    ("C05", 5, ["drv", "eng", "doc"], {"5.3": "end-to-end statistics treat a 0 (= no answer) sample as a round trip, or are otherwise not those of the answered probes", "1": "the RTT was measured for a packet that does not answer the probe it was credited to (another probe's send time)", "5": "RTT is negative or not (processing instant - send instant of a probe with that TTL); engine kept a later duplicate"}),
    ("C06", 6, ["drv", "eng", "par"], {"6.5": "the source / destination endpoint reported in a run's result is not the one on the wire (real run, parameter lab kind 12)", "6.1": "probe malformed: version/IHL, TTL byte, length or checksum", "6.2": "probe flow fields differ from the run's", "6.3": "identifier shared with the probe of another TTL", "6": "emission order / pacing / stop-after-destination violated"}),
    ("C09", 9, ["drv", "eng"], {"9.4": "the FIRST SendProbe of an in-range TTL failed: inbound packets (e.g. one naming a TTL not sent yet) left the driver in a state in which the engine's next send aborts the run", "9.1": "the driver panicked", "9.2": "a non-empty inbound packet produced a run-aborting error", "9.3": "not-supported from a packet other than the permitted SACK case"}),
]:
    PROPS[_pid] = dict(num=_num, labs=_labs, rule=DRV_RULE + (" " + ENG_RULE if "eng" in _labs else "") + (" " + DOC_RULE if "doc" in _labs else ""),
        nontrivial="any case (every case is a distinct operation on a real driver); distinct by input bytes", trivial_classes=[],
        signatures=dict(_sig, **{"9": "a valid scripted run returned an error", "10": "engine panicked", "3.1": "out-of-range reply produced a path"}),
        trusted_base=DRV_TRUSTED + (ENG_TRUSTED if "eng" in _labs else []), assumptions=["driver table holds what SendProbe stored (replayed from the observed sends)"])

_SHARED_SIGS = {"1.2": "composed run on a shared wire: a router of another flow appears among the hops", "2.3": "composed run on a shared wire: the run did not report the ideal path of its own flow (a reply that was delivered is missing or misplaced)",
                "5.2": "composed run: a hop's RTT is not send -> FIRST reply of that probe (e.g. overwritten by a later duplicate)", "11.5": "two concurrent runs used the same flow identifier", "11.6": "a run did not hold its local UDP / TCP port while in flight (another socket could bind it)"}
PAR_RULE = ("Parameter / policy lab: (8) the real RunTraceroute over the simulated wire behind packets.NewSourceSink with TTL bounds from {-1,0,1,2,255,256,257} x {-1,0,1,5,254..258,300,511,65541}, ports {0,1,80,65535,65536,65616,-1,131070}, "
            "udp/tcp/icmp/unknown protocol, syn/default/unknown method, IPv4 and IPv6 loopback targets: error vs the TTLs, address, port and protocol actually on the wire; every fourth request also through the real command line (cobra flags --proto --max-ttl --port --tcp-method --ipv6, incl. --max-ttl -30/-1/0/256/300) with the same observables; (9) the HTTP handler's query parsing on numeric/non-numeric/absent values; "
            "(10) target literal forms (IPv4, IPv6, bracketed, with and without port) x default ports around 0/1/65535/65536; (11) performTCPFallback with random error trees (wrap depth <= 4, NotSupportedError at any depth, errors.Join); "
            "(12) the real runTracerouteOnce for syn/sack/prefer_sack against a loopback listener the harness owns (accept count = connections opened) with handshake segments synthesised on the simulated wire: SACK-permitted with/without timestamps, no SACK-permitted, ACKs without SACK blocks, port closed, handshake never captured, and injected filter/send/read failures.")
PROPS["C06"]["rule"] = PROPS["C06"]["rule"] + " " + PAR_RULE
PROPS["C17"]["labs"] = PROPS["C17"]["labs"] + ["par"]
PROPS["C17"]["rule"] = PROPS["C17"]["rule"] + " " + PAR_RULE
PROPS["C17"]["signatures"] = dict(PROPS["C17"]["signatures"], **{"17.3": "HTTP request with skip-private-hops: a private hop of the path is in the response document"})
PAR_TRUSTED = ["real sockets are used only for LocalAddrForHost / reserveLocalPort / the loopback dial; every packet is written to the simulated sink", "net.SplitHostPort, netip.ParseAddr, strconv.Atoi, errors.Is/As/Join are modelled only"]
PROPS["C19"] = dict(num=19, labs=["par", "drv", "eng"], rule=PAR_RULE + " " + DRV_RULE, nontrivial="any case", trivial_classes=[],
    signatures={"19.9": "HTTP query: a well-formed value (port, max-ttl, traceroute-queries, e2e-queries, timeout in ms, a boolean flag) was replaced by another value instead of being handed on (honoured or rejected)", "19.1": "TTL byte of an emitted probe differs from the TTL asked of the driver", "19.2": "a request with TTL bounds outside 1..255 (or min > max) was executed", "19.3": "probes on the wire do not cover exactly the requested TTL range",
                "19.4": "probes went to another address", "19.5": "probes went to another port / a port outside 1..65535 was used", "19.6": "probes used another protocol", "19.7": "a valid target literal was rejected or parsed to another address/port",
                "19.8": "a port outside 1..65535 was accepted", "19.12": "command line: the number of traceroute runs / end-to-end probes started, or the timeout, protocol, method, TTL bound, port or flags they were started with, differ from the flags given", "19.11": "HTTP query: the endpoint the request would probe (what the handed-on hostname and port resolve to) is not the address / port the target text and port parameter state", "19.10": "a request with an unknown protocol or TCP method was executed instead of rejected", "19.9": "the process crashed", "9": "a valid scripted run returned an error", "10": "engine panicked", "3.1": "out-of-range reply produced a path",
                "6": "emission order / pacing violated"},
    trusted_base=PAR_TRUSTED + DRV_TRUSTED, assumptions=[])
PROPS["C20"] = dict(num=20, labs=["par", "kern"], rule=PAR_RULE + " Kernel lab (as C13): the TCP scenarios against real Linux targets - listening with and without SACK, closed port, and a firewalled port whose SYNs are dropped so that connect() times out.", nontrivial="fallback-selector and real-run cases (class % 8 in {4, 5})", trivial_classes=[],
    signatures={"20.1": "method sack produced a SYN trace / neither a SACK trace nor an error", "20.2": "method syn attempted SACK (opened a TCP connection)", "20.3": "prefer_sack: SYN fallback taken although SACK is available, or not taken although it is unavailable",
                "20.4": "prefer_sack: a non-capability SACK failure was masked or lost its cause", "13.1": "real kernel target: prefer_sack / syn did not produce the SYN trace the path predicts (e.g. no fallback although SACK is unavailable: closed or firewalled port, SACK disabled)", "13.2": "real kernel target: method sack against a target that cannot do SACK did not fail as not-supported", "20.5": "a traceroute run of a request was started with a TCP method other than the requested one", "20.6": "an end-to-end probe was started with a SACK method", "20.9": "crashed"},
    trusted_base=PAR_TRUSTED, assumptions=["the loopback listener's accept count equals the TCP connections the run opened"])

ISO_RULE = ("Allocator lab: packets.AllocPacketID sequences of 1..12 blocks (sizes incl. 1, 30, 255) from counter values at and around the 2^16 and 2^32 wraps, sequentially and from concurrent goroutines; icmp.nextEchoID sequences. "
            "Driver lab, two-run part: for every variant a second run to the same target with the identifiers the allocators / the OS would hand it is alive at the same time; each run is fed every genuine reply to the other's probes. ")
SHARED_RULE = ("Shared-wire lab (kind 18): 2..6 REAL runs at once (runTracerouteOnce for udp / icmp / tcp-syn, IPv4 and IPv6, and whole RunTraceroute requests with 1..3 queries + 0..2 end-to-end probes) in one synctest bubble over ONE simulated wire on which every capture handle sees every inbound packet, with and without the capture filters; "
            "the network routes per flow (path length, silent router and router ADDRESSES are functions of the echo id / local port), start offsets 0..51 ms, duplicated replies; observed: every run's hop list, which must be the ideal path of its own flow, and every hop RTT, which under the virtual clock must be exactly the delay of the FIRST reply to that probe (composed driver + engine).")
PROPS["C11"] = dict(num=11, labs=["iso", "drv", "shared"], rule=ISO_RULE + " " + SHARED_RULE + " " + DRV_RULE, nontrivial="any case", trivial_classes=[],
    signatures={"11.1": "a reply to another concurrent run's probe became a hop of this run", "11.2": "identifier blocks of live runs overlap", "11.3": "echo identifiers repeat", "11.6": "a run did not hold its local UDP / TCP port while in flight (another socket could bind it)", "11.4": "a run on the shared wire did not report the path of its own flow (the result it produces alone)", "11.5": "two concurrent runs used the same flow identifier", "1": "a hop was reported for a packet that is not a genuine reply to this run's probe", "1.9": "hop from unparseable bytes"},
    trusted_base=DRV_TRUSTED + ["sync/atomic Add is linearisable (the allocator model is sequential)", "the OS never hands one local port to two sockets held at the same time (oracle)"],
    assumptions=["runs with relaxed quoted-source checking to one target are distinguished by 32-bit random ISNs only (named residue)"])

for _pid in ("C01", "C02", "C05"):
    PROPS[_pid]["labs"] = PROPS[_pid]["labs"] + ["shared"]
    PROPS[_pid]["rule"] = PROPS[_pid]["rule"] + " " + SHARED_RULE
    PROPS[_pid]["signatures"] = dict(PROPS[_pid]["signatures"], **_SHARED_SIGS)
    PROPS[_pid]["trusted_base"] = PROPS[_pid]["trusted_base"] + ["shared-wire network simulator in /verif/harness/lab_shared_test.go (per-flow routing, deterministic delays)"]

LIFE_RULE = ("Lifecycle lab: the real runTracerouteOnce for udp, icmp, tcp-syn (IPv4) and udp, icmp (IPv6) over the simulated wire behind packets.NewSourceSink with ONE injected fault: handle construction, filter installation, "
             "the k-th WriteTo / SetReadDeadline / Read (k = 1, 2, middle, last, last+1; every k in the thorough tier) x {fatal error, deadline error, zero-length read}; after the call returns the virtual clock runs on for 2 s so that any goroutine "
             "the run left behind touches its closed handles. Observed: error / result nil-ness, errors.Is(err, injected cause), per-handle close counts, use after close. SACK: the real-run part of the policy lab (kind 12: filter/send/read faults, handles closed once).")
PROPS["C10"] = dict(num=10, labs=["life", "par"], rule=LIFE_RULE + " " + PAR_RULE, nontrivial="any fault-injection case", trivial_classes=[],
    signatures={"10.1": "a handle was not closed exactly once, or was used after its close (also by a goroutine outliving the call)", "10.2": "the returned error does not wrap the injected cause", "10.3": "an error was returned together with a result, or neither", "10.8": "a fatal failure of a handle operation was returned to the run (after it had already recorded a hop, for instance) and the run still reported success with a partial path", "10.7": "a socket the run opened itself (the UDP socket that yields the local address and holds the source port, the TCP port-reservation listener) was still open after the run returned (descriptor count, collector off)", "10.6": "a TCP connection dialled by the SACK run was still open (seen from the peer) after the run returned", "10.4": "a SendProbe failure (also one that was in flight when the destination answer was processed) did not fail the run with its cause", "10.9": "the entry point panicked"},
    trusted_base=PAR_TRUSTED + ["fault injection happens at the Source/Sink seam; the real AF_PACKET / raw-socket code below it is not exercised"], assumptions=[])

PROPS["C10"]["labs"] = PROPS["C10"]["labs"] + ["doc"]
PROPS["C10"]["rule"] = PROPS["C10"]["rule"] + " " + DOC_RULE
PROPS["C10"]["signatures"] = dict(PROPS["C10"]["signatures"], **{"10.5": "request level: a failure inside a run or an end-to-end probe did not make the request fail with an error exposing it (it was swallowed), or an error came with a result"})
PROPS["C10"]["trusted_base"] = PROPS["C10"]["trusted_base"] + DOC_TRUSTED
PROPS["C03"]["labs"] = PROPS["C03"]["labs"] + ["drv"]
PROPS["C03"]["rule"] = PROPS["C03"]["rule"] + " " + DRV_RULE
PROPS["C03"]["signatures"] = dict(PROPS["C03"]["signatures"], **{"4": "driver level: a reply was flagged as the destination's answer (which ends the path there) without being the protocol's proof of arrival from the target, or the reverse"})
PROPS["C03"]["trusted_base"] = PROPS["C03"]["trusted_base"] + DRV_TRUSTED
PROPS["C01"]["labs"] = PROPS["C01"]["labs"] + ["par"]
PROPS["C01"]["rule"] = PROPS["C01"]["rule"] + " " + PAR_RULE
PROPS["C01"]["signatures"] = dict(PROPS["C01"]["signatures"], **{"1.3": "real TCP run (parameter lab kind 12): a hop was reported although the only inbound errors quoted another source port (quoted-source checking relaxed without being asked for)"})
PROPS["C06"]["labs"] = PROPS["C06"]["labs"] + ["shared"]
PROPS["C06"]["rule"] = PROPS["C06"]["rule"] + " " + SHARED_RULE
PROPS["C06"]["signatures"] = dict(PROPS["C06"]["signatures"], **{"6.6": "concurrent runs over sockets that take the bytes late: a run did not report its own flow's path - the packet that left was not the probe the run had built for that TTL (buffer reused before the socket took it)", "1.2": "composed run on a shared wire: a router of another flow appears among the hops", "11.5": "two concurrent runs used the same flow identifier"})
PROPS["C07"]["signatures"] = dict(PROPS["C07"]["signatures"], **{"7.4": "the hop list is not the function of the accepted replies that the merge rule and the path shape define (it does not end at the lowest TTL the destination answered: it depends on the order the replies were read in)"})
PROPS["C19"]["signatures"] = dict(PROPS["C19"]["signatures"], **{"20.5": "a traceroute run of a request was started with a TCP method other than the requested (valid) one", "20.6": "an end-to-end probe was started with a SACK method", "20.9": "crashed"})
import vlib as _vlib
PROPS["C14"] = dict(num=14, labs=[], rule="Access table regenerated from the Go source (tools/goextract/accesses.go: the four drivers' sender/receiver threads, the parallel engine, the multi-query aggregator, the reverse-DNS fan-out) checked against the lock discipline inside Coq; "
    "plus the race lab: the harness built with -race runs the real parallel engine over each parallel-capable driver with replies (stale duplicates for TTLs 1, 7, 20) already queued while probes 1..40 are being sent over a wire that adds no synchronisation, "
    "8+8 concurrently completing runs/probes through the real RunTraceroute, the reverse-DNS fan-out over 40 addresses, and the allocators from 8 goroutines.",
    nontrivial="each scenario family of the race lab", trivial_classes=[],
    signatures={"14.1": "the race detector reported a data race in the repository's code"},
    extra=[("race", _vlib.race_lab), ("lockset", _vlib.lockset_pairs)],
    trusted_base=["tools/goextract/accesses.go (syntactic lock regions, intra-package inlining; blind spots listed in DESIGN.md)", "Go's race detector (used only to exhibit a schedule, never as the proof)"],
    assumptions=["sync.Mutex provides mutual exclusion; sync/atomic, channels, context, errgroup, WaitGroup are race-free by construction"])

PROPS["C13"] = dict(num=13, labs=["kern"], rule="Kernel lab: private network namespaces (tools/netlab.py) client - r1 .. rn - destination, n = 1..3 (1..5 thorough), kernel routers with forwarding on, dual stack (198.18.i.0/24 and fd00:18:i::/64); the harness binary runs the real RunTraceroute inside the client namespace "
    "over real raw sockets and AF_PACKET capture: ICMP, UDP, TCP SYN to an open and to a closed port, TCP SACK, prefer_sack; a router with time-exceeded generation suppressed (nftables), a destination with tcp_sack=0, first TTL 2, a last TTL short of the destination, and 2-3 runs at once. "
    "Every reply is produced by the kernel's own IP/ICMP/TCP stack.",
    nontrivial="every scenario (a real run over kernel routers)", trivial_classes=[],
    signatures={"13.1": "the reported path differs from the chain of router addresses followed by the destination (or destination marking / RTT sign)", "13.2": "method sack against a target without SACK did not fail as not-supported"},
    trusted_base=["the Linux kernel of this sandbox IS the system under observation here; namespaces need CAP_NET_ADMIN (when unavailable the lab records that and covers nothing)", "tools/netlab.py topology builder"],
    assumptions=["kernel conformance to the ideal path is sampled, never proved"])
