"""Per-property configuration of bin/check."""

PROPS = {}

PROPS["C12"] = dict(
    num=12,
    labs=["c12"],
    rule="Frames over the equivalence classes the programs inspect (ethertype, protocol, IHL 0..15 x all 256 TCP flag bytes, "
         "fragment bits x protocols, every single-byte/bit perturbation of header bytes 12..73 of 13 base frames, every truncation "
         "length, random/mutated frames) x TCP 4-tuple configurations at sign/endianness boundaries; each frame is run through the "
         "repository's real programs in x/net/bpf's VM, through the Coq interpreter on the regenerated programs, and through the field-level spec.",
    nontrivial="frame of >= 14 bytes (class bit 8) or accepted by some program",
    trivial_classes=[0],
    signatures={"1": "icmp program differs from its spec", "2": "udp program differs from its spec", "3": "synack program differs from its spec",
                "4": "drop-all program accepts a frame", "5": "tcp 4-tuple program differs from its spec",
                "6.0": "matcher yields a hop/handshake for a frame the installed filter rejects: IPv6 hop-by-hop before ICMPv6"},
    trusted_base=["x/net/bpf assembler and VM (the Coq interpreter is compared with bpf.VM on every case)",
                  "kernel cBPF semantics = x/net/bpf VM semantics (not verified)"],
    assumptions=["programs are the ones getClassicBPFFilter returns on this tree (regenerated each run)"],
)

ENG_RULE = ("Real TracerouteParallel/TracerouteSerial run under testing/synctest's virtual clock against a scripted network "
            "(script entry = TTL, delay after that TTL's send, responder, destination flag, reply|noise). Enumerated: every reply multiset "
            "(none / plain / dest / plain+dest / plain+plain per TTL, <= 4 replies) x every arrival order x both engines for 1..3 TTLs; "
            "random: first/last incl. 250..255 and single-TTL ranges, 0..3 replies per TTL incl. stale/late/after-deadline, several destination TTLs, "
            "noise, shuffled script order. Compared: hop list, accepted sequence, (ttl, send instant) log, elapsed virtual ns.")
ENG_TRUSTED = ["scripted driver + synctest virtual clock in /verif/harness (the engine code under test is the repository's own)",
               "goroutine scheduling inside one virtual instant is not modelled: cases where two events coincide are reported by the model as ties and skipped (counted in class_histogram, classes >= 64)"]

PROPS["C03"] = dict(
    num=3, labs=["eng"], rule=ENG_RULE,
    nontrivial="at least one reply accepted by the engine (class bits 1..3 != 0)",
    trivial_classes=[0, 1, 64, 65],
    signatures={"3": "reported hop list violates the path-shape predicate (Spec/C03.v shapeb)", "9": "a valid scripted run returned an error"},
    trusted_base=ENG_TRUSTED,
    assumptions=["accepted replies are what the driver handed to the engine (recorded by the scripted driver)"],
)
PROPS["C07"] = dict(
    num=7, labs=["eng"], rule=ENG_RULE,
    nontrivial="at least one reply accepted by the engine",
    trivial_classes=[0, 1, 64, 65],
    signatures={"7": "a reported hop is not (earliest destination reply for its TTL, else earliest reply)", "9": "a valid scripted run returned an error"},
    trusted_base=ENG_TRUSTED + ["atomicity of writeProbe (runs under resultsMu) is an assumption of the transition system, supported by C14"],
    assumptions=["Go scheduler not modelled; the transition system's steps are the atomic actions of the Go code"],
)
