#!/usr/bin/env python3
"""Writes /verif/MANIFEST.json from tools/props.py + tools/manifest_text.py."""
import json, sys
sys.path.insert(0, "/verif/tools")
from props import PROPS
from manifest_text import TEXT, NOT_APPLICABLE, HOOK_COMMITS

checks = []
for pid in sorted(PROPS):
    t = TEXT[pid]
    checks.append({
        "property_id": pid,
        "quick_cmd": "bin/check %s --tier quick" % pid,
        "thorough_cmd": "bin/check %s --tier thorough" % pid,
        "evidence_file": "/verif/evidence/%s.json" % pid,
        "replay_cmd_template": "bin/check %s --replay {path}" % pid,
        "engine": "coq-proof+correspondence",
        "level_claimed": {"category": "proof", "text": t["text"], "design_ref": t.get("design_ref", "DESIGN.md section 7, " + pid)},
        "level_note": t["note"],
        "technique": t["technique"],
    })
m = {
    "version": 1,
    "setup_cmd": "bin/setup",
    "hooks": {
        "guard": "verif",
        "enable": "go build tag: go test -c -tags verif (harness module /verif/harness with replace github.com/DataDog/datadog-traceroute => /repo)",
        "baseline_off_cmd": "cd /repo && GOFLAGS=-mod=mod GOPROXY=off go test -vet=off -count=1 ./...",
        "source_commits": HOOK_COMMITS,
        "add_only": True,
    },
    "engines": [{
        "name": "coq-proof+correspondence", "path": "/verif/coq, /verif/harness, /verif/bin/check",
        "serves_properties": sorted(PROPS),
        "kind_free_text": "Coq 8.16.1 development (models, executable specs, theorems; Generated/*.v rewritten from /repo on every run) + Go harness running the real code on generated cases + extracted/vm_compute model evaluation and comparison",
    }],
    "checks": checks,
    "not_applicable": [{"property_id": k, "reason": v} for k, v in sorted(NOT_APPLICABLE.items()) if k not in PROPS],
    "notes": "See DESIGN.md. known_findings.json lists recorded findings and fixed defects.",
}
json.dump(m, open("/verif/MANIFEST.json", "w"), indent=1)
print("wrote MANIFEST.json with", len(checks), "checks")
