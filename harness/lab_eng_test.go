package harness

import (
	"context"
	"errors"
	"fmt"
	"math"
	"net/netip"
	"path/filepath"
	"sync"
	"testing"
	"testing/synctest"
	"time"

	"github.com/DataDog/datadog-traceroute/common"
)

func init() {
	labs["eng"] = labEng
}

// ---- scripted driver: the network as a script of reply entries --------------
//
// Entry e becomes readable at sendTime(e.ttl)+e.delay provided that TTL was sent;
// ReceiveProbe returns the readable entry with the smallest ready time (script
// order on ties) as soon as it is ready, or the no-packet error after timeout.
// kind 0 = reply, 1 = retryable noise (BadPacketError).

type scriptEntry struct {
	ttl   int
	delay time.Duration
	ip    int
	dest  bool
	kind  int
}

type sendRec struct {
	ttl int
	at  time.Duration
}

type accRec struct {
	ttl  int
	ip   int
	rtt  time.Duration
	dest bool
}

type scriptDriver struct {
	mu        sync.Mutex
	parallel  bool
	started   bool
	start     time.Time
	sendTimes map[int]time.Time
	sends     []sendRec
	pend      []scriptEntry
	accepted  []accRec
	notify    chan struct{}
	failSend  int // fail the k-th SendProbe (1-based), 0 = never
	nSend     int
	sendErr   error
	sendDur   time.Duration // how long the failing SendProbe stays in flight before it returns its error
	okSendDur time.Duration // how long every successful SendProbe stays in flight AFTER the probe has left
}

var errSendBudget = fmt.Errorf("harness: more than 2000 probes in one run")

func newScriptDriver(parallel bool, script []scriptEntry) *scriptDriver {
	return &scriptDriver{parallel: parallel, sendTimes: map[int]time.Time{}, pend: append([]scriptEntry(nil), script...), notify: make(chan struct{}, 1)}
}

func (d *scriptDriver) GetDriverInfo() common.TracerouteDriverInfo {
	return common.TracerouteDriverInfo{SupportsParallel: d.parallel}
}

func ipOf(i int) netip.Addr {
	return netip.AddrFrom4([4]byte{10, byte(i >> 16), byte(i >> 8), byte(i)})
}
func ipIdx(a netip.Addr) int {
	b := a.As4()
	return int(b[1])<<16 | int(b[2])<<8 | int(b[3])
}

func (d *scriptDriver) SendProbe(ttl uint8) error {
	d.mu.Lock()
	d.nSend++
	if d.nSend > 2000 {
		// a run can ask for at most 255 probes; anything far beyond that is a runaway sender
		d.mu.Unlock()
		return errSendBudget
	}
	if d.failSend != 0 && d.nSend == d.failSend {
		d.mu.Unlock()
		time.Sleep(d.sendDur)
		return d.sendErr
	}
	now := time.Now()
	if !d.started {
		d.started = true
		d.start = now
	}
	d.sendTimes[int(ttl)] = now
	d.sends = append(d.sends, sendRec{int(ttl), now.Sub(d.start)})
	d.mu.Unlock()
	select {
	case d.notify <- struct{}{}:
	default:
	}
	if d.okSendDur > 0 {
		time.Sleep(d.okSendDur)
	}
	return nil
}

func (d *scriptDriver) best() (int, time.Time, bool) {
	bi := -1
	var bt time.Time
	for i, e := range d.pend {
		st, ok := d.sendTimes[e.ttl]
		if e.kind == 2 {
			st, ok = d.start, d.started
		}
		if !ok {
			continue
		}
		a := st.Add(e.delay)
		if bi < 0 || a.Before(bt) {
			bi, bt = i, a
		}
	}
	return bi, bt, bi >= 0
}

func (d *scriptDriver) ReceiveProbe(timeout time.Duration) (*common.ProbeResponse, error) {
	deadline := time.Now().Add(timeout)
	for {
		d.mu.Lock()
		now := time.Now()
		i, at, ok := d.best()
		if ok && !at.After(now) {
			e := d.pend[i]
			d.pend = append(d.pend[:i:i], d.pend[i+1:]...)
			st := d.sendTimes[e.ttl]
			if e.kind == 2 {
				st = d.start
			}
			if e.kind == 1 {
				d.mu.Unlock()
				return nil, &common.BadPacketError{Err: fmt.Errorf("scripted noise")}
			}
			rtt := now.Sub(st)
			if e.kind == 2 {
				// a driver is free to report ANY RTT: rogue replies carry one that is unrelated to arrival order
				rtt = time.Duration((int64(e.delay) % 50021) * 997)
			}
			d.accepted = append(d.accepted, accRec{e.ttl, e.ip, rtt, e.dest})
			d.mu.Unlock()
			return &common.ProbeResponse{TTL: uint8(e.ttl), IP: ipOf(e.ip), RTT: rtt, IsDest: e.dest}, nil
		}
		d.mu.Unlock()
		if !now.Before(deadline) {
			return nil, &common.ReceiveProbeNoPktError{Err: fmt.Errorf("scripted: nothing yet")}
		}
		wake := deadline
		if ok && at.Before(deadline) {
			wake = at
		}
		tm := time.NewTimer(wake.Sub(now))
		select {
		case <-tm.C:
		case <-d.notify:
			tm.Stop()
		}
	}
}

// ---- one engine case --------------------------------------------------------

type engCase struct {
	serial               bool
	first, last          int
	timeout, poll, delay time.Duration
	script               []scriptEntry
	cancelAt             time.Duration // 0: the caller's context is never cancelled
	// parallel engine only: the run is made with SendDelay 0 and a SendProbe that returns [delay] after the probe left, and
	// with TracerouteTimeout = timeout + delay*count.  By the engine's code that is the schedule and the deadline of the
	// reported configuration (send delay [delay], timeout [timeout]): the sender checks for cancellation at the same
	// instants, MaxTimeout is the same.  The correspondence check confirms it on every such case.
	inflight bool
}

func (c engCase) input() sx {
	es := make(sxList, 0, len(c.script))
	for _, e := range c.script {
		es = append(es, L(sxInt(int64(e.ttl)), sxInt(int64(e.delay)), sxInt(int64(e.ip)), sxBool(e.dest), sxInt(int64(e.kind))))
	}
	return L(sxInt(1), sxBool(c.serial), sxInt(int64(c.first)), sxInt(int64(c.last)), sxInt(int64(c.timeout)), sxInt(int64(c.poll)), sxInt(int64(c.delay)), es, sxInt(int64(c.cancelAt)))
}

type engObs struct {
	status  int // 0 ok, 1 engine error, 2 ToHops error
	hops    sxList
	acc     sxList
	sends   sxList
	elapsed time.Duration
}

func (o engObs) sx() sx {
	return L(sxInt(int64(o.status)), o.hops, o.acc, o.sends, sxInt(int64(o.elapsed)))
}

func runEngCase(t *testing.T, c engCase) engObs {
	var o engObs
	synctest.Test(t, func(t *testing.T) {
		defer func() {
			if r := recover(); r != nil {
				o.status = 3
			}
		}()
		d := newScriptDriver(!c.serial, c.script)
		tp := common.TracerouteParams{MinTTL: uint8(c.first), MaxTTL: uint8(c.last), TracerouteTimeout: c.timeout, PollFrequency: c.poll, SendDelay: c.delay}
		if c.inflight && !c.serial {
			d.okSendDur = c.delay
			tp.SendDelay = 0
			tp.TracerouteTimeout = c.timeout + c.delay*time.Duration(c.last-c.first+1)
		}
		t0 := time.Now()
		var res []*common.ProbeResponse
		var err error
		ctx, cancel := context.WithCancel(context.Background())
		defer cancel()
		if c.cancelAt > 0 {
			time.AfterFunc(c.cancelAt, cancel)
		}
		if c.serial {
			res, err = common.TracerouteSerial(ctx, d, common.TracerouteSerialParams{TracerouteParams: tp})
		} else {
			res, err = common.TracerouteParallel(ctx, d, common.TracerouteParallelParams{TracerouteParams: tp})
		}
		o.elapsed = time.Since(t0)
		d.mu.Lock()
		for _, s := range d.sends {
			o.sends = append(o.sends, L(sxInt(int64(s.ttl)), sxInt(int64(s.at))))
		}
		for _, a := range d.accepted {
			o.acc = append(o.acc, L(sxInt(int64(a.ttl)), sxInt(int64(a.ip)), sxInt(int64(a.rtt)), sxBool(a.dest)))
		}
		d.mu.Unlock()
		if err != nil {
			o.status = 1
			if errors.Is(err, context.Canceled) {
				o.status = 4
			}
			return
		}
		hops, herr := common.ToHops(tp, res)
		if herr != nil {
			o.status = 2
			return
		}
		for _, h := range hops {
			if len(h.IPAddress) == 0 {
				o.hops = append(o.hops, L(sxInt(int64(h.TTL)), sxInt(0), sxInt(0), sxInt(int64(math.Round(h.RTT*1e6))), sxBool(h.IsDest)))
			} else {
				a, _ := netip.AddrFromSlice(h.IPAddress)
				o.hops = append(o.hops, L(sxInt(int64(h.TTL)), sxInt(1), sxInt(int64(ipIdx(a.Unmap()))), sxInt(int64(math.Round(h.RTT*1e6))), sxBool(h.IsDest)))
			}
		}
	})
	if o.hops == nil {
		o.hops = sxList{}
	}
	if o.acc == nil {
		o.acc = sxList{}
	}
	if o.sends == nil {
		o.sends = sxList{}
	}
	return o
}

// ---- generators -------------------------------------------------------------

const msNs = time.Millisecond

// residues keep ready times, send instants, poll expiries and deadlines apart
func genEngCase(r *rng, idx int) engCase {
	c := engCase{serial: r.bool()}
	switch r.intn(6) {
	case 0:
		c.first = 250 + r.intn(6)
		c.last = c.first + r.intn(256-c.first)
	case 1:
		c.first = 1 + r.intn(3)
		c.last = c.first
	default:
		c.first = 1 + r.intn(4)
		c.last = c.first + r.intn(8)
	}
	c.poll = time.Duration(20+20*r.intn(5)) * msNs
	c.timeout = time.Duration(100+50*r.intn(12))*msNs + 500
	c.delay = time.Duration(r.intn(7)*10) * msNs
	wantInflight := !c.serial && c.delay > 0 && r.intn(3) == 0
	if wantInflight {
		// the receiver's first poll then starts when the first SendProbe returns, [delay] after the start: with the delay a
		// multiple of the poll interval the poll boundaries are those of the reported configuration (the elapsed time of a
		// run that ends by its deadline depends on them)
		c.delay = c.poll
		if c.poll <= 40*msNs && r.bool() {
			c.delay = 2 * c.poll
		}
	}
	n := c.last - c.first + 1
	destAt := 0
	if r.intn(4) != 0 {
		destAt = c.first + r.intn(n)
	}
	used := map[int]bool{500: true, 0: true, 333: true}
	resid := func() time.Duration {
		for {
			x := 1 + r.intn(998)
			if !used[x] {
				used[x] = true
				return time.Duration(x)
			}
		}
	}
	horizon := int(c.timeout/msNs) + n*int(c.delay/msNs) + 150
	for t := c.first; t <= c.last; t++ {
		k := []int{0, 1, 1, 1, 2, 3}[r.intn(6)]
		for j := 0; j < k && len(used) < 900; j++ {
			e := scriptEntry{ttl: t, ip: 1 + r.intn(6) + 16*t, kind: 0}
			switch r.intn(5) {
			case 0:
				e.delay = time.Duration(r.intn(horizon))*msNs + resid()
			case 1:
				e.delay = time.Duration(r.intn(3))*msNs + resid()
			default:
				e.delay = time.Duration(r.intn(int(c.timeout/msNs)))*msNs + resid()
			}
			if destAt != 0 && t >= destAt && r.intn(5) != 0 {
				e.dest = true
				e.ip = 7
			} else if r.intn(25) == 0 {
				e.dest = true // destination answering a lower TTL too
				e.ip = 7
			}
			if r.intn(12) == 0 {
				e.kind = 1
			}
			c.script = append(c.script, e)
		}
	}
	// a driver handing out a reply nobody asked for: in range but unsent, below first, above last
	if r.intn(5) == 0 && len(used) < 900 {
		// one to three of them; several for one TTL with reported RTTs unrelated to their arrival order
		same := c.first + r.intn(n)
		for k := 1 + r.intn(3); k > 0; k-- {
			e := scriptEntry{kind: 2, ip: 9 - r.intn(2), delay: time.Duration(1+r.intn(horizon))*msNs + resid(), dest: r.intn(3) == 0}
			switch r.intn(6) {
			case 0:
				e.ttl = c.first - 1 - r.intn(c.first)
			case 1:
				e.ttl = c.last + 1 + r.intn(3)
				if e.ttl > 255 {
					e.ttl = c.first - 1
				}
			case 2:
				e.ttl = c.first + r.intn(n)
			default:
				e.ttl = same
			}
			c.script = append(c.script, e)
		}
	}
	// a burst of malformed packets read back to back (forty within one microsecond, so no idle poll separates them): every
	// one of them is retryable, however many there are
	if r.intn(8) == 0 && len(used) < 850 {
		base := time.Duration(r.intn(int(c.timeout/msNs))) * msNs
		for k := 0; k < 40; k++ {
			c.script = append(c.script, scriptEntry{ttl: c.first, ip: 1, kind: 1, delay: base + resid()})
		}
	}
	if r.intn(5) == 0 {
		// external cancellation at an arbitrary instant of the run (or after it)
		c.cancelAt = time.Duration(1+r.intn(horizon+100))*msNs + 333
		used[333] = true
	}
	// shuffle script order (order only matters on equal ready times, which the residues exclude)
	for i := len(c.script) - 1; i > 0; i-- {
		j := r.intn(i + 1)
		c.script[i], c.script[j] = c.script[j], c.script[i]
	}
	// the receiver starts when the first SendProbe has returned: only when nothing is readable before that instant is the
	// run the same as that of the reported configuration
	c.inflight = wantInflight
	for _, e := range c.script {
		if (e.ttl == c.first || e.kind == 2) && e.delay <= c.delay {
			c.inflight = false
		}
	}
	return c
}

// exhaustive small space for the merge rule: n TTLs, each reply multiset, all arrival orders
func enumEngCases(maxTTLs int) []engCase {
	var out []engCase
	type rep struct {
		ttl  int
		dest bool
	}
	var reps [][]rep
	// per TTL: none, one plain, one dest, plain+dest, plain+plain
	options := func(t int) [][]rep {
		return [][]rep{{}, {{t, false}}, {{t, true}}, {{t, false}, {t, true}}, {{t, false}, {t, false}}}
	}
	var build func(t, n int, cur []rep)
	build = func(t, n int, cur []rep) {
		if t > n {
			reps = append(reps, append([]rep(nil), cur...))
			return
		}
		for _, o := range options(t) {
			build(t+1, n, append(cur, o...))
		}
	}
	for n := 1; n <= maxTTLs; n++ {
		reps = nil
		build(1, n, nil)
		for _, rs := range reps {
			if len(rs) > 4 {
				continue
			}
			// all permutations of arrival order
			perm := make([]int, len(rs))
			for i := range perm {
				perm[i] = i
			}
			var rec func(k int)
			rec = func(k int) {
				if k == len(perm) {
					for _, serial := range []bool{false, true} {
						c := engCase{serial: serial, first: 1, last: n, poll: 20 * msNs, timeout: 400*msNs + 500, delay: 10 * msNs}
						for rank, pi := range perm {
							r0 := rs[pi]
							// absolute ready time = 60ms + rank*3ms (after every send at 10ms spacing for parallel)
							abs := 60*msNs + time.Duration(rank)*3*msNs + time.Duration(rank+1)
							st := time.Duration(r0.ttl-1) * 10 * msNs
							c.script = append(c.script, scriptEntry{ttl: r0.ttl, delay: abs - st, ip: 1 + pi, dest: r0.dest})
						}
						out = append(out, c)
					}
					return
				}
				for i := k; i < len(perm); i++ {
					perm[k], perm[i] = perm[i], perm[k]
					rec(k + 1)
					perm[k], perm[i] = perm[i], perm[k]
				}
			}
			rec(0)
		}
	}
	return out
}

func labEng(e labEnv) {
	r := newRng(e.seed)
	w, err := newCaseWriter(filepath.Join(e.out, "eng.cases"))
	must(err)
	tags := map[string]int{}
	var cases []engCase
	cases = append(cases, enumEngCases(3)...)
	tags["enumerated"] = len(cases)
	n := 1200
	if e.thorough() {
		n = 60000
	}
	for i := 0; i < n; i++ {
		cases = append(cases, genEngCase(r, i))
	}
	tags["random"] = n
	obs := make([]engObs, len(cases))
	var wg sync.WaitGroup
	sem := make(chan struct{}, 16)
	for i := range cases {
		wg.Add(1)
		sem <- struct{}{}
		go func(i int) {
			defer wg.Done()
			defer func() { <-sem }()
			obs[i] = runEngCase(e.t, cases[i])
		}(i)
	}
	wg.Wait()
	for i, c := range cases {
		w.put(c.input(), obs[i].sx())
		if c.serial {
			tags["serial"]++
		} else {
			tags["parallel"]++
			if c.inflight {
				tags["parallel_send_in_flight_zero_delay"]++
			}
		}
		tags[fmt.Sprintf("status%d", obs[i].status)]++
		if c.cancelAt > 0 {
			tags["with_cancellation"]++
		}
		tags[fmt.Sprintf("script_len_%d", min(len(c.script), 12))]++
	}
	must(w.close())
	writeDist(e, "eng", tags)
}
