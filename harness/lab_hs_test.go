package harness

import (
	"errors"
	"sort"
	"testing"
	"testing/synctest"
	"time"

	"github.com/DataDog/datadog-traceroute/sack"
)

// ---- kind 19: sackDriver.ReadHandshake under the virtual clock --------------------------------
//
//   input (19 cfg ((arrival_ns frame) ...))     frames sorted by arrival offset after the call
//   impl  (status elapsed_ns)                   status: 1 established, 2 not supported, 3 error / timeout, 4 panic
//
// Streams: silence; a trickle of packets the reader must skip (other connections' SYN-ACKs, ICMP, garbage) at
// intervals shorter than the read timeout, for up to 4 s; the genuine SYN-ACK early, late, or never.

type hsFrame struct {
	at time.Duration
	f  []byte
}

func runHsTimed(t *testing.T, c drvCfg, frames []hsFrame) (sx, sx) {
	var out sx
	sort.SliceStable(frames, func(i, j int) bool { return frames[i].at < frames[j].at })
	synctest.Test(t, func(t *testing.T) {
		d := newDrvInst(c, nil, map[string]int{})
		start := time.Now()
		for _, fr := range frames {
			d.src.inject(fr.f, start.Add(fr.at))
		}
		status := 0
		func() {
			defer func() {
				if r := recover(); r != nil {
					status = 4
				}
			}()
			err := d.sackV.ReadHandshake(uint16(c.sport))
			var ns *sack.NotSupportedError
			switch {
			case err == nil:
				status = 1
			case errors.As(err, &ns):
				status = 2
			default:
				status = 3
			}
		}()
		out = L(sxInt(int64(status)), sxInt(int64(time.Since(start))))
	})
	fs := sxList{}
	for _, fr := range frames {
		fs = append(fs, L(sxInt(int64(fr.at)), sxBytes(fr.f)))
	}
	return L(sxInt(19), c.sx(), fs), out
}

func hsTimedCases(t *testing.T, r *rng, n int, w *caseWriter, tags map[string]int) {
	lo := []byte{127, 0, 0, 1}
	for i := 0; i < n; i++ {
		c := drvCfg{variant: vSack, first: 1, last: 5, local: lo, target: lo, sport: 1024 + r.intn(60000), dport: 1 + r.intn(65000),
			initSeq: r.u32(), initAck: r.u32(), hasTS: r.bool(), tsVal: r.u32(), tsEcr: r.u32(), loosen: r.bool()}
		ts := 0
		if c.hasTS {
			ts = 1
		}
		good := c.synack(true, ts, 0x12)
		skip := func() []byte {
			switch r.intn(4) {
			case 0:
				c2 := c
				c2.sport = c.sport ^ (1 + r.intn(7)) // SYN-ACK of another connection to the same target
				return c2.synack(true, 0, 0x12)
			case 1:
				return te4(router4(1+r.intn(9)), c.l4(), 11, 0, []byte{0x45, 0, 0, 40}, nil, [4]byte{})
			case 2:
				return c.synack(true, 0, 0x10) // plain ACK
			default:
				return garbage(r)
			}
		}
		jitter := func() time.Duration { return time.Duration(1 + r.intn(999)) } // never on a millisecond boundary
		var frames []hsFrame
		mode := r.intn(6)
		switch mode {
		case 0: // silence
			tags["hs_timed:silence"]++
		case 1: // trickle for up to 4 s, never the SYN-ACK
			step := time.Duration(50+r.intn(400)) * time.Millisecond
			for at := step; at < time.Duration(1+r.intn(4))*time.Second; at += step {
				frames = append(frames, hsFrame{at + jitter(), skip()})
			}
			tags["hs_timed:trickle_only"]++
		case 2: // trickle, SYN-ACK after the timeout
			step := time.Duration(50+r.intn(400)) * time.Millisecond
			for at := step; at < 2*time.Second; at += step {
				frames = append(frames, hsFrame{at + jitter(), skip()})
			}
			frames = append(frames, hsFrame{time.Duration(501+r.intn(1400))*time.Millisecond + jitter(), good})
			tags["hs_timed:synack_late"]++
		case 3: // SYN-ACK in time, behind skipped packets
			for k := r.intn(6); k > 0; k-- {
				frames = append(frames, hsFrame{time.Duration(r.intn(450))*time.Millisecond + jitter(), skip()})
			}
			frames = append(frames, hsFrame{time.Duration(r.intn(499))*time.Millisecond + jitter(), good})
			tags["hs_timed:synack_in_time"]++
		case 4: // no SACK-permitted in time / late
			frames = append(frames, hsFrame{time.Duration(r.intn(900))*time.Millisecond + jitter(), c.synack(false, 0, 0x12)})
			tags["hs_timed:no_sack_permitted"]++
		default: // burst at the very start, then quiet
			for k := 1 + r.intn(20); k > 0; k-- {
				frames = append(frames, hsFrame{jitter(), skip()})
			}
			tags["hs_timed:burst"]++
		}
		in, out := runHsTimed(t, c, frames)
		w.put(in, out)
	}
}
