package harness

import (
	"context"
	"encoding/binary"
	"errors"
	"fmt"
	"net"
	"net/http"
	"net/http/httptest"
	"net/netip"
	"os"
	"path/filepath"
	"sync"
	"time"

	"github.com/DataDog/datadog-traceroute/cache"
	"github.com/DataDog/datadog-traceroute/common"
	"github.com/DataDog/datadog-traceroute/icmp"
	"github.com/DataDog/datadog-traceroute/packets"
	"github.com/DataDog/datadog-traceroute/publicip"
	"github.com/DataDog/datadog-traceroute/result"
	"github.com/DataDog/datadog-traceroute/reversedns"
	"github.com/DataDog/datadog-traceroute/sack"
	"github.com/DataDog/datadog-traceroute/server"
	"github.com/DataDog/datadog-traceroute/traceroute"
	"github.com/DataDog/datadog-traceroute/udp"
)

func init() { labs["race"] = labRace }

// labRace runs the concurrent parts of the repository under the race detector (the harness is built with
// -race for this lab) over a wire that adds no synchronisation of its own: replies are queued before the
// probes they answer are sent, failures complete at the same time.  It writes no cases: a race is reported by
// the detector on stderr ("WARNING: DATA RACE") and fails the process.
type rawSource struct {
	mu   sync.Mutex
	pkts [][]byte
	i    int
	dl   time.Time
}

func (s *rawSource) SetReadDeadline(t time.Time) error { s.dl = t; return nil }
func (s *rawSource) Read(buf []byte) (int, error) {
	s.mu.Lock()
	if len(s.pkts) == 0 {
		s.mu.Unlock()
		time.Sleep(200 * time.Microsecond)
		return 0, fmt.Errorf("empty: %w", os.ErrDeadlineExceeded)
	}
	p := s.pkts[s.i%len(s.pkts)]
	s.i++
	s.mu.Unlock()
	time.Sleep(50 * time.Microsecond)
	return copy(buf, p), nil
}
func (s *rawSource) Close() error                                        { return nil }
func (s *rawSource) SetPacketFilter(spec packets.PacketFilterSpec) error { return nil }

type nullSink struct{}

func (nullSink) WriteTo(buf []byte, addr netip.AddrPort) error { return nil }
func (nullSink) Close() error                                  { return nil }

// resetRT: every request fails with a transport error (retryable for the public-IP lookup)
type resetRT struct{}

func (resetRT) RoundTrip(*http.Request) (*http.Response, error) {
	return nil, errors.New("connection reset")
}

func labRace(e labEnv) {
	tags := map[string]int{}
	l4, t4 := [4]byte{192, 0, 2, 2}, [4]byte{198, 51, 100, 7}
	tp := common.TracerouteParams{MinTTL: 1, MaxTTL: 40, TracerouteTimeout: 30 * time.Millisecond, PollFrequency: 2 * time.Millisecond, SendDelay: 300 * time.Microsecond}
	pp := common.TracerouteParallelParams{TracerouteParams: tp}
	for rep := 0; rep < 6; rep++ {
		// ---- ICMP: a stale duplicate of the answer to TTL 1 (and to a later TTL) keeps arriving while probes go out
		{
			icmp.VerifSetEchoCounter(41)
			src := &rawSource{}
			v := icmp.VerifNewDriver(icmp.Params{Target: netip.AddrFrom4(t4), ParallelParams: pp}, netip.AddrFrom4(l4), nullSink{}, src)
			id := v.EchoID()
			for _, ttl := range []byte{1, 7, 20} {
				q := buildIP4(ip4Hdr{ttl: 1, proto: 1, src: l4, dst: t4, id: id}, buildICMP4(8, 0, [4]byte{byte(id >> 8), byte(id), 0, ttl}, []byte{ttl}))
				src.pkts = append(src.pkts, te4(router4(int(ttl)), l4, 11, 0, q[:28], nil, [4]byte{}))
			}
			// ... and the destination answers the probe for TTL 9 while later TTLs are still being sent (on odd repetitions),
			// so the reader's "stop sending" signal crosses the writer
			if rep%2 == 1 {
				src.pkts = append(src.pkts, buildIP4(ip4Hdr{ttl: 55, proto: 1, src: t4, dst: l4, id: 7}, buildICMP4(0, 0, [4]byte{byte(id >> 8), byte(id), 0, 9}, []byte{9})))
			}
			_, _ = common.TracerouteParallel(context.Background(), v.Driver(), pp)
			tags["icmp_parallel"]++
		}
		// ---- UDP
		{
			cfg := udp.NewUDPv4(net.IP(t4[:]), 33434, tp.MinTTL, tp.MaxTTL, tp.SendDelay, tp.TracerouteTimeout, false)
			src := &rawSource{}
			d := udp.VerifNewDriver(cfg, net.IP(l4[:]), 40000, nullSink{}, src)
			for _, ttl := range []int{1, 7, 20} {
				seg := buildUDP4(40000, 33434, []byte("NSMNC\x00\x00\x00"), l4, t4)
				q := buildIP4(ip4Hdr{ttl: 1, proto: 17, src: l4, dst: t4, id: uint16(41821 + ttl), flagsOff: 0x4000}, seg)
				src.pkts = append(src.pkts, te4(router4(ttl), l4, 11, 0, q[:28], nil, [4]byte{}))
			}
			if rep%2 == 1 {
				seg := buildUDP4(40000, 33434, []byte("NSMNC\x00\x00\x00"), l4, t4)
				q := buildIP4(ip4Hdr{ttl: 1, proto: 17, src: l4, dst: t4, id: uint16(41821 + 9), flagsOff: 0x4000}, seg)
				src.pkts = append(src.pkts, te4(t4, l4, 3, 3, q[:28], nil, [4]byte{}))
			}
			_, _ = common.TracerouteParallel(context.Background(), d, pp)
			tags["udp_parallel"]++
		}
		// ---- UDP over IPv6, several runs at once (the queries of one request, overlapping requests): every run has its own
		// driver, configuration and handles; whatever else the senders share inside the package is shared without a lock.
		// The runs differ in their last TTL, i.e. in the longest payload they build (IPv6 probes carry the TTL in the payload
		// length), and each repetition asks for longer ones than the process has built before.
		{
			l6 := net.ParseIP("2001:db8::2")
			t6 := net.ParseIP("2001:db8:1::7")
			var wg sync.WaitGroup
			start := make(chan struct{})
			for k := 0; k < 4; k++ {
				wg.Add(1)
				go func(k int) {
					defer wg.Done()
					last := uint8(6 + 6*rep + 2*k)
					tp6 := common.TracerouteParams{MinTTL: 1, MaxTTL: last, TracerouteTimeout: 10 * time.Millisecond, PollFrequency: 2 * time.Millisecond, SendDelay: 100 * time.Microsecond}
					cfg := udp.NewUDPv4(t6, 33434, tp6.MinTTL, tp6.MaxTTL, tp6.SendDelay, tp6.TracerouteTimeout, false)
					d := udp.VerifNewDriver(cfg, l6, uint16(41000+k), nullSink{}, &rawSource{})
					<-start
					_, _ = common.TracerouteParallel(context.Background(), d, common.TracerouteParallelParams{TracerouteParams: tp6})
				}(k)
			}
			close(start)
			wg.Wait()
			tags["udp6_concurrent_runs"]++
		}
		// ---- SACK
		{
			c := drvCfg{variant: vSack, local: l4[:], target: t4[:], sport: 50123, dport: 443, loosen: true, initSeq: 0xfffffff0, initAck: 77}
			src := &rawSource{}
			v, err := sack.VerifNewDriver(sack.Params{Target: netip.AddrPortFrom(netip.AddrFrom4(t4), 443), HandshakeTimeout: time.Second, ParallelParams: pp, LoosenICMPSrc: true}, netip.AddrFrom4(l4), nullSink{}, src)
			must(err)
			// on odd repetitions the handshake negotiates TCP timestamps and the later acknowledgements carry an advancing TSval
			tsMode := rep % 2
			src.pkts = [][]byte{c.synack(true, tsMode, 0x12)}
			must(v.ReadHandshake(50123))
			src.mu.Lock()
			src.pkts = nil
			for _, ttl := range []uint32{1, 7, 20} {
				seg := buildTCP4(tcpHdr{sport: 50123, dport: 443, seq: c.initSeq + ttl, ack: 78, flags: 0x18, win: 1024}, []byte{byte(ttl)}, l4, t4)
				q := buildIP4(ip4Hdr{ttl: 1, proto: 6, src: l4, dst: t4, id: 41821}, seg)
				src.pkts = append(src.pkts, te4(router4(int(ttl)), l4, 11, 0, q[:28], nil, [4]byte{}))
			}
			if rep%2 == 1 {
				opt := []byte{1, 1, 5, 10, 0, 0, 0, 0, 0, 0, 0, 0}
				binary.BigEndian.PutUint32(opt[4:], c.initSeq+9)
				binary.BigEndian.PutUint32(opt[8:], c.initSeq+10)
				ts := []byte{1, 1, 8, 10, 0x7f, 0xff, 0xff, 0xf0, 0, 0, 0, 1}
				opt = append(ts, opt...)
				seg := buildTCP4(tcpHdr{sport: 443, dport: 50123, seq: 78, ack: c.initSeq, flags: 0x10, win: 512, opts: opt}, nil, t4, l4)
				src.pkts = append(src.pkts, buildIP4(ip4Hdr{ttl: 60, proto: 6, src: t4, dst: l4}, seg))
			}
			src.mu.Unlock()
			_, _ = common.TracerouteParallel(context.Background(), v.Driver(), pp)
			tags["sack_parallel"]++
		}
		// ---- multi-query aggregation: runs and probes failing / succeeding at the same instant
		{
			start := make(chan struct{})
			restore := traceroute.VerifSetRunOnce(func(ctx context.Context, p traceroute.TracerouteParams, port int) (*result.TracerouteRun, error) {
				<-start
				if p.MinTTL == p.MaxTTL || rep%2 == 0 {
					return nil, errors.New("scripted failure")
				}
				return &result.TracerouteRun{Hops: []*result.TracerouteHop{{TTL: 1, IPAddress: net.IP{8, 8, 8, 8}, RTT: 1, IsDest: true}}}, nil
			})
			tr := traceroute.VerifNewTraceroute(stubFetcher{ok: true, text: "203.0.113.9"})
			go func() { time.Sleep(2 * time.Millisecond); close(start) }()
			// alternately a TCP request with a SACK method: the end-to-end probes of such a request run with another method
			// than its traceroute runs, whatever part of the request settles that
			proto, method := "udp", traceroute.TCPMethod("")
			if rep%2 == 1 {
				proto, method = "tcp", traceroute.TCPMethod([]string{"prefer_sack", "sack"}[rep/2%2])
			}
			_, _ = tr.RunTraceroute(context.Background(), traceroute.TracerouteParams{Hostname: "x", Protocol: proto, TCPMethod: method, MinTTL: 1, MaxTTL: 2, Timeout: 0, TracerouteQueries: 8, E2eQueries: 8, CollectSourcePublicIP: true, ReverseDns: false})
			restore()
			tags["multi_query"]++
		}
		// ---- reverse-DNS fan-out
		{
			old := reversedns.LookupAddrFn
			reversedns.LookupAddrFn = func(ctx context.Context, addr string) ([]string, error) { return []string{"n." + addr}, nil }
			var ips []net.IP
			for i := 0; i < 40; i++ {
				ips = append(ips, net.IPv4(203, 0, byte(rep), byte(i)))
			}
			_, _ = reversedns.GetReverseDnsForIPs(ips)
			reversedns.LookupAddrFn = old
			tags["rdns_fanout"]++
		}
		// ---- several requests at once on one Traceroute object (the HTTP server's situation): their public-IP lookups
		// overlap, every provider fails retryably so the retry policy is exercised
		{
			cache.Cache.Flush()
			restoreCk := publicip.VerifSetIPCheckers([]string{"http://a.invalid/", "http://b.invalid/"})
			restoreRun := traceroute.VerifSetRunOnce(func(ctx context.Context, p traceroute.TracerouteParams, port int) (*result.TracerouteRun, error) {
				return &result.TracerouteRun{Hops: []*result.TracerouteHop{{TTL: 1, IPAddress: net.IP{8, 8, 8, 8}, RTT: 1, IsDest: true}}}, nil
			})
			tr := traceroute.VerifNewTraceroute(publicip.VerifNewFetcher(resetRT{}))
			var wg sync.WaitGroup
			for i := 0; i < 3; i++ {
				wg.Add(1)
				go func() {
					defer wg.Done()
					ctx, cancel := context.WithTimeout(context.Background(), 40*time.Millisecond)
					defer cancel()
					_, _ = tr.RunTraceroute(ctx, traceroute.TracerouteParams{Hostname: "x", Protocol: "udp", MinTTL: 1, MaxTTL: 2, TracerouteQueries: 1, CollectSourcePublicIP: true})
				}()
			}
			wg.Wait()
			restoreRun()
			restoreCk()
			tags["concurrent_requests_public_ip"]++
		}
		// ---- the HTTP server's situation proper: one Server (and the Traceroute object it builds itself) handling several
		// requests at once, each asking for the source public IP
		{
			cache.Cache.Flush()
			restoreCk := publicip.VerifSetIPCheckers([]string{"http://127.0.0.1:1/"})
			restoreRun := traceroute.VerifSetRunOnce(func(ctx context.Context, p traceroute.TracerouteParams, port int) (*result.TracerouteRun, error) {
				return &result.TracerouteRun{Hops: []*result.TracerouteHop{{TTL: 1, IPAddress: net.IP{8, 8, 8, 8}, RTT: 1, IsDest: true}}}, nil
			})
			srv := server.NewServer()
			var wg sync.WaitGroup
			for i := 0; i < 4; i++ {
				wg.Add(1)
				go func() {
					defer wg.Done()
					ctx, cancel := context.WithTimeout(context.Background(), 40*time.Millisecond)
					defer cancel()
					req := httptest.NewRequest(http.MethodGet, "/traceroute?target=8.8.8.8&traceroute-queries=1&e2e-queries=1&source-public-ip=true&reverse-dns=false&timeout=20", nil).WithContext(ctx)
					srv.TracerouteHandler(httptest.NewRecorder(), req)
				}()
			}
			wg.Wait()
			restoreRun()
			restoreCk()
			tags["server_concurrent_requests"]++
		}
		// ---- allocators
		{
			var wg sync.WaitGroup
			for i := 0; i < 8; i++ {
				wg.Add(1)
				go func() {
					defer wg.Done()
					for k := 0; k < 50; k++ {
						packets.AllocPacketID(30)
						icmp.VerifNextEchoID()
					}
				}()
			}
			wg.Wait()
			tags["allocators"]++
		}
	}
	w, err := newCaseWriter(filepath.Join(e.out, "race.cases"))
	must(err)
	must(w.close())
	writeDist(e, "race", tags)
}
