module verifharness

go 1.25.6

require (
	github.com/DataDog/datadog-traceroute v0.0.0
	github.com/cenkalti/backoff/v5 v5.0.3
	github.com/google/gopacket v1.1.19
	github.com/patrickmn/go-cache v2.1.0+incompatible
	golang.org/x/net v0.49.0
	golang.org/x/sys v0.40.0
)

require (
	github.com/golang/mock v1.6.0 // indirect
	github.com/google/uuid v1.6.0 // indirect
	github.com/spf13/cobra v1.10.2 // indirect
	github.com/spf13/pflag v1.0.9 // indirect
	golang.org/x/sync v0.19.0 // indirect
)

replace github.com/DataDog/datadog-traceroute => /repo
