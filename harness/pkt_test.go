package harness

import "encoding/binary"

// Independent (gopacket-free) packet builders used to produce replies, so that
// a mistake shared by gopacket's serialisers and its parsers cannot cancel.

func onesSum(b []byte, init uint32) uint32 {
	s := init
	for i := 0; i+1 < len(b); i += 2 {
		s += uint32(b[i])<<8 | uint32(b[i+1])
	}
	if len(b)%2 == 1 {
		s += uint32(b[len(b)-1]) << 8
	}
	return s
}

func foldSum(s uint32) uint16 {
	for s > 0xffff {
		s = (s >> 16) + (s & 0xffff)
	}
	return ^uint16(s)
}

func inetCksum(b []byte) uint16 { return foldSum(onesSum(b, 0)) }

type ip4Hdr struct {
	tos      byte
	id       uint16
	flagsOff uint16
	ttl      byte
	proto    byte
	src, dst [4]byte
	opts     []byte // already padded to a multiple of 4
	totLen   int    // 0: computed
	badCk    bool
}

func buildIP4(h ip4Hdr, payload []byte) []byte {
	ihl := 5 + len(h.opts)/4
	tl := h.totLen
	if tl == 0 {
		tl = ihl*4 + len(payload)
	}
	b := make([]byte, ihl*4, ihl*4+len(payload))
	b[0] = byte(0x40 | ihl)
	b[1] = h.tos
	binary.BigEndian.PutUint16(b[2:], uint16(tl))
	binary.BigEndian.PutUint16(b[4:], h.id)
	binary.BigEndian.PutUint16(b[6:], h.flagsOff)
	b[8] = h.ttl
	b[9] = h.proto
	copy(b[12:16], h.src[:])
	copy(b[16:20], h.dst[:])
	copy(b[20:], h.opts)
	ck := inetCksum(b)
	if h.badCk {
		ck ^= 0x5555
	}
	binary.BigEndian.PutUint16(b[10:], ck)
	return append(b, payload...)
}

type ip6Hdr struct {
	tclass   byte
	flow     uint32
	nh       byte
	hlim     byte
	src, dst [16]byte
	payLen   int // -1: computed
}

func buildIP6(h ip6Hdr, payload []byte) []byte {
	b := make([]byte, 40, 40+len(payload))
	b[0] = 0x60 | h.tclass>>4
	b[1] = h.tclass<<4 | byte(h.flow>>16)&0x0f
	binary.BigEndian.PutUint16(b[2:], uint16(h.flow))
	pl := h.payLen
	if pl < 0 {
		pl = len(payload)
	}
	binary.BigEndian.PutUint16(b[4:], uint16(pl))
	b[6] = h.nh
	b[7] = h.hlim
	copy(b[8:24], h.src[:])
	copy(b[24:40], h.dst[:])
	return append(b, payload...)
}

// buildICMP4 builds type/code/checksum/rest(4)/body.
func buildICMP4(typ, code byte, rest [4]byte, body []byte) []byte {
	b := make([]byte, 8, 8+len(body))
	b[0], b[1] = typ, code
	copy(b[4:8], rest[:])
	b = append(b, body...)
	binary.BigEndian.PutUint16(b[2:], inetCksum(b))
	return b
}

func pseudo6(src, dst [16]byte, l int, nh byte) uint32 {
	s := onesSum(src[:], 0)
	s = onesSum(dst[:], s)
	s += uint32(l>>16) + uint32(l&0xffff)
	s += uint32(nh)
	return s
}

func pseudo4(src, dst [4]byte, l int, proto byte) uint32 {
	s := onesSum(src[:], 0)
	s = onesSum(dst[:], s)
	s += uint32(proto)
	s += uint32(l)
	return s
}

// buildICMP6 builds type/code/checksum + body (body includes the 4 "rest" bytes).
func buildICMP6(typ, code byte, body []byte, src, dst [16]byte) []byte {
	b := make([]byte, 4, 4+len(body))
	b[0], b[1] = typ, code
	b = append(b, body...)
	binary.BigEndian.PutUint16(b[2:], foldSum(onesSum(b, pseudo6(src, dst, len(b), 58))))
	return b
}

type tcpHdr struct {
	sport, dport uint16
	seq, ack     uint32
	flags        byte
	win          uint16
	opts         []byte // padded to a multiple of 4
	dataOff      int    // 0: computed
}

func buildTCP4(h tcpHdr, payload []byte, src, dst [4]byte) []byte {
	do := h.dataOff
	if do == 0 {
		do = 5 + len(h.opts)/4
	}
	b := make([]byte, 20, 20+len(h.opts)+len(payload))
	binary.BigEndian.PutUint16(b[0:], h.sport)
	binary.BigEndian.PutUint16(b[2:], h.dport)
	binary.BigEndian.PutUint32(b[4:], h.seq)
	binary.BigEndian.PutUint32(b[8:], h.ack)
	b[12] = byte(do << 4)
	b[13] = h.flags
	binary.BigEndian.PutUint16(b[14:], h.win)
	b = append(b, h.opts...)
	b = append(b, payload...)
	binary.BigEndian.PutUint16(b[16:], foldSum(onesSum(b, pseudo4(src, dst, len(b), 6))))
	return b
}

func buildUDP4(sport, dport uint16, payload []byte, src, dst [4]byte) []byte {
	b := make([]byte, 8, 8+len(payload))
	binary.BigEndian.PutUint16(b[0:], sport)
	binary.BigEndian.PutUint16(b[2:], dport)
	binary.BigEndian.PutUint16(b[4:], uint16(8+len(payload)))
	b = append(b, payload...)
	ck := foldSum(onesSum(b, pseudo4(src, dst, len(b), 17)))
	if ck == 0 {
		ck = 0xffff
	}
	binary.BigEndian.PutUint16(b[6:], ck)
	return b
}

func a4(a, b, c, d byte) [4]byte { return [4]byte{a, b, c, d} }

func a16(b []byte) [16]byte {
	var r [16]byte
	copy(r[:], b)
	return r
}
