package harness

import (
	"encoding/binary"
	"errors"
	"fmt"
	"net"
	"net/netip"
	"path/filepath"
	"testing"
	"testing/synctest"
	"time"

	"golang.org/x/net/bpf"

	"github.com/DataDog/datadog-traceroute/common"
	"github.com/DataDog/datadog-traceroute/icmp"
	"github.com/DataDog/datadog-traceroute/packets"
	"github.com/DataDog/datadog-traceroute/sack"
	"github.com/DataDog/datadog-traceroute/tcp"
	"github.com/DataDog/datadog-traceroute/udp"
)

func init() { labs["drv"] = labDrv }

// One case per operation against a real driver over the simulated wire:
//   input  (7 cfg sends op)      cfg = the run's configuration, sends = probes sent so far (ttl now rnd)
//   op     (0 ttl now rnd)       SendProbe          impl (ok #bytes)
//          (1 now #frame)        ReceiveProbe       impl (class ttl #ip dest rtt)
//          (2 now (#frame...))   SACK ReadHandshake impl (status initseq initack hasts tsval tsecr)
// class: 0 retryable (no packet / bad packet / did not match), 1 hop, 2 not-supported, 3 other error (fatal), 4 panic.

const (
	vIcmp = iota
	vUdp
	vTcp
	vSack
)

type drvCfg struct {
	variant       int
	v6            bool
	first, last   int
	local, target []byte
	sport, dport  int
	loosen        bool
	echoCounter   uint32 // icmp: allocator counter before the driver is built
	echoID        int
	paris         bool
	baseID        int
	seq           uint32
	// sack handshake
	initSeq, initAck uint32
	hasTS            bool
	tsVal, tsEcr     uint32
}

func (c drvCfg) sx() sx {
	return L(sxInt(int64(c.variant)), sxInt(int64(c.first)), sxInt(int64(c.last)), sxBytes(c.local), sxBytes(c.target),
		sxInt(int64(c.sport)), sxInt(int64(c.dport)), sxBool(c.loosen), sxInt(int64(c.echoID)), sxBool(c.paris), sxInt(int64(c.baseID)), sxInt(int64(c.seq)),
		sxInt(int64(c.initSeq)), sxInt(int64(c.initAck)), sxBool(c.hasTS), sxInt(int64(c.tsVal)), sxInt(int64(c.tsEcr)))
}

type sendRecD struct {
	ttl int
	at  time.Duration
	rnd uint32
	pkt []byte
}

type drvInst struct {
	cfg   drvCfg
	drv   common.TracerouteDriver
	src   *simSource
	snk   *simSink
	t0    time.Time
	sends []sendRecD
	w     *caseWriter
	tags  map[string]int
	sackV *sack.VerifDriver
	vm    *bpf.VM // the capture filter the protocol's entry point installs for this run
	vmHS  *bpf.VM // SACK: the filter in place while the handshake is read
}

func filterVM(spec packets.PacketFilterSpec) *bpf.VM {
	prog, err := packets.VerifClassicBPF(spec)
	if err != nil {
		return nil
	}
	return mustVM(prog)
}

func addrOf(b []byte) netip.Addr { a, _ := netip.AddrFromSlice(b); return a }

func (d *drvInst) sendsSx() sx {
	l := sxList{}
	for _, s := range d.sends {
		l = append(l, L(sxInt(int64(s.ttl)), sxInt(int64(s.at)), sxInt(int64(s.rnd))))
	}
	return l
}

func (d *drvInst) now() time.Duration { return time.Since(d.t0) }

func newDrvInst(c drvCfg, w *caseWriter, tags map[string]int) *drvInst {
	d := &drvInst{cfg: c, w: w, tags: tags, t0: time.Now()}
	d.src = newSimSource(nil)
	d.snk = newSimSink(nil)
	// every write takes a while to return: the RTT counts from handing the probe to the network, not from the return
	d.snk.writeDelay = 1700 * time.Microsecond
	tp := common.TracerouteParams{MinTTL: uint8(c.first), MaxTTL: uint8(c.last), TracerouteTimeout: time.Second, PollFrequency: 10 * time.Millisecond, SendDelay: time.Millisecond}
	switch c.variant {
	case vIcmp, vUdp:
		d.vm = filterVM(packets.PacketFilterSpec{FilterType: packets.FilterTypeICMP})
	case vTcp, vSack:
		d.vm = filterVM(packets.PacketFilterSpec{FilterType: packets.FilterTypeTCP, FilterConfig: packets.FilterConfig{
			Src: netip.AddrPortFrom(addrOf(c.target), uint16(c.dport)), Dst: netip.AddrPortFrom(addrOf(c.local), uint16(c.sport))}})
		d.vmHS = filterVM(packets.PacketFilterSpec{FilterType: packets.FilterTypeSYNACK, FilterConfig: packets.FilterConfig{Src: netip.AddrPortFrom(addrOf(c.target), uint16(c.dport))}})
	}
	switch c.variant {
	case vIcmp:
		icmp.VerifSetEchoCounter(c.echoCounter)
		v := icmp.VerifNewDriver(icmp.Params{Target: addrOf(c.target), ParallelParams: common.TracerouteParallelParams{TracerouteParams: tp}}, addrOf(c.local), d.snk, d.src)
		d.cfg.echoID = int(v.EchoID())
		d.drv = v.Driver()
	case vUdp:
		cfg := udp.NewUDPv4(net.IP(c.target), uint16(c.dport), uint8(c.first), uint8(c.last), time.Millisecond, time.Second, false)
		cfg.LoosenICMPSrc = c.loosen
		d.drv = udp.VerifNewDriver(cfg, net.IP(c.local), uint16(c.sport), d.snk, d.src)
	case vTcp:
		cfg := tcp.NewTCPv4(net.IP(c.target), uint16(c.dport), uint8(c.first), uint8(c.last), time.Millisecond, time.Second, c.paris, false)
		cfg.LoosenICMPSrc = c.loosen
		v := tcp.VerifNewDriver(cfg, net.IP(c.local), uint16(c.sport), d.snk, d.src)
		if !c.paris {
			v.SetBase(uint16(c.baseID), c.seq)
		}
		d.drv = v.Driver()
	case vSack:
		p := sack.Params{Target: netip.AddrPortFrom(addrOf(c.target), uint16(c.dport)), HandshakeTimeout: time.Second, FinTimeout: time.Second,
			ParallelParams: common.TracerouteParallelParams{TracerouteParams: tp}, LoosenICMPSrc: c.loosen}
		v, err := sack.VerifNewDriver(p, addrOf(c.local), d.snk, d.src)
		must(err)
		d.sackV = v
		d.drv = v.Driver()
	}
	return d
}

func (d *drvInst) put(op sx, impl sx) {
	d.w.put(L(sxInt(7), d.cfg.sx(), d.sendsSx(), op), impl)
}

func (d *drvInst) send(ttl int) {
	time.Sleep(time.Duration(1+len(d.sends)%7)*time.Millisecond + 13)
	before := len(d.snk.sent())
	at := d.now()
	sends0 := d.sendsSx()
	err := d.drv.SendProbe(uint8(ttl))
	log := d.snk.sent()
	var pkt []byte
	if len(log) > before {
		pkt = log[len(log)-1].data
	}
	var rnd uint32
	if err == nil && d.cfg.variant == vTcp && d.cfg.paris && len(pkt) >= 28 {
		rnd = binary.BigEndian.Uint32(pkt[24:28])
	}
	ok := err == nil
	d.w.put(L(sxInt(7), d.cfg.sx(), sends0, L(sxInt(0), sxInt(int64(ttl)), sxInt(int64(at)), sxInt(int64(rnd)))), L(sxBool(ok), sxBytes(pkt)))
	d.tags["send"]++
	if off := map[bool]int{false: 26, true: 46}[d.cfg.v6]; ok && d.cfg.variant == vUdp && len(pkt) >= off+2 && pkt[off] == 0xff && pkt[off+1] == 0xff {
		d.tags["udp_checksum_computed_zero_sent_as_ffff"]++
	}
	// the driver remembers the probe as soon as SendProbe stored it, even if the write failed
	if ok {
		d.sends = append(d.sends, sendRecD{ttl, at, rnd, pkt})
	}
}

func classify(resp *common.ProbeResponse, err error) (int, *common.ProbeResponse) {
	if err == nil {
		if resp == nil {
			return 3, nil
		}
		return 1, resp
	}
	var ns *sack.NotSupportedError
	if common.CheckProbeRetryable("lab", err) {
		return 0, nil
	}
	if errors.As(err, &ns) {
		return 2, nil
	}
	return 3, nil
}

func (d *drvInst) recv(frame []byte, tag string) { d.recvX(frame, tag, -1, nil) }

// recvX: expTTL >= 0 marks an unperturbed catalogue form that must be recognised as the hop (expTTL, expIP);
// -2 marks the one packet that is allowed to end a SACK run (ACK without SACK blocks).
func (d *drvInst) recvX(frame []byte, tag string, expTTL int, expIP []byte) {
	if len(frame) > 1024 {
		frame = frame[:1024]
	}
	time.Sleep(777 * time.Microsecond)
	at := d.now()
	d.src.inject(frame, time.Time{})
	cls, ttl, dest, rtt := 4, 0, false, time.Duration(0)
	var ip []byte
	func() {
		defer func() {
			if r := recover(); r != nil {
				cls = 4
			}
		}()
		resp, err := d.drv.ReceiveProbe(5 * time.Millisecond)
		var pr *common.ProbeResponse
		cls, pr = classify(resp, err)
		if pr != nil {
			ttl, dest, rtt, ip = int(pr.TTL), pr.IsDest, pr.RTT, pr.IP.AsSlice()
		}
	}()
	fpass := int64(-2) // -2: this variant has no filter for this family
	if d.vm != nil {
		fpass = vmRun(d.vm, etherFrame(frame))
	}
	d.put(L(sxInt(1), sxInt(int64(at)), sxBytes(frame), sxInt(int64(expTTL)), sxBytes(expIP)), L(sxInt(int64(cls)), sxInt(int64(ttl)), sxBytes(ip), sxBool(dest), sxInt(int64(rtt)), sxInt(fpass)))
	d.tags["recv:"+tag]++
	d.tags[fmt.Sprintf("recv_class_%d", cls)]++
}

// ---- reply construction (independent builders, not gopacket) -------------------

func (c drvCfg) l4() [4]byte   { var a [4]byte; copy(a[:], c.local); return a }
func (c drvCfg) t4() [4]byte   { var a [4]byte; copy(a[:], c.target); return a }
func (c drvCfg) l16() [16]byte { var a [16]byte; copy(a[:], c.local); return a }
func (c drvCfg) t16() [16]byte { var a [16]byte; copy(a[:], c.target); return a }

func router4(i int) [4]byte { return [4]byte{203, 0, 113, byte(1 + i%250)} }
func router6(i int) [16]byte {
	var a [16]byte
	a[0], a[1], a[2], a[3], a[15] = 0x20, 0x01, 0x0d, 0xb8, byte(1+i%250)
	a[7] = 0x99
	return a
}

// te4 builds an ICMPv4 error (type/code) from src quoting q, with optional outer options.
func te4(src, dst [4]byte, typ, code byte, q []byte, opts []byte, unused [4]byte) []byte {
	return buildIP4(ip4Hdr{ttl: 250, proto: 1, src: src, dst: dst, opts: opts, id: 4242}, buildICMP4(typ, code, unused, q))
}
func te6(src, dst [16]byte, typ, code byte, q []byte) []byte {
	body := append([]byte{0, 0, 0, 0}, q...)
	return buildIP6(ip6Hdr{nh: 58, hlim: 250, src: src, dst: dst, payLen: -1}, buildICMP6(typ, code, body, src, dst))
}

// rfc4884 pads the quote to 128 bytes and appends an extension structure (MPLS label stack object).
func rfc4884(q []byte) ([]byte, [4]byte) {
	p := append([]byte(nil), q...)
	for len(p) < 128 {
		p = append(p, 0)
	}
	p = p[:128]
	ext := []byte{0x20, 0, 0, 0, 0, 8, 1, 1, 0x00, 0x01, 0x01, 0xff}
	binary.BigEndian.PutUint16(ext[2:], inetCksum(ext))
	return append(p, ext...), [4]byte{0, 32, 0, 0}
}

type reply struct {
	tag   string
	frame []byte
}

// genuineReplies: every catalogue form answering probe s of this driver.
func (d *drvInst) genuineReplies(s sendRecD, idx int) []reply {
	c := d.cfg
	var out []reply
	P := s.pkt
	if len(P) == 0 {
		return nil
	}
	if !c.v6 {
		r := router4(idx)
		q28 := P
		if len(q28) > 28 {
			q28 = P[:28]
		}
		nopts := []byte{1, 1, 1, 0}
		rr := []byte{7, 7, 4, 0, 0, 0, 0, 0} // record route, padded
		rewr := append([]byte(nil), P...)
		rewr[1] = 0x28                  // TOS rewritten
		rewr[8] = 1                     // TTL as it was when it expired
		rewr[10], rewr[11] = 0xde, 0xad // checksum not recomputed
		ext, un := rfc4884(P)
		ext28, un28 := rfc4884(q28)
		if c.variant != vSack || true {
			out = append(out,
				reply{"te28", te4(r, c.l4(), 11, 0, q28, nil, [4]byte{})},
				reply{"tefull", te4(r, c.l4(), 11, 0, P, nil, [4]byte{})},
				reply{"te4884", te4(r, c.l4(), 11, 0, ext, nil, un)},
				reply{"te4884_28", te4(r, c.l4(), 11, 0, ext28, nil, un28)},
				reply{"te_outer_nop", te4(r, c.l4(), 11, 0, q28, nopts, [4]byte{})},
				reply{"te_outer_rr", te4(r, c.l4(), 11, 0, P, rr, [4]byte{})},
				reply{"te_rewritten", te4(r, c.l4(), 11, 0, rewr, nil, [4]byte{})},
				reply{"te_from_target", te4(c.t4(), c.l4(), 11, 0, q28, nil, [4]byte{})},
				reply{"te_quoted_opts_rr", te4(r, c.l4(), 11, 0, quoteWithOptions(P, rr, false), nil, [4]byte{})},
				reply{"te_quoted_opts_nop28", te4(r, c.l4(), 11, 0, quoteWithOptions(P, nopts, true), nil, [4]byte{})},
			)
		}
		switch c.variant {
		case vIcmp:
			body := []byte{byte(c.echoID >> 8), byte(c.echoID), 0, byte(s.ttl)}
			out = append(out, reply{"echo_reply", buildIP4(ip4Hdr{ttl: 60, proto: 1, src: c.t4(), dst: c.l4()}, buildICMP4(0, 0, [4]byte{body[0], body[1], body[2], body[3]}, []byte{byte(s.ttl)}))})
		case vUdp:
			out = append(out, reply{"port_unreach", te4(c.t4(), c.l4(), 3, 3, q28, nil, [4]byte{})},
				reply{"host_unreach_router", te4(r, c.l4(), 3, 1, q28, nil, [4]byte{})})
			// every other destination-unreachable code a target or a filtering router really sends (net / host / protocol
			// unreachable, fragmentation needed, the three administratively-prohibited codes)
			for _, code := range []byte{0, 1, 2, 4, 9, 10, 13} {
				out = append(out, reply{fmt.Sprintf("unreach_code%d_target", code), te4(c.t4(), c.l4(), 3, code, q28, nil, [4]byte{})})
			}
			out = append(out, reply{"unreach_code13_router", te4(r, c.l4(), 3, 13, q28, nil, [4]byte{})})
		case vTcp:
			ack := s.rnd + 1
			if !c.paris {
				ack = c.seq + 1
			}
			for _, f := range []struct {
				n  string
				fl byte
			}{{"synack", 0x12}, {"rst", 0x04}, {"rstack", 0x14}, {"synack_ece", 0x52}} {
				seg := buildTCP4(tcpHdr{sport: uint16(c.dport), dport: uint16(c.sport), seq: 777, ack: ack, flags: f.fl, win: 512}, nil, c.t4(), c.l4())
				out = append(out, reply{f.n, buildIP4(ip4Hdr{ttl: 60, proto: 6, src: c.t4(), dst: c.l4()}, seg)})
			}
			opt := []byte{2, 4, 5, 0xb4, 1, 1, 4, 2}
			seg := buildTCP4(tcpHdr{sport: uint16(c.dport), dport: uint16(c.sport), seq: 9, ack: ack, flags: 0x12, win: 512, opts: opt}, nil, c.t4(), c.l4())
			out = append(out, reply{"synack_opts_outer_rr", buildIP4(ip4Hdr{ttl: 60, proto: 6, src: c.t4(), dst: c.l4(), opts: rr}, seg)})
		case vSack:
			for nb := 1; nb <= 4; nb++ {
				opt := []byte{}
				if c.hasTS {
					opt = append(opt, 1, 1, 8, 10, 0, 0, 0, 9, 0, 0, 0, 7)
				}
				opt = append(opt, 1, 1, 5, byte(2+8*nb))
				var blocks [][8]byte
				for b := 0; b < nb; b++ {
					le := c.initSeq + uint32(s.ttl) + uint32(b*3)
					var e [8]byte
					binary.BigEndian.PutUint32(e[0:], le)
					binary.BigEndian.PutUint32(e[4:], le+1)
					blocks = append(blocks, e)
				}
				// the lowest block is not necessarily first: the most recently received segment's block leads (RFC 2018 section 4)
				for b := len(blocks) - 1; b >= 0; b-- {
					opt = append(opt, blocks[b][:]...)
				}
				for len(opt)%4 != 0 {
					opt = append(opt, 1)
				}
				if len(opt) > 40 {
					continue
				}
				seg := buildTCP4(tcpHdr{sport: uint16(c.dport), dport: uint16(c.sport), seq: c.initAck, ack: c.initSeq, flags: 0x10, win: 512, opts: opt}, nil, c.t4(), c.l4())
				out = append(out, reply{fmt.Sprintf("sack_%dblocks", nb), buildIP4(ip4Hdr{ttl: 60, proto: 6, src: c.t4(), dst: c.l4()}, seg)})
			}
			seg := buildTCP4(tcpHdr{sport: uint16(c.dport), dport: uint16(c.sport), seq: c.initAck, ack: c.initSeq, flags: 0x10, win: 512}, nil, c.t4(), c.l4())
			out = append(out, reply{"ack_without_sack", buildIP4(ip4Hdr{ttl: 60, proto: 6, src: c.t4(), dst: c.l4()}, seg)})
		}
	} else {
		r := router6(idx)
		q48 := P
		if len(q48) > 48 {
			q48 = P[:48]
		}
		out = append(out,
			reply{"te6_full", te6(r, c.l16(), 3, 0, P)},
			reply{"te6_48", te6(r, c.l16(), 3, 0, q48)},
			reply{"te6_from_target", te6(c.t16(), c.l16(), 3, 0, P)},
		)
		// RFC 4884 section 4.4: the first octet of the "unused" word is the length of the padded original datagram in
		// 64-bit words, and an extension structure (here an MPLS label stack object) follows it
		{
			q, _ := rfc4884(P)
			body := append([]byte{16, 0, 0, 0}, q...)
			out = append(out, reply{"te6_rfc4884_mpls", buildIP6(ip6Hdr{nh: 58, hlim: 250, src: r, dst: c.l16(), payLen: -1}, buildICMP6(3, 0, body, r, c.l16()))})
		}
		// the same time-exceeded behind a hop-by-hop extension header (router alert)
		{
			icmpb := buildICMP6(3, 0, append([]byte{0, 0, 0, 0}, P...), r, c.l16())
			hbh := []byte{58, 0, 5, 2, 0, 0, 1, 0}
			out = append(out, reply{"te6_hop_by_hop", buildIP6(ip6Hdr{nh: 0, hlim: 250, src: r, dst: c.l16(), payLen: -1}, append(hbh, icmpb...))})
		}
		switch c.variant {
		case vIcmp:
			body := []byte{byte(c.echoID >> 8), byte(c.echoID), 0, byte(s.ttl), byte(s.ttl)}
			out = append(out, reply{"echo_reply6", buildIP6(ip6Hdr{nh: 58, hlim: 60, src: c.t16(), dst: c.l16(), payLen: -1}, buildICMP6(129, 0, body, c.t16(), c.l16()))})
		case vUdp:
			out = append(out, reply{"port_unreach6", te6(c.t16(), c.l16(), 1, 4, P)},
				reply{"addr_unreach6_router", te6(r, c.l16(), 1, 3, P)})
			// no route / administratively prohibited / address unreachable / reject route, sent by the target itself
			for _, code := range []byte{0, 1, 3, 6} {
				out = append(out, reply{fmt.Sprintf("unreach6_code%d_target", code), te6(c.t16(), c.l16(), 1, code, P)})
			}
			out = append(out, reply{"unreach6_code1_router", te6(r, c.l16(), 1, 1, P)})
		}
	}
	return out
}

// perturb: every single-byte change of a frame (three kinds per position), field-aware
// changes (identifier +-256, other TTLs), every truncation length.
func perturb(r *rng, f []byte, full bool) []reply {
	var out []reply
	lim := len(f)
	if lim > 120 {
		lim = 120
	}
	for i := 0; i < lim; i++ {
		kinds := []byte{0x01, 0x80, 0xff}
		if !full {
			kinds = []byte{kinds[r.intn(3)]}
		}
		for _, k := range kinds {
			g := append([]byte(nil), f...)
			g[i] ^= k
			out = append(out, reply{"byte_flip", g})
		}
	}
	for n := 0; n <= len(f) && n <= 140; n++ {
		if full || n%3 == 0 || n < 50 {
			out = append(out, reply{"truncated", append([]byte(nil), f[:n]...)})
		}
	}
	// two-byte big-endian fields +-256, +1, -1, -2, -3 (identifiers just below the first one of the run) at every offset of the first 100 bytes
	for i := 0; i+1 < len(f) && i < 100; i++ {
		for _, dlt := range []int{256, -256, 1, -1, -2, -3} {
			g := append([]byte(nil), f...)
			v := int(binary.BigEndian.Uint16(g[i:])) + dlt
			binary.BigEndian.PutUint16(g[i:], uint16(v))
			out = append(out, reply{"field16_shift", g})
		}
	}
	return out
}

func outerSrc(f []byte) []byte {
	if len(f) >= 20 && f[0]>>4 == 4 {
		return f[12:16]
	}
	if len(f) >= 40 && f[0]>>4 == 6 {
		return f[8:24]
	}
	return nil
}

func garbage(r *rng) []byte {
	n := r.intn(90)
	b := r.bytes(n)
	if n > 0 {
		switch r.intn(4) {
		case 0:
			b[0] = 0x45
		case 1:
			b[0] = 0x60
		case 2:
			b[0] = byte(0x40 | r.intn(16))
		}
	}
	return b
}

// ---- configurations -----------------------------------------------------------------

func drvConfigs(r *rng, thorough bool) []drvCfg {
	l4a, t4a := []byte{192, 0, 2, 2}, []byte{198, 51, 100, 7}
	l6a := []byte{0x20, 1, 0xd, 0xb8, 0, 0, 0, 0, 0, 0, 0, 0, 0, 0, 0, 2}
	t6a := []byte{0x20, 1, 0xd, 0xb8, 0, 1, 0, 0, 0, 0, 0, 0, 0, 0, 0, 7}
	ranges := [][2]int{{1, 6}, {3, 9}, {250, 255}, {1, 1}, {255, 255}}
	var out []drvCfg
	n := 1
	if thorough {
		n = 3
	}
	for k := 0; k < n; k++ {
		for _, v6 := range []bool{false, true} {
			rg := pick(r, ranges)
			c := drvCfg{variant: vIcmp, v6: v6, first: rg[0], last: rg[1], local: l4a, target: t4a, echoCounter: pick(r, []uint32{0, 65534, 65535, 0x1ffff, r.u32()})}
			if k == 0 {
				c.echoCounter = 65535 // always: the echo identifier counter at the 16-bit wrap
			}
			if v6 {
				c.local, c.target = l6a, t6a
			}
			out = append(out, c)
			for _, lo := range []bool{false, true} {
				rg = pick(r, ranges)
				u := drvCfg{variant: vUdp, v6: v6, first: rg[0], last: rg[1], local: c.local, target: c.target, sport: pick(r, []int{1, 65535, 40000 + r.intn(20000)}), dport: pick(r, []int{33434, 1, 65535, 53}), loosen: lo}
				out = append(out, u)
			}
			// a source port for which the UDP checksum of one of the probes computes to zero: the wire form is 0xffff
			z := drvCfg{variant: vUdp, v6: v6, first: 1, last: 6, local: c.local, target: c.target, dport: pick(r, []int{33434, 53, 65535})}
			z.sport = zeroCkSport(z, 1+r.intn(4))
			out = append(out, z)
		}
		for _, paris := range []bool{false, true} {
			for _, lo := range []bool{false, true} {
				rg := pick(r, ranges)
				tc := drvCfg{variant: vTcp, first: rg[0], last: rg[1], local: l4a, target: t4a, sport: pick(r, []int{1, 65535, 50000 + r.intn(9000)}), dport: pick(r, []int{80, 443, 65535, 1}),
					loosen: lo, paris: paris, baseID: pick(r, []int{0, 65535, 65400, int(r.u16())}), seq: pick(r, []uint32{0, 0xffffffff, 0xfffffffe, r.u32()})}
				if k == 0 && !paris && !lo {
					// always: the IP identifications of TTLs 1..6 straddle the 16-bit wrap (65535 + 1 = 0, then 1, 2, ...)
					tc.first, tc.last, tc.baseID = 1, 6, 65535
				}
				out = append(out, tc)
			}
		}
		for _, lo := range []bool{false, true} {
			rg := pick(r, ranges)
			sc := drvCfg{variant: vSack, first: rg[0], last: rg[1], local: l4a, target: t4a, sport: 50000 + r.intn(9000), dport: pick(r, []int{80, 443}), loosen: lo,
				initSeq: pick(r, []uint32{0xffffffff, 0xfffffffe, 0xffffff80, 5678, r.u32()}), initAck: r.u32(), hasTS: r.bool(), tsVal: pick(r, []uint32{0xffffffce, r.u32()}), tsEcr: r.u32()}
			if k == 0 && !lo {
				// always: probes 1..6 straddle the 2^32 sequence wrap, so the blocks of one acknowledgement do too
				sc.first, sc.last, sc.initSeq = 1, 6, 0xfffffffe
			}
			out = append(out, sc)
		}
	}
	return out
}

// quoteWithOptions is the probe as a router quotes it after an on-path device added IP options to its header (IHL 6 or 7,
// total length and header checksum adjusted); short: only the header and the first 8 transport bytes.
func quoteWithOptions(P []byte, opts []byte, short bool) []byte {
	if len(P) < 20 {
		return P
	}
	q := append([]byte(nil), P[:20]...)
	q = append(q, opts...)
	q = append(q, P[20:]...)
	q[0] = byte(0x40 | (20+len(opts))/4)
	binary.BigEndian.PutUint16(q[2:], uint16(len(q)))
	q[10], q[11] = 0, 0
	binary.BigEndian.PutUint16(q[10:], inetCksum(q[:20+len(opts)]))
	if short && len(q) > 20+len(opts)+8 {
		q = q[:20+len(opts)+8]
	}
	return q
}

// sackOddOptions builds ACKs from the target on the run's flow whose SACK option lengths are not 2+8k.
func sackOddOptions(c drvCfg, s sendRecD) []reply {
	var out []reply
	var e [8]byte
	le := c.initSeq + uint32(s.ttl)
	binary.BigEndian.PutUint32(e[0:], le)
	binary.BigEndian.PutUint32(e[4:], le+1)
	mk := func(tag string, opt []byte) {
		for len(opt)%4 != 0 {
			opt = append(opt, 1)
		}
		seg := buildTCP4(tcpHdr{sport: uint16(c.dport), dport: uint16(c.sport), seq: c.initAck, ack: c.initSeq, flags: 0x10, win: 512, opts: opt}, nil, c.t4(), c.l4())
		out = append(out, reply{tag, buildIP4(ip4Hdr{ttl: 60, proto: 6, src: c.t4(), dst: c.l4()}, seg)})
	}
	for r := 1; r <= 7; r++ {
		opt := append([]byte{5, byte(2 + 8 + r)}, e[:]...)
		for k := 0; k < r; k++ {
			opt = append(opt, byte(0xa0+k))
		}
		mk(fmt.Sprintf("sack_block_plus_%d_stray", r), opt)
	}
	mk("sack_block_then_short_sack", append(append([]byte{5, 10}, e[:]...), 5, 4, 0xde, 0xad))
	mk("sack_short_then_block", append([]byte{5, 6, 1, 2, 3, 4, 5, 10}, e[:]...))
	mk("sack_block_then_empty_sack", append(append([]byte{5, 10}, e[:]...), 5, 2))
	mk("sack_only_partial", []byte{5, 7, 1, 2, 3, 4, 5})
	mk("sack_two_blocks_plus_4_stray", append(append(append([]byte{5, 22}, e[:]...), e[:]...), 9, 9, 9, 9))
	return out
}

// zeroCkSport returns the source port for which the UDP checksum of the probe for ttl computes to zero, from the
// packet layout alone (no gopacket): pseudo-header, ports, length and payload sum to a multiple of 0xffff.
func zeroCkSport(c drvCfg, ttl int) int {
	var payload []byte
	if c.v6 {
		for len(payload) < 5+ttl {
			payload = append(payload, "NSMNC"[len(payload)%5])
		}
	} else {
		id := uint16(41821 + ttl)
		payload = []byte{'N', 'S', 'M', 'N', 'C', 0, byte(id >> 8), byte(id)}
	}
	l := 8 + len(payload)
	var s uint32
	if c.v6 {
		var a, b [16]byte
		copy(a[:], c.local)
		copy(b[:], c.target)
		s = pseudo6(a, b, l, 17)
	} else {
		var a, b [4]byte
		copy(a[:], c.local)
		copy(b[:], c.target)
		s = pseudo4(a, b, l, 17)
	}
	s = onesSum(payload, s+uint32(c.dport)+uint32(l))
	return 65535 - int(s%65535)
}

// synack builds the handshake SYN-ACK the target sends for this configuration.
func (c drvCfg) synack(sackPermitted bool, ts int, flags byte) []byte {
	opt := []byte{2, 4, 5, 0xb4}
	if sackPermitted {
		opt = append(opt, 4, 2)
	} else {
		opt = append(opt, 1, 1)
	}
	switch ts {
	case 1: // timestamps: the driver sets tsValue = ecr + 50, tsEcr = val
		opt = append(opt, 8, 10)
		var t [8]byte
		binary.BigEndian.PutUint32(t[0:], c.tsEcr)
		binary.BigEndian.PutUint32(t[4:], c.tsVal-50)
		opt = append(opt, t[:]...)
		opt = append(opt, 1, 1)
	case 2: // truncated timestamps option
		opt = append(opt, 8, 6, 0, 0, 0, 1, 1, 1)
	}
	for len(opt)%4 != 0 {
		opt = append(opt, 0)
	}
	seg := buildTCP4(tcpHdr{sport: uint16(c.dport), dport: uint16(c.sport), seq: c.initAck - 1, ack: c.initSeq, flags: flags, win: 65535, opts: opt}, nil, c.t4(), c.l4())
	return buildIP4(ip4Hdr{ttl: 60, proto: 6, src: c.t4(), dst: c.l4()}, seg)
}

func (d *drvInst) handshake(frames [][]byte, tag string) bool {
	at := d.now()
	fs := sxList{}
	for _, f := range frames {
		d.src.inject(f, time.Time{})
		fs = append(fs, sxBytes(f))
	}
	status := 0
	func() {
		defer func() {
			if r := recover(); r != nil {
				status = 4
			}
		}()
		err := d.sackV.ReadHandshake(uint16(d.cfg.sport))
		var ns *sack.NotSupportedError
		switch {
		case err == nil:
			status = 1
		case errors.As(err, &ns):
			status = 2
		default:
			status = 3
		}
	}()
	ok, is, ia, hts, tv, te := d.sackV.HandshakeState()
	if !ok {
		is, ia, hts, tv, te = 0, 0, false, 0, 0
	}
	// which of the handshake frames the SYN-ACK capture filter lets through
	fp := sxList{}
	for _, f := range frames {
		v := int64(-2)
		if d.vmHS != nil {
			v = vmRun(d.vmHS, etherFrame(f))
		}
		fp = append(fp, sxInt(v))
	}
	d.put(L(sxInt(2), sxInt(int64(at)), fs), L(sxInt(int64(status)), sxInt(int64(is)), sxInt(int64(ia)), sxBool(hts), sxInt(int64(tv)), sxInt(int64(te)), fp))
	d.tags["handshake:"+tag]++
	// drain what the handshake left unread
	for {
		d.src.mu.Lock()
		n := len(d.src.queue)
		d.src.queue = nil
		d.src.mu.Unlock()
		if n == 0 {
			break
		}
	}
	return status == 1
}

func runDrvConfig(t *testing.T, c drvCfg, r *rng, w *caseWriter, tags map[string]int, thorough bool) {
	synctest.Test(t, func(t *testing.T) {
		if c.variant == vSack {
			// handshake variants on throw-away drivers first
			type hs struct {
				tag    string
				frames [][]byte
			}
			good := c.synack(true, map[bool]int{true: 1, false: 0}[c.hasTS], 0x12)
			noise := te4(router4(1), c.l4(), 11, 0, []byte{0x45, 0, 0, 40}, nil, [4]byte{})
			wrongPort := func() []byte {
				c2 := c
				c2.sport = c.sport ^ 1
				return c2.synack(true, 0, 0x12)
			}()
			for _, h := range []hs{
				{"no_sack_permitted", [][]byte{c.synack(false, 0, 0x12)}},
				{"truncated_timestamps", [][]byte{c.synack(true, 2, 0x12)}},
				{"never_captured", [][]byte{noise, garbage(r), wrongPort}},
				{"syn_only_then_timeout", [][]byte{c.synack(true, 0, 0x02)}},
				{"noise_then_timeout", [][]byte{noise}},
				{"garbage_then_synack", [][]byte{garbage(r), wrongPort, noise, good}},
			} {
				d0 := newDrvInst(c, w, tags)
				d0.handshake(h.frames, h.tag)
			}
		}
		d := newDrvInst(c, w, tags)
		c = d.cfg
		if c.variant == vSack {
			if !d.handshake([][]byte{c.synack(true, map[bool]int{true: 1, false: 0}[c.hasTS], 0x12)}, "established") {
				return
			}
		}
		// traffic before anything was sent
		d.recv(garbage(r), "garbage_before_send")
		if c.variant == vTcp {
			seg := buildTCP4(tcpHdr{sport: uint16(c.dport), dport: uint16(c.sport), seq: 1, ack: 1, flags: 0x04}, nil, c.t4(), c.l4())
			d.recv(buildIP4(ip4Hdr{ttl: 60, proto: 6, src: c.t4(), dst: c.l4()}, seg), "rst_before_any_send")
		}
		// out-of-range / repeated sends
		if c.first > 1 {
			d.send(c.first - 1)
		}
		ttls := []int{}
		for t := c.first; t <= c.last && len(ttls) < 4; t++ {
			ttls = append(ttls, t)
		}
		for i, ttl := range ttls {
			d.send(ttl)
			if i == 0 {
				d.send(ttl) // the same TTL twice
			}
			if len(d.sends) == 0 {
				continue
			}
			s := d.sends[len(d.sends)-1]
			// the tool's own outgoing probe comes back on the capture handle
			d.recv(s.pkt, "own_probe")
			for _, g := range d.genuineReplies(s, i) {
				exp, eip := s.ttl, outerSrc(g.frame)
				if g.tag == "ack_without_sack" {
					exp, eip = -2, nil
				}
				if g.tag == "te6_hop_by_hop" {
					exp = -3 // not one of the property's catalogue forms: matcher-level observation only
				}
				d.recvX(g.frame, g.tag, exp, eip)
				full := thorough || i == 0
				for _, p := range perturb(r, g.frame, full && (i == 0)) {
					d.recv(p.frame, p.tag+":"+g.tag)
				}
			}
			// the other address family: an ICMPv6 echo reply with this run's identifier and the probe's sequence number from the
			// IPv4-MAPPED form of the target (::ffff:a.b.c.d - any on-link IPv6 node can send it; the 'icmp || icmp6' capture
			// filter lets it in).  It is not a reply of the IPv4 target to an IPv4 echo request.
			if c.variant == vIcmp && !c.v6 {
				mapped := func(a [4]byte) (m [16]byte) {
					m[10], m[11] = 0xff, 0xff
					copy(m[12:], a[:])
					return
				}
				body := []byte{byte(c.echoID >> 8), byte(c.echoID), 0, byte(s.ttl), byte(s.ttl)}
				ms, md := mapped(c.t4()), mapped(c.l4())
				d.recv(buildIP6(ip6Hdr{nh: 58, hlim: 60, src: ms, dst: md, payLen: -1}, buildICMP6(129, 0, body, ms, md)), "echo_reply6_from_v4_mapped_target")
			}
			// SACK options whose data is not a whole number of 8-byte blocks (gopacket only checks 2 <= length <= remaining):
			// a genuine block followed by 1..7 stray bytes, a second SACK option too short to hold a block, an empty one
			if c.variant == vSack {
				for _, m := range sackOddOptions(c, s) {
					d.recv(m.frame, m.tag)
				}
			}
			// replies to TTLs not probed yet: quote a forged probe for ttl+1
			if ttl+1 <= c.last && len(s.pkt) > 30 {
				f := append([]byte(nil), s.pkt...)
				if !c.v6 {
					f[8] = byte(ttl + 1)
					binary.BigEndian.PutUint16(f[4:], binary.BigEndian.Uint16(f[4:])+1)
					d.recv(te4(router4(9), c.l4(), 11, 0, f[:28], nil, [4]byte{}), "unsent_ttl")
				}
			}
			for k := 0; k < 20; k++ {
				d.recv(garbage(r), "garbage")
			}
		}
		if c.last < 255 {
			d.send(c.last + 1)
		}
		// a second run of the same protocol to the same target, alive at the same time, with the identifiers the
		// allocators / the OS would hand it: each run is fed the other's genuine replies (shared capture)
		c2 := c
		switch c.variant {
		case vIcmp:
			c2.echoCounter = c.echoCounter + 1
		default:
			c2.sport = c.sport%65535 + 1
			c2.baseID = (c.baseID + c.last) % 65536
			c2.seq = c.seq + 0x01000000
			c2.initSeq = c.initSeq + 0x01000000
		}
		sib := newDrvInst(c2, w, tags)
		c2 = sib.cfg
		if c2.variant == vSack && !sib.handshake([][]byte{c2.synack(true, map[bool]int{true: 1, false: 0}[c2.hasTS], 0x12)}, "established_sibling") {
			return
		}
		for _, ttl := range ttls {
			sib.send(ttl)
		}
		for i, s := range d.sends {
			for _, g := range d.genuineReplies(s, i) {
				sib.recvX(g.frame, "other_run:"+g.tag, -4, nil)
			}
		}
		for i, s := range sib.sends {
			for _, g := range sib.genuineReplies(s, i) {
				d.recvX(g.frame, "other_run:"+g.tag, -4, nil)
			}
		}
	})
}

func labDrv(e labEnv) {
	r := newRng(e.seed)
	w, err := newCaseWriter(filepath.Join(e.out, "drv.cases"))
	must(err)
	tags := map[string]int{}
	for _, c := range drvConfigs(r, e.thorough()) {
		runDrvConfig(e.t, c, r, w, tags, e.thorough())
		tags[fmt.Sprintf("cfg_variant_%d_v6_%v", c.variant, c.v6)]++
	}
	// every TTL 1..255 of every variant at identifier bases around wrap-around: probes only
	for _, c0 := range drvConfigs(r, false) {
		c := c0
		c.first, c.last = 1, 255
		synctest.Test(e.t, func(t *testing.T) {
			d := newDrvInst(c, w, tags)
			if c.variant == vSack && !d.handshake([][]byte{c.synack(true, map[bool]int{true: 1, false: 0}[c.hasTS], 0x12)}, "established_sweep") {
				return
			}
			for ttl := 1; ttl <= 255; ttl++ {
				d.send(ttl)
			}
		})
		tags["ttl_sweeps"]++
	}
	must(w.close())
	writeDist(e, "drv", tags)
}
