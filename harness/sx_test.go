package harness

import (
	"bufio"
	"encoding/hex"
	"fmt"
	"os"
	"strconv"
	"strings"
)

// S-expression values written to case files.  Grammar understood by the OCaml
// driver and by the cases.v generator: integers, #hex byte strings, "ascii"
// strings (as lists of character codes) and parenthesised lists.
type sx interface{ sx(b *strings.Builder) }

type sxInt int64
type sxBig string // decimal integer too large for int64
type sxBytes []byte
type sxStr string
type sxList []sx

func (v sxInt) sx(b *strings.Builder)   { b.WriteString(strconv.FormatInt(int64(v), 10)) }
func (v sxBig) sx(b *strings.Builder)   { b.WriteString(string(v)) }
func (v sxBytes) sx(b *strings.Builder) { b.WriteByte('#'); b.WriteString(hex.EncodeToString(v)) }
func (v sxStr) sx(b *strings.Builder) {
	b.WriteByte('#')
	b.WriteString(hex.EncodeToString([]byte(v)))
}
func (v sxList) sx(b *strings.Builder) {
	b.WriteByte('(')
	for i, e := range v {
		if i > 0 {
			b.WriteByte(' ')
		}
		e.sx(b)
	}
	b.WriteByte(')')
}

func sxBool(v bool) sx {
	if v {
		return sxInt(1)
	}
	return sxInt(0)
}

func sxU64(v uint64) sx { return sxBig(strconv.FormatUint(v, 10)) }

func L(es ...sx) sxList { return sxList(es) }

func sxString(v sx) string {
	var b strings.Builder
	v.sx(&b)
	return b.String()
}

// caseWriter writes one case per line: "<input> <implementation observables>".
type caseWriter struct {
	f *os.File
	w *bufio.Writer
	n int
}

func newCaseWriter(path string) (*caseWriter, error) {
	f, err := os.Create(path)
	if err != nil {
		return nil, err
	}
	return &caseWriter{f: f, w: bufio.NewWriterSize(f, 1<<20)}, nil
}

func (c *caseWriter) put(input, impl sx) {
	var b strings.Builder
	input.sx(&b)
	b.WriteByte(' ')
	impl.sx(&b)
	b.WriteByte('\n')
	c.w.WriteString(b.String())
	c.n++
	if c.n%64 == 0 {
		// what has been observed so far survives a crash or a hang of a later case
		c.w.Flush()
	}
	noteProgress(b.String())
}

func (c *caseWriter) close() error {
	if err := c.w.Flush(); err != nil {
		return err
	}
	return c.f.Close()
}

func must(err error) {
	if err != nil {
		panic(fmt.Sprintf("harness: %v", err))
	}
}
