package harness

import (
	"encoding/binary"
	"encoding/json"
	"fmt"
	"net/netip"
	"os"
	"path/filepath"

	"golang.org/x/net/bpf"

	"github.com/DataDog/datadog-traceroute/packets"
)

func init() {
	labs["bpfdump"] = labBpfDump
	labs["c12"] = labC12
}

type tcpCfg struct {
	src, dst     [4]byte
	sport, dport uint16
}

func (c tcpCfg) spec() packets.PacketFilterSpec {
	return packets.PacketFilterSpec{
		FilterType: packets.FilterTypeTCP,
		FilterConfig: packets.FilterConfig{
			Src: netip.AddrPortFrom(netip.AddrFrom4(c.src), c.sport),
			Dst: netip.AddrPortFrom(netip.AddrFrom4(c.dst), c.dport),
		},
	}
}
func (c tcpCfg) srcU32() uint32 { return binary.BigEndian.Uint32(c.src[:]) }
func (c tcpCfg) dstU32() uint32 { return binary.BigEndian.Uint32(c.dst[:]) }

func staticProg(t packets.PacketFilterType) []bpf.RawInstruction {
	p, err := packets.VerifClassicBPF(packets.PacketFilterSpec{FilterType: t})
	must(err)
	return p
}

func rawJSON(p []bpf.RawInstruction) [][]any {
	out := make([][]any, len(p))
	for i, r := range p {
		out[i] = []any{int(r.Op), int(r.Jt), int(r.Jf), int64(r.K)}
	}
	return out
}

// boundary configurations: sign / endianness boundary bytes in every field
func tcpBoundaryCfgs(r *rng, n int) []tcpCfg {
	cfgs := []tcpCfg{
		{a4(0, 0, 0, 0), a4(0, 0, 0, 0), 0, 0},
		{a4(255, 255, 255, 255), a4(255, 255, 255, 255), 65535, 65535},
		{a4(128, 0, 0, 0), a4(127, 255, 255, 255), 0x8000, 0x7fff},
		{a4(1, 2, 3, 4), a4(4, 3, 2, 1), 0x0102, 0x0201},
		{a4(0, 0, 0, 1), a4(1, 0, 0, 0), 1, 256},
		{a4(10, 0, 0, 1), a4(10, 0, 0, 1), 80, 80},
		{a4(192, 0, 2, 2), a4(8, 8, 8, 8), 443, 33434},
		{a4(0x80, 0x80, 0x80, 0x80), a4(0x7f, 0x80, 0xff, 0x00), 0xff00, 0x00ff},
	}
	for len(cfgs) < n {
		var c tcpCfg
		copy(c.src[:], r.bytes(4))
		copy(c.dst[:], r.bytes(4))
		c.sport, c.dport = r.u16(), r.u16()
		cfgs = append(cfgs, c)
	}
	return cfgs
}

// labBpfDump writes the programs the repository installs (tie kind A): the
// static programs verbatim and the TCP 4-tuple generator as a template whose
// holes are found with two marker configurations and then re-validated.
func labBpfDump(e labEnv) {
	m1 := tcpCfg{a4(198, 51, 100, 1), a4(203, 0, 113, 5), 0x9c41, 0xd903}
	m2 := tcpCfg{a4(100, 64, 7, 9), a4(172, 31, 250, 3), 0x5b27, 0x2e6f}
	p1, err := packets.VerifClassicBPF(m1.spec())
	must(err)
	p2, err := packets.VerifClassicBPF(m2.spec())
	must(err)
	if len(p1) != len(p2) {
		panic("tcp filter length depends on configuration")
	}
	tmpl := make([][]any, len(p1))
	holes := map[string]int{}
	for i := range p1 {
		a, b := p1[i], p2[i]
		if a.Op != b.Op || a.Jt != b.Jt || a.Jf != b.Jf {
			panic("tcp filter shape depends on configuration")
		}
		var k any = int64(a.K)
		if a.K != b.K {
			switch {
			case a.K == m1.srcU32() && b.K == m2.srcU32():
				k = "src"
			case a.K == m1.dstU32() && b.K == m2.dstU32():
				k = "dst"
			case a.K == uint32(m1.sport) && b.K == uint32(m2.sport):
				k = "sport"
			case a.K == uint32(m1.dport) && b.K == uint32(m2.dport):
				k = "dport"
			default:
				panic(fmt.Sprintf("tcp filter instruction %d: K varies with the configuration in an unrecognised way", i))
			}
			holes[k.(string)]++
		}
		tmpl[i] = []any{int(a.Op), int(a.Jt), int(a.Jf), k}
	}
	// re-validate the template on further configurations
	r := newRng(e.seed)
	n := 300
	if e.thorough() {
		n = 5000
	}
	validated := 0
	var mismatch any
	for _, c := range tcpBoundaryCfgs(r, n) {
		p, err := packets.VerifClassicBPF(c.spec())
		must(err)
		ok := len(p) == len(tmpl)
		for i := 0; ok && i < len(p); i++ {
			var want uint32
			switch k := tmpl[i][3].(type) {
			case int64:
				want = uint32(k)
			case string:
				want = map[string]uint32{"src": c.srcU32(), "dst": c.dstU32(), "sport": uint32(c.sport), "dport": uint32(c.dport)}[k]
			}
			ok = int(p[i].Op) == tmpl[i][0].(int) && int(p[i].Jt) == tmpl[i][1].(int) && int(p[i].Jf) == tmpl[i][2].(int) && p[i].K == want
		}
		if !ok {
			mismatch = map[string]any{"src": c.srcU32(), "dst": c.dstU32(), "sport": c.sport, "dport": c.dport, "program": rawJSON(p)}
			break
		}
		validated++
	}
	// v6 / invalid configurations must be refused by the generator
	_, err6 := packets.VerifClassicBPF(packets.PacketFilterSpec{FilterType: packets.FilterTypeTCP, FilterConfig: packets.FilterConfig{
		Src: netip.MustParseAddrPort("[2001:db8::1]:80"), Dst: netip.MustParseAddrPort("1.2.3.4:5")}})
	out := map[string]any{
		"icmp":               rawJSON(staticProg(packets.FilterTypeICMP)),
		"udp":                rawJSON(staticProg(packets.FilterTypeUDP)),
		"synack":             rawJSON(staticProg(packets.FilterTypeSYNACK)),
		"dropall":            rawJSON(packets.VerifDropAllFilter()),
		"tcp_template":       tmpl,
		"tcp_holes":          holes,
		"template_validated": validated,
		"template_mismatch":  mismatch,
		"v6_config_refused":  err6 != nil,
	}
	b, err := json.MarshalIndent(out, "", " ")
	must(err)
	must(os.WriteFile(filepath.Join(e.out, "bpf_programs.json"), b, 0o644))
}

func mustVM(p []bpf.RawInstruction) *bpf.VM {
	ins, ok := bpf.Disassemble(p)
	if !ok {
		panic("program does not disassemble")
	}
	vm, err := bpf.NewVM(ins)
	must(err)
	return vm
}

func vmRun(vm *bpf.VM, f []byte) int64 {
	n, err := vm.Run(f)
	if err != nil {
		return -1
	}
	return int64(n)
}

// ---- frame generator over the equivalence classes the programs inspect ----

func c12BaseFrames(c tcpCfg) map[string][]byte {
	eth := func(et uint16, p []byte) []byte {
		f := make([]byte, 14, 14+len(p))
		copy(f[0:], []byte{2, 0, 0, 0, 0, 1, 2, 0, 0, 0, 0, 2})
		binary.BigEndian.PutUint16(f[12:], et)
		return append(f, p...)
	}
	router := a4(10, 9, 8, 7)
	tcpseg := func(flags byte, opts []byte) []byte {
		return buildTCP4(tcpHdr{sport: c.sport, dport: c.dport, seq: 0x11223344, ack: 0x55667788, flags: flags, win: 1024, opts: opts}, []byte{1, 2, 3}, c.src, c.dst)
	}
	quoted := buildIP4(ip4Hdr{id: 41822, ttl: 1, proto: 6, src: c.dst, dst: c.src}, tcpseg(0x02, nil)[:8])
	te := buildICMP4(11, 0, [4]byte{}, quoted)
	rr := []byte{7, 7, 4, 0, 0, 0, 0, 0} // record route, padded
	bases := map[string][]byte{
		"v4-synack":      eth(0x0800, buildIP4(ip4Hdr{id: 7, ttl: 60, proto: 6, src: c.src, dst: c.dst}, tcpseg(0x12, nil))),
		"v4-ack":         eth(0x0800, buildIP4(ip4Hdr{id: 7, ttl: 60, proto: 6, src: c.src, dst: c.dst}, tcpseg(0x10, []byte{1, 1, 5, 10, 0, 0, 0, 1, 0, 0, 0, 2}))),
		"v4-rst":         eth(0x0800, buildIP4(ip4Hdr{id: 7, ttl: 60, proto: 6, src: c.src, dst: c.dst}, tcpseg(0x14, nil))),
		"v4-synack-opts": eth(0x0800, buildIP4(ip4Hdr{id: 7, ttl: 60, proto: 6, src: c.src, dst: c.dst, opts: rr}, tcpseg(0x12, nil))),
		"v4-icmp-te":     eth(0x0800, buildIP4(ip4Hdr{id: 9, ttl: 250, proto: 1, src: router, dst: c.dst}, te)),
		"v4-icmp-te-opt": eth(0x0800, buildIP4(ip4Hdr{id: 9, ttl: 250, proto: 1, src: router, dst: c.dst, opts: []byte{1, 1, 1, 0}}, te)),
		"v4-icmp-echo":   eth(0x0800, buildIP4(ip4Hdr{id: 9, ttl: 250, proto: 1, src: c.src, dst: c.dst}, buildICMP4(0, 0, [4]byte{0, 5, 0, 3}, []byte{3}))),
		"v4-udp":         eth(0x0800, buildIP4(ip4Hdr{id: 9, ttl: 250, proto: 17, src: c.src, dst: c.dst}, buildUDP4(c.sport, c.dport, []byte("hello"), c.src, c.dst))),
		"arp":            eth(0x0806, make([]byte, 28)),
	}
	s6 := a16([]byte{0x20, 0x01, 0x0d, 0xb8, 0, 0, 0, 0, 0, 0, 0, 0, 0, 0, 0, 1})
	d6 := a16([]byte{0x20, 0x01, 0x0d, 0xb8, 0, 0, 0, 0, 0, 0, 0, 0, 0, 0, 0, 2})
	q6 := buildIP6(ip6Hdr{nh: 58, hlim: 1, src: d6, dst: s6, payLen: -1}, buildICMP6(128, 0, []byte{0, 5, 0, 3, 3}, d6, s6))
	te6 := buildICMP6(3, 0, append([]byte{0, 0, 0, 0}, q6...), s6, d6)
	frag := append([]byte{58, 0, 0, 0, 0, 0, 0, 1}, te6...)
	hbh := append([]byte{58, 0, 1, 4, 0, 0, 0, 0}, te6...)
	bases["v6-icmp6-te"] = eth(0x86dd, buildIP6(ip6Hdr{nh: 58, hlim: 60, src: s6, dst: d6, payLen: -1}, te6))
	bases["v6-frag-icmp6"] = eth(0x86dd, buildIP6(ip6Hdr{nh: 44, hlim: 60, src: s6, dst: d6, payLen: -1}, frag))
	bases["v6-hbh-icmp6"] = eth(0x86dd, buildIP6(ip6Hdr{nh: 0, hlim: 60, src: s6, dst: d6, payLen: -1}, hbh))
	bases["v6-tcp"] = eth(0x86dd, buildIP6(ip6Hdr{nh: 6, hlim: 60, src: s6, dst: d6, payLen: -1}, tcpseg(0x12, nil)))
	return bases
}

type c12Frame struct {
	tag string
	f   []byte
}

func c12Frames(c tcpCfg, r *rng, thorough bool) []c12Frame {
	var out []c12Frame
	add := func(tag string, f []byte) { out = append(out, c12Frame{tag, append([]byte(nil), f...)}) }
	bases := c12BaseFrames(c)
	names := make([]string, 0, len(bases))
	for n := range bases {
		names = append(names, n)
	}
	sortStrings(names)
	interesting := []byte{0x00, 0x01, 0x02, 0x06, 0x08, 0x10, 0x11, 0x12, 0x2c, 0x3a, 0x7f, 0x80, 0x86, 0xdd, 0xff}
	for _, n := range names {
		b := bases[n]
		add(n, b)
		// every truncation length and a few extensions (lengths around every load offset)
		for l := 0; l < len(b); l++ {
			add(n+"/trunc", b[:l])
		}
		add(n+"/ext", append(append([]byte(nil), b...), 0, 0, 0, 0))
		// single-byte perturbations of every header byte the programs inspect
		lim := len(b)
		if lim > 74 {
			lim = 74
		}
		for off := 12; off < lim; off++ {
			vals := interesting
			if thorough || off == 12 || off == 13 || off == 14 || off == 20 || off == 21 || off == 23 {
				vals = nil
				for v := 0; v < 256; v++ {
					vals = append(vals, byte(v))
				}
			}
			for _, v := range vals {
				if b[off] == v {
					continue
				}
				m := append([]byte(nil), b...)
				m[off] = v
				add(n+"/byte", m)
			}
			// flip each bit too (equal/different per byte, sign bits)
			for bit := 0; bit < 8; bit++ {
				m := append([]byte(nil), b...)
				m[off] ^= 1 << bit
				add(n+"/bit", m)
			}
		}
	}
	// IHL 0..15 x all 256 TCP flag bytes on the SYN-ACK base, with the segment placed at 4*IHL
	for ihl := 0; ihl < 16; ihl++ {
		for fl := 0; fl < 256; fl++ {
			seg := buildTCP4(tcpHdr{sport: c.sport, dport: c.dport, seq: 1, ack: 2, flags: byte(fl), win: 1}, nil, c.src, c.dst)
			hdr := make([]byte, 60)
			hdr[0] = byte(0x40 | ihl)
			binary.BigEndian.PutUint16(hdr[2:], uint16(ihl*4+len(seg)))
			hdr[8], hdr[9] = 64, 6
			copy(hdr[12:], c.src[:])
			copy(hdr[16:], c.dst[:])
			hl := ihl * 4
			if hl < 20 {
				// header bytes still occupy 20; segment follows at 4*IHL only when >= 20
				hl = 20
			}
			p := append(append([]byte(nil), hdr[:hl]...), seg...)
			f := append([]byte{2, 0, 0, 0, 0, 1, 2, 0, 0, 0, 0, 2, 8, 0}, p...)
			add("ihl-flags", f)
		}
	}
	// fragment-bit classes x protocols
	for _, ff := range []uint16{0, 0x2000, 0x4000, 0x8000, 0x0001, 0x1fff, 0x2001, 0x3fff, 0x6000, 0xe000, 0x00ff, 0x0100} {
		for _, pr := range []byte{1, 6, 17, 58, 0, 2, 255} {
			seg := buildTCP4(tcpHdr{sport: c.sport, dport: c.dport, seq: 1, ack: 2, flags: 0x12, win: 1}, nil, c.src, c.dst)
			p := buildIP4(ip4Hdr{id: 1, flagsOff: ff, ttl: 9, proto: pr, src: c.src, dst: c.dst}, seg)
			add("frag-proto", append([]byte{2, 0, 0, 0, 0, 1, 2, 0, 0, 0, 0, 2, 8, 0}, p...))
		}
	}
	// random noise and random mutations
	nrand := 300
	if thorough {
		nrand = 5000
	}
	for i := 0; i < nrand; i++ {
		add("random", r.bytes(r.intn(90)))
		b := append([]byte(nil), bases[pick(r, names)]...)
		for k := r.intn(4) + 1; k > 0 && len(b) > 0; k-- {
			b[r.intn(len(b))] = r.byte()
		}
		add("mutated", b)
	}
	return out
}

func sortStrings(a []string) {
	for i := 1; i < len(a); i++ {
		for j := i; j > 0 && a[j] < a[j-1]; j-- {
			a[j], a[j-1] = a[j-1], a[j]
		}
	}
}

// labC12 runs the real programs in x/net/bpf's VM over the frame classes.
// case: input (1 (src dst sport dport) frame)  impl (icmp udp synack dropall tcp)
func labC12(e labEnv) {
	r := newRng(e.seed)
	w, err := newCaseWriter(filepath.Join(e.out, "c12.cases"))
	must(err)
	vmI := mustVM(staticProg(packets.FilterTypeICMP))
	vmU := mustVM(staticProg(packets.FilterTypeUDP))
	vmS := mustVM(staticProg(packets.FilterTypeSYNACK))
	vmD := mustVM(packets.VerifDropAllFilter())
	ncfg := 3
	if e.thorough() {
		ncfg = 12
	}
	tags := map[string]int{}
	// programs generated earlier stay in use while later ones are generated (several runs are alive at once, each holding the
	// program for its own tuple until it is attached): after each new generation, the slice handed out for the PREVIOUS
	// configuration is assembled and run again - it must still be that configuration's program
	var prevProg []bpf.RawInstruction
	var prevCfg tcpCfg
	for ci, c := range tcpBoundaryCfgs(r, max(8, ncfg))[:ncfg] {
		p, err := packets.VerifClassicBPF(c.spec())
		must(err)
		if ci > 0 {
			vmP := mustVM(prevProg)
			for k, fr := range c12Frames(prevCfg, r, false) {
				if k%16 != 0 {
					continue
				}
				tags["held_program_after_next_generation"]++
				in := L(sxInt(1), L(sxInt(int64(prevCfg.srcU32())), sxInt(int64(prevCfg.dstU32())), sxInt(int64(prevCfg.sport)), sxInt(int64(prevCfg.dport))), sxBytes(fr.f))
				out := L(sxInt(vmRun(vmI, fr.f)), sxInt(vmRun(vmU, fr.f)), sxInt(vmRun(vmS, fr.f)), sxInt(vmRun(vmD, fr.f)), sxInt(vmRun(vmP, fr.f)))
				w.put(in, out)
			}
		}
		prevProg, prevCfg = p, c
		vmT := mustVM(p)
		for _, fr := range c12Frames(c, r, e.thorough()) {
			tags[fr.tag]++
			in := L(sxInt(1), L(sxInt(int64(c.srcU32())), sxInt(int64(c.dstU32())), sxInt(int64(c.sport)), sxInt(int64(c.dport))), sxBytes(fr.f))
			out := L(sxInt(vmRun(vmI, fr.f)), sxInt(vmRun(vmU, fr.f)), sxInt(vmRun(vmS, fr.f)), sxInt(vmRun(vmD, fr.f)), sxInt(vmRun(vmT, fr.f)))
			w.put(in, out)
		}
	}
	nh := 12
	if e.thorough() {
		nh = 200
	}
	c12Histories(r, w, tags, nh)
	must(w.close())
	writeDist(e, "c12", tags)
}

// writeDist records the input distribution of a lab run for the evidence file.
func writeDist(e labEnv, name string, tags map[string]int) {
	b, err := json.MarshalIndent(tags, "", " ")
	must(err)
	must(os.WriteFile(filepath.Join(e.out, name+".dist.json"), b, 0o644))
}
