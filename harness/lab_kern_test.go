package harness

import (
	"context"
	"encoding/json"
	"errors"
	"net/netip"
	"os"
	"path/filepath"
	"sync"
	"time"

	"github.com/DataDog/datadog-traceroute/result"
	"github.com/DataDog/datadog-traceroute/sack"
	"github.com/DataDog/datadog-traceroute/traceroute"
)

func init() { labs["kern"] = labKern }

// The kern lab runs INSIDE the client network namespace of a chain built by tools/netlab.py: real raw sockets,
// real AF_PACKET capture, replies produced by the kernel's own IP/ICMP/TCP stack.
//
//	input (17 n proto method port first last silent port_state+4*v6)  impl (status notsup (hop...) )   hop = (ttl #ip dest rtt_negative)
type kernScenario struct {
	N         int    `json:"n"`
	Proto     string `json:"proto"`
	Method    string `json:"method"`
	Target    string `json:"target"`
	Port      int    `json:"port"`
	First     int    `json:"first"`
	Last      int    `json:"last"`
	Silent    int    `json:"silent"`     // router whose ICMP generation is suppressed, 0 = none
	PortState int    `json:"port_state"` // 0 open, 1 closed, 2 open but SACK disabled, 3 filtered (segments dropped by the target)
	Parallel  int    `json:"parallel"`   // run this many copies at once
	V6        int    `json:"v6"`         // 1: the target is the chain's IPv6 address
}

func labKern(e labEnv) {
	var scs []kernScenario
	must(json.Unmarshal([]byte(os.Getenv("VERIF_KERN")), &scs))
	w, err := newCaseWriter(filepath.Join(e.out, os.Getenv("VERIF_KERN_FILE")))
	must(err)
	tr := traceroute.NewTraceroute()
	for _, sc := range scs {
		k := sc.Parallel
		if k < 1 {
			k = 1
		}
		outs := make([]sx, k)
		var wg sync.WaitGroup
		for i := 0; i < k; i++ {
			wg.Add(1)
			go func(i int) {
				defer wg.Done()
				p := traceroute.TracerouteParams{Hostname: sc.Target, Port: sc.Port, Protocol: sc.Proto, MinTTL: sc.First, MaxTTL: sc.Last, Delay: 20, Timeout: 400 * time.Millisecond,
					TCPMethod: traceroute.TCPMethod(sc.Method), TracerouteQueries: 1, WantV6: sc.V6 != 0}
				var res *result.Results
				var err error
				status := 0
				// the run gets 20 s of real time (its own bound is a few seconds): one that has not returned by then is
				// reported as such (status 3) and left behind
				t0 := time.Now()
				done := make(chan struct{})
				go func() {
					defer close(done)
					defer func() {
						if r := recover(); r != nil {
							status = 2
						}
					}()
					res, err = tr.RunTraceroute(context.Background(), p)
				}()
				select {
				case <-done:
				case <-time.After(20 * time.Second):
					outs[i] = L(sxInt(3), sxBool(false), sxList{}, sxInt(time.Since(t0).Milliseconds()))
					return
				}
				elapsedMs := time.Since(t0).Milliseconds()
				var ns *sack.NotSupportedError
				if status != 2 && err != nil {
					status = 1
				}
				hops := sxList{}
				if res != nil && len(res.Traceroute.Runs) == 1 {
					for _, h := range res.Traceroute.Runs[0].Hops {
						var ip []byte
						if a, ok := netip.AddrFromSlice(h.IPAddress); ok {
							ip = a.Unmap().AsSlice()
						}
						hops = append(hops, L(sxInt(int64(h.TTL)), sxBytes(ip), sxBool(h.IsDest), sxBool(h.RTT < 0)))
					}
				}
				outs[i] = L(sxInt(int64(status)), sxBool(err != nil && errors.As(err, &ns)), hops, sxInt(elapsedMs))
			}(i)
		}
		wg.Wait()
		for i := 0; i < k; i++ {
			w.put(L(sxInt(17), sxInt(int64(sc.N)), sxInt(int64(protoCode(sc.Proto))), sxInt(int64(methodCode(sc.Method))), sxInt(int64(sc.Port)), sxInt(int64(sc.First)), sxInt(int64(sc.Last)),
				sxInt(int64(sc.Silent)), sxInt(int64(sc.PortState+4*sc.V6))), outs[i])
		}
	}
	must(w.close())
}
